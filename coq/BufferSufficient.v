(* C08: ring buffers of (at least) the computed size never lose an output before its last scheduled reader has run *)
From Coq Require Import List Arith ZArith Bool Lia.
From Rex Require Import CompiledModel ScheduleSpec ScheduleCover BufferSpec RunnerSym CheckSym CompiledOnce.
From Rex Require Replay.
Import ListNotations.
Open Scope Z_scope.

(* ---------- generic list facts ---------- *)
Lemma upd_length {X} i (f : X -> X) l : length (upd i f l) = length l.
Proof. revert i; induction l as [|x l IH]; intros [|i]; simpl; auto. Qed.
Lemma upd_nth_same {X} i (f : X -> X) l d : (i < length l)%nat -> nth i (upd i f l) d = f (nth i l d).
Proof. revert i; induction l as [|x l IH]; intros [|i] H; simpl in *; try lia; auto. apply IH. lia. Qed.
Lemma upd_nth_other {X} i j (f : X -> X) l d : i <> j -> nth j (upd i f l) d = nth j l d.
Proof. revert i j; induction l as [|x l IH]; intros [|i] [|j] H; simpl; auto; try congruence. Qed.
Lemma nth_repeat_same {X} (x : X) n i : nth i (repeat x n) x = x.
Proof. revert i; induction n; intros [|i]; simpl; auto. Qed.

Lemma size_pos sizes m : 1 <= size_of sizes m.
Proof. unfold size_of. lia. Qed.

Section Buf.
Variable I : inst.
Variable sizes : list Z.
Notation sz := (size_of sizes).
Notation commitT := (commit tag sizes).

(* the ring of node m after the sequence numbers 0 .. cnt-1 have been written: it holds the last [size] of them *)
Definition ring_ok (m : nat) (cnt : Z) (ring : list tag) : Prop :=
  length ring = Z.to_nat (sz m) /\
  forall s, s < cnt -> (0 < cnt -> cnt - sz m <= s) ->
     nth (Z.to_nat (s mod sz m)) ring (TDef m) = (if s <? 0 then TDef m else TOut m s).
Definition node_ok (m : nat) (cnt : Z) (s : rstate tag) : Prop :=
  ring_ok m cnt (nth m (r_buf tag s) []) /\ nth m (r_st tag s) (TInit m) = expected_state m cnt.

Lemma commit_other s r m cnt : w_node tag r <> m -> node_ok m cnt s -> node_ok m cnt (commitT s r).
Proof.
  intros Hne [H1 H2]. unfold node_ok, commit; simpl. rewrite !upd_nth_other by exact Hne. split; assumption.
Qed.

Lemma commit_same s r m cnt :
  w_node tag r = m -> w_seq tag r = cnt -> w_out tag r = TOut m cnt -> 0 <= cnt ->
  (m < length (r_buf tag s))%nat -> (m < length (r_st tag s))%nat ->
  node_ok m cnt s -> node_ok m (cnt + 1) (commitT s r).
Proof.
  intros Hn Hs Ho Hc Lb Ls [[Hlen Hr] Hst]. unfold node_ok, commit; simpl. rewrite Hn, Hs, Ho.
  pose proof (size_pos sizes m) as Hsz.
  rewrite !upd_nth_same by assumption. split.
  - split; [rewrite upd_length; exact Hlen|].
    intros s0 Hlt Hge. specialize (Hge ltac:(lia)).
    destruct (Z.eq_dec s0 cnt) as [->|Hne].
    + rewrite upd_nth_same.
      * assert (E : (cnt <? 0) = false) by (apply Z.ltb_ge; lia). now rewrite E.
      * rewrite Hlen. pose proof (Z.mod_pos_bound cnt (sz m) ltac:(lia)). lia.
    + rewrite upd_nth_other.
      * apply Hr; lia.
      * intros E. pose proof (Z.mod_pos_bound cnt (sz m) ltac:(lia)). pose proof (Z.mod_pos_bound s0 (sz m) ltac:(lia)).
        apply Z2Nat.inj in E; try lia. revert E. apply ring_distinct; lia.
  - unfold expected_state. destruct (Z.eqb_spec (cnt + 1) 0); [lia|]. f_equal. lia.
Qed.

Definition inb (m : nat) (l : list nat) : bool := existsb (Nat.eqb m) l.
Lemma inb_true m l : inb m l = true <-> In m l.
Proof.
  unfold inb. rewrite existsb_exists. split.
  - intros (x & Hx & E). apply Nat.eqb_eq in E. now subst.
  - intros H. exists m. split; [exact H|apply Nat.eqb_refl].
Qed.
Lemma inb_false m l : inb m l = false <-> ~ In m l.
Proof. rewrite <- inb_true. destruct (inb m l); split; congruence. Qed.

(* committing the rows of one phase (pairwise different nodes, each carrying its node's next sequence number) *)
Lemma fold_commit_nodes nn rs : forall s (cnt : nat -> Z),
  NoDup (map (w_node tag) rs) ->
  (forall r, In r rs -> (w_node tag r < nn)%nat /\ w_seq tag r = cnt (w_node tag r) /\ w_out tag r = TOut (w_node tag r) (w_seq tag r)) ->
  (forall m, 0 <= cnt m) ->
  length (r_buf tag s) = nn -> length (r_st tag s) = nn ->
  (forall m, (m < nn)%nat -> node_ok m (cnt m) s) ->
  length (r_buf tag (fold_left commitT rs s)) = nn /\ length (r_st tag (fold_left commitT rs s)) = nn /\
  forall m, (m < nn)%nat -> node_ok m (cnt m + (if inb m (map (w_node tag) rs) then 1 else 0)) (fold_left commitT rs s).
Proof.
  induction rs as [|r rs IH]; intros s cnt Hnd Hrows Hc Lb Ls Hok; simpl.
  - split; [exact Lb|]. split; [exact Ls|]. intros m Hm. rewrite Z.add_0_r. auto.
  - simpl in Hnd. apply NoDup_cons_iff in Hnd as [Hnin Hnd'].
    destruct (Hrows r (or_introl eq_refl)) as (Hr1 & Hr2 & Hr3).
    set (cnt1 := fun m => if Nat.eqb m (w_node tag r) then cnt m + 1 else cnt m).
    destruct (IH (commitT s r) cnt1 Hnd') as (A & B & C).
    + intros r0 Hr0. destruct (Hrows r0 (or_intror Hr0)) as (X1 & X2 & X3). split; [exact X1|]. split; [|exact X3].
      unfold cnt1. destruct (Nat.eqb_spec (w_node tag r0) (w_node tag r)) as [E|E]; [|exact X2].
      exfalso. apply Hnin. rewrite <- E. apply in_map. exact Hr0.
    + intros m0. unfold cnt1. specialize (Hc m0). destruct (Nat.eqb m0 (w_node tag r)); lia.
    + unfold commit; simpl. rewrite upd_length. exact Lb.
    + unfold commit; simpl. rewrite upd_length. exact Ls.
    + intros m Hm. unfold cnt1. destruct (Nat.eqb_spec m (w_node tag r)) as [->|E].
      * apply commit_same; auto; try lia. rewrite Hr3, Hr2. reflexivity.
      * apply commit_other; auto.
    + split; [exact A|]. split; [exact B|]. intros m Hm. specialize (C m Hm). unfold cnt1 in C.
      destruct (Nat.eqb_spec m (w_node tag r)) as [E|E].
      * subst m. assert (E1 : inb (w_node tag r) (map (w_node tag) rs) = false) by (apply inb_false; exact Hnin).
        rewrite E1, Z.add_0_r in C. exact C.
      * exact C.
Qed.
End Buf.

(* ---------- the scheduled cells, as a relation ---------- *)
Lemma in_combine_seq {X} (l : list X) d : forall a p c,
  In (p, c) (combine (seq a (length l)) l) <-> (a <= p < a + length l)%nat /\ nth (p - a) l d = c.
Proof.
  induction l as [|x l IH]; intros a p c; simpl.
  - split; [tauto|lia].
  - rewrite IH. split.
    + intros [E|[H1 H2]].
      * injection E as -> ->. split; [lia|]. now rewrite Nat.sub_diag.
      * split; [lia|]. replace (p - a)%nat with (S (p - S a)) by lia. exact H2.
    + intros [H1 H2]. destruct (Nat.eq_dec p a) as [->|Hne].
      * left. rewrite Nat.sub_diag in H2. now subst.
      * right. split; [lia|]. replace (p - a)%nat with (S (p - S a)) in H2 by lia. exact H2.
Qed.

Section Sched.
Variable I : inst.
Notation run_cells := (run_cells I).

Lemma in_run_cells n k p g c :
  In (n, k, p, g, c) run_cells <->
  exists sl, In sl (i_slots I) /\ n = s_kind sl /\ g = s_gen sl /\ c = nth p (s_cells sl) dcell /\ c_run c = true /\ k = c_seq c.
Proof.
  unfold CompiledModel.run_cells. rewrite in_flat_map. split.
  - intros (sl & Hsl & H). exists sl. split; [exact Hsl|]. unfold cells_of_slot in H. apply in_flat_map in H as ([p' c'] & Hpc & H).
    simpl in H. destruct (c_run c') eqn:Er; [|destruct H]. destruct H as [E|[]]. injection E as E1 E2 E3 E4 E5. subst n k p' g c'.
    apply (in_combine_seq _ dcell) in Hpc as [_ Hn]. rewrite Nat.sub_0_r in Hn. subst c. auto.
  - intros (sl & Hsl & -> & -> & -> & Hr & ->). exists sl. split; [exact Hsl|]. unfold cells_of_slot. apply in_flat_map.
    exists (p, nth p (s_cells sl) dcell). split.
    + apply (in_combine_seq _ dcell). rewrite Nat.sub_0_r. split; [|reflexivity].
      destruct (Nat.lt_ge_cases p (length (s_cells sl))) as [Hp|Hp]; [lia|]. rewrite nth_overflow in Hr by exact Hp. discriminate.
    + simpl. rewrite Hr. now left.
Qed.
End Sched.

(* ---------- arithmetic of buffer_need ---------- *)
Lemma map_nth_lt {X Y} (f : X -> Y) l t d d' : (t < length l)%nat -> nth t (map f l) d = f (nth t l d').
Proof. intros H. rewrite (nth_indep _ d (f d')) by (rewrite map_length; exact H). apply map_nth. Qed.

Lemma nth_flat_blocks {X} (f : nat -> nat -> X) N : forall len a p g d, (p < len)%nat -> (g < N)%nat ->
  nth (p * N + g) (flat_map (fun p => map (f p) (seq 0 N)) (seq a len)) d = f (a + p)%nat g.
Proof.
  induction len as [|len IH]; intros a p g d Hp Hg; [lia|]. simpl.
  destruct p as [|p].
  - simpl. rewrite app_nth1 by (rewrite map_length, seq_length; exact Hg).
    rewrite (map_nth_lt _ _ _ _ O) by (rewrite seq_length; exact Hg). rewrite seq_nth by exact Hg. f_equal; lia.
  - rewrite app_nth2 by (rewrite map_length, seq_length; simpl; lia).
    rewrite map_length, seq_length. replace (S p * N + g - N)%nat with (p * N + g)%nat by (simpl; lia).
    rewrite IH by lia. f_equal; lia.
Qed.
Lemma length_flat_blocks {X} (f : nat -> nat -> X) N : forall len a,
  length (flat_map (fun p => map (f p) (seq 0 N)) (seq a len)) = (len * N)%nat.
Proof. induction len as [|len IH]; intros a; simpl; [reflexivity|]. rewrite app_length, map_length, seq_length, IH. reflexivity. Qed.

Lemma positions_nth I p g d : (p < i_nparts I)%nat -> (g < i_ngen I)%nat -> nth (p * i_ngen I + g) (positions I) d = (p, g).
Proof. intros Hp Hg. unfold positions. rewrite (nth_flat_blocks (fun p g => (p, g))) by assumption. reflexivity. Qed.
Lemma positions_length I : length (positions I) = (i_nparts I * i_ngen I)%nat.
Proof. unfold positions. apply (length_flat_blocks (fun p g => (p, g))). Qed.

Lemma fold_max_nth b : forall (need wprev : list Z) t d, (t < length need)%nat -> (t < length wprev)%nat ->
  nth t wprev d - nth t need d <= fold_right Z.max b (map (fun nw : Z * Z => snd nw - fst nw) (combine need wprev)).
Proof.
  induction need as [|x need IH]; intros [|y wprev] t d H1 H2; simpl in *; try lia.
  destruct t as [|t]; [lia|]. specialize (IH wprev t d ltac:(lia) ltac:(lia)). lia.
Qed.
Lemma removelast_nth {X} : forall (L : list X) t d, (S t < length L)%nat -> nth t (removelast L) d = nth t L d.
Proof.
  induction L as [|x L IH]; intros t d H; simpl in H; [lia|].
  destruct L as [|y L]; [simpl in H; lia|]. change (removelast (x :: y :: L)) with (x :: removelast (y :: L)).
  destruct t as [|t]; [reflexivity|]. simpl nth. apply IH. simpl in *. lia.
Qed.
Lemma removelast_len {X} (L : list X) : length (removelast L) = (length L - 1)%nat.
Proof.
  induction L as [|x L IH]; [reflexivity|]. destruct L as [|y L]; [reflexivity|].
  change (removelast (x :: y :: L)) with (x :: removelast (y :: L)). simpl length in *. rewrite IH. lia.
Qed.
Lemma fold_min_le l x : In x l -> fold_right Z.min INF l <= x.
Proof. induction l as [|y l IH]; simpl; [tauto|]. intros [->|H]; [lia|]. specialize (IH H). lia. Qed.
Lemma fold_max_ge l x : In x l -> x <= fold_right Z.max NINF l.
Proof. induction l as [|y l IH]; simpl; [tauto|]. intros [->|H]; [lia|]. specialize (IH H). lia. Qed.

Lemma need_bound I ci tr tw sq wv :
  (tw < tr < length (positions I))%nat ->
  read_min I ci (nth tr (positions I) (O, O)) <= sq ->
  wv <= write_max I ci (nth tw (positions I) (O, O)) ->
  wv - sq + 1 <= buffer_need I ci.
Proof.
  intros Ht Hr Hw. unfold buffer_need.
  set (R := map (read_min I ci) (positions I)). set (W := map (write_max I ci) (positions I)).
  assert (LR : length R = length (positions I)) by apply map_length.
  assert (LW : length W = length (positions I)) by apply map_length.
  pose proof (fold_max_nth (NINF - INF) (suffix_min R) (NINF :: removelast (prefix_max_from NINF W)) tr 0) as H.
  assert (Hlen : (tr < length (NINF :: removelast (prefix_max_from NINF W)))%nat).
  { simpl. rewrite removelast_len, prefix_max_from_length. lia. }
  specialize (H ltac:(rewrite suffix_min_length; lia) Hlen).
  destruct tr as [|tr']; [lia|]. simpl nth at 1 in H.
  rewrite removelast_nth in H by (rewrite prefix_max_from_length; lia).
  destruct (prefix_max_from_ge W NINF tr' tw 0 ltac:(lia)) as [G1 _].
  pose proof (suffix_min_le R (S tr') (S tr') 0 ltac:(lia)) as G2.
  unfold R in G2 at 2. rewrite (map_nth_lt _ _ _ _ (O, O)) in G2 by lia.
  unfold W in G1 at 1. rewrite (map_nth_lt _ _ _ _ (O, O)) in G1 by lia.
  fold R W in H. lia.
Qed.

(* ---------- read_min / write_max see the scheduled cells ---------- *)
Lemma filter_none {X} (q : X -> bool) l : (forall x, In x l -> q x = false) -> filter q l = [].
Proof. induction l as [|x l IH]; intros H; simpl; [reflexivity|]. rewrite (H x (or_introl eq_refl)). apply IH. intros; apply H; now right. Qed.

Lemma widx_combine {X} (f : nat -> bool) (ci : nat) (w : X) d : forall len a ws,
  In (ci, w) (combine (filter f (seq a len)) ws) ->
  nth (length (filter (fun c' => Nat.ltb c' ci) (filter f (seq a len)))) ws d = w.
Proof.
  induction len as [|len IH]; intros a ws H; simpl in *; [contradiction|].
  destruct (f a) eqn:Ef; [|apply IH; exact H].
  destruct ws as [|y ws]; simpl in H; [contradiction|]. destruct H as [E|H].
  - injection E as -> ->. simpl. rewrite Nat.ltb_irrefl. rewrite filter_none; [reflexivity|].
    intros x Hx. apply filter_In in Hx as [Hx _]. apply in_seq in Hx. apply Nat.ltb_ge. lia.
  - pose proof (in_combine_l _ _ _ _ H) as Hin. apply filter_In in Hin as [Hin _]. apply in_seq in Hin.
    simpl. assert (E : Nat.ltb a ci = true) by (apply Nat.ltb_lt; lia). rewrite E. simpl. apply IH. exact H.
Qed.

Section RW.
Variable I : inst.
Lemma in_cells_at n k p g c : In (n, k, p, g, c) (run_cells I) -> In c (cells_at I n (p, g)).
Proof.
  intros H. apply in_run_cells in H as (sl & Hsl & -> & -> & -> & Hr & _). unfold cells_at. apply in_flat_map.
  exists sl. split; [exact Hsl|]. simpl. rewrite !Nat.eqb_refl. simpl. rewrite Hr. now left.
Qed.
Lemma write_max_ge ci k p g c : In (k_out (conn I ci), k, p, g, c) (run_cells I) -> k <= write_max I ci (p, g).
Proof.
  intros H. unfold write_max. apply fold_max_ge. pose proof H as H'. apply in_run_cells in H' as (sl & _ & _ & _ & _ & _ & ->).
  apply in_map. eapply in_cells_at; eauto.
Qed.
Lemma read_min_le n k p g c ci w sq a b :
  In (n, k, p, g, c) (run_cells I) -> In (ci, w) (combine (ins_of I n) (c_wins c)) -> In (sq, a, b) w ->
  read_min I ci (p, g) <= sq.
Proof.
  intros H Hcw He. unfold read_min. apply fold_min_le.
  assert (Hn : k_in (conn I ci) = n).
  { apply in_combine_l in Hcw. unfold ins_of in Hcw. apply filter_In in Hcw as [_ E]. now apply Nat.eqb_eq in E. }
  rewrite Hn. apply in_flat_map. exists c. split; [eapply in_cells_at; eauto|].
  unfold widx, ins_of in *. rewrite (widx_combine _ ci w [] _ _ _ Hcw).
  apply in_map_iff. exists (sq, a, b). split; [reflexivity|exact He].
Qed.
End RW.

(* ---------- the extra well-formedness facts (decidable) ---------- *)
Definition extra_ok (I : inst) : bool :=
  (* 1. every slot's generation is one the runner executes *)
  forallb (fun sl => Nat.ltb (s_gen sl) (i_ngen I)) (i_slots I) &&
  (* 2. the last generation holds supervisor slots only (the runner executes the supervisor AFTER generation ngen-1) *)
  forallb (fun sl => if Nat.eqb (s_gen sl) (i_ngen I - 1) then Nat.eqb (s_kind sl) (i_sup I) else true) (i_slots I) &&
  (* 3. the supervisor cell the runner executes unconditionally in every partition exists and is a running cell *)
  forallb (fun p => c_run (sup_cell I p)) (seq 0 (i_nparts I)) &&
  (* 4. slot kinds and connection senders are nodes (they have a ring and a state cell) *)
  forallb (fun sl => Nat.ltb (s_kind sl) (length (i_nodes I))) (i_slots I) &&
  forallb (fun c => Nat.ltb (k_out c) (length (i_nodes I))) (i_conns I).

Lemma tag_eqb_refl t : tag_eqb t t = true.
Proof. destruct t; simpl; rewrite ?Nat.eqb_refl, ?Z.eqb_refl; reflexivity. Qed.

Lemma in_insert_by' {Val} key (w : list (Z * Z * Z * Val)) l kw : In kw (insert_by Val key w l) -> kw = (key, w) \/ In kw l.
Proof.
  induction l as [|[k x] l IH]; simpl; [intros [<-|[]]; auto|].
  destruct (Nat.leb key k); simpl; [intros [<-|H]; auto|]. intros [<-|H]; [auto|]. destruct (IH H); auto.
Qed.

Section Main.
Variable I : inst.
Variable sizes : list Z.
Notation N := (i_ngen I).
Notation sup := (i_sup I).
Notation nn := (length (i_nodes I)).
Notation run_cells := (run_cells I).
Hypothesis V : ValidSchedule I.
Hypothesis X1 : forall sl, In sl (i_slots I) -> (s_gen sl < N)%nat.
Hypothesis X2 : forall sl, In sl (i_slots I) -> s_gen sl = (N - 1)%nat -> s_kind sl = sup.
Hypothesis X3 : forall p, (p < i_nparts I)%nat -> c_run (sup_cell I p) = true.
Hypothesis X4 : forall sl, In sl (i_slots I) -> (s_kind sl < nn)%nat.
Hypothesis X5 : forall ci, (ci < length (i_conns I))%nat -> (k_out (conn I ci) < nn)%nat.
Hypothesis HB : forall ci, (ci < length (i_conns I))%nat -> buffer_need I ci <= size_of sizes (k_out (conn I ci)).

Lemma cell_facts n k p g c : In (n, k, p, g, c) run_cells ->
  (g < N)%nat /\ (n < nn)%nat /\ 0 <= k /\ (n = sup <-> g = (N - 1)%nat).
Proof.
  intros H. pose proof (vs_cells I V _ H) as CV. cbv beta iota zeta in CV. destruct CV as (K0 & _ & _ & _ & _ & _ & _ & _ & Ks).
  apply in_run_cells in H as (sl & Hsl & -> & -> & _).
  split; [apply X1; auto|]. split; [apply X4; auto|]. split; [exact K0|].
  split; [intros E; apply Ks in E; tauto|apply X2; auto].
Qed.

(* position of a scheduled cell in the runner's order of phases: the supervisor runs in its own phase after generation N-1 *)
Definition rpos (n p g : nat) : nat := (p * (N + 1) + (if Nat.eqb n sup then N else g))%nat.

Lemma lex_rpos n' k' p' g' c' n k p g c :
  In (n', k', p', g', c') run_cells -> In (n, k, p, g, c) run_cells -> lex_lt (p', g') (p, g) = true ->
  (rpos n' p' g' < rpos n p g)%nat.
Proof.
  intros H' H L. destruct (cell_facts _ _ _ _ _ H') as (G' & _ & _ & S'). destruct (cell_facts _ _ _ _ _ H) as (G & _ & _ & S0).
  unfold lex_lt in L. simpl in L. unfold rpos.
  apply orb_true_iff in L as [L|L].
  - apply Nat.ltb_lt in L. assert ((p' + 1) * (N + 1) <= p * (N + 1))%nat by (apply Nat.mul_le_mono_r; lia).
    destruct (Nat.eqb n' sup), (Nat.eqb n sup); lia.
  - apply andb_true_iff in L as [L1 L2]. apply Nat.eqb_eq in L1. apply Nat.ltb_lt in L2. subst p'.
    destruct (Nat.eqb_spec n' sup), (Nat.eqb_spec n sup); lia.
Qed.

(* ... and in the timeline of buffer_need: this is where "the supervisor is alone in the last generation" is used *)
Lemma rpos_tl n' k' p' g' c' n k p g c :
  In (n', k', p', g', c') run_cells -> In (n, k, p, g, c) run_cells -> (rpos n' p' g' < rpos n p g)%nat ->
  (p' * N + g' < p * N + g)%nat /\ (p' <= p)%nat.
Proof.
  intros H' H L. destruct (cell_facts _ _ _ _ _ H') as (G' & _ & _ & S'). destruct (cell_facts _ _ _ _ _ H) as (G & _ & _ & S0).
  unfold rpos in L.
  destruct (Nat.lt_trichotomy p' p) as [Hp|[Hp|Hp]].
  - assert ((p' + 1) * N <= p * N)%nat by (apply Nat.mul_le_mono_r; lia). lia.
  - subst p'. destruct (Nat.eqb_spec n' sup), (Nat.eqb_spec n sup); lia.
  - assert ((p + 1) * (N + 1) <= p' * (N + 1))%nat by (apply Nat.mul_le_mono_r; lia).
    destruct (Nat.eqb n' sup), (Nat.eqb n sup); lia.
Qed.

Lemma rpos_inj n k p0 g0 c0 p j : In (n, k, p0, g0, c0) run_cells -> (j <= N)%nat ->
  rpos n p0 g0 = (p * (N + 1) + j)%nat -> p0 = p /\ (if Nat.eqb n sup then N else g0) = j.
Proof.
  intros H Hj E. destruct (cell_facts _ _ _ _ _ H) as (G & _). unfold rpos in E.
  set (x := if Nat.eqb n sup then N else g0) in *. assert (x <= N)%nat by (unfold x; destruct (Nat.eqb n sup); lia).
  destruct (Nat.lt_trichotomy p0 p) as [Hp|[Hp|Hp]].
  - assert ((p0 + 1) * (N + 1) <= p * (N + 1))%nat by (apply Nat.mul_le_mono_r; lia). lia.
  - subst. lia.
  - assert ((p + 1) * (N + 1) <= p0 * (N + 1))%nat by (apply Nat.mul_le_mono_r; lia). lia.
Qed.

Section Step.
Variable P : nat.
Variable s : rstate tag.
Variable cnt : nat -> Z.
Hypothesis C0 : forall m, 0 <= cnt m.
Hypothesis A : forall m k p g c, In (m, k, p, g, c) run_cells -> ((rpos m p g < P)%nat <-> k < cnt m).
Hypothesis A' : forall m k, 0 <= k < cnt m -> exists p g c, In (m, k, p, g, c) run_cells.
Hypothesis B : forall m, (m < nn)%nat -> node_ok sizes m (cnt m) s.

(* the heart: a scheduled read at position P finds what the schedule says *)
Lemma read_ok n k p g c cw sq a b :
  In (n, k, p, g, c) run_cells -> rpos n p g = P -> (p < i_nparts I)%nat ->
  In cw (combine (ins_of I n) (c_wins c)) -> In (sq, a, b) (snd cw) ->
  ring_read tag TDef sizes s (k_out (conn I (fst cw))) sq =
    (if sq <? 0 then TDef (k_out (conn I (fst cw))) else TOut (k_out (conn I (fst cw))) sq).
Proof.
  intros Hc HP Hp Hcw He. destruct cw as [ci w]. simpl in *.
  set (mo := k_out (conn I ci)).
  assert (Hci : (ci < length (i_conns I))%nat).
  { apply in_combine_l in Hcw. unfold ins_of in Hcw. apply filter_In in Hcw as [Hcw _]. apply in_seq in Hcw. lia. }
  assert (Hmo : (mo < nn)%nat) by (apply X5; exact Hci).
  destruct (B mo Hmo) as [[Hlen Hr] _]. unfold ring_read. apply Hr.
  - destruct (Z.ltb_spec sq 0) as [Hneg|Hpos]; [specialize (C0 mo); lia|].
    destruct (producer_before_consumer I V n k p g c (ci, w) sq a b Hc Hcw He Hpos) as ([p' g'] & Hq & Hlt).
    destruct (find_cell_in I _ _ _ Hq) as [c' Hc']. simpl in Hc'.
    pose proof (lex_rpos _ _ _ _ _ _ _ _ _ _ Hc' Hc Hlt) as L. rewrite HP in L. apply (A _ _ _ _ _ Hc'). exact L.
  - intros Hcnt.
    destruct (A' mo (cnt mo - 1) ltac:(lia)) as (p' & g' & c' & Hw).
    assert (L : (rpos mo p' g' < rpos n p g)%nat) by (rewrite HP; apply (A _ _ _ _ _ Hw); lia).
    destruct (rpos_tl _ _ _ _ _ _ _ _ _ _ Hw Hc L) as [T Tp].
    destruct (cell_facts _ _ _ _ _ Hw) as (G' & _). destruct (cell_facts _ _ _ _ _ Hc) as (G & _).
    assert (Hlenp : (p * N + g < length (positions I))%nat).
    { rewrite positions_length. assert ((p + 1) * N <= i_nparts I * N)%nat by (apply Nat.mul_le_mono_r; lia). lia. }
    pose proof (need_bound I ci (p * N + g) (p' * N + g') sq (cnt mo - 1) ltac:(lia)) as NB.
    rewrite !positions_nth in NB by lia.
    specialize (NB (read_min_le I _ _ _ _ _ _ _ _ _ _ Hc Hcw He) (write_max_ge I ci _ _ _ _ Hw)).
    specialize (HB ci Hci). fold mo in HB. lia.
Qed.

Lemma in_inputs_of n c w : In w (inputs_of I tag TDef sizes s n c) ->
  exists cw, In cw (combine (ins_of I n) (c_wins c)) /\
    w = map (fun e : wentry => match e with (sq, a, b) => (sq, a, b, ring_read tag TDef sizes s (k_out (conn I (fst cw))) sq) end) (snd cw).
Proof.
  unfold inputs_of. intros Hw. apply in_map_iff in Hw as [[k0 w'] [<- Hkw]]. simpl.
  revert Hkw. generalize (combine (ins_of I n) (c_wins c)) as l. induction l as [|cw l IH]; simpl; [contradiction|].
  intros Hkw. apply in_insert_by' in Hkw as [Heq|Hin].
  - injection Heq as _ ->. exists cw. split; [now left|reflexivity].
  - destruct (IH Hin) as (cw' & H1 & H2). exists cw'. split; [now right|exact H2].
Qed.

Lemma exec_row_check n p g c : In (n, cnt n, p, g, c) run_cells -> c_seq c = cnt n -> rpos n p g = P -> (p < i_nparts I)%nat ->
  row_check I (exec_cell I tag ftag TInit TDef sizes s n c) = true.
Proof.
  intros Hc Hs HP Hp. destruct (cell_facts _ _ _ _ _ Hc) as (_ & Hn & _).
  unfold row_check, exec_cell. simpl. apply andb_true_iff. split.
  - destruct (B n Hn) as [_ Hst]. rewrite Hst, Hs. apply tag_eqb_refl.
  - apply forallb_forall. intros w Hw. apply in_inputs_of in Hw as (cw & Hcw & ->).
    unfold window_ok. apply existsb_exists. exists (k_out (conn I (fst cw))). split.
    + apply in_seq. split; [lia|]. simpl. apply X5. destruct cw as [ci w0]. simpl.
      apply in_combine_l in Hcw. unfold ins_of in Hcw. apply filter_In in Hcw as [Hcw _]. apply in_seq in Hcw. lia.
    + apply forallb_forall. intros e He. apply in_map_iff in He as ([[sq a] b] & <- & He).
      unfold entry_ok. rewrite (read_ok _ _ _ _ _ _ _ _ _ Hc HP Hp Hcw He). apply tag_eqb_refl.
Qed.
End Step.

(* ---------- the invariant of the symbolic rollout, before the phase at runner position P ---------- *)
Definition Inv (P : nat) (s : rstate tag) : Prop := exists cnt : nat -> Z,
  (forall m, 0 <= cnt m) /\
  (* the cells executed so far are, per node, exactly the sequence numbers 0 .. cnt-1 *)
  (forall m k p g c, In (m, k, p, g, c) run_cells -> ((rpos m p g < P)%nat <-> k < cnt m)) /\
  (forall m k, 0 <= k < cnt m -> exists p g c, In (m, k, p, g, c) run_cells) /\
  (* ring and state of every node *)
  (forall m, (m < nn)%nat -> node_ok sizes m (cnt m) s) /\
  length (r_buf tag s) = nn /\ length (r_st tag s) = nn /\
  forallb (row_check I) (r_log tag s) = true.

Lemma phase_step p j todo s : (p < i_nparts I)%nat -> (j <= N)%nat ->
  Inv (p * (N + 1) + j) s -> NoDup (map fst todo) ->
  (forall m c, In (m, c) todo <-> exists g, In (m, c_seq c, p, g, c) run_cells /\ (if Nat.eqb m sup then N else g) = j) ->
  Inv (S (p * (N + 1) + j)) (run_phase I tag ftag TInit TDef sizes todo s).
Proof.
  intros Hp Hj (cnt & C0 & A & A' & B & Lb & Ls & K) Hnd Htodo.
  set (P := (p * (N + 1) + j)%nat) in *.
  assert (Hpos : forall m c g, In (m, c_seq c, p, g, c) run_cells -> (if Nat.eqb m sup then N else g) = j -> rpos m p g = P).
  { intros m c g _ E. unfold rpos, P. now rewrite E. }
  assert (Hseq : forall m c, In (m, c) todo -> c_seq c = cnt m).
  { intros m c Hin. apply Htodo in Hin as (g & Hc & Hg). pose proof (Hpos _ _ _ Hc Hg) as HP.
    assert (H1 : ~ c_seq c < cnt m) by (intros H; apply (A _ _ _ _ _ Hc) in H; lia).
    destruct (Z.lt_ge_cases (cnt m) (c_seq c)) as [H2|H2]; [|lia]. exfalso.
    destruct (node_steps_in_seq_order I V m (c_seq c) p g c Hc ltac:(specialize (C0 m); lia)) as ([p' g'] & Hq & Hlt).
    destruct (find_cell_in I _ _ _ Hq) as [c' Hc']. simpl in Hc'.
    pose proof (lex_rpos _ _ _ _ _ _ _ _ _ _ Hc' Hc Hlt) as L. rewrite HP in L. apply (A _ _ _ _ _ Hc') in L. lia. }
  unfold run_phase.
  set (rows := map (fun nc : nat * cell => exec_cell I tag ftag TInit TDef sizes s (fst nc) (snd nc)) todo).
  assert (Hnodes : map (w_node tag) rows = map fst todo) by (unfold rows; rewrite map_map; reflexivity).
  destruct (fold_commit_nodes sizes nn rows s cnt) as (Lb' & Ls' & B'); auto.
  { rewrite Hnodes. exact Hnd. }
  { intros r Hr. unfold rows in Hr. apply in_map_iff in Hr as ([m c] & <- & Hin). simpl.
    pose proof (Hseq _ _ Hin) as E. apply Htodo in Hin as (g & Hc & _). destruct (cell_facts _ _ _ _ _ Hc) as (_ & Hm & _).
    split; [exact Hm|]. split; [exact E|reflexivity]. }
  rewrite Hnodes in B'.
  exists (fun m => cnt m + (if inb m (map fst todo) then 1 else 0)).
  split; [intros m; specialize (C0 m); destruct (inb m (map fst todo)); lia|].
  split; [|split; [|split; [exact B'|split; [exact Lb'|split; [exact Ls'|]]]]].
  - intros m k p0 g0 c0 Hc. specialize (A _ _ _ _ _ Hc). split.
    + intros L. destruct (Nat.eq_dec (rpos m p0 g0) P) as [E|E].
      * destruct (rpos_inj _ _ _ _ _ _ _ Hc Hj E) as [-> Eg].
        assert (Hk : k = c_seq c0) by (apply in_run_cells in Hc as (sl & _ & _ & _ & _ & _ & Hk); exact Hk). subst k.
        assert (Hin : In (m, c0) todo) by (apply Htodo; exists g0; auto).
        rewrite (Hseq _ _ Hin).
        assert (Ei : inb m (map fst todo) = true) by (apply inb_true; apply (in_map fst) in Hin; exact Hin). rewrite Ei. lia.
      * assert (k < cnt m) by (apply A; lia). destruct (inb m (map fst todo)); lia.
    + intros L. destruct (Z.lt_ge_cases k (cnt m)) as [H|H]; [apply A in H; lia|].
      destruct (inb m (map fst todo)) eqn:Ei; [|lia]. apply inb_true in Ei. apply in_map_iff in Ei as ([m' c1] & E1 & Hin). simpl in E1. subst m'.
      pose proof (Hseq _ _ Hin) as Es. apply Htodo in Hin as (g1 & Hc1 & Hg1).
      assert (k = c_seq c1) by lia. subst k.
      pose proof (scheduled_once I V _ _ _ _ _ _ _ _ Hc Hc1) as E. injection E as -> -> ->.
      rewrite (Hpos _ _ _ Hc1 Hg1). lia.
  - intros m k Hk. destruct (Z.lt_ge_cases k (cnt m)) as [H|H]; [apply A'; lia|].
    destruct (inb m (map fst todo)) eqn:Ei; [|lia]. apply inb_true in Ei. apply in_map_iff in Ei as ([m' c1] & E1 & Hin). simpl in E1. subst m'.
    pose proof (Hseq _ _ Hin) as Es. apply Htodo in Hin as (g1 & Hc1 & _). exists p, g1, c1. replace k with (c_seq c1) by lia. exact Hc1.
  - rewrite fold_commit_log, forallb_app, K. simpl. apply forallb_forall. intros r Hr.
    unfold rows in Hr. apply in_map_iff in Hr as ([m c] & <- & Hin). simpl.
    pose proof (Hseq _ _ Hin) as E. apply Htodo in Hin as (g & Hc & Hg).
    apply (exec_row_check P s cnt C0 A A' B m p g c); eauto. rewrite <- E. exact Hc.
Qed.

(* ---------- the phases of the runner are the scheduled cells at the runner positions ---------- *)
Lemma gen_todo_spec p g m c : (g < N)%nat ->
  (In (m, c) (gen_todo I p g) <-> exists g0, In (m, c_seq c, p, g0, c) run_cells /\ (if Nat.eqb m sup then N else g0) = g).
Proof.
  intros Hg. unfold gen_todo. rewrite in_flat_map. split.
  - intros (sl & Hsl & H). destruct (Nat.eqb_spec (s_gen sl) g) as [Eg|]; [|destruct H].
    destruct (Nat.eqb_spec (s_kind sl) sup) as [|Ek]; [destruct H|]. simpl in H.
    destruct (c_run (nth p (s_cells sl) dcell)) eqn:Er; [|destruct H]. destruct H as [E|[]]. injection E as <- <-.
    exists (s_gen sl). split.
    + apply in_run_cells. exists sl. auto 10.
    + apply Nat.eqb_neq in Ek. rewrite Ek. exact Eg.
  - intros (g0 & Hc & E). destruct (cell_facts _ _ _ _ _ Hc) as (G0 & _).
    destruct (Nat.eqb_spec m sup) as [|Ek]; [lia|]. subst g0.
    apply in_run_cells in Hc as (sl & Hsl & -> & -> & -> & Hr & _). exists sl. split; [exact Hsl|].
    rewrite Nat.eqb_refl. apply Nat.eqb_neq in Ek. rewrite Ek. simpl. rewrite Hr. now left.
Qed.

Lemma gen_todo_nodup p g : (g < N)%nat -> NoDup (map fst (gen_todo I p g)).
Proof.
  intros Hg. pose proof (vs_kinds I V g Hg) as H. unfold gen_todo. revert H.
  induction (i_slots I) as [|sl l IH]; simpl; intros H; [constructor|].
  assert (Hsub : forall x l0, In x (map fst (flat_map (fun sl0 => if Nat.eqb (s_gen sl0) g && negb (Nat.eqb (s_kind sl0) sup)
                      then (let c := nth p (s_cells sl0) dcell in if c_run c then [(s_kind sl0, c)] else []) else []) l0)) ->
                    In x (map s_kind (filter (fun s0 => Nat.eqb (s_gen s0) g) l0))).
  { intros x l0. induction l0 as [|y l0 IH0]; simpl; [tauto|]. rewrite map_app, in_app_iff. intros [Hx|Hx].
    - destruct (Nat.eqb (s_gen y) g); [|destruct Hx]. destruct (negb (Nat.eqb (s_kind y) sup)); [|destruct Hx]. simpl in Hx.
      destruct (c_run (nth p (s_cells y) dcell)); [|destruct Hx]. destruct Hx as [<-|[]]. now left.
    - destruct (Nat.eqb (s_gen y) g); [right|]; auto. }
  destruct (Nat.eqb (s_gen sl) g); simpl in *.
  - apply NoDup_cons_iff in H as [Hn Hd]. destruct (negb (Nat.eqb (s_kind sl) sup)); simpl; [|auto].
    destruct (c_run (nth p (s_cells sl) dcell)); simpl; [|auto]. constructor; [|auto]. intros Hx. apply Hn. apply Hsub. exact Hx.
  - auto.
Qed.

Lemma sup_todo_spec p m c : (p < i_nparts I)%nat ->
  (In (m, c) [(sup, sup_cell I p)] <-> exists g0, In (m, c_seq c, p, g0, c) run_cells /\ (if Nat.eqb m sup then N else g0) = N).
Proof.
  intros Hp. pose proof (X3 p Hp) as Hr.
  assert (Hs : exists g1, In (sup, c_seq (sup_cell I p), p, g1, sup_cell I p) run_cells).
  { unfold sup_cell in *. destruct (find (fun sl => Nat.eqb (s_kind sl) sup) (i_slots I)) as [sl|] eqn:Ef; [|discriminate].
    apply find_some in Ef as [Hsl Ek]. apply Nat.eqb_eq in Ek. exists (s_gen sl). apply in_run_cells. exists sl. auto 10. }
  destruct Hs as [g1 Hs]. split.
  - intros [E|[]]. injection E as <- <-. exists g1. split; [exact Hs|]. now rewrite Nat.eqb_refl.
  - intros (g0 & Hc & E). destruct (cell_facts _ _ _ _ _ Hc) as (G0 & _).
    destruct (Nat.eqb_spec m sup) as [->|Ek]; [|lia].
    destruct (supervisor_closes_partition I V _ _ _ _ Hc) as [K1 _]. destruct (supervisor_closes_partition I V _ _ _ _ Hs) as [K2 _].
    rewrite <- K1, K2 in Hc. pose proof (scheduled_once I V _ _ _ _ _ _ _ _ Hc Hs) as E3. injection E3 as _ ->. now left.
Qed.

Lemma inv_init : Inv 0 (rinit I tag TInit TDef sizes).
Proof.
  exists (fun _ => 0). split; [lia|]. split; [|split; [lia|split; [|split; [|split]]]].
  - intros m k p g c Hc. destruct (cell_facts _ _ _ _ _ Hc) as (_ & _ & K0 & _). lia.
  - intros m Hm. unfold node_ok, rinit; simpl. split; [split|].
    + rewrite (map_nth_lt _ _ _ _ O) by (rewrite seq_length; exact Hm). rewrite seq_nth by exact Hm. apply repeat_length.
    + intros s0 H0 _. rewrite (map_nth_lt _ _ _ _ O) by (rewrite seq_length; exact Hm). rewrite seq_nth by exact Hm. simpl.
      assert (E : (s0 <? 0) = true) by (apply Z.ltb_lt; lia). rewrite E. apply nth_repeat_same.
    + rewrite (map_nth_lt _ _ _ _ O) by (rewrite seq_length; exact Hm). rewrite seq_nth by exact Hm. reflexivity.
  - unfold rinit; simpl. now rewrite map_length, seq_length.
  - unfold rinit; simpl. now rewrite map_length, seq_length.
  - reflexivity.
Qed.

Notation runph := (fun s ph => run_phase I tag ftag TInit TDef sizes ph s).
Lemma inv_gens p s : (p < i_nparts I)%nat -> Inv (p * (N + 1)) s ->
  forall g, (g <= N)%nat -> Inv (p * (N + 1) + g) (fold_left runph (map (gen_todo I p) (seq 0 g)) s).
Proof.
  intros Hp H0. induction g as [|g IH]; intros Hg.
  - simpl. rewrite Nat.add_0_r. exact H0.
  - rewrite seq_S, map_app, fold_left_app. simpl. replace (p * (N + 1) + S g)%nat with (S (p * (N + 1) + g)) by lia.
    apply phase_step; [exact Hp|lia|apply IH; lia|apply gen_todo_nodup; lia|]. intros m c. apply gen_todo_spec. lia.
Qed.

Lemma inv_rollout n : (n <= i_nparts I)%nat -> Inv (n * (N + 1)) (rollout I tag ftag TInit TDef sizes 0 n).
Proof.
  induction n as [|n IH]; intros Hn.
  - exact inv_init.
  - assert (E : (S n * (N + 1))%nat = S (n * (N + 1) + N)) by lia. rewrite E. clear E.
    unfold rollout. rewrite seq_S, flat_map_app, fold_left_app. change (0 + n)%nat with n. cbn [flat_map]. rewrite app_nil_r.
    change (phases_of I n) with (map (gen_todo I n) (seq 0 N) ++ [[(sup, sup_cell I n)]]). rewrite fold_left_app. cbn [fold_left].
    apply (phase_step n N); [lia|lia| |repeat constructor; simpl; tauto|].
    + apply inv_gens; [lia| |lia]. apply IH. lia.
    + intros m c. apply sup_todo_spec. lia.
Qed.
End Main.

Lemma forallb_In {X} (f : X -> bool) l : forallb f l = true -> forall x, In x l -> f x = true.
Proof. intros H. now apply forallb_forall. Qed.

Theorem buffer_sufficient (I : inst) (sizes : list Z) (n : nat) :
  check_schedule I = true ->
  extra_ok I = true ->
  (forall c, (c < length (i_conns I))%nat -> buffer_need I c <= size_of sizes (k_out (conn I c))) ->
  (n <= i_nparts I)%nat ->
  check_sym I sizes 0 n = true.
Proof.
  intros Hc He HB Hn. pose proof (check_schedule_sound I Hc) as V.
  unfold extra_ok in He. repeat (apply andb_true_iff in He as [He ?]).
  destruct (inv_rollout I sizes V) with (n := n) as (cnt & _ & _ & _ & _ & _ & _ & K); auto.
  - intros sl Hsl. apply Nat.ltb_lt. apply (forallb_In _ _ He sl Hsl).
  - intros sl Hsl Eg. pose proof (forallb_In _ _ H2 sl Hsl) as E. simpl in E. rewrite Eg, Nat.eqb_refl in E. now apply Nat.eqb_eq.
  - intros p Hp. apply (forallb_In _ _ H1 p). apply in_seq. lia.
  - intros sl Hsl. apply Nat.ltb_lt. apply (forallb_In _ _ H0 sl Hsl).
  - intros ci Hci. apply Nat.ltb_lt. apply (forallb_In _ _ H (conn I ci)). unfold conn. apply nth_In. exact Hci.
Qed.

(* non-vacuity: the two-node example satisfies every hypothesis with sizes [2; 1]; size 1 for node 0 is rejected by the check *)
Example ex_hyps : check_schedule Replay.ex_inst = true /\ extra_ok Replay.ex_inst = true /\
  buffer_need Replay.ex_inst 0 = 2 /\ size_of [2; 1] (k_out (conn Replay.ex_inst 0)) = 2 /\
  check_sym Replay.ex_inst [1; 1] 0 3 = false.
Proof. vm_compute. repeat split; reflexivity. Qed.
Example ex_buffer_sufficient : check_sym Replay.ex_inst [2; 1] 0 3 = true.
Proof.
  apply buffer_sufficient.
  - vm_compute. reflexivity.
  - vm_compute. reflexivity.
  - intros c Hc. change (length (i_conns Replay.ex_inst)) with 1%nat in Hc. assert (c = O) by lia. subst c. vm_compute. discriminate.
  - apply Nat.leb_le. reflexivity.
Qed.
(* and the conclusion agrees with direct evaluation *)
Example ex_direct : check_sym Replay.ex_inst [2; 1] 0 3 = true.
Proof. vm_compute. reflexivity. Qed.

(* conjunct 2 of extra_ok is necessary: a non-supervisor node sharing the LAST generation with the supervisor. buffer_need puts the
   supervisor's read and node 0's write of the same partition at the same timeline position (need = 1), but the runner executes the
   supervisor after that generation has been committed, so with a ring of the computed size 1 the supervisor of partition p >= 1 finds
   output p of node 0 where the schedule says output p-1 *)
Definition cx_cell1 (p : Z) (w : list wentry) := {| c_run := true; c_seq := p; c_start := 64 * p + 32; c_end := 64 * p + 40; c_wins := [w] |}.
Definition cx_inst : inst :=
  {| i_nodes := [{| k_nid := 0 |}; {| k_nid := 1 |}]; i_conns := [{| k_out := 0; k_in := 1; k_win := 1 |}]; i_sup := 1%nat;
     i_verts := [[{| v_seq := 0; v_start := 0; v_end := 10 |}; {| v_seq := 1; v_start := 64; v_end := 74 |}; {| v_seq := 2; v_start := 128; v_end := 138 |}];
                 [{| v_seq := 0; v_start := 32; v_end := 40 |}; {| v_seq := 1; v_start := 96; v_end := 104 |}; {| v_seq := 2; v_start := 160; v_end := 168 |}]];
     i_edges := [[{| e_out := 0; e_in := 1; e_recv := 12 |}; {| e_out := 1; e_in := 2; e_recv := 76 |}]];
     i_slots := [{| s_kind := 0; s_gen := 0; s_cells := [Replay.ex_cell0 0; Replay.ex_cell0 1; Replay.ex_cell0 2] |};
                 {| s_kind := 1; s_gen := 0; s_cells := [cx_cell1 0 [(-1, 0, 0)]; cx_cell1 1 [(0, 10, 12)]; cx_cell1 2 [(1, 74, 76)]] |}];
     i_ngen := 1; i_nparts := 3 |}.
Example cx_last_generation : check_schedule cx_inst = true /\ buffer_need cx_inst 0 = 1 /\ extra_ok cx_inst = false /\
  check_sym cx_inst [1; 1] 0 3 = false /\ check_sym cx_inst [2; 1] 0 3 = true.
Proof. vm_compute. repeat split; reflexivity. Qed.

Print Assumptions buffer_sufficient.
