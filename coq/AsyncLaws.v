(* C04 (first part): schedule and start-time laws, via the Kahn principle (solo runs) *)
From Coq Require Import List Arith ZArith Bool Lia.
From Coq Require Import ZifyNat ZifyBool.
From Rex Require Import KahnL AsyncModel2 AsyncStable ConflInv RexDet.
Import ListNotations.
Ltac Zify.zify_post_hook ::= Z.div_mod_to_equations.

Section Laws.
Variable G : cfg.
Notation NCH := (NCH G). Notation NACT := (NACT G). Notation NN := (NN G). Notation NCn := (NCn G).
Notation reader := (reader G). Notation writer := (writer G).

Definition reach (s : state) := rsteps G (init G) s.
Definition rsolo := solo tok local (fire G).
Definition rproj := proj tok local l0 NCH reader writer (fire G).

Lemma reach_wf s : reach s -> rex_wf G s.
Proof. intros H. eapply (inv_steps state nat (rex_step G) (rex_wf G) (rex_inv_step G)); [apply init_wf|exact H]. Qed.

Lemma init_cur0 c : (c < NCH)%nat -> nth c (cur _ _ (init G)) 0%nat = 0%nat.
Proof. intros _. simpl. destruct (nth_in_or_default c (repeat 0%nat NCH) 0%nat) as [H|H]; [apply repeat_spec in H; exact H|exact H]. Qed.

Lemma steps_snoc s t a u : rsteps G s t -> rex_step G a t u -> rsteps G s u.
Proof.
  intros H. revert u. induction H as [s|b s s1 s2 Hb Hrest IH]; intros u Hs.
  - econstructor; [exact Hs|constructor].
  - econstructor; [exact Hb|]. apply IH. exact Hs.
Qed.

(* reachability by appending steps at the end (induction-friendly) *)
Lemma reach_ind (P : state -> Prop) :
  P (init G) -> (forall s a s', reach s -> P s -> rex_step G a s s' -> P s') -> forall s, reach s -> P s.
Proof.
  intros H0 HS s Hr. unfold reach, rsteps in Hr.
  assert (forall s0 s1, steps state nat (rex_step G) s0 s1 -> reach s0 -> P s0 -> P s1) as Hgen.
  { intros s0 s1 Hst. induction Hst as [|a s0 s1 s2 Hs _ IH]; intros Hr0 Hp; [exact Hp|].
    apply IH; [eapply steps_snoc; [exact Hr0|exact Hs] | eapply HS; eauto]. }
  apply (Hgen _ _ Hr); [constructor|exact H0].
Qed.

Theorem reach_proj s a : reach s -> rproj (init G) s a.
Proof.
  intros H. induction H as [|s b s' Hr IH Hs] using reach_ind; [apply proj_init|].
  eapply (proj_step tok local l0 NACT NCH reader writer (fire G)); eauto.
  - intros; eapply fire_stable; eauto.
  - intros; eapply fire_cons_own; eauto.
  - intros; eapply fire_prod_own; eauto.
  - apply reach_wf; exact Hr.
  - apply init_cur0.
Qed.

(* ---- evaluating put / put_all ---- *)
Lemma put_eq {X} c (v : X) f : put c v f c = v.
Proof. unfold put. now rewrite Nat.eqb_refl. Qed.
Lemma put_ne {X} c (v : X) f x : x <> c -> put c v f x = f x.
Proof. intros H. unfold put. destruct (Nat.eqb_spec x c); congruence. Qed.
Lemma put_all_in {X} cs (v : X) f x : In x cs -> put_all cs v f x = v.
Proof. intros H. unfold put_all. replace (existsb (Nat.eqb x) cs) with true; [reflexivity|].
  symmetry. apply existsb_exists. exists x. split; [exact H|apply Nat.eqb_refl]. Qed.
Lemma put_all_nin {X} cs (v : X) f x : ~ In x cs -> put_all cs v f x = f x.
Proof. intros H. unfold put_all. destruct (existsb (Nat.eqb x) cs) eqn:E; [|reflexivity].
  apply existsb_exists in E. destruct E as [y [Hy Hxy]]. apply Nat.eqb_eq in Hxy. subst. contradiction. Qed.

(* ---- the schedule actor, solo ---- *)
Definition sched_ts (n k : nat) : Z := Z.of_nat k * n_period (node G n) + n_phase (node G n).

Lemma solo_sched n h m l cu out : (n < NN)%nat ->
  rsolo (ASched n) l0 h m l cu out ->
  l_tick l = m /\ out (QSched n) = map (fun k => TSched k (sched_ts n k)) (seq 0 m) /\ cu (QTick n) = m.
Proof.
  intros Hn H.
  assert (Hfire : forall l u r, fire G (ASched n) l u = Some r -> fire_sched G n l u = Some r).
  { intros l1 u r. unfold fire, ASched.
    destruct (Nat.leb_spec NACT (3 * n + 0)); [discriminate|].
    destruct (Nat.ltb_spec (3 * n + 0) (3 * NN)); [|lia].
    replace ((3 * n + 0) mod 3)%nat with 0%nat by lia. replace ((3 * n + 0) / 3)%nat with n by lia. auto. }
  induction H as [|m l cu out r H IH Hf]; [repeat split|].
  destruct IH as (IH1 & IH2 & IH3).
  apply Hfire in Hf. unfold fire_sched in Hf.
  destruct (hd_opt (view tok h cu (QTick n))); [|discriminate]. destruct t; try discriminate.
  injection Hf as <-. cbn [KahnL.l' KahnL.cons KahnL.prod l_tick]. rewrite !put_eq. repeat split.
  - lia.
  - rewrite IH2, IH1, seq_S, map_app. reflexivity.
  - lia.
Qed.

Lemma nth_repeat_tt n i : nth i (repeat tt n) tt = tt.
Proof. destruct (nth i (repeat tt n) tt). reflexivity. Qed.

Lemma init_loc a : (a < NACT)%nat ->
  nth a (loc _ _ (init G)) l0 =
  if ((a <? 3 * NN)%nat && Nat.eqb (a mod 3) 2)
  then {| l_tick := 0; l_drift := 0; l_state := 1 + n_nid (node G (a / 3)); l_wins := init_wins G (a / 3);
          l_prev := 0; l_j := 0; l_rows := []; l_msgs := []; l_calls := [] |}
  else l0.
Proof.
  intros Ha. simpl. rewrite (mapi_nth _ (repeat tt NACT) a tt l0) by (rewrite repeat_length; exact Ha). reflexivity.
Qed.
Lemma init_hist c : (c < NCH)%nat ->
  nth c (hist _ _ (init G)) [] =
  if (c <? 4 * NN)%nat then (if Nat.eqb (c mod 4) 0 then repeat TTick 10 else if Nat.eqb (c mod 4) 2 then [TEnd 0] else []) else [].
Proof.
  intros Hc. simpl. rewrite (mapi_nth _ (repeat tt NCH) c tt []) by (rewrite repeat_length; exact Hc). reflexivity.
Qed.

Lemma nth_error_map_seq {X} (f : nat -> X) m k x : nth_error (map f (seq 0 m)) k = Some x -> (k < m)%nat /\ x = f k.
Proof.
  intros H. assert (Hlt : (k < m)%nat).
  { assert (k < length (map f (seq 0 m)))%nat by (apply nth_error_Some; congruence). now rewrite map_length, seq_length in H0. }
  split; [exact Hlt|].
  rewrite nth_error_map in H. rewrite (nth_error_nth' (seq 0 m) 0%nat) in H by (rewrite seq_length; exact Hlt).
  rewrite seq_nth in H by exact Hlt. simpl in H. congruence.
Qed.

Theorem schedule_law s n k tk : reach s -> (n < NN)%nat ->
  nth_error (nth (QSched n) (hist _ _ s) []) k = Some tk -> tk = TSched k (sched_ts n k).
Proof.
  intros Hr Hn Hk.
  assert (Ha : (ASched n < NACT)%nat) by (unfold ASched, AsyncModel2.NACT; lia).
  destruct (reach_proj s (ASched n) Hr) as (m & cu & out & Hsolo & _ & Hout).
  rewrite (init_loc _ Ha) in Hsolo.
  replace ((ASched n <? 3 * NN)%nat && Nat.eqb (ASched n mod 3) 2) with false in Hsolo
    by (unfold ASched; replace ((3 * n + 0) mod 3)%nat with 0%nat by lia; now rewrite andb_false_r).
  destruct (solo_sched n _ m _ _ _ Hn Hsolo) as (_ & Ho & _).
  assert (Hq : (QSched n < NCH)%nat) by (unfold QSched, AsyncModel2.NCH; lia).
  assert (Hw : writer (QSched n) = ASched n) by (unfold QSched; rewrite writer_node by lia; reflexivity).
  rewrite (Hout _ Hq Hw), (init_hist _ Hq) in Hk.
  unfold QSched in Hk at 1 2 3. destruct (Nat.ltb_spec (4 * n + 1) (4 * NN)); [|lia].
  replace ((4 * n + 1) mod 4)%nat with 1%nat in Hk by lia. simpl app in Hk.
  rewrite Ho in Hk. apply nth_error_map_seq in Hk. tauto.
Qed.

(* ---- the phase-shift actor, solo: the start-time recurrence of C04 ---- *)
Lemma hd_skipn_nth (l : list tok) i : hd_opt (skipn i l) = nth_error l i.
Proof. revert l; induction i as [|i IH]; intros [|x l]; simpl; auto. Qed.

Definition bl_of n := filter (fun c => c_blocking (conn G c)) (ins G n).
Definition nb_of n := filter (fun c => negb (c_blocking (conn G c))) (ins G n).
Definition only_b n := n_advance (node G n) && forallb (fun c => c_blocking (conn G c)) (ins G n).

(* latest arrival among the blocking inputs of tick k, read off the input histories *)
Definition tsmax_at (h : nat -> list tok) n k : option Z := heads_max G (bl_of n) (fun c => skipn k (h c)).

Lemma heads_max_congr cs u u' : (forall c, In c cs -> u (TsMax G c) = u' (TsMax G c)) ->
  heads_max G cs u = heads_max G cs u'.
Proof.
  induction cs as [|c cs IH]; simpl; intros H; [reflexivity|].
  rewrite (H c (or_introl eq_refl)), IH; [reflexivity|]. intros; apply H; now right.
Qed.

Definition phase_of n (M s e ps : Z) : Z :=
  if only_b n then Z.max (M - s) (e - s) else Z.max (Z.max (M - s) (e - s)) ps.
Definition drift_next n (s e ps : Z) : Z := if n_freq (node G n) then ps + Z.max 0 ((e - s) - ps) else 0.

(* drift before tick k, as a function of the consumed inputs *)
Fixpoint drift_at (h : nat -> list tok) n k : Z :=
  match k with O => 0
  | S k' => match nth_error (h (QSched n)) k', nth_error (h (QEndPrev n)) k' with
            | Some (TSched _ s), Some (TEnd e) => drift_next n s e (drift_at h n k')
            | _, _ => 0 end end.

Definition start_of (h : nat -> list tok) n k : option tok :=
  match nth_error (h (QSched n)) k, nth_error (h (QEndPrev n)) k, tsmax_at h n k with
  | Some (TSched kk s), Some (TEnd e), Some M =>
      let start := s + phase_of n M s e (drift_at h n k) in Some (TStart kk start (stream (n_delays (node G n)) kk))
  | _, _, _ => None end.
Definition end_of (h : nat -> list tok) n k : option tok :=
  match start_of h n k with Some (TStart _ start d) => Some (TEnd (start + d)) | _ => None end.
Definition tsout_of (h : nat -> list tok) n k : option tok :=
  match start_of h n k with Some (TStart kk start d) => Some (TTsOut kk (start + d)) | _ => None end.

Lemma fire_is_shift n l u r : (n < NN)%nat -> fire G (AShift n) l u = Some r -> fire_shift G n l u = Some r.
Proof.
  intros Hn. unfold fire, AShift.
  destruct (Nat.leb_spec NACT (3 * n + 1)); [discriminate|].
  destruct (Nat.ltb_spec (3 * n + 1) (3 * NN)); [|lia].
  replace ((3 * n + 1) mod 3)%nat with 1%nat by lia. replace ((3 * n + 1) / 3)%nat with n by lia. auto.
Qed.

Lemma bl_TsMax_ne_node n c k : (k < 4)%nat -> (n < NN)%nat -> TsMax G c <> (4 * n + k)%nat.
Proof. unfold TsMax, cch. lia. Qed.

Lemma solo_shift n h m l cu out : (n < NN)%nat ->
  rsolo (AShift n) l0 h m l cu out ->
  l_drift l = drift_at h n m /\
  cu (QSched n) = m /\ cu (QEndPrev n) = m /\ (forall c, In c (bl_of n) -> cu (TsMax G c) = m) /\
  length (out (QStart n)) = m /\ length (out (QEndPrev n)) = m /\
  (forall k, (k < m)%nat -> nth_error (out (QStart n)) k = start_of h n k) /\
  (forall k, (k < m)%nat -> nth_error (out (QEndPrev n)) k = end_of h n k) /\
  (forall c, In c (outs G n) -> length (out (TsOut G c)) = m /\
             forall k, (k < m)%nat -> nth_error (out (TsOut G c)) k = tsout_of h n k).
Proof.
  intros Hn H.
  induction H as [|m l cu out r H IH Hf].
  - repeat split; intros; try reflexivity; lia.
  - destruct IH as (ID & IC1 & IC2 & IC3 & IL1 & IL2 & IS & IE & IT).
    apply fire_is_shift in Hf; [|exact Hn]. unfold fire_shift in Hf.
    unfold view in Hf at 1 2. rewrite IC1, IC2, !hd_skipn_nth in Hf.
    destruct (nth_error (h (QSched n)) m) as [t1|] eqn:E1; [|discriminate]. destruct t1; try discriminate.
    destruct (nth_error (h (QEndPrev n)) m) as [t2|] eqn:E2; [|discriminate]. destruct t2; try discriminate.
    assert (HM : heads_max G (bl_of n) (view tok h cu) = tsmax_at h n m).
    { unfold tsmax_at. apply heads_max_congr. intros c Hc. unfold view. now rewrite (IC3 c Hc). }
    fold (bl_of n) in Hf. rewrite HM in Hf.
    destruct (tsmax_at h n m) as [M|] eqn:E3; [|discriminate].
    injection Hf as <-. cbn [KahnL.l' KahnL.cons KahnL.prod l_drift].
    assert (Hstart : start_of h n m = Some (TStart k (s + phase_of n M s e (l_drift l)) (stream (n_delays (node G n)) k))).
    { unfold start_of. rewrite E1, E2, E3, <- ID. reflexivity. }
    assert (Hph : (if n_advance (node G n) && forallb (fun c => c_blocking (conn G c)) (ins G n)
                   then Z.max (M - s) (e - s) else Z.max (Z.max (M - s) (e - s)) (l_drift l)) = phase_of n M s e (l_drift l))
      by reflexivity.
    rewrite Hph.
    repeat split.
    + simpl. rewrite E1, E2, <- ID. reflexivity.
    + rewrite put_eq. lia.
    + rewrite put_ne by (unfold QSched, QEndPrev; lia). rewrite put_eq. lia.
    + intros c Hc. rewrite put_ne by (apply bl_TsMax_ne_node; lia).
      rewrite put_ne by (apply bl_TsMax_ne_node; lia).
      rewrite put_all_in by (apply in_map; exact Hc). rewrite (IC3 c Hc). lia.
    + rewrite put_eq, app_length. simpl. lia.
    + rewrite put_ne by (unfold QSched, QStart, QEndPrev; lia). rewrite put_eq, app_length. simpl. lia.
    + intros k0 Hk0. rewrite put_eq.
      destruct (Nat.eq_dec k0 m) as [->|Hne].
      * rewrite nth_error_app2 by lia. rewrite IL1, Nat.sub_diag. simpl. now rewrite Hstart.
      * rewrite nth_error_app1 by lia. apply IS. lia.
    + intros k0 Hk0. rewrite put_ne by (unfold QSched, QStart, QEndPrev; lia). rewrite put_eq.
      destruct (Nat.eq_dec k0 m) as [->|Hne].
      * rewrite nth_error_app2 by lia. rewrite IL2, Nat.sub_diag. unfold end_of. rewrite Hstart. reflexivity.
      * rewrite nth_error_app1 by lia. apply IE. lia.
    + destruct (IT c H0) as [ITl _].
      rewrite put_ne by (unfold TsOut, cch, QStart; lia). rewrite put_ne by (unfold TsOut, cch, QEndPrev; lia).
      rewrite put_all_in by (apply in_map; exact H0). rewrite app_length. simpl. lia.
    + intros k0 Hk0. destruct (IT c H0) as [ITl ITn].
      rewrite put_ne by (unfold TsOut, cch, QStart; lia). rewrite put_ne by (unfold TsOut, cch, QEndPrev; lia).
      rewrite put_all_in by (apply in_map; exact H0).
      destruct (Nat.eq_dec k0 m) as [->|Hne].
      * rewrite nth_error_app2 by lia. rewrite ITl, Nat.sub_diag. unfold tsout_of. rewrite Hstart. reflexivity.
      * rewrite nth_error_app1 by lia. apply ITn. lia.
Qed.

Lemma init_loc_shift n : (n < NN)%nat -> nth (AShift n) (loc _ _ (init G)) l0 = l0.
Proof.
  intros Hn. rewrite init_loc by (unfold AShift, AsyncModel2.NACT; lia).
  unfold AShift. replace ((3 * n + 1) mod 3)%nat with 1%nat by lia. now rewrite andb_false_r.
Qed.

(* C04, start law on the net: in every reachable state (any schedule, any prefix) *)
Theorem start_law s n k : reach s -> (n < NN)%nat ->
  (k < length (nth (QStart n) (hist _ _ s) []))%nat ->
  nth_error (nth (QStart n) (hist _ _ s) []) k = start_of (hfun tok local s) n k.
Proof.
  intros Hr Hn Hk.
  destruct (reach_proj s (AShift n) Hr) as (m & cu & out & Hsolo & _ & Hout).
  rewrite init_loc_shift in Hsolo by exact Hn.
  destruct (solo_shift n _ m _ _ _ Hn Hsolo) as (_ & _ & _ & _ & L1 & _ & S1 & _).
  assert (Hq : (QStart n < NCH)%nat) by (unfold QStart, AsyncModel2.NCH; lia).
  assert (Hw : writer (QStart n) = AShift n) by (unfold QStart; rewrite writer_node by lia; reflexivity).
  assert (Hi : nth (QStart n) (hist _ _ (init G)) [] = []).
  { rewrite init_hist by exact Hq. unfold QStart. destruct (Nat.ltb_spec (4 * n + 3) (4 * NN)); [|lia].
    replace ((4 * n + 3) mod 4)%nat with 3%nat by lia. reflexivity. }
  rewrite (Hout _ Hq Hw), Hi in *. simpl app in *. apply S1. lia.
Qed.

Theorem end_prev_law s n k : reach s -> (n < NN)%nat ->
  (k < length (nth (QEndPrev n) (hist _ _ s) []))%nat ->
  nth_error (nth (QEndPrev n) (hist _ _ s) []) k =
  match k with O => Some (TEnd 0) | S k' => end_of (hfun tok local s) n k' end.
Proof.
  intros Hr Hn Hk.
  destruct (reach_proj s (AShift n) Hr) as (m & cu & out & Hsolo & _ & Hout).
  rewrite init_loc_shift in Hsolo by exact Hn.
  destruct (solo_shift n _ m _ _ _ Hn Hsolo) as (_ & _ & _ & _ & _ & L2 & _ & E1 & _).
  assert (Hq : (QEndPrev n < NCH)%nat) by (unfold QEndPrev, AsyncModel2.NCH; lia).
  assert (Hw : writer (QEndPrev n) = AShift n) by (unfold QEndPrev; rewrite writer_node by lia; reflexivity).
  assert (Hi : nth (QEndPrev n) (hist _ _ (init G)) [] = [TEnd 0]).
  { rewrite init_hist by exact Hq. unfold QEndPrev. destruct (Nat.ltb_spec (4 * n + 2) (4 * NN)); [|lia].
    replace ((4 * n + 2) mod 4)%nat with 2%nat by lia. reflexivity. }
  rewrite (Hout _ Hq Hw), Hi in *. simpl in Hk. destruct k as [|k']; [reflexivity|].
  simpl. apply E1. lia.
Qed.

(* the recurrence in closed form: what C04's first sentence says *)
Corollary start_recurrence s n k kk start d : reach s -> (n < NN)%nat ->
  nth_error (nth (QStart n) (hist _ _ s) []) k = Some (TStart kk start d) ->
  exists e M, kk = k /\ d = stream (n_delays (node G n)) k /\
    nth_error (nth (QEndPrev n) (hist _ _ s) []) k = Some (TEnd e) /\
    tsmax_at (hfun tok local s) n k = Some M /\
    start = sched_ts n k + phase_of n M (sched_ts n k) e (drift_at (hfun tok local s) n k).
Proof.
  intros Hr Hn Hk.
  assert (Hlt : (k < length (nth (QStart n) (hist _ _ s) []))%nat) by (apply nth_error_Some; congruence).
  rewrite (start_law s n k Hr Hn Hlt) in Hk. unfold start_of in Hk.
  destruct (nth_error (hfun tok local s (QSched n)) k) as [t1|] eqn:E1; [|discriminate]. destruct t1; try discriminate.
  destruct (nth_error (hfun tok local s (QEndPrev n)) k) as [t2|] eqn:E2; [|discriminate]. destruct t2; try discriminate.
  destruct (tsmax_at (hfun tok local s) n k) as [M|] eqn:E3; [|discriminate].
  injection Hk as <- <- <-.
  pose proof (schedule_law s n k _ Hr Hn E1) as Hs. injection Hs as -> ->.
  exists e, M. repeat split; auto.
Qed.
End Laws.
Print Assumptions start_recurrence.
