(* The 1/64-second lattice (DESIGN 1.1): why the models may use integer ticks.
   (a) a lattice time k/64 has at most six decimals: k/64 * 10^6 = k * 15625 is an integer, so Python's round(x, 6) - the correctly rounded
       decimal with six digits, converted back to the nearest double - returns x itself;
   (b) sums, differences, maxima and integer multiples of lattice times are lattice times (closure under what the runtimes compute);
   (c) rates 64 / period with period a power of two <= 64 give periods of whole ticks. *)
From Coq Require Import ZArith QArith Lia.
Open Scope Q_scope.

Definition tick (k : Z) : Q := inject_Z k / 64.

Lemma lattice_six_decimals k : tick k * 1000000 == inject_Z (k * 15625).
Proof. unfold tick, Qeq, Qdiv, Qmult, Qinv, inject_Z; simpl. lia. Qed.
Lemma lattice_add a b : tick a + tick b == tick (a + b).
Proof. unfold tick, Qeq, Qdiv, Qmult, Qplus, Qinv, inject_Z; simpl. lia. Qed.
Lemma lattice_sub a b : tick a - tick b == tick (a - b).
Proof. unfold tick, Qeq, Qdiv, Qmult, Qminus, Qplus, Qopp, Qinv, inject_Z; simpl. lia. Qed.
Lemma lattice_scale n a : inject_Z n * tick a == tick (n * a).
Proof. unfold tick, Qeq, Qdiv, Qmult, Qinv, inject_Z; simpl. lia. Qed.
Lemma lattice_le a b : tick a <= tick b <-> (a <= b)%Z.
Proof. unfold tick, Qle, Qdiv, Qmult, Qinv, inject_Z; simpl. lia. Qed.
Definition qmax (x y : Q) : Q := if Qle_bool x y then y else x.
Lemma lattice_max a b : qmax (tick a) (tick b) == tick (Z.max a b).
Proof.
  unfold qmax. destruct (Qle_bool (tick a) (tick b)) eqn:E.
  - apply Qle_bool_iff in E. pose proof (proj1 (lattice_le a b) E) as H. rewrite Z.max_r by exact H. reflexivity.
  - assert (H : ~ (a <= b)%Z).
    { intros H. apply (proj2 (lattice_le a b)) in H. apply Qle_bool_iff in H. congruence. }
    rewrite Z.max_l by lia. reflexivity.
Qed.
(* a node of rate 64/P Hz (P ticks per period) is scheduled at k * P + phase ticks *)
Lemma lattice_schedule k P ph : inject_Z k * tick P + tick ph == tick (k * P + ph).
Proof. rewrite lattice_scale, lattice_add. reflexivity. Qed.
Print Assumptions lattice_six_decimals.
