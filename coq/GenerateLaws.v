(* C12 proofs about the model Generate.v *)
From Coq Require Import List Arith ZArith Bool Lia.
From Rex Require Import Generate.
Import ListNotations.
Open Scope Z_scope.
Local Arguments assign : simpl never.

(* ================= vertices ================= *)
Lemma gen_vertices_length P h : forall ds s i, length (gen_vertices P h s i ds) = length ds.
Proof. induction ds; intros; simpl; auto. Qed.

Lemma gen_vertices_nth P h : forall ds start i k v, nth_error (gen_vertices P h start i ds) k = Some v ->
  v_end v = v_start v + nth k ds 0 /\ (v_seq v = Z.of_nat (i + k) \/ v_seq v = -1) /\ (v_seq v = -1 <-> h < v_end v) /\
  (k = 0%nat -> v_start v = start).
Proof.
  induction ds as [|d ds IH]; intros start i k v H; [destruct k; discriminate|].
  destruct k as [|k]; simpl in H.
  - injection H as <-. simpl. unfold mask_seq. destruct (Z.ltb_spec h (start + d)); repeat split; try lia.
  - destruct (IH _ _ _ _ H) as (A & B & C & _).
    split; [exact A|]. split; [replace (i + S k)%nat with (S i + k)%nat by lia; exact B|]. split; [exact C|lia].
Qed.

Lemma gen_vertices_step P h : forall ds start i k v v',
  nth_error (gen_vertices P h start i ds) k = Some v -> nth_error (gen_vertices P h start i ds) (S k) = Some v' ->
  v_start v' = Z.max (v_end v) (v_start v + P).
Proof.
  induction ds as [|d ds IH]; intros start i k v v' H H'; [destruct k; discriminate|].
  destruct k as [|k]; simpl in H, H'.
  - injection H as <-. simpl. destruct ds as [|d' ds]; [discriminate|]. simpl in H'. injection H' as <-. reflexivity.
  - eapply IH; eauto.
Qed.

Corollary gen_no_overlap P h ds start i k v v' :
  nth_error (gen_vertices P h start i ds) k = Some v -> nth_error (gen_vertices P h start i ds) (S k) = Some v' ->
  v_end v <= v_start v' /\ v_start v + P <= v_start v'.
Proof. intros H H'. rewrite (gen_vertices_step _ _ _ _ _ _ _ _ H H'). lia. Qed.

Lemma nth_error_lt_some {A} (l : list A) k j x : nth_error l k = Some x -> (j <= k)%nat -> exists y, nth_error l j = Some y.
Proof.
  intros H Hj. destruct (nth_error l j) eqn:E; [eauto|]. apply nth_error_None in E.
  assert (nth_error l k <> None) by congruence. apply nth_error_Some in H0. lia.
Qed.

(* any two vertices of a node: the later one starts after the earlier one ended and at least (k - j) periods later *)
Lemma gen_far P h ds start i : 0 <= P -> forall m j v v',
  nth_error (gen_vertices P h start i ds) j = Some v -> nth_error (gen_vertices P h start i ds) (j + S m) = Some v' ->
  v_end v <= v_start v' /\ v_start v + Z.of_nat (S m) * P <= v_start v'.
Proof.
  intros HP. induction m as [|m IH]; intros j v v' H H'.
  - replace (j + 1)%nat with (S j) in H' by lia. pose proof (gen_no_overlap _ _ _ _ _ _ _ _ H H'). lia.
  - destruct (nth_error_lt_some _ _ (j + S m)%nat _ H') as [w Hw]; [lia|].
    destruct (IH _ _ _ H Hw) as [A B].
    replace (j + S (S m))%nat with (S (j + S m)) in H' by lia.
    pose proof (gen_no_overlap _ _ _ _ _ _ _ _ Hw H'). nia.
Qed.

Lemma gen_start_lower P h ds start i k v : 0 <= P ->
  nth_error (gen_vertices P h start i ds) k = Some v -> start + Z.of_nat k * P <= v_start v.
Proof.
  intros HP H. destruct k as [|k].
  - destruct (gen_vertices_nth _ _ _ _ _ _ _ H) as (_ & _ & _ & E). rewrite E by reflexivity. lia.
  - destruct (nth_error_lt_some _ _ 0%nat _ H) as [w Hw]; [lia|].
    destruct (gen_vertices_nth _ _ _ _ _ _ _ Hw) as (_ & _ & _ & E). specialize (E eq_refl).
    pose proof (gen_far P h ds start i HP k 0%nat w v Hw H). lia.
Qed.

(* with non-negative delays the end times never decrease: masked vertices form a suffix, valid ones end within the horizon *)
Lemma gen_end_mono P h ds start i k v v' : 0 <= P -> (forall d, In d ds -> 0 <= d) ->
  nth_error (gen_vertices P h start i ds) k = Some v -> nth_error (gen_vertices P h start i ds) (S k) = Some v' ->
  v_end v <= v_end v'.
Proof.
  intros HP Hd H H'. destruct (gen_no_overlap _ _ _ _ _ _ _ _ H H') as [A _].
  destruct (gen_vertices_nth _ _ _ _ _ _ _ H') as (E & _).
  assert (0 <= nth (S k) ds 0).
  { apply Hd. apply nth_In. rewrite <- (gen_vertices_length P h ds start i). apply nth_error_Some. congruence. }
  lia.
Qed.

Lemma gen_masked_suffix P h ds start i : 0 <= P -> (forall d, In d ds -> 0 <= d) -> forall m k v v',
  nth_error (gen_vertices P h start i ds) k = Some v -> nth_error (gen_vertices P h start i ds) (k + m) = Some v' ->
  v_seq v = -1 -> v_seq v' = -1.
Proof.
  intros HP Hd. induction m as [|m IH]; intros k v v' H H' Hs.
  - replace (k + 0)%nat with k in H' by lia. congruence.
  - destruct (nth_error_lt_some _ _ (k + m)%nat _ H') as [w Hw]; [lia|].
    specialize (IH _ _ _ H Hw Hs). replace (k + S m)%nat with (S (k + m)) in H' by lia.
    pose proof (gen_end_mono _ _ _ _ _ _ _ _ HP Hd Hw H').
    destruct (gen_vertices_nth _ _ _ _ _ _ _ Hw) as (_ & _ & C & _).
    destruct (gen_vertices_nth _ _ _ _ _ _ _ H') as (_ & _ & C' & _). apply C'. apply C in IH. lia.
Qed.

Lemma gen_valid P h ds start k v : nth_error (gen_vertices P h start 0 ds) k = Some v -> v_seq v <> -1 ->
  v_seq v = Z.of_nat k /\ v_end v <= h.
Proof.
  intros H Hs. destruct (gen_vertices_nth _ _ _ _ _ _ _ H) as (_ & B & C & _). split; [destruct B; [simpl in *; lia|contradiction]|].
  destruct (Z.le_gt_cases (v_end v) h); [assumption|]. exfalso. apply Hs, C. lia.
Qed.

(* the padded length ceil(T/P)+1 is enough: any further vertex would end after the horizon *)
Lemma ceil_div_ge T P : 0 < P -> T <= ceil_div T P * P.
Proof.
  intros HP. unfold ceil_div. pose proof (Z.div_mod (- T) P ltac:(lia)) as E. pose proof (Z.mod_pos_bound (- T) P HP) as B.
  set (q := - T / P) in *. set (r := (- T) mod P) in *. rewrite Z.mul_opp_l, (Z.mul_comm q P). lia.
Qed.

Lemma gen_complete T P ds start k v : 0 < P -> 0 <= start -> (forall d, In d ds -> 0 <= d) ->
  nth_error (gen_vertices P T start 0 ds) k = Some v -> num_steps T P <= Z.of_nat k -> v_seq v = -1.
Proof.
  intros HP Hs Hd H Hk. assert (HP0 : 0 <= P) by lia. pose proof (gen_start_lower _ _ _ _ _ _ _ HP0 H) as L.
  destruct (gen_vertices_nth _ _ _ _ _ _ _ H) as (E & _ & C & _). apply C.
  assert (0 <= nth k ds 0).
  { apply Hd. apply nth_In. rewrite <- (gen_vertices_length P T ds start 0%nat). apply nth_error_Some. congruence. }
  pose proof (ceil_div_ge T P HP). unfold num_steps in Hk. nia.
Qed.

(* ================= edge assignment ================= *)
Lemma while_seq_spec skip starts recv : forall fuel s,
  (length starts <= s + fuel)%nat -> (s < length starts)%nat ->
  let r := while_seq fuel skip starts s recv in
  (s <= r < length starts)%nat /\ (forall j, (s <= j < r)%nat -> larger skip starts j recv = false) /\
  (larger skip starts r recv = true \/ r = (length starts - 1)%nat).
Proof.
  induction fuel as [|fuel IH]; intros s Hf Hs; simpl.
  - lia.
  - destruct (larger skip starts s recv) eqn:El; simpl.
    + repeat split; try lia. now left.
    + destruct (Nat.leb_spec (length starts) (S s)).
      * repeat split; try lia.
      * destruct (IH (S s)) as (A & B & C); [lia|lia|]. repeat split; try lia; auto.
        intros j Hj. destruct (Nat.eq_dec j s) as [->|]; [exact El|]. apply B. lia.
Qed.

(* what a correct assignment of one message is: the first step that fits, or -1 when none does *)
Definition first_step (skip : bool) (starts : list Z) (recv : option Z) (si : Z) : Prop :=
  (si = -1 /\ forall j, (j < length starts)%nat -> larger skip starts j recv = false) \/
  (exists s, si = Z.of_nat s /\ (s < length starts)%nat /\ larger skip starts s recv = true /\
             forall j, (j < s)%nat -> larger skip starts j recv = false).

Theorem assign_first_step skip starts carry recv :
  (carry < length starts)%nat ->
  (forall j, (j < carry)%nat -> larger skip starts j recv = false) ->
  first_step skip starts recv (snd (assign skip starts carry recv)) /\
  (carry <= fst (assign skip starts carry recv) < length starts)%nat /\
  (forall j, (carry <= j < fst (assign skip starts carry recv))%nat -> larger skip starts j recv = false).
Proof.
  intros Hc Hbefore. unfold assign, first_step. simpl.
  destruct (while_seq_spec skip starts recv (length starts) carry) as (A & B & C); [lia|lia|].
  set (s := while_seq (length starts) skip starts carry recv) in *.
  split; [|split; [exact A|exact B]].
  destruct (larger skip starts s recv) eqn:E.
  - right. exists s. repeat split; auto; try lia. intros j Hj. destruct (le_lt_dec carry j); [apply B; lia|apply Hbefore; lia].
  - left. split; [reflexivity|]. intros j Hj. destruct C as [C|C]; [congruence|].
    destruct (le_lt_dec carry j).
    + destruct (Nat.eq_dec j s) as [->|]; [exact E|apply B; lia].
    + apply Hbefore; lia.
Qed.

(* always (overtaking or not): an assigned step fits the arrival *)
Lemma assign_fits skip starts carry recv : (carry < length starts)%nat ->
  let '(s, si) := assign skip starts carry recv in
  (carry <= s < length starts)%nat /\ (si = -1 \/ (si = Z.of_nat s /\ larger skip starts s recv = true)).
Proof.
  intros Hc. unfold assign. destruct (while_seq_spec skip starts recv (length starts) carry) as (A & _ & _); [lia|lia|].
  split; [exact A|]. destruct (larger _ _ _ _); auto.
Qed.

(* order on arrival times, None = +inf (unsent) *)
Definition ole (a b : option Z) : Prop :=
  match a, b with _, None => True | None, Some _ => False | Some x, Some y => x <= y end.
Lemma larger_mono skip starts j a b : ole a b -> larger skip starts j a = false -> larger skip starts j b = false.
Proof.
  unfold larger, fits, ole. destruct a as [x|], b as [y|]; try tauto; intros H; destruct skip; intros E.
  - apply Z.ltb_ge in E. apply Z.ltb_ge. lia.
  - apply Z.leb_gt in E. apply Z.leb_gt. lia.
Qed.

Lemma scan_assign_cons skip starts c r0 rs :
  scan_assign skip starts c (r0 :: rs) = snd (assign skip starts c r0) :: scan_assign skip starts (fst (assign skip starts c r0)) rs.
Proof. cbn [scan_assign]. destruct (assign skip starts c r0). reflexivity. Qed.

(* the carried scan: a message that no earlier message overtakes gets the first step that fits its own arrival *)
Theorem scan_first_step skip starts : forall rs c pre,
  (c < length starts)%nat ->
  (forall j, (j < c)%nat -> exists r', In r' pre /\ larger skip starts j r' = false) ->
  forall k r, nth_error rs k = Some r ->
    (forall r', In r' (pre ++ firstn k rs) -> ole r' r) ->
    first_step skip starts r (nth k (scan_assign skip starts c rs) (-1)).
Proof.
  induction rs as [|r0 rs IH]; intros c pre Hc Hpre k r Hk Hov; [destruct k; discriminate|].
  rewrite scan_assign_cons. destruct (assign skip starts c r0) as [s si] eqn:Ea.
  destruct k as [|k]; simpl in *.
  - injection Hk as ->. rewrite app_nil_r in Hov.
    assert (Hb : forall j, (j < c)%nat -> larger skip starts j r = false).
    { intros j Hj. destruct (Hpre j Hj) as (r' & Hin & Hl). eapply larger_mono; [apply Hov, Hin|exact Hl]. }
    pose proof (assign_first_step skip starts c r Hc Hb) as (F & _). rewrite Ea in F. exact F.
  - pose proof (assign_fits skip starts c r0 Hc) as Hf. rewrite Ea in Hf. destruct Hf as (Hs & _).
    apply (IH s (pre ++ [r0])); [lia| |exact Hk|].
    + intros j Hj. destruct (le_lt_dec c j) as [Hcj|Hcj].
      * exists r0. split; [apply in_or_app; right; left; reflexivity|].
        destruct (while_seq_spec skip starts r0 (length starts) c) as (_ & B & _); [lia|lia|].
        unfold assign in Ea. injection Ea as <- _. apply B. lia.
      * destruct (Hpre j Hcj) as (r' & Hin & Hl). exists r'. split; [apply in_or_app; left; exact Hin|exact Hl].
    + intros r' Hin. apply Hov. rewrite <- app_assoc in Hin. exact Hin.
Qed.

(* always: every entry of the scan is -1 or a step that fits, and assigned steps never decrease *)
Lemma scan_fits skip starts : forall rs c k r, (c < length starts)%nat -> nth_error rs k = Some r ->
  let si := nth k (scan_assign skip starts c rs) (-1) in
  si = -1 \/ (exists s, si = Z.of_nat s /\ (c <= s < length starts)%nat /\ larger skip starts s r = true).
Proof.
  induction rs as [|r0 rs IH]; intros c k r Hc Hk; [destruct k; discriminate|].
  rewrite scan_assign_cons. pose proof (assign_fits skip starts c r0 Hc) as Hf. destruct (assign skip starts c r0) as [s si] eqn:Ea.
  destruct Hf as (Hs & Hsi). destruct k as [|k]; simpl in *.
  - injection Hk as ->. destruct Hsi as [->|[-> Hl]]; [left; reflexivity|right; exists s; auto].
  - destruct (IH s k r ltac:(lia) Hk) as [E|(s' & E & Hs' & Hl)]; [left; exact E|right; exists s'; repeat split; auto; lia].
Qed.
Lemma scan_length skip starts : forall rs c, length (scan_assign skip starts c rs) = length rs.
Proof. induction rs; intros; [reflexivity|]. rewrite scan_assign_cons. simpl. f_equal. apply IHrs. Qed.

(* the independent specification first_fit computes first_step *)
Lemma first_fit_spec skip r : forall starts i,
  match first_fit skip starts i r with
  | Some s => (i <= s < i + length starts)%nat /\ fits skip (nth (s - i) starts 0) r = true /\
              forall j, (j < s - i)%nat -> fits skip (nth j starts 0) r = false
  | None => forall j, (j < length starts)%nat -> fits skip (nth j starts 0) r = false end.
Proof.
  induction starts as [|t ts IH]; intros i; simpl; [intros; lia|].
  destruct (fits skip t r) eqn:E.
  - replace (i - i)%nat with 0%nat by lia. split; [lia|]. split; [exact E|]. intros; lia.
  - specialize (IH (S i)). destruct (first_fit skip ts (S i) r) as [s|].
    + destruct IH as (A & B & C). replace (s - i)%nat with (S (s - S i)) by lia. split; [lia|]. split; [exact B|].
      intros [|j] Hj; [exact E|]. apply C. lia.
    + intros [|j] Hj; [exact E|]. apply IH. lia.
Qed.
Lemma first_step_first_fit skip starts r si : first_step skip starts (Some r) si ->
  si = match first_fit skip starts 0 r with Some s => Z.of_nat s | None => -1 end.
Proof.
  pose proof (first_fit_spec skip r starts 0) as H. unfold first_step, larger. intros [[-> Hn]|(s & -> & Hs & Hl & Hb)].
  - destruct (first_fit skip starts 0 r) as [s|]; [|reflexivity]. destruct H as (A & B & _).
    rewrite Nat.sub_0_r in B. rewrite Hn in B by lia. discriminate.
  - destruct (first_fit skip starts 0 r) as [s'|].
    + destruct H as (A & B & C). rewrite Nat.sub_0_r in *. f_equal.
      destruct (lt_eq_lt_dec s s') as [[L|E]|L]; [|congruence|].
      * rewrite C in Hl by lia. discriminate.
      * rewrite Hb in B by lia. discriminate.
    + rewrite H in Hl by lia. discriminate.
Qed.

(* ================= edges of one connection ================= *)
Lemma list_max_ge l : forall x, In x l -> x <= list_max l.
Proof.
  destruct l as [|a l]; [contradiction|]. unfold list_max.
  assert (G : forall l a, a <= fold_left Z.max l a /\ forall x, In x l -> x <= fold_left Z.max l a).
  { induction l0 as [|b l0 IH]; intros a0; simpl; [split; [lia|contradiction]|].
    destruct (IH (Z.max a0 b)) as [A B]. split; [lia|]. intros x [<-|Hx]; [lia|auto]. }
  destruct (G l a) as [A B]. intros x [<-|Hx]; [exact A|exact (B x Hx)].
Qed.
Lemma list_max_in l : l <> [] -> In (list_max l) l.
Proof.
  destruct l as [|a l]; [congruence|]. intros _. unfold list_max.
  assert (G : forall l a, fold_left Z.max l a = a \/ In (fold_left Z.max l a) l).
  { induction l0 as [|b l0 IH]; intros a0; simpl; [left; reflexivity|].
    destruct (IH (Z.max a0 b)) as [E|E]; [|right; right; exact E]. rewrite E. destruct (Z.max_spec a0 b) as [[_ ->]|[_ ->]]; auto. }
  destruct (G l a) as [->|H]; [left; reflexivity|right; exact H].
Qed.

Definition dv : vtx := {| v_seq := -1; v_start := 0; v_end := 0 |}.
(* receiver vertices whose valid entries are numbered by position and form a prefix (proved of generated vertices below) *)
Definition prefix_numbered (ins : list vtx) : Prop :=
  (forall s, (s < length ins)%nat -> v_seq (nth s ins dv) = Z.of_nat s \/ v_seq (nth s ins dv) = -1) /\
  (forall s s', (s <= s' < length ins)%nat -> v_seq (nth s ins dv) = -1 -> v_seq (nth s' ins dv) = -1).
Lemma prefix_numbered_mx ins s : prefix_numbered ins -> (s < length ins)%nat ->
  (list_max (map v_seq ins) <? Z.of_nat s) = (v_seq (nth s ins dv) =? -1).
Proof.
  intros [N Pf] Hs. destruct (N s Hs) as [E|E]; rewrite E.
  - assert (Z.of_nat s <= list_max (map v_seq ins)). { apply list_max_ge. rewrite <- E. apply in_map, nth_In, Hs. }
    destruct (Z.ltb_spec (list_max (map v_seq ins)) (Z.of_nat s)); [lia|]. symmetry. apply Z.eqb_neq. lia.
  - rewrite Z.eqb_refl. apply Z.ltb_lt.
    assert (Hne : map v_seq ins <> []) by (destruct ins; simpl in *; [lia|congruence]).
    apply list_max_in in Hne. apply in_map_iff in Hne. destruct Hne as (w & Hw & Hin).
    apply (In_nth _ _ dv) in Hin. destruct Hin as (j & Hj & <-). rewrite <- Hw.
    destruct (N j Hj) as [F|F]; rewrite F; [|lia].
    destruct (le_lt_dec s j); [|lia]. rewrite (Pf s j) in F by (auto; lia). lia.
Qed.
Lemma gen_prefix_numbered P h ds start : 0 <= P -> (forall d, In d ds -> 0 <= d) -> prefix_numbered (gen_vertices P h start 0 ds).
Proof.
  intros HP Hd. split.
  - intros s Hs. destruct (nth_error (gen_vertices P h start 0 ds) s) eqn:E; [|apply nth_error_None in E; lia].
    rewrite (nth_error_nth _ _ _ E). destruct (gen_vertices_nth _ _ _ _ _ _ _ E) as (_ & B & _). simpl in B. exact B.
  - intros s s' Hs. destruct (nth_error (gen_vertices P h start 0 ds) s) eqn:E; [|apply nth_error_None in E; lia].
    destruct (nth_error (gen_vertices P h start 0 ds) s') eqn:E'; [|apply nth_error_None in E'; lia].
    rewrite (nth_error_nth _ _ _ E), (nth_error_nth _ _ _ E'). replace s' with (s + (s' - s))%nat in E' by lia.
    eapply gen_masked_suffix; eauto.
Qed.

Lemma nth_error_firstn_some {A} : forall k (l : list A) m x, nth_error (firstn k l) m = Some x -> (m < k)%nat /\ nth_error l m = Some x.
Proof.
  induction k as [|k IH]; intros l m x H; [destruct m; discriminate|].
  destruct l as [|a l]; [destruct m; discriminate|]. destruct m; simpl in *; [split; [lia|exact H]|].
  destruct (IH _ _ _ H). split; [lia|assumption].
Qed.
Lemma nth_error_combine {A B} : forall (l : list A) (l' : list B) k x y,
  nth_error l k = Some x -> nth_error l' k = Some y -> nth_error (combine l l') k = Some (x, y).
Proof.
  induction l as [|a l IH]; intros l' k x y H H'; [destruct k; discriminate|].
  destruct l' as [|b l']; [destruct k; discriminate|]. destruct k; simpl in *; [congruence|auto].
Qed.

(* the k-th entry of a generated edge array *)
Lemma gen_edges_nth skip hor outs cs ins k v c : length cs = length outs ->
  nth_error outs k = Some v -> nth_error cs k = Some c ->
  nth_error (gen_edges skip hor outs cs ins) k =
    Some (mk_edge hor (list_max (map v_seq ins))
            (v, c, nth k (scan_assign skip (map v_start ins) 0 (map recv_of (combine outs cs))) (-1))).
Proof.
  intros Hl Hv Hc. unfold gen_edges. rewrite nth_error_map.
  set (sc := scan_assign _ _ _ _).
  assert (Hsc : length sc = length outs).
  { unfold sc. rewrite scan_length, map_length, combine_length. lia. }
  assert (Hk : (k < length sc)%nat). { rewrite Hsc. apply nth_error_Some. congruence. }
  destruct (nth_error sc k) eqn:E; [|apply nth_error_None in E; lia].
  rewrite (nth_error_combine _ _ _ _ _ (nth_error_combine _ _ _ _ _ Hv Hc) E). simpl. rewrite (nth_error_nth _ _ _ E). reflexivity.
Qed.

(* clause "received one sampled non-negative communication delay after the sender finished"; masks of unsent messages *)
Theorem gen_edges_recv skip hor outs cs ins k v c e : length cs = length outs ->
  nth_error outs k = Some v -> nth_error cs k = Some c -> nth_error (gen_edges skip hor outs cs ins) k = Some e ->
  (v_seq v <> -1 -> e_recv e = v_end v + c) /\
  (v_seq v = -1 -> e_recv e = -1 /\ e_out e = -1 /\ e_in e = -1) /\
  (e_out e = v_seq v \/ e_out e = -1) /\ (e_out e <> -1 -> v_end v <= hor) /\ (e_in e <> -1 -> e_out e <> -1).
Proof.
  intros Hl Hv Hc He. rewrite (gen_edges_nth _ _ _ _ _ _ _ _ Hl Hv Hc) in He. injection He as <-.
  unfold mk_edge, late, sent. simpl. destruct (Z.eqb_spec (v_seq v) (-1)) as [E|E]; simpl.
  - repeat split; try congruence; auto; destruct (_ <? _); auto.
  - destruct (Z.ltb_spec hor (v_end v)); repeat split; try congruence; try lia; auto; destruct (_ <? _); try congruence; auto.
Qed.

(* always: a received message is consumed by a valid receiver step that starts at/after (strictly after with skip) its arrival *)
Theorem gen_edges_fits skip hor outs cs ins k v c e : length cs = length outs -> ins <> [] ->
  nth_error outs k = Some v -> nth_error cs k = Some c -> nth_error (gen_edges skip hor outs cs ins) k = Some e ->
  e_in e <> -1 ->
  exists s, e_in e = Z.of_nat s /\ (s < length ins)%nat /\ fits skip (v_start (nth s ins dv)) (v_end v + c) = true /\
            Z.of_nat s <= list_max (map v_seq ins) /\ v_seq v <> -1 /\ v_end v <= hor.
Proof.
  intros Hl Hne Hv Hc He Hin. rewrite (gen_edges_nth _ _ _ _ _ _ _ _ Hl Hv Hc) in He. injection He as <-.
  assert (Hr : nth_error (map recv_of (combine outs cs)) k = Some (recv_of (v, c))).
  { rewrite nth_error_map, (nth_error_combine _ _ _ _ _ Hv Hc). reflexivity. }
  assert (H0 : (0 < length (map v_start ins))%nat) by (rewrite map_length; destruct ins; simpl; [congruence|lia]).
  pose proof (scan_fits skip (map v_start ins) _ 0%nat k _ H0 Hr) as F. cbv zeta in F.
  unfold mk_edge in Hin |- *. simpl in Hin |- *.
  set (cl := nth k _ (-1)) in *.
  destruct (Z.ltb_spec (list_max (map v_seq ins)) cl); [congruence|].
  unfold late, sent in *. destruct (Z.eqb_spec (v_seq v) (-1)); simpl in *; [congruence|].
  destruct (Z.ltb_spec hor (v_end v)); [congruence|].
  destruct F as [F|(s & Es & Hs & Hlg)]; [congruence|]. exists s. rewrite map_length in Hs.
  unfold larger, recv_of, sent in Hlg. simpl in Hlg. destruct (Z.eqb_spec (v_seq v) (-1)); [contradiction|]. simpl in Hlg.
  replace 0 with (v_start dv) in Hlg by reflexivity. rewrite map_nth in Hlg.
  repeat split; auto; lia.
Qed.

(* the property's clause: a message no earlier message overtakes is consumed by the FIRST such step (spec_seq_in) *)
Theorem gen_edges_first_step skip hor outs cs ins k v c e : length cs = length outs -> ins <> [] -> prefix_numbered ins ->
  nth_error outs k = Some v -> nth_error cs k = Some c -> nth_error (gen_edges skip hor outs cs ins) k = Some e ->
  (forall m vm cm, (m < k)%nat -> nth_error outs m = Some vm -> nth_error cs m = Some cm -> ole (recv_of (vm, cm)) (recv_of (v, c))) ->
  e_in e = spec_seq_in skip hor ins v c.
Proof.
  intros Hl Hne Hpn Hv Hc He Hov. rewrite (gen_edges_nth _ _ _ _ _ _ _ _ Hl Hv Hc) in He. injection He as <-.
  assert (Hr : nth_error (map recv_of (combine outs cs)) k = Some (recv_of (v, c))).
  { rewrite nth_error_map, (nth_error_combine _ _ _ _ _ Hv Hc). reflexivity. }
  assert (H0 : (0 < length (map v_start ins))%nat) by (rewrite map_length; destruct ins; simpl; [congruence|lia]).
  pose proof (scan_first_step skip (map v_start ins) (map recv_of (combine outs cs)) 0%nat [] H0 ltac:(intros; lia) k _ Hr) as F.
  unfold mk_edge, spec_seq_in. simpl. destruct (late hor v) eqn:El.
  { destruct (_ <? _); reflexivity. }
  assert (Hsent : sent v = true) by (unfold late in El; destruct (sent v); [reflexivity|discriminate]).
  assert (Er : recv_of (v, c) = Some (v_end v + c)) by (unfold recv_of; simpl; rewrite Hsent; reflexivity).
  rewrite Er in F.
  assert (Hov' : forall r', In r' ([] ++ firstn k (map recv_of (combine outs cs))) -> ole r' (Some (v_end v + c))).
  { simpl. intros r' Hin. apply (In_nth_error) in Hin. destruct Hin as (m & Hm).
    apply nth_error_firstn_some in Hm. destruct Hm as [Hmk Hm].
    rewrite nth_error_map in Hm. destruct (nth_error (combine outs cs) m) as [[vm cm]|] eqn:Em; [|discriminate].
    injection Hm as <-. rewrite <- Er.
    assert (nth_error outs m = Some vm /\ nth_error cs m = Some cm) as [A B].
    { clear - Em. revert cs m Em. induction outs as [|a outs IH]; intros [|b cs] m Em; try (destruct m; discriminate).
      destruct m; simpl in *; [injection Em as -> ->; auto|apply IH; exact Em]. }
    eapply Hov; eauto. }
  specialize (F Hov'). apply first_step_first_fit in F. rewrite F.
  pose proof (first_fit_spec skip (v_end v + c) (map v_start ins) 0) as S.
  destruct (first_fit skip (map v_start ins) 0 (v_end v + c)) as [s|].
  - destruct S as (A & _). rewrite map_length in A. simpl in A.
    rewrite (prefix_numbered_mx ins s Hpn) by lia. unfold dv. destruct (_ =? -1); reflexivity.
  - destruct (Z.ltb_spec (list_max (map v_seq ins)) (-1)); reflexivity.
Qed.

(* the hypothesis "not overtaken" is necessary on the pinned code: DESIGN F6 *)
Definition f6_outs := [ {| v_seq := 0; v_start := 0; v_end := 1 |}; {| v_seq := 1; v_start := 16; v_end := 17 |} ].
Definition f6_ins := gen_vertices 8 100 0 0 [1; 1; 1; 1; 1; 1; 1; 1].
Lemma first_step_overtaken_refuted :
  exists skip hor outs cs ins k v c e, length cs = length outs /\ ins <> [] /\ prefix_numbered ins /\
    nth_error outs k = Some v /\ nth_error cs k = Some c /\ nth_error (gen_edges skip hor outs cs ins) k = Some e /\
    (forall x, In x cs -> 0 <= x) /\ e_in e <> spec_seq_in skip hor ins v c.
Proof.
  exists false, 100, f6_outs, [40; 0], f6_ins, 1%nat, {| v_seq := 1; v_start := 16; v_end := 17 |}, 0.
  eexists. split; [reflexivity|]. split; [discriminate|]. split; [apply gen_prefix_numbered; [lia|]; simpl; intuition lia|].
  split; [reflexivity|]. split; [reflexivity|]. split; [reflexivity|]. split; [simpl; intuition lia|]. vm_compute. discriminate.
Qed.

(* ================= augmentation ================= *)
Lemma lookupV_app k m m' : lookupV k (m ++ m') = match lookupV k m with Some x => Some x | None => lookupV k m' end.
Proof. induction m as [|[k' x] m IH]; simpl; [reflexivity|]. destruct (k =? k'); auto. Qed.
Lemma lookupE_app k m m' : lookupE k (m ++ m') = match lookupE k m with Some x => Some x | None => lookupE k m' end.
Proof. induction m as [|[k' x] m IH]; simpl; [reflexivity|]. destruct (keq k k'); auto. Qed.
Lemma keq_spec a b : keq a b = true <-> a = b.
Proof. destruct a, b. unfold keq. simpl. rewrite andb_true_iff, !Z.eqb_eq. split; [intros [-> ->]; reflexivity|intros E; injection E; auto]. Qed.

Lemma add_node_keeps hor vs n k l : lookupV k vs = Some l -> lookupV k (add_node hor vs n) = Some l.
Proof. intros H. unfold add_node. destruct (lookupV (n_id n) vs); [exact H|]. rewrite lookupV_app, H. reflexivity. Qed.
Lemma add_nodes_keeps hor nodes : forall vs k l, lookupV k vs = Some l -> lookupV k (fold_left (add_node hor) nodes vs) = Some l.
Proof. induction nodes as [|n nodes IH]; intros vs k l H; simpl; [exact H|]. apply IH, add_node_keeps, H. Qed.
Lemma add_conn_keeps hor vs es c k l : lookupE k es = Some l -> lookupE k (add_conn hor vs es c) = Some l.
Proof.
  intros H. unfold add_conn. destruct (lookupE (c_out c, c_in c) es); [exact H|].
  destruct (new_edges hor vs c); [|exact H]. rewrite lookupE_app, H. reflexivity.
Qed.
Lemma add_conns_keeps hor vs conns : forall es k l, lookupE k es = Some l -> lookupE k (fold_left (add_conn hor vs) conns es) = Some l.
Proof. induction conns as [|c conns IH]; intros es k l H; simpl; [exact H|]. apply IH, add_conn_keeps, H. Qed.

(* augmenting keeps every existing vertex array and edge array unchanged *)
Theorem augment_keeps hor g nodes conns :
  (forall k l, lookupV k (fst g) = Some l -> lookupV k (fst (augment hor g nodes conns)) = Some l) /\
  (forall k l, lookupE k (snd g) = Some l -> lookupE k (snd (augment hor g nodes conns)) = Some l).
Proof. split; intros k l H; unfold augment; simpl; [apply add_nodes_keeps|apply add_conns_keeps]; exact H. Qed.

(* ... and adds exactly the missing nodes: a vertex array absent from the existing graph is present afterwards iff a node of
   that id is configured, and is then the freshly generated one of the first such node *)
Fixpoint find_node (k : Z) (nodes : list nodecfg) : option nodecfg :=
  match nodes with [] => None | n :: ns => if k =? n_id n then Some n else find_node k ns end.
Lemma add_nodes_missing hor nodes : forall vs k, lookupV k vs = None ->
  lookupV k (fold_left (add_node hor) nodes vs) = option_map (new_vertices hor) (find_node k nodes).
Proof.
  induction nodes as [|n nodes IH]; intros vs k H; simpl; [exact H|].
  destruct (Z.eqb_spec k (n_id n)) as [->|Hne].
  - simpl. apply add_nodes_keeps. unfold add_node. rewrite H, lookupV_app, H. simpl. rewrite Z.eqb_refl. reflexivity.
  - apply IH. unfold add_node. destruct (lookupV (n_id n) vs); [exact H|]. rewrite lookupV_app, H. simpl.
    destruct (Z.eqb_spec k (n_id n)); [contradiction|reflexivity].
Qed.
Fixpoint find_conn (k : Z * Z) (conns : list conncfg) : option conncfg :=
  match conns with [] => None | c :: cs => if keq k (c_out c, c_in c) then Some c else find_conn k cs end.
Lemma add_conns_missing hor vs conns : forall es k, lookupE k es = None ->
  (forall c, In c conns -> new_edges hor vs c <> None) ->       (* both ends of every configured connection are present *)
  lookupE k (fold_left (add_conn hor vs) conns es) =
    match find_conn k conns with Some c => new_edges hor vs c | None => None end.
Proof.
  induction conns as [|c conns IH]; intros es k H Hcl; simpl; [exact H|].
  destruct (keq k (c_out c, c_in c)) eqn:E.
  - apply keq_spec in E. subst k. destruct (new_edges hor vs c) as [l|] eqn:En; [|exfalso; apply (Hcl c); [left; reflexivity|exact En]].
    apply add_conns_keeps. unfold add_conn. rewrite H, En, lookupE_app, H. simpl.
    replace (keq (c_out c, c_in c) (c_out c, c_in c)) with true by (symmetry; apply keq_spec; reflexivity). reflexivity.
  - apply IH; [|intros c' Hc'; apply Hcl; right; exact Hc'].
    unfold add_conn. destruct (lookupE (c_out c, c_in c) es); [exact H|]. destruct (new_edges hor vs c); [|exact H].
    rewrite lookupE_app, H. simpl. rewrite E. reflexivity.
Qed.

Theorem augment_adds_exactly_missing hor g nodes conns :
  let g' := augment hor g nodes conns in
  (forall c, In c conns -> new_edges hor (fst g') c <> None) ->
  (forall k, lookupV k (fst g') = match lookupV k (fst g) with Some l => Some l
                                  | None => option_map (new_vertices hor) (find_node k nodes) end) /\
  (forall k, lookupE k (snd g') = match lookupE k (snd g) with Some l => Some l
                                  | None => match find_conn k conns with Some c => new_edges hor (fst g') c | None => None end end).
Proof.
  intros g' Hcl. split; intros k.
  - destruct (lookupV k (fst g)) eqn:E; [apply augment_keeps, E|]. apply add_nodes_missing, E.
  - destruct (lookupE k (snd g)) eqn:E; [apply augment_keeps, E|]. unfold g', augment. simpl. apply add_conns_missing; [exact E|exact Hcl].
Qed.

(* ================= acyclicity ================= *)
Section Acyclic.
Variables (V : Type) (tstart : V -> Z) (rank : V -> Z) (edge : V -> V -> Prop).
Hypothesis edge_law : forall u v, edge u v -> tstart u < tstart v \/ (tstart u = tstart v /\ rank u < rank v).
Inductive tc : V -> V -> Prop := tc1 u v : edge u v -> tc u v | tcS u v w : edge u v -> tc v w -> tc u w.
Lemma tc_potential u v : tc u v -> tstart u < tstart v \/ (tstart u = tstart v /\ rank u < rank v).
Proof.
  induction 1 as [u v H|u v w H _ IH]; [apply edge_law; exact H|].
  apply edge_law in H. lia.
Qed.
Theorem potential_acyclic v : ~ tc v v.
Proof. intros H. apply tc_potential in H. lia. Qed.
End Acyclic.

(* ---- acyclicity of whole generated / augmented graphs ---- *)
Definition vx := (Z * nat)%type.      (* a vertex: node id, position (= seq for valid vertices) *)
Definition vat (vs : vmap) (x : vx) : vtx := match lookupV (fst x) vs with Some l => nth (snd x) l dv | None => dv end.
(* the edges rex.utils.to_networkx_graph builds: stateful edges between consecutive valid vertices, one edge per message
   with seq_out <> -1 and seq_in <> -1 *)
Inductive gedge (g : graph) : vx -> vx -> Prop :=
| ge_state n l k : lookupV n (fst g) = Some l -> (S k < length l)%nat -> v_seq (nth (S k) l dv) <> -1 -> gedge g (n, k) (n, S k)
| ge_msg o i es e : lookupE (o, i) (snd g) = Some es -> In e es -> e_out e <> -1 -> e_in e <> -1 ->
    gedge g (o, Z.to_nat (e_out e)) (i, Z.to_nat (e_in e)).
Definition pot_lt (vs : vmap) (rank : Z -> Z) (x y : vx) : Prop :=
  v_start (vat vs x) < v_start (vat vs y) \/ (v_start (vat vs x) = v_start (vat vs y) /\ rank (fst x) < rank (fst y)).
Definition sane (l : list vtx) : Prop :=
  forall k, (k < length l)%nat -> v_seq (nth k l dv) <> -1 -> v_seq (nth k l dv) = Z.of_nat k /\ v_start (nth k l dv) <= v_end (nth k l dv).
Record wf_graph (rank : Z -> Z) (g : graph) : Prop := {
  wf_pot : forall x y, gedge g x y -> pot_lt (fst g) rank x y;
  wf_sane : forall n l, lookupV n (fst g) = Some l -> sane l;
  wf_closed : forall o i es, lookupE (o, i) (snd g) = Some es -> lookupV o (fst g) <> None /\ lookupV i (fst g) <> None }.

Lemma gen_sane P h ds start : (forall d, In d ds -> 0 <= d) -> sane (gen_vertices P h start 0 ds).
Proof.
  intros Hd k Hk Hs. destruct (nth_error (gen_vertices P h start 0 ds) k) eqn:E; [|apply nth_error_None in E; lia].
  rewrite (nth_error_nth _ _ _ E) in *. destruct (gen_valid _ _ _ _ _ _ E Hs) as [A _]. split; [exact A|].
  destruct (gen_vertices_nth _ _ _ _ _ _ _ E) as (B & _).
  assert (0 <= nth k ds 0); [|lia]. apply Hd, nth_In. rewrite gen_vertices_length in Hk. exact Hk.
Qed.

Lemma gen_edges_length skip hor outs cs ins : length cs = length outs -> length (gen_edges skip hor outs cs ins) = length outs.
Proof. intros H. unfold gen_edges. rewrite map_length, combine_length, scan_length, map_length, combine_length. lia. Qed.

Lemma vat_keep vs vs' n k : (forall l, lookupV n vs = Some l -> lookupV n vs' = Some l) -> lookupV n vs <> None -> vat vs' (n, k) = vat vs (n, k).
Proof. intros H Hn. unfold vat. simpl. destruct (lookupV n vs) eqn:E; [|congruence]. rewrite (H _ eq_refl). reflexivity. Qed.

Theorem augment_wf rank hor g nodes conns :
  wf_graph rank g ->
  (forall n, In n nodes -> 0 < n_P n /\ forall d, In d (n_ds n) -> 0 <= d) ->
  (forall c, In c conns -> (forall x, In x (c_cs c) -> 0 <= x) /\ (c_skip c = false -> rank (c_out c) < rank (c_in c))) ->
  (forall c outs ins, In c conns -> lookupV (c_out c) (fst (augment hor g nodes conns)) = Some outs ->
     lookupV (c_in c) (fst (augment hor g nodes conns)) = Some ins -> length (c_cs c) = length outs /\ ins <> []) ->
  (forall c, In c conns -> new_edges hor (fst (augment hor g nodes conns)) c <> None) ->
  wf_graph rank (augment hor g nodes conns).
Proof.
  intros [Wp Ws Wc] Hn Hc Hlen Hcl.
  pose proof (augment_adds_exactly_missing hor g nodes conns Hcl) as [AV AE].
  pose proof (augment_keeps hor g nodes conns) as [KV KE].
  set (g' := augment hor g nodes conns) in *.
  assert (Find_in : forall k n, find_node k nodes = Some n -> In n nodes /\ n_id n = k).
  { clear. induction nodes as [|a ns IH]; intros k n H; [discriminate|]. simpl in H. destruct (Z.eqb_spec k (n_id a)).
    - injection H as <-. split; [left; reflexivity|congruence].
    - destruct (IH _ _ H). split; [right; assumption|assumption]. }
  assert (Findc_in : forall k c, find_conn k conns = Some c -> In c conns /\ (c_out c, c_in c) = k).
  { clear. induction conns as [|a cs IH]; intros k c H; [discriminate|]. simpl in H. destruct (keq k (c_out a, c_in a)) eqn:E.
    - injection H as <-. apply keq_spec in E. split; [left; reflexivity|congruence].
    - destruct (IH _ _ H). split; [right; assumption|assumption]. }
  assert (Sane' : forall n l, lookupV n (fst g') = Some l -> sane l).
  { intros n l H. rewrite AV in H. destruct (lookupV n (fst g)) eqn:E; [injection H as <-; eapply Ws; eauto|].
    destruct (find_node n nodes) as [nc|] eqn:F; [|discriminate]. injection H as <-. apply gen_sane. apply Hn. apply (Find_in _ _ F). }
  split; [|exact Sane'|].
  2:{ intros o i es H. rewrite AE in H. destruct (lookupE (o, i) (snd g)) eqn:E.
      - destruct (Wc _ _ _ E) as [A B]. split.
        + destruct (lookupV o (fst g)) eqn:F; [rewrite (KV _ _ F); congruence|congruence].
        + destruct (lookupV i (fst g)) eqn:F; [rewrite (KV _ _ F); congruence|congruence].
      - destruct (find_conn (o, i) conns) as [c|] eqn:F; [|discriminate]. destruct (Findc_in _ _ F) as [_ Ek]. injection Ek as <- <-.
        unfold new_edges in H. destruct (lookupV (c_out c) (fst g')), (lookupV (c_in c) (fst g')); try discriminate. split; congruence. }
  intros x y He. destruct He as [n l k Hl Hk Hs|o i es e Hes Hin Ho Hi].
  - (* stateful edge *)
    simpl in Hl. rewrite AV in Hl. destruct (lookupV n (fst g)) eqn:E.
    + injection Hl as <-. assert (G : gedge g (n, k) (n, S k)) by (eapply ge_state; eauto).
      specialize (Wp _ _ G). unfold pot_lt in *. rewrite !(vat_keep (fst g) (fst g')); auto; simpl; congruence.
    + destruct (find_node n nodes) as [nc|] eqn:F; [|discriminate]. injection Hl as <-. destruct (Find_in _ _ F) as [Hin Hid].
      left. unfold vat. simpl. rewrite AV, E, F. simpl. unfold new_vertices in *.
      destruct (nth_error (gen_vertices (n_P nc) hor (n_phase nc) 0 (n_ds nc)) k) eqn:E1; [|apply nth_error_None in E1; lia].
      destruct (nth_error (gen_vertices (n_P nc) hor (n_phase nc) 0 (n_ds nc)) (S k)) eqn:E2; [|apply nth_error_None in E2; lia].
      rewrite (nth_error_nth _ _ _ E1), (nth_error_nth _ _ _ E2).
      pose proof (gen_no_overlap _ _ _ _ _ _ _ _ E1 E2). destruct (Hn _ Hin). lia.
  - (* message edge *)
    simpl in Hes. rewrite AE in Hes. destruct (lookupE (o, i) (snd g)) eqn:E.
    + injection Hes as <-. assert (G : gedge g (o, Z.to_nat (e_out e)) (i, Z.to_nat (e_in e))) by (eapply ge_msg; eauto).
      specialize (Wp _ _ G). destruct (Wc _ _ _ E) as [A B]. unfold pot_lt in *. rewrite !(vat_keep (fst g) (fst g')); auto.
    + destruct (find_conn (o, i) conns) as [c|] eqn:F; [|discriminate]. destruct (Findc_in _ _ F) as [Hcin Ek]. injection Ek as <- <-.
      unfold new_edges in Hes. destruct (lookupV (c_out c) (fst g')) as [outs|] eqn:Lo; [|discriminate].
      destruct (lookupV (c_in c) (fst g')) as [ins|] eqn:Li; [|discriminate]. injection Hes as <-.
      destruct (Hlen c outs ins Hcin Lo Li) as [Hl Hne]. destruct (Hc c Hcin) as [Hcs Hrk].
      apply In_nth_error in Hin. destruct Hin as (k & Hk).
      assert (Hk' : (k < length outs)%nat). { rewrite <- (gen_edges_length (c_skip c) hor outs (c_cs c) ins Hl). apply nth_error_Some. congruence. }
      destruct (nth_error outs k) as [v|] eqn:Ev; [|apply nth_error_None in Ev; lia].
      destruct (nth_error (c_cs c) k) as [cd|] eqn:Ecd; [|apply nth_error_None in Ecd; lia].
      destruct (gen_edges_fits _ _ _ _ _ _ _ _ _ Hl Hne Ev Ecd Hk Hi) as (s & Es & Hs & Hf & _ & Hsent & _).
      destruct (gen_edges_recv _ _ _ _ _ _ _ _ _ Hl Ev Ecd Hk) as (_ & _ & [Eo|Eo] & _); [|contradiction].
      pose proof (Sane' _ _ Lo k Hk') as Sk. rewrite (nth_error_nth _ _ _ Ev) in Sk. destruct (Sk Hsent) as [Eseq Hse].
      assert (0 <= cd) by (apply Hcs; eapply nth_error_In; eauto).
      unfold pot_lt, vat. cbn [fst snd]. rewrite Lo, Li, Eo, Eseq, Es, !Nat2Z.id. rewrite (nth_error_nth _ _ _ Ev).
      unfold fits in Hf. destruct (c_skip c) eqn:Sk'.
      * apply Z.ltb_lt in Hf. left. lia.
      * apply Z.leb_le in Hf. specialize (Hrk eq_refl). lia.
Qed.

Lemma empty_wf rank : wf_graph rank ([], []).
Proof. split; [intros x y H; inversion H; simpl in *; discriminate|intros; discriminate|intros; discriminate]. Qed.

(* every generated graph is acyclic: if every connection cycle contains a skipped connection (a rank of the nodes exists that
   increases along every un-skipped connection -- BaseNode.phase raises otherwise), periods are positive and delays non-negative *)
Theorem generate_acyclic rank hor nodes conns :
  (forall n, In n nodes -> 0 < n_P n /\ forall d, In d (n_ds n) -> 0 <= d) ->
  (forall c, In c conns -> (forall x, In x (c_cs c) -> 0 <= x) /\ (c_skip c = false -> rank (c_out c) < rank (c_in c))) ->
  (forall c outs ins, In c conns -> lookupV (c_out c) (fst (generate hor nodes conns)) = Some outs ->
     lookupV (c_in c) (fst (generate hor nodes conns)) = Some ins -> length (c_cs c) = length outs /\ ins <> []) ->
  (forall c, In c conns -> new_edges hor (fst (generate hor nodes conns)) c <> None) ->
  forall v, ~ tc vx (gedge (generate hor nodes conns)) v v.
Proof.
  intros Hn Hc Hl Hcl v. pose proof (augment_wf rank hor ([], []) nodes conns (empty_wf rank) Hn Hc Hl Hcl) as [Wp _ _].
  apply (potential_acyclic vx (fun x => v_start (vat (fst (generate hor nodes conns)) x)) (fun x => rank (fst x))). exact Wp.
Qed.
(* augmenting a well-formed graph gives an acyclic graph *)
Theorem augment_acyclic rank hor g nodes conns :
  wf_graph rank g ->
  (forall n, In n nodes -> 0 < n_P n /\ forall d, In d (n_ds n) -> 0 <= d) ->
  (forall c, In c conns -> (forall x, In x (c_cs c) -> 0 <= x) /\ (c_skip c = false -> rank (c_out c) < rank (c_in c))) ->
  (forall c outs ins, In c conns -> lookupV (c_out c) (fst (augment hor g nodes conns)) = Some outs ->
     lookupV (c_in c) (fst (augment hor g nodes conns)) = Some ins -> length (c_cs c) = length outs /\ ins <> []) ->
  (forall c, In c conns -> new_edges hor (fst (augment hor g nodes conns)) c <> None) ->
  forall v, ~ tc vx (gedge (augment hor g nodes conns)) v v.
Proof.
  intros W Hn Hc Hl Hcl v. pose proof (augment_wf rank hor g nodes conns W Hn Hc Hl Hcl) as [Wp _ _].
  apply (potential_acyclic vx (fun x => v_start (vat (fst (augment hor g nodes conns)) x)) (fun x => rank (fst x))). exact Wp.
Qed.
