(* C20 laws: the exported policy computes the trained actor's action (proofs for Policy.v) *)
From Coq Require Import List Arith Bool ZArith Lia Permutation Reals Lra.
From Rex Require Import Ops Policy.
Import ListNotations.

(* the activation table of Policy.apply_actor and the if/elif chain of Actor.__call__ denote the same function for every name,
   and fail on the same names *)
Lemma tables_agree n : policy_table n = actor_table n.
Proof. destruct n; reflexivity. Qed.

Lemma key_eqb_eq a b : key_eqb a b = true <-> a = b.
Proof.
  destruct a as [i|], b as [j|]; simpl; split; intros H; try discriminate; try reflexivity.
  - apply Nat.eqb_eq in H. now subst.
  - injection H as ->. apply Nat.eqb_refl.
Qed.
Lemma key_eqb_refl a : key_eqb a a = true.
Proof. now apply key_eqb_eq. Qed.

Section Laws.
Context {A : Type} (O : ops A).
Variable sigma : afn -> A -> A.
Variables ftanh fsqrt fexp : A -> A.
Variable Rng : Type.
Variable normal : Rng -> nat -> list A.

Notation params := (@params A).
Notation vsquash := (@vsquash A).
Notation result := (@result A).
Notation policy_mean := (policy_mean O sigma).
Notation actor_mean := (actor_mean O sigma).
Notation policy_hidden := (policy_hidden O sigma).
Notation actor_hidden := (actor_hidden O sigma).
Notation policy_dist := (policy_dist O sigma fexp).
Notation actor_dist := (actor_dist O sigma fexp).
Notation policy_apply_actor := (policy_apply_actor O sigma fexp Rng normal).
Notation get_action := (get_action O sigma ftanh fsqrt fexp Rng normal).
Notation train_action := (train_action O sigma ftanh fsqrt fexp Rng normal).

Lemma num_layers_dense_indices (p : params) : num_layers p = length (dense_indices p).
Proof.
  unfold num_layers, dense_indices. induction p as [|[k e] p IH]; [reflexivity|].
  destruct k; simpl; rewrite IH; reflexivity.
Qed.

(* the count of "Dense" keys recovers the depth: num_layers = hidden + 1 *)
Lemma wf_num_layers (p : params) h : wf_params p h -> num_layers p = S h.
Proof.
  intros [Hnd Hin]. rewrite num_layers_dense_indices.
  assert (P : Permutation (dense_indices p) (seq 0 (S h))).
  { apply NoDup_Permutation; [exact Hnd|apply seq_NoDup|].
    intros i. rewrite Hin, in_seq. lia. }
  rewrite (Permutation_length P). apply seq_length.
Qed.

(* the loop of apply_actor over range(k) starting at layer i is the actor's chain of k auto-named Dense layers *)
Lemma policy_hidden_actor_hidden (p : params) n cnt : forall i x,
  policy_hidden p n (seq i cnt) x = actor_hidden p n i cnt x.
Proof.
  induction cnt as [|cnt IH]; intros i x; simpl; [reflexivity|].
  rewrite tables_agree. destruct (get_layer p i); [|reflexivity]. destruct (actor_table n); [|reflexivity]. apply IH.
Qed.

(* clause 1: for every depth, width, weights, activation name and input, apply_actor (rng=None) is the Actor's mean -- including
   which inputs make either of them fail *)
Theorem policy_mean_eq_actor_mean (p : params) h n x : wf_params p h -> policy_mean p n x = actor_mean h p n x.
Proof.
  intros Hwf. unfold Policy.policy_mean, Policy.actor_mean. rewrite (wf_num_layers p h Hwf).
  replace (S h - 1) with h by lia. rewrite policy_hidden_actor_hidden. reflexivity.
Qed.

(* clause 3: with an rng the policy samples from the very Gaussian the actor defines (same loc, same exp(log_std) scale) *)
Theorem policy_dist_eq_actor_dist (p : params) h n x : wf_params p h -> policy_dist p n x = actor_dist h p n x.
Proof. intros Hwf. unfold Policy.policy_dist, Policy.actor_dist. rewrite (policy_mean_eq_actor_mean p h n x Hwf). reflexivity. Qed.

Theorem dist_scale_is_exp_log_std (p : params) h n x g ls : actor_dist h p n x = Some g -> get_logstd p = Some ls ->
  scale g = map fexp ls /\ actor_mean h p n x = Some (loc g).
Proof.
  unfold Policy.actor_dist. intros H Hl. rewrite Hl in H. destruct (Policy.actor_mean O sigma h p n x); [|discriminate].
  injection H as <-. simpl. split; reflexivity.
Qed.

Lemma vrow_uniform (v : vsquash) e : uniform_rows v -> e < length (v_low v) -> e < length (v_high v) -> vrow e v = vrow 0 v.
Proof. intros [Hl Hh] H1 H2. unfold vrow. rewrite (Hl e H1), (Hh e H2). reflexivity. Qed.

(* clause 2 (+3): Policy.get_action of the exported policy is what the trainer hands to environment e for the same raw
   observation -- same normalisation (clip and mean subtraction), same network output, same squash / clip *)
Theorem get_action_eq_train (r : result) e obs rng :
  wf_params (r_params r) (r_hidden r) ->
  (forall v, r_act_scaling r = Some v -> vrow e v = vrow 0 v) ->
  get_action (export r) obs rng = train_action r e obs rng.
Proof.
  intros Hwf Hrow. unfold Policy.get_action, Policy.train_action, export; simpl.
  set (no := match r_norm_obs r with Some ns => normalize O fsqrt ns true true obs | None => obs end).
  unfold Policy.policy_apply_actor.
  destruct rng as [k|].
  - rewrite (policy_dist_eq_actor_dist _ _ _ _ Hwf).
    destruct (Policy.actor_dist O sigma fexp (r_hidden r) (r_params r) (r_actname r) no); simpl; [|reflexivity].
    destruct (r_act_scaling r) as [v|] eqn:E; simpl; [|reflexivity]. unfold act_row. rewrite (Hrow v eq_refl). reflexivity.
  - rewrite (policy_mean_eq_actor_mean _ _ _ _ Hwf).
    destruct (Policy.actor_mean O sigma (r_hidden r) (r_params r) (r_actname r) no); simpl; [|reflexivity].
    destruct (r_act_scaling r) as [v|] eqn:E; simpl; [|reflexivity]. unfold act_row. rewrite (Hrow v eq_refl). reflexivity.
Qed.

Corollary get_action_eq_train_env0 (r : result) obs rng :
  wf_params (r_params r) (r_hidden r) -> get_action (export r) obs rng = train_action r 0 obs rng.
Proof. intros Hwf. apply get_action_eq_train; auto. Qed.

Corollary get_action_eq_train_all_envs (r : result) e obs rng :
  wf_params (r_params r) (r_hidden r) ->
  (forall v, r_act_scaling r = Some v -> uniform_rows v /\ e < length (v_low v) /\ e < length (v_high v)) ->
  get_action (export r) obs rng = train_action r e obs rng.
Proof.
  intros Hwf H. apply get_action_eq_train; [exact Hwf|]. intros v Hv. destruct (H v Hv) as (U & H1 & H2).
  apply vrow_uniform; assumption.
Qed.

(* ---- layer order: the Dense layers are looked up by name, so the iteration order of the parameter dict is irrelevant ---- *)
Lemma lookup_In (p : params) k v : NoDup (map fst p) -> (lookup k p = Some v <-> In (k, v) p).
Proof.
  induction p as [|[k' e] p IH]; simpl; intros Hnd.
  - split; [discriminate|contradiction].
  - inversion Hnd as [|? ? Hni Hnd']; subst. destruct (key_eqb k k') eqn:E.
    + apply key_eqb_eq in E. subst k'. split.
      * intros H. injection H as ->. now left.
      * intros [H|H]; [now injection H as ->|]. exfalso. apply Hni. apply (in_map fst) in H. exact H.
    + rewrite (IH Hnd'). split; [now right|]. intros [H|H]; [|exact H]. injection H as -> ->. rewrite key_eqb_refl in E. discriminate.
Qed.

Lemma lookup_perm (p p' : params) k : NoDup (map fst p) -> Permutation p p' -> lookup k p = lookup k p'.
Proof.
  intros Hnd HP.
  assert (Hnd' : NoDup (map fst p')) by (eapply Permutation_NoDup; [apply Permutation_map; exact HP|exact Hnd]).
  destruct (lookup k p) as [v|] eqn:E.
  - apply (lookup_In p k v Hnd) in E. symmetry. apply (lookup_In p' k v Hnd'). eapply Permutation_in; eauto.
  - destruct (lookup k p') as [v'|] eqn:E'; [|reflexivity].
    apply (lookup_In p' k v' Hnd') in E'. apply (Permutation_in _ (Permutation_sym HP)) in E'.
    apply (lookup_In p k v' Hnd) in E'. congruence.
Qed.

Lemma num_layers_perm (p p' : params) : Permutation p p' -> num_layers p = num_layers p'.
Proof.
  intros HP. unfold num_layers. apply Permutation_length.
  induction HP; simpl.
  - constructor.
  - destruct (key_is_dense (fst x)); [constructor|]; assumption.
  - destruct (key_is_dense (fst x)), (key_is_dense (fst y)); first [apply Permutation_refl | apply perm_swap].
  - eapply perm_trans; eauto.
Qed.

Lemma policy_hidden_ext (p p' : params) n : (forall i, get_layer p i = get_layer p' i) ->
  forall idx x, policy_hidden p n idx x = policy_hidden p' n idx x.
Proof. intros H idx. induction idx as [|i idx IH]; intros x; simpl; [reflexivity|]. rewrite H. destruct (get_layer p' i), (policy_table n); auto. Qed.

Theorem layer_order (p p' : params) n x : NoDup (map fst p) -> Permutation p p' ->
  policy_mean p' n x = policy_mean p n x /\ get_logstd p' = get_logstd p.
Proof.
  intros Hnd HP.
  assert (HL : forall i, get_layer p i = get_layer p' i) by (intros i; unfold get_layer; rewrite (lookup_perm p p' _ Hnd HP); reflexivity).
  split.
  - unfold Policy.policy_mean. rewrite <- (num_layers_perm p p' HP), <- (policy_hidden_ext p p' n HL), <- HL. reflexivity.
  - unfold get_logstd. rewrite (lookup_perm p p' _ Hnd HP). reflexivity.
Qed.
End Laws.

(* ---------------- range laws over R: whatever the observation, the network sees a clipped input and the environment a
   legal action ---------------- *)
Open Scope R_scope.

Lemma tanh_bounds x : -1 < tanh x < 1.
Proof.
  unfold tanh, sinh, cosh.
  assert (0 < exp x) by apply exp_pos. assert (0 < exp (- x)) by apply exp_pos.
  split.
  - apply Rmult_lt_reg_r with ((exp x + exp (- x)) / 2); [lra|].
    replace ((exp x - exp (- x)) / 2 / ((exp x + exp (- x)) / 2) * ((exp x + exp (- x)) / 2)) with ((exp x - exp (- x)) / 2) by (field; lra). lra.
  - apply Rmult_lt_reg_r with ((exp x + exp (- x)) / 2); [lra|].
    replace ((exp x - exp (- x)) / 2 / ((exp x + exp (- x)) / 2) * ((exp x + exp (- x)) / 2)) with ((exp x - exp (- x)) / 2) by (field; lra). lra.
Qed.

(* observations far outside the training range: the normalised observation stays within [-clip, clip] *)
Theorem normalize1_bounded (fsqrt : R -> R) sm c m v x : 0 <= c -> - c <= normalize1 Rops fsqrt true sm c m v x <= c.
Proof.
  intros Hc. unfold normalize1. cbv [omin omax oopp Rops].
  match goal with |- context [Rmax ?t _] => set (y := t) end. unfold Rmin, Rmax. destruct (Rle_dec y (- c)); destruct (Rle_dec _ c); lra.
Qed.

Theorem unsquash1_squash_in_range lo hi x : lo < hi -> lo < unsquash1 Rops tanh true lo hi x < hi.
Proof.
  intros H. pose proof (tanh_bounds x) as [H1 H2]. unfold unsquash1. cbv [oadd omul odiv osub oz Rops]. split; nra.
Qed.
Theorem unsquash1_clip_in_range (ft : R -> R) lo hi x : lo <= hi -> lo <= unsquash1 Rops ft false lo hi x <= hi.
Proof.
  intros H. unfold unsquash1. cbv [omin omax Rops]. unfold Rmin, Rmax.
  destruct (Rle_dec x lo); destruct (Rle_dec _ hi); lra.
Qed.
(* clipping is the identity on legal actions *)
Theorem unsquash1_clip_id (ft : R -> R) lo hi x : lo <= x <= hi -> unsquash1 Rops ft false lo hi x = x.
Proof.
  intros H. unfold unsquash1. cbv [omin omax Rops]. unfold Rmin, Rmax.
  destruct (Rle_dec x lo); destruct (Rle_dec _ hi); lra.
Qed.
