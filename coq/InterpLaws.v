(* C11 laws of the model Interp.v *)
From Coq Require Import QArith Qminmax Qabs ZArith List Bool Lia Lqa.
From Rex Require Import Ops Interp.
Import ListNotations.
Open Scope Q_scope.

(* ---------------------------------------------------------------- comparisons *)
Lemma Qltb_true x y : Qltb x y = true -> x < y.
Proof.
  unfold Qltb. intros H. apply negb_true_iff in H. apply Qnot_le_lt. intros C.
  apply Qle_bool_iff in C. congruence.
Qed.
Lemma Qltb_false x y : Qltb x y = false -> y <= x.
Proof. unfold Qltb. intros H. apply negb_false_iff in H. apply Qle_bool_iff. exact H. Qed.
Lemma Qltb_lt x y : x < y -> Qltb x y = true.
Proof. intros H. destruct (Qltb x y) eqn:E; [reflexivity|]. apply Qltb_false in E. lra. Qed.
Lemma Qltb_ge x y : y <= x -> Qltb x y = false.
Proof. intros H. destruct (Qltb x y) eqn:E; [|reflexivity]. apply Qltb_true in E. lra. Qed.
Lemma Qeqb_true x y : Qeq_bool x y = true -> x == y.
Proof. apply Qeq_bool_iff. Qed.
Lemma Qeqb_false x y : Qeq_bool x y = false -> ~ x == y.
Proof. intros H C. apply Qeq_bool_iff in C. congruence. Qed.

(* destruct every comparison in the goal, keeping the order facts *)
Ltac qcases :=
  repeat match goal with
  | |- context [Qltb ?a ?b] =>
      let E := fresh "E" in destruct (Qltb a b) eqn:E; [apply Qltb_true in E | apply Qltb_false in E]
  | |- context [Qeq_bool ?a ?b] =>
      let E := fresh "E" in destruct (Qeq_bool a b) eqn:E; [apply Qeqb_true in E | apply Qeqb_false in E]
  end.

Lemma Qltb_comp x x' y y' : x == x' -> y == y' -> Qltb x y = Qltb x' y'.
Proof.
  intros Hx Hy. destruct (Qltb x y) eqn:E; symmetry.
  - apply Qltb_true in E. apply Qltb_lt. lra.
  - apply Qltb_false in E. apply Qltb_ge. lra.
Qed.
Lemma Qeqb_comp x x' y y' : x == x' -> y == y' -> Qeq_bool x y = Qeq_bool x' y'.
Proof.
  intros Hx Hy. destruct (Qeq_bool x y) eqn:E; symmetry.
  - apply Qeqb_true in E. apply Qeq_bool_iff. lra.
  - apply Qeqb_false in E. destruct (Qeq_bool x' y') eqn:E'; [|reflexivity]. apply Qeqb_true in E'. exfalso. apply E. lra.
Qed.

(* ---------------------------------------------------------------- one segment *)
Lemma seg_comp x0 y0 x1 y1 x x' : x == x' -> seg x0 y0 x1 y1 x == seg x0 y0 x1 y1 x'.
Proof. intros H. unfold seg. rewrite H. reflexivity. Qed.
Lemma seg_left x0 y0 x1 y1 x : x == x0 -> seg x0 y0 x1 y1 x == y0.
Proof.
  intros H. unfold seg. setoid_replace (x - x0) with 0 by lra.
  unfold Qdiv. rewrite Qmult_0_l, Qmult_0_l. lra.
Qed.
Lemma seg_right x0 y0 x1 y1 x : x0 < x1 -> x == x1 -> seg x0 y0 x1 y1 x == y1.
Proof. intros H E. unfold seg. rewrite E. field. lra. Qed.
(* affine in the query point: difference quotient = finite-difference slope *)
Lemma seg_affine x0 y0 x1 y1 x x' : x0 < x1 ->
  seg x0 y0 x1 y1 x' - seg x0 y0 x1 y1 x == (x' - x) * ((y1 - y0) / (x1 - x0)).
Proof. intros H. unfold seg. field. lra. Qed.

Lemma seg_ratio x0 x1 x : x0 < x1 -> x0 <= x <= x1 -> 0 <= (x - x0) / (x1 - x0) <= 1.
Proof.
  intros H Hx. split.
  - apply Qle_shift_div_l; lra.
  - apply Qle_shift_div_r; lra.
Qed.

(* every interpolated value lies between its neighbouring messages *)
Lemma seg_between x0 y0 x1 y1 x : x0 < x1 -> x0 <= x <= x1 ->
  Qmin y0 y1 <= seg x0 y0 x1 y1 x <= Qmax y0 y1.
Proof.
  intros H Hx. unfold seg. pose proof (seg_ratio x0 x1 x H Hx) as [Ha Hb].
  set (a := (x - x0) / (x1 - x0)) in *.
  destruct (Qlt_le_dec y0 y1) as [Hy|Hy].
  - rewrite Q.min_l, Q.max_r by lra. split; nra.
  - rewrite Q.min_r, Q.max_l by lra. split; nra.
Qed.

(* slope bounded by L: the segment is L-Lipschitz *)
Lemma seg_lip L x0 y0 x1 y1 a b : x0 < x1 -> - (L * (x1 - x0)) <= y1 - y0 <= L * (x1 - x0) ->
  a <= b -> - (L * (b - a)) <= seg x0 y0 x1 y1 b - seg x0 y0 x1 y1 a <= L * (b - a).
Proof.
  intros H Hs Hab. rewrite seg_affine by exact H.
  set (m := (y1 - y0) / (x1 - x0)).
  assert (Hm : m * (x1 - x0) == y1 - y0) by (unfold m; field; lra).
  assert (Hm1 : - L <= m <= L).
  { split.
    - destruct (Qlt_le_dec m (- L)) as [C|C]; [|exact C]. exfalso. nra.
    - destruct (Qlt_le_dec L m) as [C|C]; [|exact C]. exfalso. nra. }
  split; nra.
Qed.

(* ---------------------------------------------------------------- interp: unfolding lemmas *)
Lemma interp_cons2 x x0 y0 x1 y1 rest' :
  interp x ((x0, y0) :: (x1, y1) :: rest') =
  if Qltb x x0 then y0 else if Qltb x x1 then seg x0 y0 x1 y1 x
  else match rest' with
       | [] => if Qltb x1 x then y1 else if Qeq_bool x0 x1 then y0 else seg x0 y0 x1 y1 x
       | _ => interp x ((x1, y1) :: rest') end.
Proof. reflexivity. Qed.
Lemma interp_skip x a b c e p L' : a <= x -> c <= x ->
  interp x ((a, b) :: (c, e) :: p :: L') = interp x ((c, e) :: p :: L').
Proof.
  intros Ha Hc. rewrite interp_cons2. rewrite (Qltb_ge x a Ha), (Qltb_ge x c Hc). reflexivity.
Qed.

Lemma interp_comp pts : forall x x', x == x' -> interp x pts == interp x' pts.
Proof.
  induction pts as [|[x0 y0] rest IH]; intros x x' H; [reflexivity|].
  destruct rest as [|[x1 y1] rest']; [reflexivity|].
  rewrite !interp_cons2.
  rewrite (Qltb_comp x x' x0 x0 H (Qeq_refl _)), (Qltb_comp x x' x1 x1 H (Qeq_refl _)),
          (Qltb_comp x1 x1 x x' (Qeq_refl _) H).
  destruct (Qltb x' x0); [reflexivity|]. destruct (Qltb x' x1); [apply seg_comp; exact H|].
  destruct rest' as [|p r].
  - destruct (Qltb x1 x'); [reflexivity|]. destruct (Qeq_bool x0 x1); [reflexivity|apply seg_comp; exact H].
  - apply IH. exact H.
Qed.

(* shifting all knots and the query by d changes nothing: P(t) = S(t - d) *)
Lemma interp_shift d pts : forall x, interp (x + d) (shift d pts) == interp x pts.
Proof.
  induction pts as [|[x0 y0] rest IH]; intros x; [reflexivity|].
  destruct rest as [|[x1 y1] rest']; [reflexivity|].
  specialize (IH x). unfold shift in *. cbn [map fst snd] in *. rewrite !interp_cons2.
  assert (S : seg (x0 + d) y0 (x1 + d) y1 (x + d) == seg x0 y0 x1 y1 x).
  { unfold seg. setoid_replace (x + d - (x0 + d)) with (x - x0) by ring.
    setoid_replace (x1 + d - (x0 + d)) with (x1 - x0) by ring. reflexivity. }
  assert (B0 : Qltb (x + d) (x0 + d) = Qltb x x0).
  { destruct (Qltb x x0) eqn:E; [apply Qltb_true in E; apply Qltb_lt; lra|apply Qltb_false in E; apply Qltb_ge; lra]. }
  assert (B1 : Qltb (x + d) (x1 + d) = Qltb x x1).
  { destruct (Qltb x x1) eqn:E; [apply Qltb_true in E; apply Qltb_lt; lra|apply Qltb_false in E; apply Qltb_ge; lra]. }
  assert (B2 : Qltb (x1 + d) (x + d) = Qltb x1 x).
  { destruct (Qltb x1 x) eqn:E; [apply Qltb_true in E; apply Qltb_lt; lra|apply Qltb_false in E; apply Qltb_ge; lra]. }
  assert (B3 : Qeq_bool (x0 + d) (x1 + d) = Qeq_bool x0 x1).
  { destruct (Qeq_bool x0 x1) eqn:E; [apply Qeqb_true in E; apply Qeq_bool_iff; lra|].
    apply Qeqb_false in E. destruct (Qeq_bool (x0 + d) (x1 + d)) eqn:E'; [|reflexivity].
    apply Qeqb_true in E'. exfalso. apply E. lra. }
  rewrite B0, B1. destruct (Qltb x x0); [reflexivity|]. destruct (Qltb x x1); [exact S|].
  destruct rest' as [|p r].
  - cbn [map]. rewrite B2, B3. destruct (Qltb x1 x); [reflexivity|]. destruct (Qeq_bool x0 x1); [reflexivity|exact S].
  - cbn [map fst snd] in *. exact IH.
Qed.

(* ---------------------------------------------------------------- bracket: the value always comes from two neighbours *)
Inductive bracket (x : Q) (pts : list (Q * Q)) (v : Q) : Prop :=
| br_right x1 y1 : last pts (0, 0) = (x1, y1) -> x1 < x -> v = y1 -> bracket x pts v
| br_seg x0 y0 x1 y1 : adj (x0, y0) (x1, y1) pts -> x0 < x1 -> x0 <= x <= x1 -> v = seg x0 y0 x1 y1 x -> bracket x pts v
| br_dup x0 y0 x1 y1 : adj (x0, y0) (x1, y1) pts -> x0 == x1 -> x == x1 -> v = y0 -> bracket x pts v.

Lemma bracket_later x c p pts v : bracket x (p :: pts) v -> bracket x (c :: p :: pts) v.
Proof.
  intros [x1 y1 E Hx Hv|x0 y0 x1 y1 A H01 Hx Hv|x0 y0 x1 y1 A H01 Hx Hv].
  - apply (br_right x _ v x1 y1); assumption.
  - apply (br_seg x _ v x0 y0 x1 y1); [constructor; exact A|assumption..].
  - apply (br_dup x _ v x0 y0 x1 y1); [constructor; exact A|assumption..].
Qed.

Lemma interp_bracket_ge x : forall rest x0 y0, rest <> [] -> x0 <= x ->
  bracket x ((x0, y0) :: rest) (interp x ((x0, y0) :: rest)).
Proof.
  induction rest as [|[x1 y1] rest' IH]; intros x0 y0 Hne Hx; [congruence|].
  rewrite interp_cons2. rewrite (Qltb_ge x x0 Hx).
  destruct (Qltb x x1) eqn:E1.
  - apply Qltb_true in E1. eapply br_seg; [constructor| | |reflexivity]; lra.
  - apply Qltb_false in E1. destruct rest' as [|p r].
    + destruct (Qltb x1 x) eqn:E2.
      * apply Qltb_true in E2. eapply br_right; [reflexivity|exact E2|reflexivity].
      * apply Qltb_false in E2. destruct (Qeq_bool x0 x1) eqn:E3.
        -- apply Qeqb_true in E3. eapply br_dup; [constructor|exact E3|lra|reflexivity].
        -- apply Qeqb_false in E3. eapply br_seg; [constructor| | |reflexivity]; [|lra].
           destruct (Qlt_le_dec x0 x1) as [C|C]; [exact C|]. exfalso. apply E3. lra.
    + apply bracket_later. apply IH; [discriminate|exact E1].
Qed.

(* left of the first knot the first message is returned; otherwise the value is bracketed *)
Theorem interp_bracket x x0 y0 rest : rest <> [] ->
  (x < x0 /\ interp x ((x0, y0) :: rest) = y0) \/ bracket x ((x0, y0) :: rest) (interp x ((x0, y0) :: rest)).
Proof.
  intros Hne. destruct (Qlt_le_dec x x0) as [C|C].
  - left. split; [exact C|]. destruct rest as [|[x1 y1] r]; [congruence|]. rewrite interp_cons2. rewrite (Qltb_lt _ _ C). reflexivity.
  - right. apply interp_bracket_ge; assumption.
Qed.

Lemma adj_in {X} (a b : X) l : adj a b l -> In a l /\ In b l.
Proof. induction 1; simpl; tauto. Qed.

(* every seen value lies between two neighbouring messages (or is the first / last message itself) *)
Theorem interp_between x pts : (2 <= length pts)%nat ->
  exists p q, (adj p q pts) /\ Qmin (snd p) (snd q) <= interp x pts <= Qmax (snd p) (snd q).
Proof.
  intros Hl. destruct pts as [|[x0 y0] rest]; [simpl in Hl; lia|].
  destruct rest as [|[x1 y1] rest']; [simpl in Hl; lia|].
  destruct (interp_bracket x x0 y0 ((x1, y1) :: rest')) as [[Hx ->]|B]; [discriminate| |].
  - exists (x0, y0), (x1, y1). split; [constructor|]. simpl. split; [apply Q.le_min_l|apply Q.le_max_l].
  - destruct B as [xa ya E Hx ->|xa ya xb yb A H01 Hx ->|xa ya xb yb A H01 Hx ->].
    + (* right clamp: the last message; its left neighbour exists *)
      clear Hl. revert x0 y0 x1 y1 E. induction rest' as [|[x2 y2] r IH]; intros x0 y0 x1 y1 E.
      * simpl in E. injection E as <- <-. exists (x0, y0), (x1, y1). split; [constructor|]. simpl.
        split; [apply Q.le_min_r|apply Q.le_max_r].
      * destruct (IH x1 y1 x2 y2 E) as (p & q & A & Hb). exists p, q. split; [constructor; exact A|exact Hb].
    + exists (xa, ya), (xb, yb). split; [exact A|]. simpl. apply seg_between; assumption.
    + exists (xa, ya), (xb, yb). split; [exact A|]. simpl. split; [apply Q.le_min_l|apply Q.le_max_l].
Qed.

(* ---------------------------------------------------------------- a given segment of sorted knots *)
Lemma nondec_app_le pre : forall x0 y0 tl, nondec (pre ++ (x0, y0) :: tl) -> forall p, In p pre -> fst p <= x0.
Proof.
  induction pre as [|[a b] pre IH]; intros x0 y0 tl H p Hp; [contradiction|].
  destruct pre as [|[c e] pre'].
  - cbn [app nondec] in H. destruct Hp as [<-|[]]. simpl. tauto.
  - cbn [app] in H. change (a <= c /\ nondec (((c, e) :: pre') ++ (x0, y0) :: tl)) in H. destruct H as [Hac Hn].
    pose proof (IH x0 y0 tl Hn) as IH'.
    destruct Hp as [<-|Hp]; [|apply IH'; exact Hp].
    specialize (IH' (c, e) (or_introl eq_refl)). simpl in *. lra.
Qed.
Lemma nondec_app_r pre : forall tl, nondec (pre ++ tl) -> nondec tl.
Proof.
  induction pre as [|[a b] pre IH]; intros tl H; [exact H|]. simpl in H.
  destruct (pre ++ tl) as [|[c e] l] eqn:E.
  - destruct pre; [simpl in E; subst; exact I|discriminate].
  - apply IH. rewrite E. tauto.
Qed.

Lemma interp_seg_in x x0 y0 x1 y1 post : forall pre, nondec (pre ++ (x0, y0) :: (x1, y1) :: post) ->
  x0 <= x -> x < x1 -> interp x (pre ++ (x0, y0) :: (x1, y1) :: post) = seg x0 y0 x1 y1 x.
Proof.
  induction pre as [|[a b] pre IH]; intros Hn H0 H1.
  - cbn [app]. rewrite interp_cons2. rewrite (Qltb_ge _ _ H0), (Qltb_lt _ _ H1). reflexivity.
  - pose proof (nondec_app_le _ _ _ _ Hn) as Hle.
    assert (Ha : a <= x) by (specialize (Hle (a, b) (or_introl eq_refl)); simpl in Hle; lra).
    assert (Hn' : nondec (pre ++ (x0, y0) :: (x1, y1) :: post)) by (apply (nondec_app_r [(a, b)]); exact Hn).
    specialize (IH Hn' H0 H1).
    destruct pre as [|[c e] pre'].
    + cbn [app] in *. rewrite interp_skip by assumption. exact IH.
    + assert (Hc : c <= x) by (specialize (Hle (c, e) (or_intror (or_introl eq_refl))); simpl in Hle; lra).
      cbn [app] in *.
      destruct (pre' ++ (x0, y0) :: (x1, y1) :: post) as [|p l] eqn:E; [destruct pre'; discriminate|].
      rewrite interp_skip by assumption. exact IH.
Qed.

Lemma incr_nondec pts : incr pts -> nondec pts.
Proof.
  induction pts as [|[a b] l IH]; [trivial|]. simpl. destruct l as [|[c e] l']; [trivial|].
  intros [H1 H2]. split; [lra|apply IH; exact H2].
Qed.
Lemma incr_app_r pre : forall tl, incr (pre ++ tl) -> incr tl.
Proof.
  induction pre as [|[a b] pre IH]; intros tl H; [exact H|]. simpl in H.
  destruct (pre ++ tl) as [|[c e] l] eqn:E.
  - destruct pre; [simpl in E; subst; exact I|discriminate].
  - apply IH. rewrite E. tauto.
Qed.

(* the last segment at its right end *)
Lemma interp_last_knot x x0 y0 x1 y1 : forall pre, nondec (pre ++ [(x0, y0); (x1, y1)]) ->
  x0 < x1 -> x == x1 -> interp x (pre ++ [(x0, y0); (x1, y1)]) = seg x0 y0 x1 y1 x.
Proof.
  induction pre as [|[a b] pre IH]; intros Hn H0 H1.
  - cbn [app]. rewrite interp_cons2. rewrite (Qltb_ge x x0), (Qltb_ge x x1), (Qltb_ge x1 x) by lra.
    destruct (Qeq_bool x0 x1) eqn:E; [apply Qeqb_true in E; lra|reflexivity].
  - pose proof (nondec_app_le _ _ _ _ Hn) as Hle.
    assert (Ha : a <= x) by (specialize (Hle (a, b) (or_introl eq_refl)); simpl in Hle; lra).
    assert (Hn' : nondec (pre ++ [(x0, y0); (x1, y1)])) by (apply (nondec_app_r [(a, b)]); exact Hn).
    specialize (IH Hn' H0 H1).
    destruct pre as [|[c e] pre'].
    + cbn [app] in *. rewrite interp_skip by lra. exact IH.
    + assert (Hc : c <= x) by (specialize (Hle (c, e) (or_intror (or_introl eq_refl))); simpl in Hle; lra).
      cbn [app] in *.
      destruct (pre' ++ [(x0, y0); (x1, y1)]) as [|p l] eqn:E; [destruct pre'; discriminate|].
      rewrite interp_skip by assumption. exact IH.
Qed.

(* on strictly increasing knots the closed segment [x0, x1] is interpolated by its own two messages *)
Theorem interp_on_segment x x0 y0 x1 y1 pre post : incr (pre ++ (x0, y0) :: (x1, y1) :: post) ->
  x0 <= x <= x1 -> interp x (pre ++ (x0, y0) :: (x1, y1) :: post) == seg x0 y0 x1 y1 x.
Proof.
  intros Hi [H0 H1]. pose proof (incr_nondec _ Hi) as Hn.
  assert (H01 : x0 < x1) by (apply incr_app_r in Hi; simpl in Hi; tauto).
  destruct (Qlt_le_dec x x1) as [C|C].
  - rewrite interp_seg_in by assumption. reflexivity.
  - assert (E : x == x1) by lra. destruct post as [|[x2 y2] post'].
    + rewrite interp_last_knot by assumption. reflexivity.
    + assert (H12 : x1 < x2) by (apply incr_app_r in Hi; simpl in Hi; tauto).
      replace (pre ++ (x0, y0) :: (x1, y1) :: (x2, y2) :: post') with ((pre ++ [(x0, y0)]) ++ (x1, y1) :: (x2, y2) :: post')
        by (rewrite <- app_assoc; reflexivity).
      rewrite interp_seg_in; [| rewrite <- app_assoc; exact Hn | lra | lra].
      rewrite seg_left by exact E. rewrite seg_right by assumption. reflexivity.
Qed.

(* at a knot the message itself is returned *)
Theorem interp_at_knot x xk yk pre post : incr (pre ++ (xk, yk) :: post) -> (pre ++ post <> []) ->
  x == xk -> interp x (pre ++ (xk, yk) :: post) == yk.
Proof.
  intros Hi Hne E. destruct post as [|[x1 y1] post'].
  - (* the last knot: use the segment on its left *)
    rewrite app_nil_r in Hne. destruct (exists_last Hne) as (pre' & [x0 y0] & ->).
    rewrite <- app_assoc in *. cbn [app] in *.
    assert (H01 : x0 < xk) by (apply incr_app_r in Hi; simpl in Hi; tauto).
    rewrite interp_on_segment by (try exact Hi; lra). apply seg_right; assumption.
  - assert (H01 : xk < x1) by (apply incr_app_r in Hi; simpl in Hi; tauto).
    rewrite interp_on_segment by (try exact Hi; lra). apply seg_left; assumption.
Qed.

(* derivative clause: inside a segment the value is affine in the query point, hence in the delay *)
Theorem interp_affine x x' x0 y0 x1 y1 pre post : incr (pre ++ (x0, y0) :: (x1, y1) :: post) ->
  x0 <= x <= x1 -> x0 <= x' <= x1 ->
  interp x' (pre ++ (x0, y0) :: (x1, y1) :: post) - interp x (pre ++ (x0, y0) :: (x1, y1) :: post)
  == (x' - x) * ((y1 - y0) / (x1 - x0)).
Proof.
  intros Hi Hx Hx'. rewrite !interp_on_segment by assumption.
  apply seg_affine. apply incr_app_r in Hi; simpl in Hi; tauto.
Qed.

(* ---------------------------------------------------------------- Lipschitz (continuity in the query point / the delay) *)
Lemma lip_cons2 L x0 y0 x1 y1 rest' :
  lip L ((x0, y0) :: (x1, y1) :: rest') =
  (x0 <= x1 /\ - (L * (x1 - x0)) <= y1 - y0 <= L * (x1 - x0) /\ lip L ((x1, y1) :: rest')).
Proof. reflexivity. Qed.
Lemma interp_anchor L : 0 <= L -> forall rest x0 y0 x, lip L ((x0, y0) :: rest) -> x0 <= x ->
  - (L * (x - x0)) <= interp x ((x0, y0) :: rest) - y0 <= L * (x - x0).
Proof.
  intros HL. induction rest as [|[x1 y1] rest' IH]; intros x0 y0 x Hl Hx.
  - cbn [interp]. split; nra.
  - rewrite lip_cons2 in Hl. destruct Hl as (H01 & Hs & Hl').
    rewrite interp_cons2. rewrite (Qltb_ge _ _ Hx).
    destruct (Qltb x x1) eqn:E1.
    + apply Qltb_true in E1. assert (Hlt : x0 < x1) by lra.
      pose proof (seg_lip L x0 y0 x1 y1 x0 x Hlt Hs Hx) as B. rewrite (seg_left x0 y0 x1 y1 x0) in B by reflexivity. exact B.
    + apply Qltb_false in E1. destruct rest' as [|p r].
      * destruct (Qltb x1 x) eqn:E2; [apply Qltb_true in E2; split; nra|]. apply Qltb_false in E2.
        destruct (Qeq_bool x0 x1) eqn:E3; [split; nra|]. apply Qeqb_false in E3.
        assert (Hlt : x0 < x1). { destruct (Qlt_le_dec x0 x1) as [C|C]; [exact C|]. exfalso. apply E3. lra. }
        pose proof (seg_lip L x0 y0 x1 y1 x0 x Hlt Hs Hx) as B. rewrite (seg_left x0 y0 x1 y1 x0) in B by reflexivity. exact B.
      * specialize (IH x1 y1 x Hl' E1). split; nra.
Qed.

Theorem interp_lipschitz L pts : 0 <= L -> lip L pts -> forall x x', x <= x' ->
  - (L * (x' - x)) <= interp x' pts - interp x pts <= L * (x' - x).
Proof.
  intros HL. induction pts as [|[x0 y0] rest IH]; intros Hl x x' Hxx.
  - cbn [interp]. split; nra.
  - destruct rest as [|[x1 y1] rest'].
    + cbn [interp]. split; nra.
    + pose proof Hl as Hl0. rewrite lip_cons2 in Hl. destruct Hl as (H01 & Hs & Hl').
      destruct (Qlt_le_dec x x0) as [Cx|Cx].
      * (* x is left-clamped *)
        assert (Ex : interp x ((x0, y0) :: (x1, y1) :: rest') = y0) by (rewrite interp_cons2; rewrite (Qltb_lt _ _ Cx); reflexivity).
        rewrite Ex. destruct (Qlt_le_dec x' x0) as [Cx'|Cx'].
        -- assert (Ex' : interp x' ((x0, y0) :: (x1, y1) :: rest') = y0) by (rewrite interp_cons2; rewrite (Qltb_lt _ _ Cx'); reflexivity).
           rewrite Ex'. split; nra.
        -- pose proof (interp_anchor L HL _ x0 y0 x' Hl0 Cx') as B. split; nra.
      * assert (Cx' : x0 <= x') by lra.
        destruct (Qlt_le_dec x x1) as [Dx|Dx].
        -- (* x in the first segment *)
           assert (Hlt : x0 < x1) by lra.
           assert (Ex : interp x ((x0, y0) :: (x1, y1) :: rest') = seg x0 y0 x1 y1 x)
             by (rewrite interp_cons2; rewrite (Qltb_ge _ _ Cx), (Qltb_lt _ _ Dx); reflexivity).
           rewrite Ex. destruct (Qlt_le_dec x' x1) as [Dx'|Dx'].
           ++ assert (Ex' : interp x' ((x0, y0) :: (x1, y1) :: rest') = seg x0 y0 x1 y1 x')
                by (rewrite interp_cons2; rewrite (Qltb_ge _ _ Cx'), (Qltb_lt _ _ Dx'); reflexivity).
              rewrite Ex'. apply seg_lip; assumption.
           ++ (* x' at or beyond x1: go through y1 *)
              assert (Hx1 : x <= x1) by lra.
              pose proof (seg_lip L x0 y0 x1 y1 x x1 Hlt Hs Hx1) as B1.
              rewrite (seg_right x0 y0 x1 y1 x1 Hlt (Qeq_refl _)) in B1.
              assert (B2 : - (L * (x' - x1)) <= interp x' ((x0, y0) :: (x1, y1) :: rest') - y1 <= L * (x' - x1)).
              { rewrite interp_cons2. rewrite (Qltb_ge _ _ Cx'), (Qltb_ge _ _ Dx'). destruct rest' as [|p r].
                - destruct (Qltb x1 x') eqn:E2; [apply Qltb_true in E2; split; nra|]. apply Qltb_false in E2.
                  destruct (Qeq_bool x0 x1) eqn:E3; [apply Qeqb_true in E3; lra|].
                  rewrite (seg_right x0 y0 x1 y1 x' Hlt) by lra. split; nra.
                - apply (interp_anchor L HL _ x1 y1 x' Hl' Dx'). }
              split; nra.
        -- (* both at or beyond x1 *)
           assert (Dx' : x1 <= x') by lra.
           destruct rest' as [|p r].
           ++ rewrite !interp_cons2. rewrite (Qltb_ge _ _ Cx), (Qltb_ge _ _ Dx), (Qltb_ge _ _ Cx'), (Qltb_ge _ _ Dx').
              destruct (Qltb x1 x) eqn:E2; [apply Qltb_true in E2|apply Qltb_false in E2].
              ** rewrite (Qltb_lt x1 x') by lra. split; nra.
              ** destruct (Qltb x1 x') eqn:E2'; [apply Qltb_true in E2'|apply Qltb_false in E2'].
                 --- destruct (Qeq_bool x0 x1) eqn:E3; [apply Qeqb_true in E3; split; nra|]. apply Qeqb_false in E3.
                     assert (Hlt : x0 < x1). { destruct (Qlt_le_dec x0 x1) as [C|C]; [exact C|]. exfalso. apply E3. lra. }
                     rewrite (seg_right x0 y0 x1 y1 x Hlt) by lra. split; nra.
                 --- destruct (Qeq_bool x0 x1) eqn:E3; [split; nra|]. apply Qeqb_false in E3.
                     assert (Hlt : x0 < x1). { destruct (Qlt_le_dec x0 x1) as [C|C]; [exact C|]. exfalso. apply E3. lra. }
                     rewrite (seg_right x0 y0 x1 y1 x Hlt), (seg_right x0 y0 x1 y1 x' Hlt) by lra. split; nra.
           ++ rewrite !interp_skip by assumption. apply IH; assumption.
Qed.

(* ---------------------------------------------------------------- lists *)
Lemma last_map {X Y} (f : X -> Y) l dx dy : l <> [] -> last (map f l) dy = f (last l dx).
Proof.
  induction l as [|a l IH]; [congruence|]. intros _. destruct l as [|b l]; [reflexivity|].
  change (last (map f (b :: l)) dy = f (last (b :: l) dx)). apply IH. discriminate.
Qed.
Lemma nth_skipn' {X} (l : list X) d : forall s j, nth j (skipn s l) d = nth (s + j) l d.
Proof. induction l as [|a l IH]; intros [|s] j; simpl; try reflexivity; [destruct j; reflexivity|apply IH]. Qed.
Lemma nth_firstn' {X} (l : list X) d : forall w j, (j < w)%nat -> nth j (firstn w l) d = nth j l d.
Proof.
  induction l as [|a l IH]; intros [|w] j H; simpl; try reflexivity; try lia.
  destruct j; [reflexivity|]. apply IH. lia.
Qed.
Lemma nth_slice {X} (l : list X) d s w j : (j < w)%nat -> nth j (slice s w l) d = nth (s + j) l d.
Proof. intros H. unfold slice. rewrite nth_firstn' by exact H. apply nth_skipn'. Qed.
Lemma slice_length {X} (l : list X) s w : (s + w <= length l)%nat -> length (slice s w l) = w.
Proof. intros H. unfold slice. rewrite firstn_length, skipn_length. lia. Qed.
Lemma last_nth' {X} (l : list X) d : last l d = nth (length l - 1) l d.
Proof.
  induction l as [|a l IH]; [reflexivity|]. destruct l as [|b l]; [reflexivity|].
  change (last (a :: b :: l) d) with (last (b :: l) d). rewrite IH.
  change (length (a :: b :: l) - 1)%nat with (S (length l)).
  change (length (b :: l) - 1)%nat with (length l - 0)%nat. rewrite Nat.sub_0_r. reflexivity.
Qed.
Lemma last_slice {X} (l : list X) d s w : (1 <= w)%nat -> (s + w <= length l)%nat ->
  last (slice s w l) d = nth (s + (w - 1)) l d.
Proof. intros H1 H2. rewrite last_nth', slice_length by exact H2. apply nth_slice. lia. Qed.
Lemma dyn_start_ok idx w n : (w <= n)%nat -> (dyn_start idx w n + w <= n)%nat.
Proof. unfold dyn_start. intros H. destruct (Z.of_nat idx - Z.of_nat w <? 0)%Z; lia. Qed.

(* ---------------------------------------------------------------- apply_delay, linear branches *)
Section Apply.
Variables (ro : bool) (d t : Q) (w : nat) (es : list ent) (fp : list Q).
Hypothesis Hw1 : (1 <= w)%nat.
Hypothesis Hwn : (w <= length es)%nat.
Let s := start d t w es.
Let xs := map (mask ro d) es.

Lemma start_ok : (s + w <= length xs)%nat.
Proof. unfold s, start, xs. rewrite map_length. apply dyn_start_ok. exact Hwn. Qed.

(* query j = delayed arrival of the j-th sliced entry, shifted so that the newest one is the step's start time *)
Theorem queries_nth j : (j < w)%nat ->
  nth j (queries ro d t w es) 0 = nth (s + j) xs 0 + (t - nth (s + (w - 1)) xs 0).
Proof.
  intros Hj. unfold queries. fold s xs.
  rewrite (last_slice xs 0 s w Hw1 start_ok).
  set (f := fun r : Q => r + (t - nth (s + (w - 1)) xs 0)).
  assert (E : 0 + (t - nth (s + (w - 1)) xs 0) = f 0) by reflexivity.
  rewrite (nth_indep (map f (slice s w xs)) 0 (f 0)) by (rewrite map_length, slice_length by exact start_ok; exact Hj).
  rewrite map_nth. unfold f. rewrite nth_slice by exact Hj. reflexivity.
Qed.
Theorem queries_length : length (queries ro d t w es) = w.
Proof. unfold queries. rewrite map_length. apply slice_length. exact start_ok. Qed.
Theorem queries_newest : nth (w - 1) (queries ro d t w es) 0 == t.
Proof. rewrite queries_nth by lia. ring. Qed.

Theorem apply_length : length (apply_linear ro d t w es fp) = w.
Proof. unfold apply_linear. rewrite map_length. apply queries_length. Qed.
Theorem apply_nth j : (j < w)%nat ->
  nth j (apply_linear ro d t w es fp) 0 = interp (nth j (queries ro d t w es) 0) (knots ro d es fp).
Proof.
  intros Hj. unfold apply_linear.
  set (f := fun x : Q => interp x (knots ro d es fp)).
  rewrite (nth_indep (map f (queries ro d t w es)) 0 (f 0)) by (rewrite map_length, queries_length; exact Hj).
  rewrite map_nth. reflexivity.
Qed.

(* the newest entry is the delayed signal evaluated at the step's start time -- whatever the slice, clamped or not *)
Theorem apply_newest : nth (w - 1) (apply_linear ro d t w es fp) 0 == interp t (knots ro d es fp).
Proof. rewrite apply_nth by lia. apply interp_comp. apply queries_newest. Qed.

(* ---- all entries real (seq >= 0): knots = sender's signal shifted by d ---- *)
Hypothesis Hfp : length fp = length es.

Lemma knots_all_real : (forall e, In e es -> (0 <= e_seq e)%Z) -> knots ro d es fp = shift d (signal es fp).
Proof.
  unfold knots, signal, shift. clear Hwn s xs Hfp. revert fp.
  induction es as [|e l IH]; intros fp' Hr; [reflexivity|]. destruct fp' as [|y fp']; [reflexivity|].
  cbn [map combine fst snd]. f_equal.
  - unfold mask, recv_d. assert (E : (e_seq e <? 0)%Z = false) by (apply Z.ltb_ge, Hr; now left).
    rewrite E, andb_false_r. reflexivity.
  - apply IH. intros; apply Hr; now right.
Qed.

Lemma mask_real_nth i : (forall e, In e es -> (0 <= e_seq e)%Z) -> (i < length es)%nat ->
  nth i xs 0 = e_sent (nth i es {| e_seq := 0; e_sent := 0; e_recv := 0 |}) + d.
Proof.
  intros Hr Hi. unfold xs.
  rewrite (nth_indep (map (mask ro d) es) 0 (mask ro d {| e_seq := 0; e_sent := 0; e_recv := 0 |})) by (rewrite map_length; exact Hi).
  rewrite map_nth. set (e := nth i es _). assert (He : In e es) by (apply nth_In; exact Hi).
  unfold mask, recv_d. assert (E : (e_seq e <? 0)%Z = false) by (apply Z.ltb_ge, Hr; exact He).
  rewrite E, andb_false_r. reflexivity.
Qed.

Let sent i := e_sent (nth i es {| e_seq := 0; e_sent := 0; e_recv := 0 |}).

(* every entry the step sees is the sender's signal at (ts_start - d), moved back by the send-time distance to the
   newest sliced message *)
Theorem apply_all_real j : (forall e, In e es -> (0 <= e_seq e)%Z) -> (j < w)%nat ->
  nth j (apply_linear ro d t w es fp) 0 ==
  interp (t - d - (sent (s + (w - 1)) - sent (s + j))) (signal es fp).
Proof.
  intros Hr Hj. rewrite apply_nth by exact Hj. rewrite knots_all_real by exact Hr.
  rewrite queries_nth by exact Hj.
  pose proof start_ok as Hs. unfold xs in Hs. rewrite map_length in Hs.
  rewrite !mask_real_nth by (try exact Hr; lia). fold (sent (s + j)) (sent (s + (w - 1))).
  rewrite <- (interp_shift d (signal es fp)). apply interp_comp. ring.
Qed.

(* periodic sender: older entries are the same signal one sender period apart *)
Theorem apply_periodic (s0 P : Q) j : (forall e, In e es -> (0 <= e_seq e)%Z) -> (j < w)%nat ->
  (forall i, (i < length es)%nat -> sent i == s0 + inject_Z (Z.of_nat i) * P) ->
  nth j (apply_linear ro d t w es fp) 0 ==
  interp (t - d - inject_Z (Z.of_nat (w - 1 - j)) * P) (signal es fp).
Proof.
  intros Hr Hj Hp. rewrite apply_all_real by assumption. apply interp_comp.
  pose proof start_ok as Hs. unfold xs in Hs. rewrite map_length in Hs.
  rewrite !Hp by lia.
  replace (Z.of_nat (s + (w - 1))) with (Z.of_nat (s + j) + Z.of_nat (w - 1 - j))%Z by lia.
  rewrite inject_Z_plus. ring.
Qed.

(* coincidence with the zero-order hold: when the newest sliced entry arrives exactly at the step's start time, every
   query time is the delayed arrival of its own entry and -- on strictly increasing knots -- the interpolation returns
   the entries themselves, i.e. the zero-order-hold slice *)
Theorem apply_knot_eq_zoh j : incr (knots ro d es fp) -> (2 <= length es)%nat -> (j < w)%nat ->
  t == nth (s + (w - 1)) xs 0 ->
  nth j (apply_linear ro d t w es fp) 0 == nth j (zoh d t w es fp) 0.
Proof.
  intros Hi H2 Hj Ht. rewrite apply_nth by exact Hj. rewrite queries_nth by exact Hj.
  unfold zoh. fold s. rewrite nth_slice by exact Hj.
  pose proof start_ok as Hs. unfold xs in Hs. rewrite map_length in Hs.
  assert (Hk : (s + j < length (knots ro d es fp))%nat).
  { unfold knots. rewrite combine_length, map_length, Hfp. lia. }
  destruct (nth_split (knots ro d es fp) (0, 0) Hk) as (l1 & l2 & E & Hl1).
  assert (En : nth (s + j) (knots ro d es fp) (0, 0) = (nth (s + j) xs 0, nth (s + j) fp 0)).
  { unfold knots, xs. apply combine_nth. rewrite map_length. symmetry. exact Hfp. }
  rewrite En in E. rewrite E in Hi |- *.
  apply interp_at_knot; [exact Hi| |rewrite Ht; ring].
  intros C. apply (f_equal (@length _)) in E. rewrite app_length in E. simpl in E.
  unfold knots in E. rewrite combine_length, map_length, Hfp in E.
  apply (f_equal (@length _)) in C. rewrite app_length in C. simpl in C. lia.
Qed.
End Apply.

(* ---- continuity and derivative in the delay (all entries real) ---- *)
Section Delay.
Variables (ro : bool) (t : Q) (w : nat) (es : list ent) (fp : list Q).
Hypothesis Hw1 : (1 <= w)%nat.
Hypothesis Hwn : (w <= length es)%nat.
Hypothesis Hfp : length fp = length es.
Hypothesis Hr : forall e, In e es -> (0 <= e_seq e)%Z.
Definition newest (d : Q) : Q := nth (w - 1) (apply_linear ro d t w es fp) 0.

Theorem newest_is_signal d : newest d == interp (t - d) (signal es fp).
Proof.
  unfold newest. rewrite apply_newest by assumption. rewrite knots_all_real by assumption.
  rewrite <- (interp_shift d (signal es fp) (t - d)). apply interp_comp. ring.
Qed.

(* the seen value changes continuously with the delay: Lipschitz with any bound L on the finite-difference slopes *)
Theorem newest_lipschitz L d d' : 0 <= L -> lip L (signal es fp) -> d <= d' ->
  - (L * (d' - d)) <= newest d - newest d' <= L * (d' - d).
Proof.
  intros HL Hl Hd. rewrite !newest_is_signal.
  pose proof (interp_lipschitz L (signal es fp) HL Hl (t - d') (t - d)) as B.
  setoid_replace (t - d - (t - d')) with (d' - d) in B by ring. apply B. lra.
Qed.

(* derivative w.r.t. the delay: while ts_start - d stays inside one segment of the signal the seen value is affine in d
   and every difference quotient equals minus the finite-difference slope of that segment *)
Theorem newest_affine d d' x0 y0 x1 y1 pre post : signal es fp = pre ++ (x0, y0) :: (x1, y1) :: post ->
  incr (signal es fp) -> x0 <= t - d <= x1 -> x0 <= t - d' <= x1 ->
  newest d' - newest d == - ((d' - d) * ((y1 - y0) / (x1 - x0))).
Proof.
  intros E Hi H1 H2. rewrite !newest_is_signal. rewrite E in Hi |- *.
  rewrite (interp_affine (t - d) (t - d')) by assumption. ring.
Qed.
End Delay.

(* every entry of a periodic sender's window, as a function of the delay *)
Theorem entry_lipschitz ro t w es fp (s0 P : Q) j L d d' :
  (1 <= w)%nat -> (w <= length es)%nat -> length fp = length es -> (forall e, In e es -> (0 <= e_seq e)%Z) ->
  (forall i, (i < length es)%nat ->
     e_sent (nth i es {| e_seq := 0; e_sent := 0; e_recv := 0 |}) == s0 + inject_Z (Z.of_nat i) * P) ->
  (j < w)%nat -> 0 <= L -> lip L (signal es fp) -> d <= d' ->
  - (L * (d' - d)) <= nth j (apply_linear ro d t w es fp) 0 - nth j (apply_linear ro d' t w es fp) 0 <= L * (d' - d).
Proof.
  intros Hw1 Hwn Hfp Hr Hp Hj HL Hl Hd.
  rewrite !(apply_periodic ro _ t w es fp Hw1 Hwn Hfp s0 P j Hr Hj Hp).
  set (c := inject_Z (Z.of_nat (w - 1 - j)) * P).
  pose proof (interp_lipschitz L (signal es fp) HL Hl (t - d' - c) (t - d - c)) as B.
  setoid_replace (t - d - c - (t - d' - c)) with (d' - d) in B by ring. apply B. lra.
Qed.

(* ---------------------------------------------------------------- dtype restoration of integer leaves *)
Theorem trunc_between (a b : Z) (q : Q) : inject_Z a <= q <= inject_Z b -> (a <= trunc q <= b)%Z.
Proof.
  destruct q as [n dn]. unfold Qle, inject_Z, trunc. simpl. intros [H1 H2].
  rewrite Z.mul_1_r in *.
  split.
  - rewrite <- (Z.quot_mul a (Z.pos dn)) by lia. apply Z.quot_le_mono; lia.
  - rewrite <- (Z.quot_mul b (Z.pos dn)) by lia. apply Z.quot_le_mono; lia.
Qed.
Theorem trunc_inject (a : Z) : trunc (inject_Z a) = a.
Proof. unfold trunc, inject_Z. simpl. apply Z.quot_1_r. Qed.

(* ---------------------------------------------------------------- linear_real_only: dummies sit at -1e9 *)
Theorem mask_real_only d e :
  mask true d e = (if (e_seq e <? 0)%Z then - BIG else e_sent e + d) /\ mask false d e = recv_d d e.
Proof. unfold mask, recv_d. destruct (e_seq e <? 0)%Z; split; reflexivity. Qed.

(* between the last dummy (at -1e9) and the first real message (r0, y0), r0 >= 0, the value is y0 up to a fraction
   (r0 - x) / 1e9 of the jump, and it is the dummy's value up to a fraction (x + 1e9) / 1e9 *)
Theorem real_only_segment yd r0 y0 x : 0 <= r0 -> - BIG <= x <= r0 ->
  exists c, 0 <= c /\ c <= (r0 - x) / BIG /\ c <= 1 /\ seg (- BIG) yd r0 y0 x == y0 - c * (y0 - yd) /\
            seg (- BIG) yd r0 y0 x == yd + (1 - c) * (y0 - yd) /\ 1 - c <= (x + BIG) / BIG.
Proof.
  intros H0 Hx. assert (HB : BIG == 1000000000) by reflexivity.
  exists ((r0 - x) / (r0 + BIG)).
  assert (Hpos : 0 < r0 + BIG) by lra.
  assert (A : 0 <= (r0 - x) / (r0 + BIG)) by (apply Qle_shift_div_l; lra).
  assert (B : (r0 - x) / (r0 + BIG) <= 1) by (apply Qle_shift_div_r; lra).
  repeat split; try assumption.
  - apply Qle_shift_div_l; [lra|]. set (c := (r0 - x) / (r0 + BIG)) in *.
    assert (Hc : c * (r0 + BIG) == r0 - x) by (unfold c; field; lra). nra.
  - unfold seg. field. lra.
  - unfold seg. field. lra.
  - apply Qle_shift_div_l; [lra|]. set (c := (r0 - x) / (r0 + BIG)) in *.
    assert (Hc : c * (r0 + BIG) == r0 - x) by (unfold c; field; lra). nra.
Qed.

(* ---------------------------------------------------------------- the knot clause needs strictly increasing knots *)
Lemma dup_last_knot_witness :
  exists d t w es fp, (1 <= w)%nat /\ (w <= length es)%nat /\ length fp = length es /\ nondec (knots false d es fp) /\
    t == nth (start d t w es + (w - 1)) (map (mask false d) es) 0 /\
    ~ nth 0 (apply_linear false d t w es fp) 0 == nth 0 (zoh d t w es fp) 0.
Proof.
  exists 0, 0, 1%nat, [ {| e_seq := -1; e_sent := 0; e_recv := 0 |}; {| e_seq := 0; e_sent := 0; e_recv := 0 |} ], [10; 20].
  repeat split; try (simpl; lia); try (vm_compute; discriminate).
Qed.

(* ---------------------------------------------------------------- which slice a coincident arrival selects *)
Fixpoint sincr (l : list Q) : Prop :=
  match l with a :: rest => match rest with b :: _ => a < b /\ sincr rest | [] => True end | [] => True end.
Lemma sincr_lt a l : sincr (a :: l) -> forall i, (i < length l)%nat -> a < nth i l 0.
Proof.
  revert a. induction l as [|b l IH]; intros a H i Hi; [simpl in Hi; lia|].
  destruct H as [Hab Hs]. destruct i as [|i]; [exact Hab|]. simpl.
  apply Qlt_trans with b; [exact Hab|]. apply IH; [exact Hs|simpl in Hi; lia].
Qed.
Lemma sincr_tail a l : sincr (a :: l) -> sincr l.
Proof. destruct l; [trivial|]. intros [_ H]. exact H. Qed.
Lemma first_gt_at_knot t : forall l k, sincr l -> (k < length l)%nat -> nth k l 0 == t -> first_gt t l = S k.
Proof.
  induction l as [|a l IH]; intros k Hs Hk Ht; [simpl in Hk; lia|].
  destruct k as [|k]; simpl in Ht |- *.
  - rewrite (Qltb_ge t a) by lra. f_equal. destruct l as [|b l']; [reflexivity|].
    destruct Hs as [Hab _]. simpl. rewrite (Qltb_lt t b) by lra. reflexivity.
  - assert (Ha : a < nth k l 0) by (apply sincr_lt; [exact Hs|simpl in Hk; lia]).
    rewrite (Qltb_ge t a) by lra. f_equal. apply IH; [apply (sincr_tail a); exact Hs|simpl in Hk; lia|exact Ht].
Qed.
(* the step starts exactly when entry k arrives (strictly increasing arrivals, at least `window` entries up to k):
   entry k is the newest sliced entry *)
Theorem coincidence_slice d t w es k : sincr (map (recv_d d) es) -> (k < length es)%nat ->
  nth k (map (recv_d d) es) 0 == t -> (1 <= w)%nat -> (w <= S k)%nat ->
  (start d t w es + (w - 1))%nat = k.
Proof.
  intros Hs Hk Ht Hw1 Hwk. unfold start. rewrite (first_gt_at_knot t _ k Hs) by (try rewrite map_length; assumption).
  unfold dyn_start. destruct (Z.of_nat (S k) - Z.of_nat w <? 0)%Z eqn:E; [apply Z.ltb_lt in E; lia|]. lia.
Qed.
(* second manifestation: the dummy's own slot returns message 0 when both arrive at the step's start *)
Lemma dup_knot_dummy_slot_witness :
  exists d t w es fp, (1 <= w)%nat /\ (w <= length es)%nat /\ length fp = length es /\ nondec (knots false d es fp) /\
    t == nth (start d t w es + (w - 1)) (map (mask false d) es) 0 /\
    nth 1 (apply_linear false d t w es fp) 0 == nth 1 (zoh d t w es fp) 0 /\
    ~ nth 0 (apply_linear false d t w es fp) 0 == nth 0 (zoh d t w es fp) 0.
Proof.
  exists 0, 0, 2%nat, [ {| e_seq := -1; e_sent := 0; e_recv := 0 |}; {| e_seq := 0; e_sent := 0; e_recv := 0 |};
                        {| e_seq := 1; e_sent := 1 # 2; e_recv := 1 # 2 |} ], [10; 20; 30].
  repeat split; try (simpl; lia); try (vm_compute; discriminate); try (vm_compute; reflexivity).
Qed.
