(* C06 / C13, compiled runtime: the log of step-function applications of a rollout is exactly the list of scheduled (unmasked) cells of
   the partitions it ran, in schedule order - one application per scheduled step, with the step's own sequence number, none for masked
   slots; and the record (an array indexed by sequence number, pre-filled with "never executed") holds exactly those rows *)
From Coq Require Import List Arith ZArith Bool Lia.
From Rex Require Import CompiledModel.
Import ListNotations.
Open Scope Z_scope.

Section Once.
Variable I : inst.
Variable Val : Type.
Variable f : nat -> Z -> Z -> Val -> list (list (Z * Z * Z * Val)) -> Val.
Variables (vi vd : nat -> Val).
Variable sizes : list Z.
Notation rollout := (rollout I Val f vi vd sizes).
Notation run_phase := (run_phase I Val f vi vd sizes).
Notation exec_cell := (exec_cell I Val f vi vd sizes).
Notation commit := (commit Val sizes).
Notation phases_of := (phases_of I).

Definition row_key (r : row Val) : nat * Z := (w_node Val r, w_seq Val r).
Definition todo_key (nc : nat * cell) : nat * Z := (fst nc, c_seq (snd nc)).

Lemma fold_commit_log rs : forall s, r_log Val (fold_left commit rs s) = r_log Val s ++ rs.
Proof.
  induction rs as [|r rs IH]; intros s; simpl; [now rewrite app_nil_r|]. rewrite IH. simpl. now rewrite <- app_assoc.
Qed.

Lemma run_phase_log todo s : map row_key (r_log Val (run_phase todo s)) = map row_key (r_log Val s) ++ map todo_key todo.
Proof.
  unfold CompiledModel.run_phase. rewrite fold_commit_log, map_app. f_equal.
  rewrite map_map. apply map_ext. intros [n c]. reflexivity.
Qed.

Lemma fold_phases_log phs : forall s,
  map row_key (r_log Val (fold_left (fun s ph => run_phase ph s) phs s)) = map row_key (r_log Val s) ++ map todo_key (concat phs).
Proof.
  induction phs as [|ph phs IH]; intros s; simpl; [now rewrite app_nil_r|].
  rewrite IH, run_phase_log, map_app, app_assoc. reflexivity.
Qed.

(* exactly-once, with the step's own sequence number: the applications of the step function during a rollout over partitions
   p0 .. p0+n-1 are, in order, the scheduled cells of those partitions (generation by generation, then the supervisor) *)
Theorem compiled_once p0 n :
  map row_key (r_log Val (rollout p0 n)) = map todo_key (concat (flat_map phases_of (seq p0 n))).
Proof. unfold CompiledModel.rollout. rewrite fold_phases_log. reflexivity. Qed.

(* a masked slot (c_run = false) contributes no application: gen_todo only lists running cells *)
Theorem masked_slots_execute_nothing p g nc : In nc (gen_todo I p g) -> c_run (snd nc) = true.
Proof.
  unfold gen_todo. intros H. apply in_flat_map in H as [sl [_ H]].
  destruct (Nat.eqb (s_gen sl) g && negb (Nat.eqb (s_kind sl) (i_sup I))); [|destruct H].
  destruct (c_run (nth p (s_cells sl) dcell)) eqn:E; [|destruct H]. destruct H as [<-|[]]. exact E.
Qed.

(* ---- the record: an array indexed by the sequence number, pre-filled with None (= the -1 rows), written at w_seq ---- *)
Fixpoint rec_upd {X} (i : nat) (x : X) (l : list (option X)) : list (option X) :=
  match l, i with [], _ => [] | _ :: l, O => Some x :: l | y :: l, S i => y :: rec_upd i x l end.
Definition record_of (node : nat) (len : nat) (log : list (row Val)) : list (option (row Val)) :=
  fold_left (fun rec r => if Nat.eqb (w_node Val r) node then rec_upd (Z.to_nat (w_seq Val r)) r rec else rec) log (repeat None len).

Lemma rec_upd_nth {X} i (x : X) l j : nth_error (rec_upd i x l) j =
  if Nat.eqb i j then (match nth_error l j with Some _ => Some (Some x) | None => None end) else nth_error l j.
Proof.
  revert i j. induction l as [|y l IH]; intros i j.
  - destruct i; destruct j; simpl; try reflexivity; destruct (Nat.eqb i j); reflexivity.
  - destruct i, j; simpl; try reflexivity. apply IH.
Qed.

Lemma rec_upd_length {X} i (x : X) l : length (rec_upd i x l) = length l.
Proof. revert i. induction l as [|y l IH]; intros i; [destruct i; reflexivity|]. destruct i; simpl; [reflexivity|]. now rewrite IH. Qed.

(* row k of the record of a node is the LAST logged row with that (node, seq) - under exactly-once: the row - and None (= -1) if no such
   step was executed *)
Theorem record_row node len log : forall k, (k < len)%nat -> (forall r, In r log -> 0 <= w_seq Val r) ->
  nth_error (record_of node len log) k =
    Some (find (fun r => Nat.eqb (w_node Val r) node && (w_seq Val r =? Z.of_nat k)) (rev log)).
Proof.
  unfold record_of. intros k Hk Hpos.
  assert (G : forall rec, length rec = len ->
    nth_error (fold_left (fun rec r => if Nat.eqb (w_node Val r) node then rec_upd (Z.to_nat (w_seq Val r)) r rec else rec) log rec) k =
    match find (fun r => Nat.eqb (w_node Val r) node && (w_seq Val r =? Z.of_nat k)) (rev log) with Some r => Some (Some r) | None => nth_error rec k end).
  { induction log as [|r log IH] using rev_ind; intros rec Hl; [reflexivity|].
    rewrite fold_left_app, rev_app_distr. simpl.
    assert (Hr : 0 <= w_seq Val r) by (apply Hpos, in_or_app; right; now left).
    destruct (Nat.eqb (w_node Val r) node) eqn:En; simpl.
    - rewrite rec_upd_nth. destruct (Z.eqb_spec (w_seq Val r) (Z.of_nat k)) as [E|E].
      + rewrite E, Nat2Z.id, Nat.eqb_refl.
        assert (Hlen : (k < length (fold_left (fun rec r => if Nat.eqb (w_node Val r) node then rec_upd (Z.to_nat (w_seq Val r)) r rec else rec) log rec))%nat).
        { clear - Hl Hk. revert rec Hl. induction log as [|x l IHl]; intros rec Hl; simpl; [lia|]. apply IHl.
          destruct (Nat.eqb (w_node Val x) node); [|exact Hl]. rewrite rec_upd_length. exact Hl. }
        apply nth_error_Some in Hlen. destruct (nth_error _ k); [reflexivity|congruence].
      + assert (Nat.eqb (Z.to_nat (w_seq Val r)) k = false) by (apply Nat.eqb_neq; lia). rewrite H.
        apply IH; [intros; apply Hpos, in_or_app; now left|exact Hl].
    - apply IH; [intros; apply Hpos, in_or_app; now left|exact Hl]. }
  rewrite G by apply repeat_length.
  destruct (find _ (rev log)); [reflexivity|]. rewrite nth_error_repeat by exact Hk. reflexivity.
Qed.
End Once.
Print Assumptions compiled_once.
Print Assumptions record_row.
