(* C10: the scalar kernels of TrainableDist (alpha <-> delay), carrier-generic, and the saturation law over R *)
From Coq Require Import Reals Lra ZArith.
From Rex Require Import Ops.

Section K.
Context {A : Type} (O : ops A).
Definition t_get_alpha_raw (delay mn mx : A) : A := odiv O (osub O delay mn) (osub O mx mn).
Definition t_get_alpha (delay mn mx : A) : A := omin O (omax O (t_get_alpha_raw delay mn mx) (o0 O)) (o1 O).
Definition t_sample (alpha mn mx : A) : A := oadd O mn (omul O alpha (osub O mx mn)).
End K.

Open Scope R_scope.
(* setting the delay to d through alpha yields the delay clip(d, min, max): inside the range exactly d, outside it the bounds *)
Theorem alpha_saturates (d mn mx : R) : mn < mx ->
  t_sample Rops (t_get_alpha Rops d mn mx) mn mx = Rmin (Rmax d mn) mx.
Proof.
  intros H. unfold t_sample, t_get_alpha, t_get_alpha_raw; simpl.
  set (r := mx - mn). assert (Hr : 0 < r) by (unfold r; lra).
  set (x := (d - mn) / r). assert (Hx : x * r = d - mn) by (unfold x; field; lra).
  replace d with (mn + x * r) by lra.
  destruct (Rle_lt_dec x 0) as [H0|H0].
  - rewrite (Rmax_right x 0) by lra. rewrite (Rmin_left 0 1) by lra.
    rewrite (Rmax_right (mn + x * r) mn) by nra. rewrite Rmin_left by lra. lra.
  - rewrite (Rmax_left x 0) by lra. destruct (Rle_lt_dec x 1) as [H1|H1].
    + rewrite (Rmin_left x 1) by lra. rewrite (Rmax_left (mn + x * r) mn) by nra.
      rewrite Rmin_left by (unfold r in *; nra). reflexivity.
    + rewrite (Rmin_right x 1) by lra. rewrite (Rmax_left (mn + x * r) mn) by nra.
      rewrite Rmin_right by (unfold r in *; nra). unfold r. lra.
Qed.
Corollary alpha_inside (d mn mx : R) : mn <= d <= mx -> mn < mx -> t_sample Rops (t_get_alpha Rops d mn mx) mn mx = d.
Proof. intros Hd H. rewrite alpha_saturates by exact H. unfold Rmin, Rmax. repeat destruct (Rle_dec _ _); lra. Qed.
Print Assumptions alpha_saturates.
