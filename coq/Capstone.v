(* Capstone: under a valid schedule no vertex is executed twice (so check_replay follows from the schedule checks and the buffer sizes),
   and hence C01 + C07 + C08 in one statement: the compiled replay of the exported record reproduces the recorded asynchronous execution *)
From Coq Require Import List Arith ZArith Bool Lia.
From Rex Require Import CompiledModel RunnerSym CheckSym CompiledOnce ScheduleSpec ScheduleCover Replay BufferSufficient.
From Rex Require Import KahnL AsyncModel2 AsyncStable ConflInv RexDet AsyncLaws AsyncLaws2 AsyncLaws3 AsyncLaws4 Dataflow AsyncDataflow
  ExportWindows ReplayAsync ExportReplay.
Import ListNotations.
Open Scope Z_scope.

(* ---------- completeness of nodupb ---------- *)
Lemma nodupb_complete l : NoDup l -> nodupb l = true.
Proof.
  induction 1 as [|x l Hx _ IH]; simpl; [reflexivity|]. rewrite IH, andb_true_r. apply negb_true_iff.
  destruct (existsb (key_eqb x) l) eqn:E; [|reflexivity]. exfalso. apply Hx.
  apply existsb_exists in E as (y & Hy & Ek). unfold key_eqb in Ek. apply andb_true_iff in Ek as [E1 E2].
  apply Nat.eqb_eq in E1. apply Z.eqb_eq in E2. destruct x, y; simpl in *; subst. exact Hy.
Qed.

(* ---------- what extra_ok says ---------- *)
Lemma extra_ok_facts I : extra_ok I = true ->
  (forall sl, In sl (i_slots I) -> (s_gen sl < i_ngen I)%nat) /\
  (forall sl, In sl (i_slots I) -> s_gen sl = (i_ngen I - 1)%nat -> s_kind sl = i_sup I) /\
  (forall p, (p < i_nparts I)%nat -> c_run (sup_cell I p) = true) /\
  (forall sl, In sl (i_slots I) -> (s_kind sl < length (i_nodes I))%nat).
Proof.
  intros He. unfold extra_ok in He. repeat (apply andb_true_iff in He as [He ?]).
  split; [|split; [|split]].
  - intros sl Hsl. apply Nat.ltb_lt. apply (forallb_In _ _ He sl Hsl).
  - intros sl Hsl Eg. pose proof (forallb_In _ _ H2 sl Hsl) as E. simpl in E. rewrite Eg, Nat.eqb_refl in E. now apply Nat.eqb_eq.
  - intros p Hp. apply (forallb_In _ _ H1 p). apply in_seq. lia.
  - intros sl Hsl. apply Nat.ltb_lt. apply (forallb_In _ _ H0 sl Hsl).
Qed.

Lemma nodup_app_keys {X Y} (f : X -> Y) l1 l2 :
  NoDup (map f l1) -> NoDup (map f l2) -> (forall x y, In x l1 -> In y l2 -> f x <> f y) -> NoDup (map f (l1 ++ l2)).
Proof.
  intros H1 H2 Hd. induction l1 as [|a l1 IH]; simpl; [exact H2|].
  simpl in H1. apply NoDup_cons_iff in H1 as [Ha H1]. constructor.
  - rewrite map_app, in_app_iff. intros [H|H]; [auto|]. apply in_map_iff in H as (y & Ey & Hy). apply (Hd a y); [now left|exact Hy|auto].
  - apply IH; [exact H1|]. intros x y Hx Hy. apply Hd; [now right|exact Hy].
Qed.

Section Once.
Variable I : inst.
Notation N := (i_ngen I).
Notation sup := (i_sup I).
Hypothesis V : ValidSchedule I.
Hypothesis X1 : forall sl, In sl (i_slots I) -> (s_gen sl < N)%nat.
Hypothesis X2 : forall sl, In sl (i_slots I) -> s_gen sl = (N - 1)%nat -> s_kind sl = sup.
Hypothesis X3 : forall p, (p < i_nparts I)%nat -> c_run (sup_cell I p) = true.
Hypothesis X4 : forall sl, In sl (i_slots I) -> (s_kind sl < length (i_nodes I))%nat.

(* (m, c) is the scheduled cell of node m executed in phase j of partition p *)
Definition At (p j : nat) (x : nat * cell) : Prop :=
  exists g, In (fst x, c_seq (snd x), p, g, snd x) (run_cells I) /\ (if Nat.eqb (fst x) sup then N else g) = j.

Lemma At_key p j x p' j' y : At p j x -> At p' j' y -> todo_key x = todo_key y -> p = p' /\ j = j'.
Proof.
  intros (g & Hx & Ej) (g' & Hy & Ej') E. destruct x as [m c], y as [m' c']. unfold todo_key in E. simpl in *.
  injection E as -> Es. rewrite Es in Hx.
  pose proof (scheduled_once I V _ _ _ _ _ _ _ _ Hx Hy) as E. injection E as -> -> ->. split; [reflexivity|congruence].
Qed.

(* the executed cells before runner position P: distinct keys, each a scheduled cell of an earlier phase *)
Definition KInv (P : nat) (L : list (nat * cell)) : Prop :=
  NoDup (map todo_key L) /\ forall x, In x L -> exists p j, (p * (N + 1) + j < P)%nat /\ (j <= N)%nat /\ At p j x.

Lemma kinv_step p j L todo : (j <= N)%nat -> KInv (p * (N + 1) + j) L -> NoDup (map fst todo) -> (forall x, In x todo -> At p j x) ->
  KInv (S (p * (N + 1) + j)) (L ++ todo).
Proof.
  intros Hj [Hn Hl] Hnd Hat. split.
  - apply nodup_app_keys; [exact Hn| |].
    + assert (E : map fst todo = map fst (map todo_key todo)) by (rewrite map_map; reflexivity). rewrite E in Hnd.
      eapply NoDup_map_inv; eauto.
    + intros x y Hx Hy E. destruct (Hl x Hx) as (p' & j' & Hlt & Hj' & Hax).
      destruct (At_key _ _ _ _ _ _ Hax (Hat y Hy) E) as [-> ->]. lia.
  - intros x Hx. apply in_app_or in Hx as [Hx|Hx].
    + destruct (Hl x Hx) as (p' & j' & Hlt & Hj' & Hax). exists p', j'. split; [lia|]. auto.
    + exists p, j. split; [lia|]. split; [exact Hj|]. auto.
Qed.

Lemma kinv_gens p L : KInv (p * (N + 1)) L ->
  forall g, (g <= N)%nat -> KInv (p * (N + 1) + g) (L ++ concat (map (gen_todo I p) (seq 0 g))).
Proof.
  intros H0. induction g as [|g IH]; intros Hg.
  - simpl. rewrite Nat.add_0_r, app_nil_r. exact H0.
  - rewrite seq_S, map_app, concat_app. simpl. rewrite app_nil_r, app_assoc.
    replace (p * (N + 1) + S g)%nat with (S (p * (N + 1) + g)) by lia.
    apply kinv_step; [lia|apply IH; lia|apply (gen_todo_nodup I V X1 X2 X4); lia|].
    intros [m c] Hx. apply (gen_todo_spec I V X1 X2 X4) in Hx; [exact Hx|lia].
Qed.

Lemma kinv_exec n : (n <= i_nparts I)%nat -> KInv (n * (N + 1)) (exec_cells I 0 n).
Proof.
  induction n as [|n IH]; intros Hn.
  - split; [constructor|intros x []].
  - assert (E : (S n * (N + 1))%nat = S (n * (N + 1) + N)) by lia. rewrite E. clear E.
    unfold exec_cells. rewrite seq_S, flat_map_app, concat_app. change (0 + n)%nat with n. cbn [flat_map]. rewrite app_nil_r.
    change (phases_of I n) with (map (gen_todo I n) (seq 0 N) ++ [[(sup, sup_cell I n)]]).
    rewrite concat_app. cbn [concat]. rewrite app_nil_r, app_assoc.
    apply kinv_step; [lia| |repeat constructor; simpl; tauto|].
    + apply kinv_gens; [|lia]. apply IH. lia.
    + intros [m c] Hx. apply (sup_todo_spec I V X1 X2 X3 X4) in Hx; [exact Hx|lia].
Qed.
End Once.

(* ---------- Part A ---------- *)
Theorem valid_schedule_nodup_log (I : inst) (sizes : list Z) (n : nat) :
  check_schedule I = true -> extra_ok I = true -> (n <= i_nparts I)%nat ->
  nodupb (map (rkey tag) (slog I sizes 0 n)) = true.
Proof.
  intros Hc He Hn. apply nodupb_complete.
  pose proof (check_schedule_sound I Hc) as V. destruct (extra_ok_facts I He) as (X1 & X2 & X3 & X4).
  unfold slog, sym_log. change (rkey tag) with (row_key tag). rewrite compiled_once.
  apply (kinv_exec I V X1 X2 X3 X4 n Hn).
Qed.

Corollary valid_schedule_check_replay I sizes n :
  check_schedule I = true -> extra_ok I = true ->
  (forall c, (c < length (i_conns I))%nat -> buffer_need I c <= size_of sizes (k_out (CompiledModel.conn I c))) -> (n <= i_nparts I)%nat ->
  check_replay I sizes 0 n = true.
Proof.
  intros Hc He HB Hn. unfold check_replay. apply andb_true_iff. split.
  - apply buffer_sufficient; assumption.
  - apply valid_schedule_nodup_log; assumption.
Qed.

(* ---------- Part B: the capstone ---------- *)
Theorem compiled_replay_reproduces_recording G s slots ngen nparts sup sizes n :
  let I := export G s slots ngen nparts sup in
  reach G s ->
  check_schedule I = true -> extra_ok I = true -> sched_ok I 0 n = true ->
  (forall c, (c < length (i_conns I))%nat -> buffer_need I c <= size_of sizes (k_out (CompiledModel.conn I c))) -> (n <= nparts)%nat ->
  forall m k x1 x2, T_a G s m k = Some x1 -> Tc I sizes 0 n m k = Some x2 -> x1 = x2.
Proof.
  intros I Hr Hc He Hs HB Hn.
  apply (replay_reproduces_async_export G s slots ngen nparts sup sizes 0 n Hr Hc); [|exact Hs].
  apply valid_schedule_check_replay; assumption.
Qed.

(* non-vacuity: the recorded two-node execution, its schedule, ring sizes [2; 1], three partitions *)
Example ex_capstone_hyps :
  check_schedule ex_I = true /\ extra_ok ex_I = true /\ sched_ok ex_I 0 3 = true /\
  buffer_need ex_I 0 = 2 /\ size_of [2; 1] (k_out (CompiledModel.conn ex_I 0)) = 2 /\ length (i_conns ex_I) = 1%nat.
Proof. vm_compute. repeat split; reflexivity. Qed.
Example ex_capstone : forall x1 x2, T_a exG exS 1%nat 2 = Some x1 -> Tc ex_I [2; 1] 0 3 1%nat 2 = Some x2 -> x1 = x2.
Proof.
  destruct ex_capstone_hyps as (H1 & H2 & H3 & H4 & H5 & H6).
  apply (compiled_replay_reproduces_recording exG exS (i_slots e2_inst) 2 3 1 [2; 1] 3 exS_reach); try assumption.
  - intros c Hc. fold ex_I in Hc |- *. rewrite H6 in Hc. assert (c = O) by lia. subst c. rewrite H4, H5. lia.
  - lia.
Qed.

Print Assumptions valid_schedule_nodup_log.
Print Assumptions valid_schedule_check_replay.
Print Assumptions compiled_replay_reproduces_recording.
