(* C07: coverage - in a valid schedule the set of scheduled vertices is closed under dependencies, so every ancestor of a
   scheduled vertex (in particular of every supervisor step inside the horizon) is scheduled, exactly once *)
From Coq Require Import List Arith ZArith Bool Lia Relations.
From Rex Require Import CompiledModel ScheduleSpec.
Import ListNotations.
Open Scope Z_scope.

Section Cover.
Variable I : inst.
Notation run_cells := (run_cells I). Notation find_cell := (find_cell I). Notation ins_of := (ins_of I). Notation conn := (conn I).

Definition scheduled (v : nat * Z) : Prop := exists p g c, In (fst v, snd v, p, g, c) run_cells.

(* direct dependencies of a scheduled vertex, read off its cell: the previous step of the node and every producer in its windows *)
Inductive dep : nat * Z -> nat * Z -> Prop :=
| dep_state n k p g c : In (n, k, p, g, c) run_cells -> 0 < k -> dep (n, k) (n, k - 1)
| dep_msg n k p g c cw so a b : In (n, k, p, g, c) run_cells -> In cw (combine (ins_of n) (c_wins c)) -> In (so, a, b) (snd cw) -> 0 <= so ->
    dep (n, k) (k_out (conn (fst cw)), so).

Lemma find_cell_in n k q : find_cell n k = Some q -> exists c, In (n, k, fst q, snd q, c) run_cells.
Proof.
  unfold CompiledModel.find_cell.
  match goal with |- context [find ?f ?l] => destruct (find f l) as [r|] eqn:E end; [|discriminate].
  apply find_some in E as [Hin Hk]. destruct r as [[[[n' k'] p] g] c]. intros H. injection H as <-. simpl.
  unfold key_eqb in Hk. simpl in Hk. apply andb_true_iff in Hk as [H1 H2]. apply Nat.eqb_eq in H1. apply Z.eqb_eq in H2. subst.
  exists c. exact Hin.
Qed.

Theorem deps_scheduled : ValidSchedule I -> forall v w, scheduled v -> dep v w -> scheduled w.
Proof.
  intros V v w _ Hd. destruct Hd as [n k p g c Hr Hk | n k p g c cw so a b Hr Hcw Hin Hso].
  - destruct (node_steps_in_seq_order I V n k p g c Hr Hk) as (q & Hq & _).
    destruct (find_cell_in _ _ _ Hq) as [c' Hc']. exists (fst q), (snd q), c'. exact Hc'.
  - destruct (producer_before_consumer I V n k p g c cw so a b Hr Hcw Hin Hso) as (q & Hq & _).
    destruct (find_cell_in _ _ _ Hq) as [c' Hc']. exists (fst q), (snd q), c'. exact Hc'.
Qed.

(* every ancestor (reflexive-transitive closure of the dependencies) of a scheduled vertex is scheduled *)
Theorem ancestors_scheduled : ValidSchedule I -> forall v w, scheduled v -> clos_refl_trans _ dep v w -> scheduled w.
Proof.
  intros V v w Hs H. induction H as [x y Hd | x | x y z _ IH1 _ IH2]; [eapply deps_scheduled; eauto | exact Hs | auto].
Qed.

(* and nothing is scheduled twice: two cells with the same (kind, seq) are the same cell *)
Lemma nodup_map_inj {X Y} (f : X -> Y) l : NoDup (map f l) -> forall a b, In a l -> In b l -> f a = f b -> a = b.
Proof.
  induction l as [|x l IH]; intros Hn a b Ha Hb E; [destruct Ha|]. simpl in Hn. inversion Hn as [|? ? Hnin Hn']; subst.
  destruct Ha as [<-|Ha]; destruct Hb as [<-|Hb]; [reflexivity| | |apply IH; assumption].
  - exfalso. apply Hnin. rewrite E. apply in_map. exact Hb.
  - exfalso. apply Hnin. rewrite <- E. apply in_map. exact Ha.
Qed.
Theorem scheduled_once : ValidSchedule I -> forall n k p g c p' g' c',
  In (n, k, p, g, c) run_cells -> In (n, k, p', g', c') run_cells -> (p, g, c) = (p', g', c').
Proof.
  intros V n k p g c p' g' c' H1 H2.
  pose proof (nodup_map_inj (key_of) _ (vs_once I V) _ _ H1 H2 eq_refl) as E. congruence.
Qed.
End Cover.
Print Assumptions ancestors_scheduled.
Print Assumptions scheduled_once.

(* ---- the horizon: supervisor step p is scheduled for every partition p; hence every ancestor of every supervisor step inside the
   horizon runs exactly once ---- *)
Section Horizon.
Variable I : inst.
Definition sup_slot_cell (p : nat) : cell :=
  match find (fun sl => Nat.eqb (s_kind sl) (i_sup I)) (i_slots I) with Some sl => nth p (s_cells sl) dcell | None => dcell end.
Definition check_sup_present : bool :=
  forallb (fun p => existsb (fun r => match r with (n, k, p', _, _) => Nat.eqb n (i_sup I) && (k =? Z.of_nat p) && Nat.eqb p' p end) (run_cells I))
          (seq 0 (i_nparts I)).

Lemma check_sup_present_sound : check_sup_present = true -> forall p, (p < i_nparts I)%nat -> scheduled I (i_sup I, Z.of_nat p).
Proof.
  unfold check_sup_present. intros H p Hp. rewrite forallb_forall in H. specialize (H p ltac:(apply in_seq; lia)).
  apply existsb_exists in H as [r [Hr Hk]]. destruct r as [[[[n k] p'] g] c].
  apply andb_true_iff in Hk as [Hk H3]. apply andb_true_iff in Hk as [H1 H2].
  apply Nat.eqb_eq in H1. apply Z.eqb_eq in H2. subst. exists p', g, c. exact Hr.
Qed.

Theorem horizon_covered : check_schedule I = true -> check_sup_present = true ->
  forall p w, (p < i_nparts I)%nat -> clos_refl_trans _ (dep I) (i_sup I, Z.of_nat p) w -> scheduled I w.
Proof.
  intros Hc Hs p w Hp Hd. apply (ancestors_scheduled I (check_schedule_sound I Hc) (i_sup I, Z.of_nat p)); [|exact Hd].
  apply check_sup_present_sound; assumption.
Qed.
End Horizon.
Print Assumptions horizon_covered.
