From Coq Require Import Reals Lra Lia.
Open Scope R_scope.
(* C17 kernels over R *)
Definition offset (mn mx : R) := (mn + mx) / 2.
Definition scale (mn mx : R) := (mx - mn) / 2.
Definition denorm (mn mx x : R) := x * scale mn mx + offset mn mx.
Definition norm (mn mx y : R) := (y - offset mn mx) / scale mn mx.
Lemma denorm_inv_apply mn mx x : mn <> mx -> norm mn mx (denorm mn mx x) = x.
Proof. intros H. unfold norm, denorm, scale, offset. field. lra. Qed.
Lemma denorm_endpoints mn mx : denorm mn mx (-1) = mn /\ denorm mn mx 1 = mx.
Proof. unfold denorm, scale, offset. split; field. Qed.
Lemma denorm_mono mn mx x y : mn < mx -> x < y -> denorm mn mx x < denorm mn mx y.
Proof. intros H Hxy. unfold denorm, scale, offset. nra. Qed.
Lemma exp_inv_apply x : ln (exp x) = x. Proof. apply ln_exp. Qed.
Lemma exp_apply_inv x : 0 < x -> exp (ln x) = x. Proof. apply exp_ln. Qed.
(* C19 squash *)
Definition unsquash (lo hi x : R) := / 2 * (tanh x + 1) * (hi - lo) + lo.
Lemma tanh_bounds x : -1 < tanh x < 1.
Proof.
  unfold tanh, sinh, cosh.
  assert (0 < exp x) by apply exp_pos. assert (0 < exp (- x)) by apply exp_pos.
  split.
  - apply Rmult_lt_reg_r with ((exp x + exp (- x)) / 2); [lra|].
    replace ((exp x - exp (- x)) / 2 / ((exp x + exp (- x)) / 2) * ((exp x + exp (- x)) / 2)) with ((exp x - exp (- x)) / 2) by (field; lra). lra.
  - apply Rmult_lt_reg_r with ((exp x + exp (- x)) / 2); [lra|].
    replace ((exp x - exp (- x)) / 2 / ((exp x + exp (- x)) / 2) * ((exp x + exp (- x)) / 2)) with ((exp x - exp (- x)) / 2) by (field; lra). lra.
Qed.
Lemma unsquash_in_bounds lo hi x : lo < hi -> lo < unsquash lo hi x < hi.
Proof. intros H. pose proof (tanh_bounds x). unfold unsquash. split; nra. Qed.
Print Assumptions denorm_inv_apply.
Print Assumptions unsquash_in_bounds.
