(* C08: arithmetic core of "an output is never overwritten before its last scheduled reader has run" *)
From Coq Require Import List Arith ZArith Bool Lia.
From Rex Require Import CompiledModel.
Import ListNotations.
Open Scope Z_scope.

(* two different sequence numbers closer than the ring size never share a slot *)
Lemma ring_distinct size s w : 0 < size -> s < w -> w - s < size -> w mod size <> s mod size.
Proof.
  intros Hs Hlt Hd Heq.
  assert (H0 : (w - s) mod size = 0).
  { rewrite Zminus_mod, Heq, Z.sub_diag. apply Z.mod_0_l. lia. }
  rewrite Z.mod_small in H0 by lia. lia.
Qed.

(* suffix minimum / prefix maximum as computed by the buffer-size routine *)
Lemma suffix_min_length l : length (suffix_min l) = length l.
Proof. induction l as [|x l IH]; simpl; [reflexivity|]. destruct (suffix_min l); simpl in *; lia. Qed.

Lemma suffix_min_head l d : forall j, (j < length l)%nat -> nth 0 (suffix_min l) d <= nth j l d.
Proof.
  induction l as [|x l IH]; intros j H; simpl in H; [lia|].
  simpl suffix_min. destruct j as [|j].
  - simpl. destruct (suffix_min l); simpl; lia.
  - specialize (IH j ltac:(lia)). simpl nth at 2.
    destruct (suffix_min l) as [|y r] eqn:E.
    + pose proof (suffix_min_length l) as Hl. rewrite E in Hl. simpl in Hl. lia.
    + simpl in *. lia.
Qed.

Lemma suffix_min_le l : forall i j d, (i <= j < length l)%nat -> nth i (suffix_min l) d <= nth j l d.
Proof.
  induction l as [|x l IH]; intros i j d H; simpl in H; [lia|].
  destruct i as [|i]; [apply suffix_min_head; simpl; lia|].
  destruct j as [|j]; [lia|]. simpl suffix_min.
  destruct (suffix_min l) as [|y r] eqn:E.
  - pose proof (suffix_min_length l) as Hl. rewrite E in Hl. simpl in Hl. lia.
  - change (nth (S i) (Z.min x y :: y :: r) d) with (nth i (y :: r) d).
    change (nth (S j) (x :: l) d) with (nth j l d). apply IH. lia.
Qed.

Lemma prefix_max_from_length acc l : length (prefix_max_from acc l) = length l.
Proof. revert acc; induction l; simpl; intros; auto. Qed.

Lemma prefix_max_from_ge l : forall acc i j d, (j <= i < length l)%nat ->
  nth j l d <= nth i (prefix_max_from acc l) d /\ acc <= nth i (prefix_max_from acc l) d.
Proof.
  induction l as [|x l IH]; intros acc i j d H; simpl in H; [lia|].
  simpl. destruct i as [|i].
  - assert (j = 0)%nat by lia. subst. simpl. lia.
  - destruct j as [|j].
    + simpl. destruct (IH (Z.max acc x) i 0%nat d) as [_ H2]; [destruct l; simpl in *; lia|]. lia.
    + simpl. destruct (IH (Z.max acc x) i j d) as [H1 H2]; [lia|]. lia.
Qed.
Print Assumptions suffix_min_le.
