(* C19 — the vectorised normalisation wrappers over whole histories: after any run the normaliser state is the running
   moment update folded over every batch the wrapped environment returned, hence (over R, by RlLaws.moments_from_prior)
   the mean and variance of everything seen so far together with the 1e-4-weight prior. *)
From Coq Require Import Reals Lra Lia List Bool ZArith.
From Rex Require Import Ops RlKernels RlEnv RlLaws.
Import ListNotations.

Section Hist.
Context {A : Type} (O : ops A).
Variables (C IB Rng : Type) (sq : A -> A).
Local Notation venv := (venv (A:=A) C IB Rng).
Local Notation vstate := (vstate (A:=A) C IB Rng).
Local Notation vret := (vret (A:=A) C IB Rng).
Definition vr_state (r : vret) : vstate := fst (fst (fst (fst (fst r)))).
Definition vr_obs (r : vret) : list (obs (A:=A)) := snd (fst (fst (fst (fst r)))).
Definition vr_rew (r : vret) : list A := snd (fst (fst (fst r))).
Definition vr_te (r : vret) : list bool := snd (fst (fst r)).
Definition vr_tr (r : vret) : list bool := snd (fst r).
Definition final (rs : list vret) (v : vstate) : vstate := last (map vr_state rs) v.

(* ---- observations ---- *)
(* the raw observation batches the wrapped environment returns along a run of the wrapper *)
Fixpoint nobs_raw (clipv : A) (e : venv) (v : vstate) (acts : list (list (act (A:=A)))) : list (list (obs (A:=A))) :=
  match acts with
  | [] => []
  | a :: acts => vr_obs (ve_step e (set_nobs v None) a) :: nobs_raw clipv e (vr_state (ve_step (norm_obs_wrap O sq clipv e) v a)) acts
  end.
Definition nobs_fold (ms : list (mom (A:=A))) (batches : list (list (obs (A:=A)))) : list (mom (A:=A)) :=
  fold_left (fun ms ob => map2 (fun m col => mom_batch O m col) ms (columns O ob)) batches ms.

Lemma nobs_step_state clipv (e : venv) v a ms0 : a_nobs v = Some ms0 ->
  a_nobs (vr_state (ve_step (norm_obs_wrap O sq clipv e) v a)) =
  Some (map2 (fun m col => mom_batch O m col) ms0 (columns O (vr_obs (ve_step e (set_nobs v None) a)))).
Proof.
  intros H. destruct (ve_step e (set_nobs v None) a) as [[[[[v1 ob] r] te] tr] i] eqn:E.
  rewrite (norm_obs_wrap_step O C IB Rng sq clipv e v a ms0 v1 ob r te tr i H E). reflexivity.
Qed.

Theorem norm_obs_history clipv (e : venv) : forall acts v ms0, a_nobs v = Some ms0 ->
  a_nobs (final (vrun_from (norm_obs_wrap O sq clipv e) v acts) v) = Some (nobs_fold ms0 (nobs_raw clipv e v acts)).
Proof.
  induction acts as [|a acts IH]; intros v ms0 H; [exact H|].
  cbn [vrun_from nobs_raw]. cbv zeta. unfold final. cbn [map]. rewrite last_cons.
  change (fst (fst (fst (fst (fst ?r))))) with (vr_state r).
  pose proof (nobs_step_state clipv e v a ms0 H) as Hs.
  specialize (IH _ _ Hs). unfold final in IH. rewrite IH. reflexivity.
Qed.

(* at reset the state is the prior updated with the first batch *)
Theorem norm_obs_reset_state clipv (e : venv) ks :
  a_nobs (fst (fst (ve_reset (norm_obs_wrap O sq clipv e) ks))) =
  Some (nobs_fold (map (fun _ => mom0 O) (columns O (snd (fst (ve_reset e ks))))) [snd (fst (ve_reset e ks))]).
Proof.
  simpl. destruct (ve_reset e ks) as [[v ob] i]. simpl. f_equal.
  generalize (columns O ob). induction l as [|c l IHl]; [reflexivity|]. simpl. f_equal. exact IHl.
Qed.

(* ---- rewards ---- *)
Fixpoint nrew_raw (gamma clipv : A) (e : venv) (v : vstate) (rv : list A) (acts : list (list (act (A:=A)))) : list (list A) :=
  match acts with
  | [] => []
  | a :: acts =>
      let r := ve_step e (set_nrew v None) a in
      let rv' := map3 (fun x rw d => ret_update O gamma x rw (fst d) (snd d)) rv (vr_rew r) (combine (vr_te r) (vr_tr r)) in
      rv' :: nrew_raw gamma clipv e (vr_state (ve_step (norm_rew_wrap O sq gamma clipv e) v a)) rv' acts
  end.
Theorem norm_rew_history gamma clipv (e : venv) : forall acts v s, a_nrew v = Some s ->
  let rvs := nrew_raw gamma clipv e v (n_ret s) acts in
  a_nrew (final (vrun_from (norm_rew_wrap O sq gamma clipv e) v acts) v) =
  Some {| n_mom := fold_left (fun m rv => mom_batch O m rv) rvs (n_mom s); n_ret := last rvs (n_ret s) |}.
Proof.
  induction acts as [|a acts IH]; intros v s H; [destruct s; exact H|].
  cbn [vrun_from nrew_raw]. cbv zeta. unfold final. cbn [map]. rewrite !last_cons.
  change (fst (fst (fst (fst (fst ?r))))) with (vr_state r).
  destruct (ve_step e (set_nrew v None) a) as [[[[[v1 ob] r] te] tr] i] eqn:E.
  pose proof (norm_rew_wrap_step O C IB Rng sq gamma clipv e v a s v1 ob r te tr i H E) as Hs. cbv zeta in Hs.
  unfold vr_rew, vr_te, vr_tr. cbn [fst snd].
  set (rv' := map3 _ (n_ret s) r (combine te tr)) in *.
  assert (Hn : a_nrew (vr_state (ve_step (norm_rew_wrap O sq gamma clipv e) v a)) =
               Some {| n_mom := mom_batch O (n_mom s) rv'; n_ret := rv' |}) by (rewrite Hs; reflexivity).
  specialize (IH _ _ Hn). cbv zeta in IH. unfold final in IH. cbn [n_mom n_ret] in IH. rewrite IH. reflexivity.
Qed.
End Hist.

(* ---- over R: per coordinate, the state is the moments of everything seen ---- *)
Section HistR.
Open Scope R_scope.
Lemma map2_length {X Y W} (f : X -> Y -> W) : forall a b, length a = length b -> length (map2 f a b) = length a.
Proof. induction a as [|x a IH]; intros [|y b] H; simpl in *; try discriminate; [reflexivity|]. f_equal. apply IH. lia. Qed.
Lemma map2_nth {X Y W} (f : X -> Y -> W) dx dy dw : forall a b j, (j < length a)%nat -> (j < length b)%nat ->
  nth j (map2 f a b) dw = f (nth j a dx) (nth j b dy).
Proof.
  induction a as [|x a IH]; intros [|y b] j Ha Hb; simpl in *; try lia. destruct j; [reflexivity|]. apply IH; lia.
Qed.
Lemma columns_length (ob : list (obs (A:=R))) : length (columns Rops ob) = obs_dim ob.
Proof. unfold columns. rewrite map_length, seq_length. reflexivity. Qed.
Lemma columns_nth (ob : list (obs (A:=R))) j d : (j < obs_dim ob)%nat -> nth j (columns Rops ob) d = column Rops j ob.
Proof.
  intros H. unfold columns. rewrite (nth_indep _ d (column Rops 0 ob)) by (rewrite map_length, seq_length; exact H).
  rewrite (map_nth (fun j => column Rops j ob) (seq 0 (obs_dim ob)) 0%nat j). rewrite seq_nth by exact H. reflexivity.
Qed.

(* coordinate j of the folded state = the scalar running update over coordinate j of every batch *)
Theorem nobs_fold_coordinate j d : forall batches ms, (forall ob, In ob batches -> obs_dim ob = length ms) -> (j < length ms)%nat ->
  nth j (nobs_fold Rops ms batches) d = mrun (nth j ms d) (map (column Rops j) batches).
Proof.
  induction batches as [|ob batches IH]; intros ms Hd Hj; [reflexivity|].
  unfold nobs_fold in *. cbn [fold_left map mrun].
  assert (Hob : obs_dim ob = length ms) by (apply Hd; now left).
  assert (Hl : length (map2 (fun m col => mom_batch Rops m col) ms (columns Rops ob)) = length ms)
    by (apply map2_length; rewrite columns_length; auto).
  rewrite IH.
  - rewrite (map2_nth _ d [] d) by (rewrite ?columns_length; lia). rewrite columns_nth by lia. reflexivity.
  - intros ob' Hin. rewrite Hl. apply Hd. now right.
  - lia.
Qed.

(* hence: after a reset and any number of steps, coordinate j of the observation normaliser holds the count, mean and
   variance of coordinate j of every observation returned so far (reset batch included), with the 1e-4 prior *)
Corollary nobs_all_seen j d batches : batches <> [] ->
  (forall ob, In ob batches -> ob <> [] /\ obs_dim ob = obs_dim (hd [] batches)) -> (j < obs_dim (hd [] batches))%nat ->
  let ms := nobs_fold Rops (map (fun _ => mom0 Rops) (columns Rops (hd [] batches))) batches in
  let all := concat (map (column Rops j) batches) in let n := / 10000 + len all in
  m_count (nth j ms d) = n /\ m_mean (nth j ms d) = rsum all / n /\
  m_var (nth j ms d) = (/ 10000 + sumsq all) / n - m_mean (nth j ms d) * m_mean (nth j ms d).
Proof.
  intros Hne Hb Hj. cbv zeta.
  assert (Hlen : length (map (fun _ : list R => mom0 Rops) (columns Rops (hd [] batches))) = obs_dim (hd [] batches))
    by (rewrite map_length, columns_length; reflexivity).
  rewrite nobs_fold_coordinate.
  - rewrite (nth_indep _ d (mom0 Rops)) by (rewrite Hlen; exact Hj).
    rewrite (map_nth (fun _ : list R => mom0 Rops) (columns Rops (hd [] batches)) [] j).
    apply moments_from_prior. intros b Hin. apply in_map_iff in Hin. destruct Hin as [ob [<- Hin]].
    destruct (Hb ob Hin) as [Hob _]. destruct ob; [congruence|unfold column; simpl; discriminate].
  - intros ob Hin. rewrite Hlen. apply Hb. exact Hin.
  - rewrite Hlen. exact Hj.
Qed.
End HistR.
