(* M3, C07/C08: the schedule built by to_timings also satisfies the extra well-formedness facts (extra_ok) the buffer-sufficiency
   theorem needs, given decidable facts about the template (tmpl_ok) and the monomorphism (check_mono, sup_covered). *)
From Coq Require Import List Arith ZArith Bool Lia.
From Rex Require Import CompiledModel ScheduleSpec BufferSufficient ToTimings ToTimingsLaws.
Import ListNotations.
Open Scope Z_scope.

(* every slot: generation < ngen, kind is a node, and "last generation <-> supervisor kind"; connection senders are nodes *)
Definition tmpl_ok (I : inst) (tmpl : list (nat * nat)) : bool :=
  forallb (fun kg => Nat.ltb (snd kg) (i_ngen I) && Nat.ltb (fst kg) (length (i_nodes I)) &&
                     Bool.eqb (Nat.eqb (snd kg) (i_ngen I - 1)) (Nat.eqb (fst kg) (i_sup I))) tmpl &&
  forallb (fun c => Nat.ltb (k_out c) (length (i_nodes I))) (i_conns I).
(* every partition inside the horizon has a supervisor vertex mapped into it *)
Definition sup_covered (I : inst) (M : list mentry) : bool :=
  forallb (fun p => existsb (fun m => Nat.eqb (m_kind m) (i_sup I) && Nat.eqb (m_part m) p) M) (seq 0 (i_nparts I)).

(* at most one slot of a kind per generation: positions carrying the same (kind, generation) coincide *)
Lemma gen_kind_unique (g : nat) (l : list (nat * nat)) :
  NoDup (map fst (filter (fun kg => Nat.eqb (snd kg) g) l)) ->
  forall i j k, nth_error l i = Some (k, g) -> nth_error l j = Some (k, g) -> i = j.
Proof.
  induction l as [|a l IH]; intros Hnd i j k Hi Hj; [destruct i; discriminate|].
  assert (Hin : forall q, nth_error l q = Some (k, g) -> In k (map fst (filter (fun kg => Nat.eqb (snd kg) g) l))).
  { intros q Hq. apply in_map_iff. exists (k, g). split; [reflexivity|]. apply filter_In. split.
    - eapply nth_error_In; exact Hq.
    - cbn [snd]. apply Nat.eqb_refl. }
  assert (Hhead : a = (k, g) -> ~ In k (map fst (filter (fun kg => Nat.eqb (snd kg) g) l))).
  { intros ->. cbn [filter snd] in Hnd. rewrite Nat.eqb_refl in Hnd. cbn [map fst] in Hnd.
    inversion Hnd as [|x' l' Hx Hl]; subst. exact Hx. }
  assert (Htail : NoDup (map fst (filter (fun kg => Nat.eqb (snd kg) g) l))).
  { cbn [filter] in Hnd. destruct (Nat.eqb (snd a) g); [|exact Hnd]. cbn [map] in Hnd.
    inversion Hnd as [|x' l' Hx Hl]; subst. exact Hl. }
  destruct i as [|i], j as [|j]; cbn [nth_error] in Hi, Hj.
  - reflexivity.
  - exfalso. injection Hi as Ea. exact (Hhead Ea (Hin j Hj)).
  - exfalso. injection Hj as Ea. exact (Hhead Ea (Hin i Hi)).
  - f_equal. exact (IH Htail i j k Hi Hj).
Qed.

Section Extra.
Variable I : inst.
Variable tmpl : list (nat * nat).
Variable M : list mentry.
Notation TT := (to_timings I tmpl M).
Notation J := (set_slots I (to_timings I tmpl M)).

(* the kinds and generations of the built slots are the template *)
Lemma to_timings_kinds_gens : map (fun s => (s_kind s, s_gen s)) TT = tmpl.
Proof.
  rewrite to_timings_eq, map_map.
  transitivity (map snd (combine (seq 0 (length tmpl)) tmpl)); [|apply map_snd_combine_seq].
  apply map_ext. intros [s [kd gn]]. reflexivity.
Qed.

Lemma in_TT_tmpl sl : In sl TT -> In (s_kind sl, s_gen sl) tmpl.
Proof. intros H. rewrite <- to_timings_kinds_gens at 1. apply (in_map (fun s => (s_kind s, s_gen s))), H. Qed.

Lemma in_TT_inv sl : In sl TT ->
  exists s, (s < length tmpl)%nat /\ sl = mk_slot I M (s, (tkind tmpl s, tgen tmpl s)).
Proof.
  intros H. apply In_nth_error in H as [s Hs].
  assert (Hlt : (s < length tmpl)%nat).
  { destruct (to_timings_shape I tmpl M) as [El _]. rewrite <- El. apply nth_error_Some. congruence. }
  exists s. split; [exact Hlt|]. rewrite (nth_error_TT I tmpl M s Hlt) in Hs. congruence.
Qed.

Section Hyps.
Hypothesis Hmono : check_mono I tmpl M = true.
Hypothesis Htm : tmpl_ok I tmpl = true.
Hypothesis Hsup : sup_covered I M = true.

Lemma tmpl_ok_entry kg : In kg tmpl ->
  (snd kg < i_ngen I)%nat /\ (fst kg < length (i_nodes I))%nat /\
  (snd kg = (i_ngen I - 1)%nat <-> fst kg = i_sup I).
Proof.
  intros Hin. pose proof Htm as H. unfold tmpl_ok in H. apply andb_true_iff in H as [H _].
  rewrite forallb_forall in H. specialize (H kg Hin).
  apply andb_true_iff in H as [H H3]. apply andb_true_iff in H as [H1 H2].
  apply Nat.ltb_lt in H1. apply Nat.ltb_lt in H2. apply eqb_prop in H3.
  split; [exact H1|]. split; [exact H2|]. rewrite <- !Nat.eqb_eq. rewrite H3. tauto.
Qed.

Lemma tmpl_ok_conns : forallb (fun c => Nat.ltb (k_out c) (length (i_nodes I))) (i_conns I) = true.
Proof. pose proof Htm as H. unfold tmpl_ok in H. apply andb_true_iff in H as [_ H]. exact H. Qed.

(* the supervisor slot is unique *)
Lemma sup_slot_unique s s' :
  (s < length tmpl)%nat -> (s' < length tmpl)%nat -> tkind tmpl s = i_sup I -> tkind tmpl s' = i_sup I -> s = s'.
Proof.
  intros Hs Hs' Ek Ek'.
  pose proof (nth_error_tmpl tmpl s Hs) as E. pose proof (nth_error_tmpl tmpl s' Hs') as E'.
  destruct (tmpl_ok_entry _ (nth_error_In _ _ E)) as (Hg & _ & Hiff). cbn [fst snd] in Hg, Hiff.
  destruct (tmpl_ok_entry _ (nth_error_In _ _ E')) as (_ & _ & Hiff'). cbn [fst snd] in Hiff'.
  assert (Eg : tgen tmpl s = (i_ngen I - 1)%nat) by (apply Hiff; exact Ek).
  assert (Eg' : tgen tmpl s' = (i_ngen I - 1)%nat) by (apply Hiff'; exact Ek').
  destruct (mono_parts I tmpl M Hmono) as (Hgk & _). unfold tmpl_gen_kinds in Hgk. rewrite forallb_forall in Hgk.
  assert (Hnd : NoDup (map fst (filter (fun kg => Nat.eqb (snd kg) (i_ngen I - 1)) tmpl))).
  { apply nodup_nat_sound. apply Hgk. apply in_seq. lia. }
  rewrite Ek, Eg in E. rewrite Ek', Eg' in E'. exact (gen_kind_unique _ _ Hnd s s' _ E E').
Qed.

(* the supervisor cell the runner executes in partition p is the filled cell of the supervisor vertex mapped there *)
Lemma sup_cell_running p : (p < i_nparts I)%nat -> c_run (sup_cell J p) = true.
Proof.
  intros Hp. pose proof Hsup as Hc. unfold sup_covered in Hc. rewrite forallb_forall in Hc.
  assert (Hpin : In p (seq 0 (i_nparts I))) by (apply in_seq; lia).
  specialize (Hc p Hpin). apply existsb_exists in Hc as [m [HmM Hm]]. apply andb_true_iff in Hm as [Ek Epp].
  apply Nat.eqb_eq in Ek. apply Nat.eqb_eq in Epp.
  assert (Hh : inh I m = true) by (unfold inh; apply Nat.ltb_lt; lia).
  assert (HmH : In m (MH I M)) by (apply in_MH; auto).
  destruct (entry_ok I tmpl M Hmono m HmH) as (Hsl & Hkd & _).
  destruct (mono_parts I tmpl M Hmono) as (_ & Hps & _ & _).
  unfold sup_cell. change (i_slots J) with TT. change (i_sup J) with (i_sup I).
  destruct (find (fun sl => Nat.eqb (s_kind sl) (i_sup I)) TT) as [sl|] eqn:Ef.
  - apply find_some in Ef as [Hin Esl]. apply Nat.eqb_eq in Esl.
    destruct (in_TT_inv sl Hin) as (s & Hs & ->). cbn [mk_slot s_kind fst snd] in Esl.
    assert (E0 : s = m_slot m) by (apply sup_slot_unique; congruence). subst s.
    cbn [mk_slot s_cells fst snd].
    assert (En : nth_error (map (tt_cell I M (m_slot m) (tkind tmpl (m_slot m))) (seq 0 (i_nparts I))) p =
                 Some (tt_cell I M (m_slot m) (tkind tmpl (m_slot m)) p))
      by (apply nth_error_map_seq; split; [exact Hp|reflexivity]).
    rewrite (nth_error_nth _ _ dcell En). rewrite <- Epp.
    rewrite (to_timings_mapped I tmpl M m _ Hps HmM Hh Hsl). reflexivity.
  - exfalso.
    assert (Hin : In (mk_slot I M (m_slot m, (tkind tmpl (m_slot m), tgen tmpl (m_slot m)))) TT)
      by (eapply nth_error_In; apply nth_error_TT; exact Hsl).
    pose proof (find_none _ _ Ef _ Hin) as Hn. cbn [mk_slot s_kind fst snd] in Hn.
    rewrite Hkd, Ek, Nat.eqb_refl in Hn. discriminate.
Qed.

(* ------------------------------------------------------------------ A *)
Theorem to_timings_extra_ok : extra_ok J = true.
Proof.
  unfold extra_ok. change (i_slots J) with TT. change (i_ngen J) with (i_ngen I). change (i_sup J) with (i_sup I).
  change (i_nparts J) with (i_nparts I). change (i_nodes J) with (i_nodes I). change (i_conns J) with (i_conns I).
  repeat match goal with |- andb _ _ = true => apply andb_true_iff; split end.
  - apply forallb_forall. intros sl Hin. destruct (tmpl_ok_entry _ (in_TT_tmpl sl Hin)) as (H1 & _).
    apply Nat.ltb_lt. exact H1.
  - apply forallb_forall. intros sl Hin. destruct (tmpl_ok_entry _ (in_TT_tmpl sl Hin)) as (_ & _ & H3).
    cbn [fst snd] in H3. destruct (Nat.eqb (s_gen sl) (i_ngen I - 1)) eqn:E; [|reflexivity].
    apply Nat.eqb_eq in E. apply Nat.eqb_eq. apply H3. exact E.
  - apply forallb_forall. intros p Hp. apply in_seq in Hp. apply sup_cell_running. lia.
  - apply forallb_forall. intros sl Hin. destruct (tmpl_ok_entry _ (in_TT_tmpl sl Hin)) as (_ & H2 & _).
    apply Nat.ltb_lt. exact H2.
  - exact tmpl_ok_conns.
Qed.

(* ------------------------------------------------------------------ B *)
Corollary to_timings_schedule_and_extra : check_schedule J = true /\ extra_ok J = true.
Proof. split; [apply to_timings_valid; exact Hmono|exact to_timings_extra_ok]. Qed.

End Hyps.
End Extra.

(* ------------------------------------------------------------------ C. non-vacuity (instance of ToTimingsLaws) *)
Example ex_tmpl_ok : tmpl_ok exI exT = true.
Proof. vm_compute. reflexivity. Qed.
Example ex_sup_covered : sup_covered exI exM = true.
Proof. vm_compute. reflexivity. Qed.
Example ex_extra_ok : extra_ok (set_slots exI (to_timings exI exT exM)) = true.
Proof. vm_compute. reflexivity. Qed.
Example ex_extra_by_theorem :
  check_schedule (set_slots exI (to_timings exI exT exM)) = true /\ extra_ok (set_slots exI (to_timings exI exT exM)) = true.
Proof. apply to_timings_schedule_and_extra; [exact ex_mono|exact ex_tmpl_ok|exact ex_sup_covered]. Qed.
(* the supervisor vertex of the last partition is not mapped: the contract check_mono still holds, the schedule is still valid,
   but sup_covered fails and the runner would execute a masked supervisor cell - extra_ok is false *)
Definition exM_nosup : list mentry :=
  [mkm 0 0 0 0; mkm 0 1 0 1; mkm 1 0 0 2; mkm 0 2 1 0; mkm 0 3 1 1; mkm 1 1 1 2; mkm 0 4 2 0; mkm 0 5 2 1].
Example ex_nosup : check_mono exI exT exM_nosup = true /\ sup_covered exI exM_nosup = false /\
  check_schedule (set_slots exI (to_timings exI exT exM_nosup)) = true /\
  extra_ok (set_slots exI (to_timings exI exT exM_nosup)) = false.
Proof. vm_compute. repeat split; reflexivity. Qed.
(* tmpl_ok is needed too: a template whose supervisor slot is not in the last generation *)
Example ex_bad_tmpl : tmpl_ok exI [(0, 0); (0, 1); (1, 1)]%nat = false.
Proof. vm_compute. reflexivity. Qed.

Print Assumptions to_timings_extra_ok.
Print Assumptions to_timings_schedule_and_extra.
Print Assumptions ex_extra_by_theorem.
