(* M3: windows, schedule validity, buffer sizes and the generation-ordered runner (executable model) *)
From Coq Require Import List Arith ZArith Bool Lia.
Import ListNotations.
Open Scope Z_scope.

Definition wentry := (Z * Z * Z)%type.            (* seq, ts_sent, ts_recv *)
Record vertex := { v_seq : Z; v_start : Z; v_end : Z }.
Record edge := { e_out : Z; e_in : Z; e_recv : Z }.
Record kconn := { k_out : nat; k_in : nat; k_win : nat }.
Record knode := { k_nid : Z }.
Record cell := { c_run : bool; c_seq : Z; c_start : Z; c_end : Z; c_wins : list (list wentry) }.
Record slot := { s_kind : nat; s_gen : nat; s_cells : list cell (* per partition, one episode *) }.

Record inst := { i_nodes : list knode; i_conns : list kconn; i_sup : nat;
                 i_verts : list (list vertex); i_edges : list (list edge);
                 i_slots : list slot; i_ngen : nat; i_nparts : nat }.

Definition INF := 2147483647.
Definition NINF := -2147483648.
Definition dv := {| v_seq := -1; v_start := -1; v_end := -1 |}.
Definition dcell := {| c_run := false; c_seq := 0; c_start := 0; c_end := 0; c_wins := [] |}.
Definition dk := {| k_out := 0; k_in := 0; k_win := 1 |}.

Definition lastn {X} (n : nat) (l : list X) : list X := skipn (length l - n) l.
(* python-style index: -1 wraps *)
Definition pynth {X} (i : Z) (l : list X) (d : X) : X :=
  if i <? 0 then nth (Z.to_nat (Z.of_nat (length l) + i)) l d else nth (Z.to_nat i) l d.

Section Inst.
Variable I : inst.
Definition conn c := nth c (i_conns I) dk.
Definition verts n := nth n (i_verts I) [].
Definition ins_of (n : nat) : list nat :=
  filter (fun c => Nat.eqb (k_in (conn c)) n) (seq 0 (length (i_conns I))).

(* ---- apply_window ---- *)
Fixpoint scan_edges (vm : list vertex) (cur : list wentry) (es : list edge) : list (Z * list wentry) :=
  match es with [] => []
  | e :: es =>
      let sent := v_end (pynth (e_out e) vm dv) in
      let cur' := lastn (length cur) (cur ++ [(e_out e, sent, e_recv e)]) in
      let si := if (e_out e =? -1) then -1 else e_in e in
      ((if si =? -1 then INF else si), cur') :: scan_edges vm cur' es
  end.
Fixpoint last_le (k : Z) (snaps : list (Z * list wentry)) (acc : option (list wentry)) : option (list wentry) :=
  match snaps with [] => acc
  | (si, w) :: snaps => last_le k snaps (if si <=? k then Some w else acc) end.
Definition win_model (c : nat) : list (list wentry) :=
  let w0 := repeat (-1, 0, 0) (k_win (conn c)) in
  let snaps := scan_edges (verts (k_out (conn c))) w0 (nth c (i_edges I) []) in
  map (fun v => match last_le (v_seq v) snaps None with Some w => w | None => w0 end) (verts (k_in (conn c))).

Definition canon_w (w : list wentry) : list wentry :=
  map (fun e => match e with (s, a, b) => if s <? 0 then (-1, 0, 0) else (s, a, b) end) w.
Fixpoint wl_eqb (a b : list wentry) : bool :=
  match a, b with [], [] => true
  | (s, x, y) :: a, (s', x', y') :: b => (s =? s') && (x =? x') && (y =? y') && wl_eqb a b
  | _, _ => false end.

(* ---- run cells of the episode: (kind, seq, partition, generation, cell) ---- *)
Definition rc := (nat * Z * nat * nat * cell)%type.
Definition cells_of_slot (s : slot) : list rc :=
  flat_map (fun pc => if c_run (snd pc) then [(s_kind s, c_seq (snd pc), fst pc, s_gen s, snd pc)] else [])
           (combine (seq 0 (length (s_cells s))) (s_cells s)).
Definition run_cells : list rc := flat_map cells_of_slot (i_slots I).

Definition key_eqb (a b : nat * Z) := Nat.eqb (fst a) (fst b) && (snd a =? snd b).
Definition find_cell (n : nat) (k : Z) : option (nat * nat) :=
  match find (fun r => match r with (n', k', _, _, _) => key_eqb (n, k) (n', k') end) run_cells with
  | Some (_, _, p, g, _) => Some (p, g) | None => None end.
Definition lex_lt (a b : nat * nat) : bool :=
  Nat.ltb (fst a) (fst b) || (Nat.eqb (fst a) (fst b) && Nat.ltb (snd a) (snd b)).

Fixpoint nodup_keys (l : list rc) : bool :=
  match l with [] => true
  | (n, k, _, _, _) :: l => negb (existsb (fun r => match r with (n', k', _, _, _) => key_eqb (n, k) (n', k') end) l) && nodup_keys l end.
Fixpoint nodup_nat (l : list nat) : bool :=
  match l with [] => true | x :: l => negb (existsb (Nat.eqb x) l) && nodup_nat l end.

Definition check_gen_kinds : bool :=
  forallb (fun g => nodup_nat (map s_kind (filter (fun s => Nat.eqb (s_gen s) g) (i_slots I)))) (seq 0 (i_ngen I)).

Definition check_cell (r : rc) : bool :=
  match r with (n, k, p, g, c) =>
    let v := nth (Z.to_nat k) (verts n) dv in
    (0 <=? k) && (v_seq v =? k) && (v_start v =? c_start c) && (v_end v =? c_end c) &&
    (* windows equal the model's, modulo negative seqs *)
    forallb (fun cw => wl_eqb (canon_w (snd cw)) (canon_w (nth (Z.to_nat k) (win_model (fst cw)) [])))
            (combine (ins_of n) (c_wins c)) &&
    (Nat.eqb (length (ins_of n)) (length (c_wins c))) &&
    (* stateful predecessor strictly earlier *)
    (if 0 <? k then match find_cell n (k - 1) with Some q => lex_lt q (p, g) | None => false end else true) &&
    (* every producer in the window strictly earlier *)
    forallb (fun cw => forallb (fun e => match e with (so, _, _) =>
                 if so <? 0 then true else
                 match find_cell (k_out (conn (fst cw))) so with Some q => lex_lt q (p, g) | None => false end end)
               (snd cw)) (combine (ins_of n) (c_wins c)) &&
    (* supervisor vertex p closes partition p in the last generation *)
    (if Nat.eqb n (i_sup I) then (Z.of_nat p =? k) && Nat.eqb g (i_ngen I - 1) else true)
  end.

Definition check_schedule : bool :=
  check_gen_kinds && nodup_keys run_cells && forallb check_cell run_cells.

(* ---- buffer sizes (per connection), timeline position = partition * ngen + generation ---- *)
Definition positions : list (nat * nat) :=
  flat_map (fun p => map (fun g => (p, g)) (seq 0 (i_ngen I))) (seq 0 (i_nparts I)).
Definition cells_at (kind : nat) (pg : nat * nat) : list cell :=
  flat_map (fun s => if Nat.eqb (s_kind s) kind && Nat.eqb (s_gen s) (snd pg)
                     then (let c := nth (fst pg) (s_cells s) dcell in if c_run c then [c] else []) else [])
           (i_slots I).
Definition widx (n c : nat) : nat :=   (* position of conn c among the inputs of n *)
  length (filter (fun c' => Nat.ltb c' c) (ins_of n)).
Definition read_min (c : nat) (pg : nat * nat) : Z :=
  fold_right Z.min INF
    (flat_map (fun cl => map (fun e => match e with (s, _, _) => s end) (nth (widx (k_in (conn c)) c) (c_wins cl) []))
              (cells_at (k_in (conn c)) pg)).
Definition write_max (c : nat) (pg : nat * nat) : Z :=
  fold_right Z.max NINF (map c_seq (cells_at (k_out (conn c)) pg)).
Fixpoint suffix_min (l : list Z) : list Z :=
  match l with [] => [] | x :: l => let r := suffix_min l in (match r with [] => x | y :: _ => Z.min x y end) :: r end.
Fixpoint prefix_max_from (acc : Z) (l : list Z) : list Z :=
  match l with [] => [] | x :: l => let m := Z.max acc x in m :: prefix_max_from m l end.
Definition buffer_need (c : nat) : Z :=
  let R := map (read_min c) positions in
  let W := map (write_max c) positions in
  let need := suffix_min R in
  let wprev := NINF :: removelast (prefix_max_from NINF W) in
  fold_right Z.max (NINF - INF) (map (fun nw => snd nw - fst nw) (combine need wprev)) + 1.

(* ---- generation-ordered runner with ring buffers, generic in the payload type and the step function ---- *)
Section Runner.
Variable Val : Type.
Variable fstep : nat -> Z -> Z -> Val -> list (list (Z * Z * Z * Val)) -> Val.   (* node, seq, ts, state, inputs *)
Variable vinit : nat -> Val.      (* initial state of a node *)
Variable vdef : nat -> Val.       (* default output of a node *)
Variable sizes : list Z.          (* ring size per node *)

Record row := { w_node : nat; w_seq : Z; w_ts : Z; w_st : Val; w_in : list (list (Z * Z * Z * Val)); w_out : Val }.
Record rstate := { r_buf : list (list Val); r_st : list Val; r_log : list row }.
Definition size_of n := Z.max 1 (nth n sizes 1).
Definition nnodes := length (i_nodes I).
Definition rinit : rstate :=
  {| r_buf := map (fun n => repeat (vdef n) (Z.to_nat (size_of n))) (seq 0 nnodes);
     r_st := map vinit (seq 0 nnodes); r_log := [] |}.

Fixpoint upd {X} (i : nat) (f : X -> X) (l : list X) : list X :=
  match l, i with [], _ => [] | x :: l, O => f x :: l | x :: l, S i => x :: upd i f l end.
Definition ring_read (s : rstate) (m : nat) (sq : Z) : Val :=
  nth (Z.to_nat (sq mod size_of m)) (nth m (r_buf s) []) (vdef m).
(* inputs sorted by sender index, as the probe wants them *)
Fixpoint insert_by (key : nat) (w : list (Z*Z*Z*Val)) (l : list (nat * list (Z*Z*Z*Val))) :=
  match l with [] => [(key, w)]
  | (k, x) :: l' => if Nat.leb key k then (key, w) :: l else (k, x) :: insert_by key w l' end.
Definition inputs_of (s : rstate) (n : nat) (c : cell) : list (list (Z * Z * Z * Val)) :=
  map snd (fold_right (fun cw acc =>
      insert_by (k_out (conn (fst cw)))
        (map (fun e => match e with (sq, a, b) => (sq, a, b, ring_read s (k_out (conn (fst cw))) sq) end) (snd cw)) acc)
    [] (combine (ins_of n) (c_wins c))).
Definition exec_cell (s : rstate) (n : nat) (c : cell) : row :=
  let st := nth n (r_st s) (vinit n) in
  let ins := inputs_of s n c in
  {| w_node := n; w_seq := c_seq c; w_ts := c_start c; w_st := st; w_in := ins; w_out := fstep n (c_seq c) (c_start c) st ins |}.
Definition commit (s : rstate) (r : row) : rstate :=
  {| r_buf := upd (w_node r) (upd (Z.to_nat (w_seq r mod size_of (w_node r))) (fun _ => w_out r)) (r_buf s);
     r_st := upd (w_node r) (fun _ => w_out r) (r_st s);
     r_log := r_log s ++ [r] |}.

(* a phase: all cells read the same pre-state, then all results are committed *)
Definition run_phase (todo : list (nat * cell)) (s : rstate) : rstate :=
  fold_left commit (map (fun nc => exec_cell s (fst nc) (snd nc)) todo) s.

Definition gen_todo (p g : nat) : list (nat * cell) :=
  flat_map (fun sl => if Nat.eqb (s_gen sl) g && negb (Nat.eqb (s_kind sl) (i_sup I))
                      then (let c := nth p (s_cells sl) dcell in if c_run c then [(s_kind sl, c)] else []) else [])
           (i_slots I).
Definition sup_cell (p : nat) : cell :=
  match find (fun sl => Nat.eqb (s_kind sl) (i_sup I)) (i_slots I) with
  | Some sl => nth p (s_cells sl) dcell | None => dcell end.
Definition phases_of (p : nat) : list (list (nat * cell)) :=
  map (gen_todo p) (seq 0 (i_ngen I)) ++ [[(i_sup I, sup_cell p)]].
Definition rollout (p0 n : nat) : rstate :=
  fold_left (fun s ph => run_phase ph s) (flat_map phases_of (seq p0 n)) rinit.
End Runner.

(* the instance that is executed against rex: integer payloads, the probe step function *)
Definition MODP := 32749.
Fixpoint win_sum (j : Z) (w : list (Z * Z * Z * Z)) : Z :=
  match w with [] => 0
  | (s, sent, recv, pay) :: w => (j + 2) * pay + 13 * Z.max s (-1) + 17 * recv + 19 * sent + win_sum (j + 1) w end.
Definition probe (n : nat) (seq ts : Z) (state : Z) (wins : list (list (Z * Z * Z * Z))) : Z :=
  (7 * state + 3 * seq + 5 * ts + fold_right (fun w acc => win_sum 0 w + acc) 0 wins) mod MODP.
Definition nid n := k_nid (nth n (i_nodes I) {| k_nid := 0 |}).
Definition rollout_probe (sizes : list Z) (p0 n : nat) : rstate Z :=
  rollout Z probe (fun n => 1 + nid n) (fun n => 3 + nid n) sizes p0 n.
End Inst.
