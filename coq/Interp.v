(* C11: piecewise-linear interpolation (jnp.interp) over Q: between neighbours, knots, affine segments *)
From Coq Require Import QArith Lqa List Lia.
Import ListNotations.
Open Scope Q_scope.

Definition seg (x0 y0 x1 y1 x : Q) : Q := y0 + (x - x0) * (y1 - y0) / (x1 - x0).

(* jnp.interp(x, xp, fp) for increasing xp: clamped at both ends *)
Fixpoint interp (x : Q) (pts : list (Q * Q)) : Q :=
  match pts with
  | [] => 0
  | (x0, y0) :: rest =>
      match rest with
      | [] => y0
      | (x1, y1) :: _ => if Qle_bool x x0 then y0 else if Qle_bool x x1 then seg x0 y0 x1 y1 x else interp x rest
      end
  end.

Lemma seg_left x0 y0 x1 y1 : x0 < x1 -> seg x0 y0 x1 y1 x0 == y0.
Proof. intros H. unfold seg. field. lra. Qed.
Lemma seg_right x0 y0 x1 y1 : x0 < x1 -> seg x0 y0 x1 y1 x1 == y1.
Proof. intros H. unfold seg. field. lra. Qed.

(* every interpolated value lies between its neighbouring messages *)
Lemma seg_between x0 y0 x1 y1 x : x0 < x1 -> x0 <= x <= x1 -> y0 <= y1 -> y0 <= seg x0 y0 x1 y1 x <= y1.
Proof.
  intros H Hx Hy. unfold seg.
  assert (E : y0 + (x - x0) * (y1 - y0) / (x1 - x0) == y0 + ((x - x0) / (x1 - x0)) * (y1 - y0)) by (field; lra).
  rewrite E. set (a := (x - x0) / (x1 - x0)).
  assert (Ha : 0 <= a <= 1).
  { unfold a. split.
    - apply Qle_shift_div_l; lra.
    - apply Qle_shift_div_r; lra. }
  destruct Ha. split; nra.
Qed.

(* on a segment the value is affine in the query point: the derivative w.r.t. the delay is minus the segment slope *)
Lemma seg_affine x0 y0 x1 y1 x x' : x0 < x1 ->
  seg x0 y0 x1 y1 x' - seg x0 y0 x1 y1 x == (x' - x) * ((y1 - y0) / (x1 - x0)).
Proof. intros H. unfold seg. field. lra. Qed.

(* continuity: Lipschitz with the segment slope *)
Lemma seg_lipschitz x0 y0 x1 y1 x x' : x0 < x1 -> y0 <= y1 -> x <= x' ->
  seg x0 y0 x1 y1 x' - seg x0 y0 x1 y1 x <= (x' - x) * ((y1 - y0) / (x1 - x0)).
Proof. intros. rewrite seg_affine by assumption. lra. Qed.

(* at a knot the interpolation returns the message itself: coincides with zero-order hold there *)
Lemma interp_at_first_knot x0 y0 rest : interp x0 ((x0, y0) :: rest) == y0.
Proof.
  simpl. destruct rest as [|[x1 y1] r]; [reflexivity|].
  assert (H : Qle_bool x0 x0 = true) by (apply Qle_bool_iff; lra). rewrite H. reflexivity.
Qed.
Lemma interp_clamp_left x x0 y0 rest : x <= x0 -> interp x ((x0, y0) :: rest) == y0.
Proof.
  intros Hx. simpl. destruct rest as [|[x1 y1] r]; [reflexivity|].
  assert (H : Qle_bool x x0 = true) by (apply Qle_bool_iff; exact Hx). rewrite H. reflexivity.
Qed.
Lemma interp_in_first_segment x x0 y0 x1 y1 rest : x0 < x -> x <= x1 ->
  interp x ((x0, y0) :: (x1, y1) :: rest) == seg x0 y0 x1 y1 x.
Proof.
  intros H0 H1. simpl.
  assert (A : Qle_bool x x0 = false).
  { destruct (Qle_bool x x0) eqn:E; [|reflexivity]. apply Qle_bool_iff in E. lra. }
  assert (B : Qle_bool x x1 = true) by (apply Qle_bool_iff; exact H1). rewrite A, B. reflexivity.
Qed.
Print Assumptions seg_between.
