(* C11 model: TrainableDist.apply_delay, linear branches (rex/base.py), over Q.
   - [interp]  : jnp.interp(x, xp, fp) on non-decreasing knots xp (piecewise linear, clamped at both ends; among equal
                 knots the last one is the left neighbour, except that the left neighbour is never the final knot) --
                 exactly what `i = clip(searchsorted(xp, x, side='right'), 1, n-1)` followed by the dx == 0 guard and
                 the left/right clamps computes;
   - [apply_linear] : delayed arrival times, first-not-yet-arrived index, clamped dynamic_slice, linear_real_only mask,
                 shifted query times, one interpolation per query and leaf;
   - [trunc]   : the dtype restoration `astype(int32)` of integer leaves (rounds toward zero);
   - [zoh]     : the zero-order-hold branch on the same slice (for the coincidence clause).
   Proofs are in InterpLaws.v. *)
From Coq Require Import QArith ZArith List Bool.
From Rex Require Import Ops.
Import ListNotations.
Open Scope Q_scope.

(* ---- scalar kernels, carrier-generic: regenerated from the source by tools/kt_interp.py and tied in Ties/InterpTie.v ---- *)
Section K.
Context {A : Type} (O : ops A).
(* TrainableDist.sample: self.min + self.alpha * (self.max - self.min) *)
Definition k_delay (mn mx alpha : A) : A := oadd O mn (omul O alpha (osub O mx mn)).
(* ts_recv = where(seq < 0, input.ts_recv, input.ts_sent + d) *)
Definition k_recv (seq : Z) (sent recv d : A) : A := if (seq <? 0)%Z then recv else oadd O sent d.
(* ts_recv_mask = where(seq < 0, -1e9, ts_recv)   (linear_real_only)  |  ts_recv  (linear) *)
Definition k_mask (real_only : bool) (seq : Z) (r : A) : A :=
  if real_only && (seq <? 0)%Z then oopp O (oz O 1000000000) else r.
(* ts_recv_interp + (ts_start - ts_recv_interp[-1]) *)
Definition k_query (r t lst : A) : A := oadd O r (osub O t lst).
End K.
(* idx_min = idx_max - window ; window = cum_window - window_delayed *)
Definition k_idx_min (idx_max window : Z) : Z := (idx_max - window)%Z.
Definition k_window (cum_window window_delayed : Z) : Z := (cum_window - window_delayed)%Z.

(* ---- the executable model over Q ---- *)
Definition Qltb (x y : Q) : bool := negb (Qle_bool y x).

Definition seg (x0 y0 x1 y1 x : Q) : Q := y0 + ((x - x0) / (x1 - x0)) * (y1 - y0).

Fixpoint interp (x : Q) (pts : list (Q * Q)) : Q :=
  match pts with
  | [] => 0
  | (x0, y0) :: rest =>
      match rest with
      | [] => y0
      | (x1, y1) :: rest' =>
          if Qltb x x0 then y0                                     (* left clamp: fp[0] *)
          else if Qltb x x1 then seg x0 y0 x1 y1 x                 (* x0 <= x < x1 *)
          else match rest' with
               | [] => if Qltb x1 x then y1                        (* right clamp: fp[-1] *)
                       else if Qeq_bool x0 x1 then y0              (* dx == 0: fp[i-1] *)
                       else seg x0 y0 x1 y1 x                      (* x == x1: the last segment at its right end *)
               | _ => interp x rest
               end
      end
  end.

Record ent := { e_seq : Z; e_sent : Q; e_recv : Q }.

Definition delay (mn mx alpha : Q) : Q := mn + alpha * (mx - mn).
Definition recv_d (d : Q) (e : ent) : Q := if (e_seq e <? 0)%Z then e_recv e else e_sent e + d.
Definition BIG : Q := 1000000000 # 1.
Definition mask (real_only : bool) (d : Q) (e : ent) : Q := if real_only && (e_seq e <? 0)%Z then - BIG else recv_d d e.

(* jnp.argwhere(ts_recv > ts_start, size=1, fill_value=cum_window)[0, 0] *)
Fixpoint first_gt (t : Q) (l : list Q) : nat :=
  match l with [] => 0%nat | r :: l => if Qltb t r then 0%nat else S (first_gt t l) end.
(* jax.lax.dynamic_slice(a, [idx_min], [w]) with idx_min = idx_max - w: a negative start index is first taken relative to
   the end (i + n, as in numpy indexing), then the start is clamped into [0, n - w].  Hence fewer than w arrived entries
   (idx_max < w) select the LAST w entries of the extended window, not the first w. *)
Definition dyn_start (idx_max w n : nat) : nat :=
  let i := (Z.of_nat idx_max - Z.of_nat w)%Z in
  let i := if (i <? 0)%Z then (i + Z.of_nat n)%Z else i in
  Z.to_nat (Z.max 0 (Z.min i (Z.of_nat n - Z.of_nat w))).
Definition slice {X} (s w : nat) (l : list X) : list X := firstn w (skipn s l).

Definition start (d t : Q) (w : nat) (es : list ent) : nat :=
  dyn_start (first_gt t (map (recv_d d) es)) w (length es).
Definition queries (ro : bool) (d t : Q) (w : nat) (es : list ent) : list Q :=
  let sl := slice (start d t w es) w (map (mask ro d) es) in
  map (fun r => r + (t - last sl 0)) sl.
Definition knots (ro : bool) (d : Q) (es : list ent) (fp : list Q) : list (Q * Q) := combine (map (mask ro d) es) fp.
(* one leaf (one scalar component of one leaf): window values, oldest first *)
Definition apply_linear (ro : bool) (d t : Q) (w : nat) (es : list ent) (fp : list Q) : list Q :=
  map (fun x => interp x (knots ro d es fp)) (queries ro d t w es).
(* res.astype(int32): round toward zero *)
Definition trunc (q : Q) : Z := Z.quot (Qnum q) (Z.pos (Qden q)).
(* the zero-order-hold branch returns the sliced entries themselves *)
Definition zoh (d t : Q) (w : nat) (es : list ent) (fp : list Q) : list Q := slice (start d t w es) w fp.

(* the sender's signal: piecewise linear through (ts_sent_i, y_i) *)
Definition signal (es : list ent) (fp : list Q) : list (Q * Q) := combine (map e_sent es) fp.
Definition shift (d : Q) (pts : list (Q * Q)) : list (Q * Q) := map (fun p => (fst p + d, snd p)) pts.

(* well-formedness of knot lists *)
Fixpoint nondec (pts : list (Q * Q)) : Prop :=
  match pts with
  | (x0, _) :: rest => match rest with (x1, _) :: _ => x0 <= x1 /\ nondec rest | [] => True end
  | [] => True end.
Fixpoint incr (pts : list (Q * Q)) : Prop :=
  match pts with
  | (x0, _) :: rest => match rest with (x1, _) :: _ => x0 < x1 /\ incr rest | [] => True end
  | [] => True end.
(* non-decreasing knots whose finite-difference slopes are bounded by L *)
Fixpoint lip (L : Q) (pts : list (Q * Q)) : Prop :=
  match pts with
  | (x0, y0) :: rest =>
      match rest with
      | (x1, y1) :: _ => x0 <= x1 /\ - (L * (x1 - x0)) <= y1 - y0 <= L * (x1 - x0) /\ lip L rest
      | [] => True end
  | [] => True end.
Inductive adj {X : Type} : X -> X -> list X -> Prop :=
| adj_here a b l : adj a b (a :: b :: l)
| adj_later a b c l : adj a b l -> adj a b (c :: l).
