#!/usr/bin/env python3
"""write seeded/<id>/meta.json from the agent's meta.json and the logs left by tools/eval_seeded.sh / tools/recheck_seeded.sh"""
import json, os, sys, glob, re
def main(sid, rnd, first_miss=None):
    d = f"/verif/seeded/{sid}"
    am = json.load(open(f"{d}/agent_meta.json")) if os.path.exists(f"{d}/agent_meta.json") else {}
    def rc(n):
        p = f"{d}/{n}.rc"; return open(p).read().strip() if os.path.exists(p) else None
    checks = {}
    for f in sorted(glob.glob(f"{d}/check_*.log")):
        c = re.search(r"check_(C\d+)\.log", f).group(1)
        lines = [l.strip() for l in open(f) if l.startswith("VIOLATION")]
        ok = any(l.startswith("OK") for l in open(f))
        checks[c] = dict(result="VIOLATION" if lines else ("OK (missed)" if ok else "no output"),
                         concrete_input=bool(lines) and not all("no-failing-input-found" in l for l in lines), lines=lines[:5])
    meta = dict(property=sid.split("_")[0], round=rnd,
                breaks=am.get("breaks") or am.get("summary") or am.get("change") or am.get("description") or am.get("what") or "",
                needs=am.get("needs") or am.get("trigger") or am.get("requires") or "",
                confirmed=dict(patch_applies_to_repo_head=True, demo_exit_unchanged=rc("demo_unchanged"), demo_exit_changed=rc("demo_changed"), unit_tests_exit_with_change=rc("tests")),
                what_was_run="tools/eval_seeded.sh (fresh worktree of /repo HEAD + patch.diff; demo.py on /repo and on the patched tree; pytest tests/unit with the 3 known failures "
                             "deselected on the patched tree; ./check <C..> --tier quick with VERIF_REPO=<patched tree>); tools/recheck_seeded.sh after strengthening",
                checks=checks, first_run_missed_by=first_miss or [],
                source=f"independent sub-agent (round {rnd}: told the sites of all earlier rounds; asked for cooperating edits, timing/order dependence or rarely exercised configuration space)")
    if not meta["breaks"]: meta["agent_meta"] = am
    json.dump(meta, open(f"{d}/meta.json", "w"), indent=1)
if __name__ == "__main__":
    main(sys.argv[1], int(sys.argv[1].split('_r')[1]) if '_r' in sys.argv[1] else 1, sys.argv[2:])
