"""kernel group Policy (C20): rex/ppo.py Policy.apply_actor / get_action, PPOResult.policy / obs_scaling / act_scaling,
rex/actor_critic.py Actor.__call__ (gaussian head, state-independent std), rex/rl.py SquashState.unsquash,
NormalizeVec.normalize, SquashActionWrapper.step, NormalizeVecObservationWrapper.step and the evaluation loop of ppo.train.

Arithmetic kernels are translated expression by expression (ktlib.Expr, carrier-generic); the decision kernels (activation
tables, loop bounds, layer indices, normalisation flags, row index) are extracted from statements whose exact shape is
checked -- any other shape raises Unsupported (fail closed)."""
import ast
from ktlib import *

GROUP = "Policy"

NNFN = {"nn.tanh": "FTanh", "nn.relu": "FRelu", "nn.gelu": "FGelu", "nn.softplus": "FSoftplus"}


def u(n): return ast.unparse(n)


def sym_exec(f, env, benv, calls):
    """straight-line body with `name = expr`, `if <flag>: ... [else: ...]` and a final `return name`; returns the Coq
    expression of the returned value (assignments substituted)"""
    env = dict(env)

    def mk():
        e = dict(env); e.update(calls); return Expr(e, "O", benv)

    def run(stmts, env):
        env = dict(env)
        for st in stmts:
            if isinstance(st, ast.Assign) and len(st.targets) == 1 and isinstance(st.targets[0], ast.Name):
                e = dict(env); e.update(calls)
                env[st.targets[0].id] = Expr(e, "O", benv).tr(st.value)
            elif isinstance(st, ast.If):
                key = u(st.test)
                if key not in benv: raise Unsupported(f"{f.name}: condition {key}")
                a = run(st.body, env); b = run(st.orelse, env)
                for k in set(a) | set(b):
                    if a.get(k) != b.get(k):
                        if k not in a or k not in b: raise Unsupported(f"{f.name}: {k} assigned in one branch only")
                        env[k] = f"(if {benv[key]} then {a[k]} else {b[k]})"
            else:
                raise Unsupported(f"{f.name}: statement {u(st)[:80]}")
        return env
    b = body_wo_doc(f)
    if not b or not isinstance(b[-1], ast.Return) or not isinstance(b[-1].value, ast.Name): raise Unsupported(f"{f.name}: return")
    out = run(b[:-1], env)
    return out[b[-1].value.id]


def norm_flags(call):
    """<x>.normalize(obs, clip=..., subtract_mean=...) -> Coq (clip, subtract_mean) with the defaults of the signature"""
    if not (isinstance(call, ast.Call) and isinstance(call.func, ast.Attribute) and call.func.attr == "normalize"):
        raise Unsupported("normalize call: " + u(call))
    if len(call.args) != 1: raise Unsupported("normalize call: positional arguments " + u(call))
    fl = {"clip": True, "subtract_mean": True}
    for kw in call.keywords:
        if kw.arg not in fl or not isinstance(kw.value, ast.Constant) or not isinstance(kw.value.value, bool):
            raise Unsupported("normalize call: keyword " + u(kw.value))
        fl[kw.arg] = kw.value.value
    return "(%s, %s)" % ("true" if fl["clip"] else "false", "true" if fl["subtract_mean"] else "false")


def find_calls(node, attr):
    return [n for n in ast.walk(node) if isinstance(n, ast.Call) and isinstance(n.func, ast.Attribute) and n.func.attr == attr]


def translate(repo):
    out = [HEADER, "From Coq Require Import String.\nFrom Rex Require Import Policy.\nOpen Scope string_scope.\n"]
    rl = parse(f"{repo}/rex/rl.py"); ppo = parse(f"{repo}/rex/ppo.py"); ac = parse(f"{repo}/rex/actor_critic.py")

    # ---- SquashState.unsquash
    f = find_func(rl, "SquashState", "unsquash")
    if [a.arg for a in f.args.args] != ["self", "x"]: raise Unsupported("unsquash signature")
    e = sym_exec(f, {"x": "x", "self.low": "low", "self.high": "high"}, {"self.squash": "squash"},
                 {"jnp.tanh": lambda a: f"(ftanh {a})"})
    out.append(f"Definition unsquash_src {{A}} (O : ops A) (ftanh : A -> A) (squash : bool) (low high x : A) : A :=\n  {e}.\n")

    # ---- NormalizeVec.normalize
    f = find_func(rl, "NormalizeVec", "normalize")
    if [a.arg for a in f.args.args] != ["self", "x", "clip", "subtract_mean"]: raise Unsupported("normalize signature")
    if [u(d) for d in f.args.defaults] != ["True", "True"]: raise Unsupported("normalize defaults")
    e = sym_exec(f, {"x": "x", "self.mean": "mean", "self.var": "var", "self.clip": "clipv"},
                 {"clip": "clip", "subtract_mean": "subtract_mean"}, {"jnp.sqrt": lambda a: f"(fsqrt {a})"})
    out.append(f"Definition normalize_src {{A}} (O : ops A) (fsqrt : A -> A) (clip subtract_mean : bool) (mean var clipv x : A) : A :=\n  {e}.\n")

    # ---- SquashActionWrapper.step: the trainer's action goes through aux['act_scaling'].unsquash
    f = find_func(rl, "SquashActionWrapper", "step"); b = [u(s) for s in body_wo_doc(f)]
    if b != ["act_scaling = graph_state.aux['act_scaling']", "action = act_scaling.unsquash(action)",
             "return self._env.step(graph_state, action)"]: raise Unsupported("SquashActionWrapper.step: " + "; ".join(b))
    f = find_func(rl, "SquashActionWrapper", "reset"); b = [u(s) for s in body_wo_doc(f)]
    if "transform_gs = gs.replace_aux({'act_scaling': act_scaling})" not in b or \
            "act_scaling = SquashState(low=act_space.low, high=act_space.high, squash=self.squash)" not in b:
        raise Unsupported("SquashActionWrapper.reset")

    # ---- normalisation flags: Policy.get_action, observation wrapper (reset/step), evaluation loop of train
    ga = find_func(ppo, "Policy", "get_action"); b = body_wo_doc(ga)
    if len(b) != 4: raise Unsupported("get_action: statements")
    s0 = b[0]
    if not (isinstance(s0, ast.Assign) and u(s0.targets[0]) == "norm_obs" and isinstance(s0.value, ast.IfExp) and
            u(s0.value.test) == "self.obs_scaling is not None" and u(s0.value.orelse) == "obs" and
            u(s0.value.body.func) == "self.obs_scaling.normalize" and u(s0.value.body.args[0]) == "obs"):
        raise Unsupported("get_action: normalisation statement " + u(s0))
    out.append(f"Definition get_action_norm_flags_src : bool * bool := {norm_flags(s0.value.body)}.\n")
    s1 = b[1]
    if not (isinstance(s1, ast.Assign) and u(s1.targets[0]) == "action" and isinstance(s1.value, ast.IfExp) and
            u(s1.value.test) == "self.model is not None" and u(s1.value.body) == "self.apply_actor(norm_obs, rng=rng)"):
        raise Unsupported("get_action: actor statement " + u(s1))
    if u(b[2]) != "action = self.act_scaling.unsquash(action) if self.act_scaling is not None else action":
        raise Unsupported("get_action: scaling statement " + u(b[2]))
    if u(b[3]) != "return action": raise Unsupported("get_action: return")
    for nm in ("reset", "step"):
        f = find_func(rl, "NormalizeVecObservationWrapper", nm)
        cs = find_calls(f, "normalize")
        if len(cs) != 1 or u(cs[0].func) != "norm_state.normalize" or u(cs[0].args[0]) != "obs": raise Unsupported(f"obs wrapper {nm}")
        ret = body_wo_doc(f)[-1]
        if not (isinstance(ret, ast.Return) and u(ret.value.elts[1]) == "norm_obs"): raise Unsupported(f"obs wrapper {nm}: return")
        asg = [s for s in body_wo_doc(f) if isinstance(s, ast.Assign) and u(s.targets[0]) == "norm_obs"]
        if len(asg) != 1 or asg[0].value is not cs[0]: raise Unsupported(f"obs wrapper {nm}: norm_obs")
        if "norm_gs = gs.replace_aux({'norm_obs': norm_state})" not in [u(s) for s in body_wo_doc(f)]: raise Unsupported(f"obs wrapper {nm}: aux")
        out.append(f"Definition obs_wrapper_{nm}_flags_src : bool * bool := {norm_flags(cs[0])}.\n")
    tr = find_func(ppo, None, "train")
    ev = [n for n in ast.walk(tr) if isinstance(n, ast.FunctionDef) and n.name == "_evaluate_env_step"]
    if len(ev) != 1: raise Unsupported("train: _evaluate_env_step")
    cs = find_calls(ev[0], "normalize")
    if len(cs) != 1 or u(cs[0].func) != "norm_obs.normalize" or u(cs[0].args[0]) != "last_obs": raise Unsupported("train: eval normalize")
    out.append(f"Definition train_eval_norm_flags_src : bool * bool := {norm_flags(cs[0])}.\n")
    evs = [u(s) for s in ev[0].body]
    if "pi, value = network.apply(eval_train_state.params, last_obs)" not in evs or "action = pi.mean()" not in evs:
        raise Unsupported("train: evaluation action")
    if "norm_obs = runner_state[1].aux['norm_obs']" not in [u(n) for n in ast.walk(tr) if isinstance(n, ast.Assign)]:
        raise Unsupported("train: evaluation normalisation state")

    # ---- PPOResult extraction
    f = find_func(ppo, "PPOResult", "obs_scaling"); b = [u(s) for s in body_wo_doc(f)]
    if b != ["return self.runner_state.env_state.aux.get('norm_obs', None)"]: raise Unsupported("PPOResult.obs_scaling: " + b[0])
    f = find_func(ppo, "PPOResult", "act_scaling"); b = body_wo_doc(f)
    if len(b) != 1 or not isinstance(b[0], ast.Return): raise Unsupported("PPOResult.act_scaling")
    c = b[0].value
    if not (isinstance(c, ast.Call) and u(c.func) == "jax.tree_util.tree_map" and len(c.args) == 2 and isinstance(c.args[0], ast.Lambda)
            and u(c.args[1]) == "self.runner_state.env_state.aux.get('act_scaling', None)"): raise Unsupported("PPOResult.act_scaling: " + u(c))
    lb = c.args[0].body
    if not (isinstance(lb, ast.Subscript) and u(lb.value) == c.args[0].args.args[0].arg and isinstance(lb.slice, ast.Tuple)
            and len(lb.slice.elts) == 3 and u(lb.slice.elts[0]) == "..." and u(lb.slice.elts[2]) == ":"
            and isinstance(lb.slice.elts[1], ast.Constant) and isinstance(lb.slice.elts[1].value, int) and lb.slice.elts[1].value >= 0):
        raise Unsupported("PPOResult.act_scaling: row selector " + u(lb))
    out.append(f"Definition act_row_src : nat := {lb.slice.elts[1].value}.\n")
    f = find_func(ppo, "PPOResult", "policy"); b = body_wo_doc(f)
    if len(b) != 1 or not isinstance(b[0], ast.Return) or u(b[0].value.func) != "Policy" or b[0].value.args: raise Unsupported("PPOResult.policy")
    kws = {k.arg: u(k.value) for k in b[0].value.keywords}
    want = {"act_scaling": "self.act_scaling", "obs_scaling": "self.obs_scaling", "model": "self.runner_state.train_state.params['params']",
            "hidden_activation": "self.config.HIDDEN_ACTIVATION", "output_activation": "'gaussian'",
            "state_independent_std": "self.config.STATE_INDEPENDENT_STD"}
    if kws != want: raise Unsupported(f"PPOResult.policy: fields {kws}")

    # ---- Policy.apply_actor
    f = find_func(ppo, "Policy", "apply_actor"); b = body_wo_doc(f)
    src = [u(s) for s in b]
    if src[:3] != ["x = norm_obs", "actor_params = self.model['actor']",
                   "num_layers = sum(['Dense' in k in k for k in actor_params.keys()])"]: raise Unsupported("apply_actor: prologue " + "; ".join(src[:3]))
    tab = b[3]
    if not (isinstance(tab, ast.Assign) and u(tab.targets[0]) == "ACTIVATIONS" and isinstance(tab.value, ast.Call)
            and u(tab.value.func) == "dict" and not tab.value.args): raise Unsupported("apply_actor: ACTIVATIONS")
    pt = []
    for kw in tab.value.keywords:
        if u(kw.value) not in NNFN: raise Unsupported("apply_actor: activation " + u(kw.value))
        pt.append((kw.arg, NNFN[u(kw.value)]))
    if len({k for k, _ in pt}) != len(pt): raise Unsupported("apply_actor: duplicate activation key")
    loop = b[4]
    if not (isinstance(loop, ast.For) and u(loop.target) == "i" and isinstance(loop.iter, ast.Call) and u(loop.iter.func) == "range"
            and len(loop.iter.args) == 1 and not loop.orelse): raise Unsupported("apply_actor: loop")
    ls = [u(s) for s in loop.body]
    if not (len(ls) == 5 and ls[0] == "hl = actor_params[f'Dense_{i}']" and ls[1] == "num_output_units = hl['kernel'].shape[-1]"
            and ls[2].startswith("if x is None:") and ls[3] == "x = nn.Dense(num_output_units).apply({'params': hl}, x)"
            and ls[4] == "x = ACTIVATIONS[self.hidden_activation](x)"): raise Unsupported("apply_actor: loop body " + "; ".join(ls))
    nat = Expr({"num_layers": "num_layers"}, "Z")
    out.append(f"Definition policy_loop_count_src (num_layers : Z) : Z := {nat.tr(loop.iter.args[0])}.\n")
    o1 = b[5]
    if not (isinstance(o1, ast.Assign) and u(o1.targets[0]) == "hl" and isinstance(o1.value, ast.Subscript) and u(o1.value.value) == "actor_params"
            and isinstance(o1.value.slice, ast.JoinedStr) and len(o1.value.slice.values) == 2
            and isinstance(o1.value.slice.values[0], ast.Constant) and o1.value.slice.values[0].value == "Dense_"
            and isinstance(o1.value.slice.values[1], ast.FormattedValue)): raise Unsupported("apply_actor: output layer lookup " + u(o1))
    out.append(f"Definition policy_out_index_src (num_layers : Z) : Z := {nat.tr(o1.value.slice.values[1].value)}.\n")
    if src[6:8] != ["num_output_units = hl['kernel'].shape[-1]", "x_mean = nn.Dense(num_output_units).apply({'params': hl}, x)"]:
        raise Unsupported("apply_actor: output layer " + "; ".join(src[6:8]))
    g = b[8]
    if not (isinstance(g, ast.If) and u(g.test) == "self.output_activation == 'gaussian'" and len(g.body) == 1 and isinstance(g.body[0], ast.If)
            and u(g.body[0].test) == "rng is not None" and u(b[9]) == "return x" and len(b) == 10): raise Unsupported("apply_actor: head")
    sb = [u(s) for s in g.body[0].body]; eb = [u(s) for s in g.body[0].orelse]
    if eb != ["x = x_mean"] or len(sb) != 3 or sb[0] != "log_std = actor_params['log_std']" or sb[2] != "x = pi.sample(seed=rng)":
        raise Unsupported("apply_actor: gaussian branches " + "; ".join(sb + eb))
    pi = g.body[0].body[1]
    if not (isinstance(pi, ast.Assign) and u(pi.targets[0]) == "pi" and u(pi.value.func) == "distrax.MultivariateNormalDiag"
            and len(pi.value.args) == 2 and not pi.value.keywords and u(pi.value.args[0]) == "x_mean"): raise Unsupported("apply_actor: distribution " + u(pi))
    sc = Expr({"log_std": "log_std", "jnp.exp": lambda a: f"(fexp {a})"}, "O").tr(pi.value.args[1])
    out.append(f"Definition policy_scale_src {{A}} (O : ops A) (fexp : A -> A) (log_std : A) : A := {sc}.\n")

    # ---- Actor.__call__
    f = find_func(ac, "Actor", "__call__"); b = body_wo_doc(f)
    if [a.arg for a in f.args.args] != ["self", "x"] or len(b) != 3: raise Unsupported("Actor.__call__: shape")
    loop = b[0]
    if not (isinstance(loop, ast.For) and u(loop.iter.func) == "range" and len(loop.iter.args) == 1 and len(loop.body) == 2 and not loop.orelse):
        raise Unsupported("Actor.__call__: hidden loop")
    out.append(f"Definition actor_loop_count_src (num_hidden_layers : Z) : Z := "
               f"{Expr({'self.num_hidden_layers': 'num_hidden_layers'}, 'Z').tr(loop.iter.args[0])}.\n")
    d = loop.body[0]
    if not (isinstance(d, ast.Assign) and u(d.targets[0]) == "x" and isinstance(d.value, ast.Call) and isinstance(d.value.func, ast.Call)
            and u(d.value.func.func) == "nn.Dense" and u(d.value.func.args[0]) == "self.num_hidden_units" and [u(a) for a in d.value.args] == ["x"]):
        raise Unsupported("Actor.__call__: hidden Dense " + u(d))
    at = []; node = loop.body[1]
    while True:
        if not (isinstance(node, ast.If) and isinstance(node.test, ast.Compare) and u(node.test.left) == "self.hidden_activation"
                and len(node.test.ops) == 1 and isinstance(node.test.ops[0], ast.Eq) and isinstance(node.test.comparators[0], ast.Constant)
                and len(node.body) == 1 and isinstance(node.body[0], ast.Assign) and u(node.body[0].targets[0]) == "x"
                and isinstance(node.body[0].value, ast.Call) and [u(a) for a in node.body[0].value.args] == ["x"]
                and u(node.body[0].value.func) in NNFN): raise Unsupported("Actor.__call__: activation chain " + u(node)[:120])
        at.append((node.test.comparators[0].value, NNFN[u(node.body[0].value.func)]))
        if len(node.orelse) == 1 and isinstance(node.orelse[0], ast.If): node = node.orelse[0]; continue
        if len(node.orelse) == 1 and isinstance(node.orelse[0], ast.Raise): break
        raise Unsupported("Actor.__call__: activation chain tail")
    head = b[1]
    gb = None; node = head
    while isinstance(node, ast.If):
        if u(node.test) == "self.output_activation == 'gaussian'": gb = node; break
        node = node.orelse[0] if len(node.orelse) == 1 else None
    if gb is None or len(gb.body) != 1 or not isinstance(gb.body[0], ast.If) or u(gb.body[0].test) != "self.state_independent_std":
        raise Unsupported("Actor.__call__: gaussian head")
    sb = gb.body[0].body
    if len(sb) != 3: raise Unsupported("Actor.__call__: state-independent branch")
    m = sb[0]
    if not (isinstance(m, ast.Assign) and u(m.targets[0]) == "x_mean" and isinstance(m.value.func, ast.Call) and u(m.value.func.func) == "nn.Dense"
            and u(m.value.func.args[0]) == "self.num_output_units" and [u(a) for a in m.value.args] == ["x"]): raise Unsupported("Actor: mean layer " + u(m))
    if u(sb[1]) != "actor_logtstd = self.param('log_std', nn.initializers.zeros, (self.num_output_units,))": raise Unsupported("Actor: log_std " + u(sb[1]))
    pi = sb[2]
    if not (isinstance(pi, ast.Assign) and u(pi.targets[0]) == "pi" and u(pi.value.func) == "distrax.MultivariateNormalDiag"
            and len(pi.value.args) == 2 and not pi.value.keywords and u(pi.value.args[0]) == "x_mean"): raise Unsupported("Actor: distribution " + u(pi))
    sc = Expr({"actor_logtstd": "log_std", "jnp.exp": lambda a: f"(fexp {a})"}, "O").tr(pi.value.args[1])
    out.append(f"Definition actor_scale_src {{A}} (O : ops A) (fexp : A -> A) (log_std : A) : A := {sc}.\n")
    if u(b[2]) != "return pi": raise Unsupported("Actor.__call__: return")
    acc = find_func(ac, "ActorCritic", "__call__")
    if [u(s) for s in body_wo_doc(acc)] != ["return (self.actor(x), self.critic(x))"]: raise Unsupported("ActorCritic.__call__")

    def table(name, entries):
        chain = "None"
        for k, fn in reversed(entries):
            chain = f'if String.eqb s "{k}" then Some {fn} else {chain}'
        return f"Definition {name} (s : string) : option afn :=\n  {chain}.\n"
    out.append(table("policy_table_src", pt)); out.append(table("actor_table_src", at))
    return "\n".join(out)
