"""kernel group DelayDist (C15): rex/base.py StaticDist.sample/reset/quantile, TrainableDist.sample/quantile/mean/
_get_alpha/get_alpha; rex/utils.py mixture_distribution_quantiles (grid, guard, index selection); rex/node.py default
delay (both constructors); rex/gmm_estimator.py normalize_weights, _rescale, the deterministic shortcut and the prune
loop of get_dist.  Fail-closed: every statement that is not translated through ktlib.Expr is compared verbatim
(ast.unparse) with the shape the model was written for."""
import ast
from ktlib import *

GROUP = "DelayDist"


def want(node, text, what):
    got = ast.unparse(node)
    if got != text: raise Unsupported(f"{what}: expected `{text}`, found `{got}`")


class E(Expr):
    """Expr + jnp.clip(x, lo, None) and a generic `<` through an explicit ltb"""

    def tr(self, n):
        if isinstance(n, ast.Call) and ast.unparse(n.func) in ("jnp.clip", "onp.clip") and len(n.args) == 3 and not n.keywords \
                and isinstance(n.args[2], ast.Constant) and n.args[2].value is None:
            return self.bin("max", self.tr(n.args[0]), self.tr(n.args[1]))
        return super().tr(n)

    def lt(self, n):
        if not (isinstance(n, ast.Compare) and len(n.ops) == 1 and isinstance(n.ops[0], ast.Lt)):
            raise Unsupported("comparison " + ast.unparse(n))
        return f"(ltb {self.tr(n.left)} {self.tr(n.comparators[0])})"


def ret_expr(f, what):
    b = body_wo_doc(f)
    if len(b) != 1 or not isinstance(b[0], ast.Return): raise Unsupported(f"{what}: expected a single return")
    return b[0].value


def static_dist(t, out):
    # ---- sample
    b = body_wo_doc(find_func(t, "StaticDist", "sample"))
    if len(b) != 5: raise Unsupported("StaticDist.sample: statement count")
    want(b[0], "if shape is None:\n    shape = ()", "StaticDist.sample[0]")
    want(b[1], "new_rng, rng_sample = jax.random.split(self.rng, 2)", "StaticDist.sample[1]")
    keyvar = {"new_rng": "new_rng", "rng_sample": "rng_sample", "self.rng": "(snd st)"}
    s2 = b[2]
    if not (isinstance(s2, ast.Assign) and ast.unparse(s2.targets[0]) == "samples" and isinstance(s2.value, ast.Call)
            and ast.unparse(s2.value.func) == "self.dist.sample" and not s2.value.args
            and sorted(k.arg for k in s2.value.keywords) == ["sample_shape", "seed"]):
        raise Unsupported("StaticDist.sample[2]: " + ast.unparse(s2))
    kw = {k.arg: ast.unparse(k.value) for k in s2.value.keywords}
    if kw["sample_shape"] != "shape" or kw["seed"] not in keyvar: raise Unsupported("StaticDist.sample[2]: " + ast.unparse(s2))
    s3 = b[3]
    if not (isinstance(s3, ast.Assign) and ast.unparse(s3.targets[0]) == "samples"): raise Unsupported("StaticDist.sample[3]")
    clip = E({"samples": "x"}).tr(s3.value)
    s4 = b[4]
    if not (isinstance(s4, ast.Return) and isinstance(s4.value, ast.Tuple) and len(s4.value.elts) == 2
            and ast.unparse(s4.value.elts[1]) == "samples"):
        raise Unsupported("StaticDist.sample[4]: " + ast.unparse(s4))
    st = s4.value.elts[0]
    if ast.unparse(st) == "self": newst = "st"
    elif isinstance(st, ast.Call) and ast.unparse(st.func) == "self.replace" and not st.args and len(st.keywords) == 1 \
            and st.keywords[0].arg == "rng" and ast.unparse(st.keywords[0].value) in keyvar:
        newst = f"(fst st, {keyvar[ast.unparse(st.keywords[0].value)]})"
    else: raise Unsupported("StaticDist.sample[4]: " + ast.unparse(s4))
    out.append("Definition static_sample_src {K D A} (O : ops A) (split : K -> K * K) (draw : D -> K -> nat -> list A)\n"
               "    (st : D * K) (n : nat) : (D * K) * list A :=\n"
               "  let (new_rng, rng_sample) := split (snd st) in\n"
               f"  let samples := draw (fst st) {keyvar[kw['seed']]} n in\n"
               f"  let samples := map (fun x => {clip}) samples in\n"
               f"  ({newst}, samples).\n")
    # ---- reset
    want(ret_expr(find_func(t, "StaticDist", "reset"), "StaticDist.reset"), "self.replace(rng=rng)", "StaticDist.reset")
    out.append("Definition static_reset_src {K D} (st : D * K) (rng : K) : D * K := (fst st, rng).\n")
    # ---- quantile
    b = body_wo_doc(find_func(t, "StaticDist", "quantile"))
    if len(b) != 2 or not isinstance(b[1], ast.If): raise Unsupported("StaticDist.quantile: statement count")
    want(b[0], "shape = q.shape if isinstance(q, (jax.Array, onp.ndarray)) else ()", "StaticDist.quantile[0]")
    i1 = b[1]
    want(i1.test, "isinstance(self.dist, distrax.Deterministic)", "StaticDist.quantile: first branch")
    if len(i1.body) != 2 or not isinstance(i1.body[0], ast.Assign): raise Unsupported("StaticDist.quantile: Deterministic branch")
    want(i1.body[1], "return res", "StaticDist.quantile: Deterministic branch")
    e = Expr({"shape": "tt", "onp.ones": lambda *a: "1%R", "self.dist.mean": lambda *a: "loc"}, "R")
    out.append(f"Definition det_quantile_src (loc q : R) : R :=\n  {e.tr(i1.body[0].value)}.\n")
    if len(i1.orelse) != 1 or not isinstance(i1.orelse[0], ast.If): raise Unsupported("StaticDist.quantile: elif chain")
    i2 = i1.orelse[0]
    want(i2.test, "isinstance(self.dist, distrax.Normal)", "StaticDist.quantile: second branch")
    if len(i2.body) != 1 or not isinstance(i2.body[0], ast.Return): raise Unsupported("StaticDist.quantile: Normal branch")
    e = Expr({"q": "q", "self.dist.scale": "scale", "self.dist.loc": "loc", "jax.scipy.special.ndtri": lambda a: f"(Phinv {a})"}, "R")
    out.append(f"Definition normal_quantile_src (Phinv : R -> R) (q loc scale : R) : R :=\n  {e.tr(i2.body[0].value)}.\n")
    if len(i2.orelse) != 1 or not isinstance(i2.orelse[0], ast.If): raise Unsupported("StaticDist.quantile: elif chain")
    i3 = i2.orelse[0]
    want(i3.test, "isinstance(self.dist, distrax.MixtureSameFamily)", "StaticDist.quantile: third branch")
    m = i3.body
    if len(m) != 6: raise Unsupported("StaticDist.quantile: mixture branch statement count")
    want(m[0], "import rex.utils as utils", "mixture branch[0]")
    want(m[1], "cdist = self.dist.components_distribution", "mixture branch[1]")
    e = Expr({"cdist.scale": "scale", "cdist.loc": "loc", "jax.scipy.special.ndtri": lambda a: f"(Phinv {a})"}, "R")
    for st_, nm in ((m[2], "qs_component_max"), (m[3], "qs_component_min")):
        if not (isinstance(st_, ast.Assign) and ast.unparse(st_.targets[0]) == nm): raise Unsupported("mixture branch: " + nm)
        out.append(f"Definition {nm}_src (Phinv : R -> R) (loc scale : R) : R :=\n  {e.tr(st_.value)}.\n")
    call = m[4]
    if not (isinstance(call, ast.Assign) and ast.unparse(call.targets[0]) == "qs" and isinstance(call.value, ast.Subscript)
            and ast.unparse(call.value.slice) == "0" and isinstance(call.value.value, ast.Call)
            and ast.unparse(call.value.value.func) == "utils.mixture_distribution_quantiles" and not call.value.value.args):
        # the repaired shape (all requested levels) is accepted as well: no [0]
        if isinstance(call, ast.Assign) and ast.unparse(call.targets[0]) == "qs" and isinstance(call.value, ast.Call) \
                and ast.unparse(call.value.func) == "utils.mixture_distribution_quantiles" and not call.value.args:
            c = call.value
        else: raise Unsupported("mixture branch[4]: " + ast.unparse(call))
    else: c = call.value.value
    kws = {k.arg: k.value for k in c.keywords}
    if sorted(kws) != ["N_grid_points", "dist", "grid_max", "grid_min", "probs"]: raise Unsupported("mixture branch[4]: keywords")
    want(kws["dist"], "self.dist", "mixture branch: dist="); want(kws["probs"], "jnp.array(q).reshape(-1)", "mixture branch: probs=")
    want(kws["N_grid_points"], "int(1000.0)", "mixture branch: N_grid_points=")
    out.append("Definition mix_n_src : nat := 1000.\n")
    e = Expr({"float": lambda a: a, "qs_component_min.min": lambda *a: "lo", "qs_component_max.max": lambda *a: "hi"}, "R")
    out.append(f"Definition grid_min_src (lo : R) : R :=\n  {e.tr(kws['grid_min'])}.\n")
    out.append(f"Definition grid_max_src (hi : R) : R :=\n  {e.tr(kws['grid_max'])}.\n")
    want(m[5], "return qs.reshape(shape)", "mixture branch[5]")


def trainable(t, out):
    b = body_wo_doc(find_func(t, "TrainableDist", "sample"))
    if len(b) != 3: raise Unsupported("TrainableDist.sample: statement count")
    want(b[0], "if shape is None:\n    shape = ()", "TrainableDist.sample[0]")
    if not (isinstance(b[1], ast.Assign) and ast.unparse(b[1].targets[0]) == "samples"): raise Unsupported("TrainableDist.sample[1]")
    want(b[2], "return (self, samples)", "TrainableDist.sample[2]")
    env = {"self.min": "mn", "self.max": "mx", "self.alpha": "alpha", "shape": "(oz O 1)", "jnp.ones": lambda *a: "(oz O 1)"}
    hdr = "{A} (O : ops A) (mn mx alpha : A) : A"
    out.append(f"Definition trainable_sample_src {hdr} :=\n  {E(env).tr(b[1].value)}.\n")
    for nm in ("quantile", "mean"):
        out.append(f"Definition trainable_{nm}_src {hdr} :=\n  {E(env).tr(ret_expr(find_func(t, 'TrainableDist', nm), nm))}.\n")
    want(ret_expr(find_func(t, "TrainableDist", "reset"), "TrainableDist.reset"), "self", "TrainableDist.reset")
    env2 = {"delay": "delay", "min": "mn", "max": "mx"}
    out.append(f"Definition get_alpha_raw_src {{A}} (O : ops A) (delay mn mx : A) : A :=\n"
               f"  {E(env2).tr(ret_expr(find_func(t, 'TrainableDist', '_get_alpha'), '_get_alpha'))}.\n")
    env3 = {"delay": "delay", "self.min": "mn", "self.max": "mx", "self._get_alpha": lambda a, b, c: f"(get_alpha_raw_src O {a} {b} {c})"}
    out.append(f"Definition get_alpha_src {{A}} (O : ops A) (delay mn mx : A) : A :=\n"
               f"  {E(env3).tr(ret_expr(find_func(t, 'TrainableDist', 'get_alpha'), 'get_alpha'))}.\n")


PINNED_PICK = "return base_grid[onp.argmax(onp.greater(cdf_grid_one_obs, probs_row_grid), axis=1)]"
FIXED_PICK = ["above = onp.greater(cdf_grid_one_obs, probs_row_grid)",
              "idx = onp.where(above.any(axis=1), onp.argmax(above, axis=1), len(base_grid) - 1)",
              "return base_grid[idx]"]


def grid(u, out):
    f = find_func(u, None, "mixture_distribution_quantiles")
    b = body_wo_doc(f)
    texts = [ast.unparse(s) for s in b]
    want(b[0], "base_grid = onp.linspace(grid_min, grid_max, num=int(N_grid_points))", "mixture_distribution_quantiles[0]")
    gc = "grid_check = (cdf_grid.min(axis=0).max() <= min(probs)) & (max(probs) <= cdf_grid.max(axis=0).min())"
    if gc not in texts: raise Unsupported("mixture_distribution_quantiles: grid_check changed")
    i = texts.index(gc)
    g = b[i + 1]
    if not (isinstance(g, ast.If) and ast.unparse(g.test) == "not grid_check" and not g.orelse and isinstance(g.body[-1], ast.Raise)):
        raise Unsupported("mixture_distribution_quantiles: guard does not raise")
    want(b[i + 2], "probs_row_grid = onp.transpose(onp.tile(onp.array(probs), (cdf_grid.shape[0], 1)))", "probs_row_grid")
    inner = b[i + 3]
    if not (isinstance(inner, ast.FunctionDef) and inner.name == "get_quantiles_for_one_observation"): raise Unsupported("inner function")
    ib = [ast.unparse(s) for s in body_wo_doc(inner)]
    if ib == [PINNED_PICK]: pick = "np_argmax_bool"
    elif ib == FIXED_PICK: pick = "argmax_or_last"
    else: raise Unsupported("get_quantiles_for_one_observation: " + " ; ".join(ib))
    want(b[i + 4], "quantiles_grid = onp.apply_along_axis(func1d=get_quantiles_for_one_observation, axis=0, arr=cdf_grid)", "apply_along_axis")
    want(b[i + 5], "return quantiles_grid", "return")
    if len(b) != i + 6: raise Unsupported("mixture_distribution_quantiles: trailing statements")
    out.append("(* onp.greater(cdf, p) is cdf > p, i.e. ltb p cdf *)\n"
               f"Definition grid_index_src {{A}} (ltb : A -> A -> bool) (p : A) (cs : list A) : nat :=\n"
               f"  {pick} (map (fun c => ltb p c) cs).\n")
    out.append("Definition grid_check_src {A} (ltb : A -> A -> bool) (probs cs : list A) : bool :=\n"
               "  match probs, cs with\n"
               "  | p0 :: ps, c0 :: cs' => negb (ltb (lmin ltb p0 ps) (lmin ltb c0 cs')) && negb (ltb (lmax ltb c0 cs') (lmax ltb p0 ps))\n"
               "  | _, _ => false end.\n")


def node_delay(n, out):
    for cls, nm in (("BaseNode", "node"), ("Connection", "conn")):
        b = body_wo_doc(find_func(n, cls, "__init__"))
        idx = [i for i, s in enumerate(b) if isinstance(s, ast.Assign) and ast.unparse(s.targets[0]) == "self.delay"]
        if len(idx) != 1: raise Unsupported(f"{cls}.__init__: self.delay assignments")
        s = b[idx[0]]; a = b[idx[0] + 1]
        v = s.value
        if not (isinstance(v, ast.IfExp) and ast.unparse(v.test) == "delay is not None" and ast.unparse(v.body) == "delay"):
            raise Unsupported(f"{cls}.__init__: " + ast.unparse(s))
        o = v.orelse
        if not (isinstance(o, ast.Call) and ast.unparse(o.func) == "float" and len(o.args) == 1 and isinstance(o.args[0], ast.Call)
                and ast.unparse(o.args[0].func) == "self.delay_dist.quantile" and len(o.args[0].args) == 1 and not o.args[0].keywords):
            raise Unsupported(f"{cls}.__init__: " + ast.unparse(s))
        lvl = Expr({}, "O").tr(o.args[0].args[0])
        if not (isinstance(a, ast.Assert) and ast.unparse(a.test) == "self.delay >= 0"): raise Unsupported(f"{cls}.__init__: assertion")
        out.append(f"Definition {nm}_delay_src {{A}} (O : ops A) (nonneg : A -> bool) (delay : option A) (quant : A -> A) : option A :=\n"
                   f"  let v := match delay with Some delay => delay | None => quant {lvl} end in\n"
                   f"  if nonneg v then Some v else None.\n")


def gmm(g, out):
    e = E({"weights": "w", "np.sum": lambda a: "t"})
    out.append("Definition normalize_weights_src {A} (O : ops A) (ws : list A) : list A :=\n"
               f"  let t := osum O ws in map (fun w => {e.tr(ret_expr(find_func(g, None, 'normalize_weights'), 'normalize_weights'))}) ws.\n")
    b = body_wo_doc(find_func(g, "GMMEstimator", "_rescale"))
    if len(b) != 4: raise Unsupported("_rescale: statement count")
    want(b[0], "log_component_weights, log_concentration, component_mus, log_component_scales = params", "_rescale[0]")
    want(b[3], "return (log_component_weights, log_concentration, component_mus, log_component_scales)", "_rescale[3]")
    for s, tgt in ((b[1], "component_mus"), (b[2], "log_component_scales")):
        if not (isinstance(s, ast.Assign) and ast.unparse(s.targets[0]) == tgt): raise Unsupported("_rescale: " + ast.unparse(s))
    e = Expr({"component_mus": "m", "log_component_scales": "ls", "self._std": "sd", "self._mean": "mean",
              "np.log": lambda a: f"(ln {a})"}, "R")
    out.append(f"Definition rescale_mu_src (mean sd m : R) : R :=\n  {e.tr(b[1].value)}.\n")
    out.append(f"Definition rescale_ls_src (sd ls : R) : R :=\n  {e.tr(b[2].value)}.\n")
    init = body_wo_doc(find_func(g, "GMMEstimator", "__init__"))
    if "self.is_deterministic = True if self.data.std() < threshold else False" not in [ast.unparse(s) for s in init] or \
            "self._mean = np.mean(data)" not in [ast.unparse(s) for s in init] or "self._std = np.std(data)" not in [ast.unparse(s) for s in init]:
        raise Unsupported("GMMEstimator.__init__: is_deterministic / _mean / _std")
    out.append("Definition is_deterministic_src {A} (ltb : A -> A -> bool) (std threshold : A) : bool := ltb std threshold.\n")
    b = body_wo_doc(find_func(g, "GMMEstimator", "get_dist"))
    if len(b) != 13: raise Unsupported("get_dist: statement count")
    want(b[0], "if self.is_deterministic:\n    dist = distrax.Deterministic(loc=self.data.mean(dtype='float32'))\n"
               "    return base.StaticDist.create(dist)", "get_dist[0]")
    if not isinstance(b[1], ast.Assert): raise Unsupported("get_dist[1]")
    want(b[2], "log_w, _, m, log_s = self._rescale(self.adam_get_params(self.final_state_norm))", "get_dist[2]")
    want(b[3], "w = normalize_weights(np.exp(log_w))", "get_dist[3]")
    want(b[4], "indices = np.argsort(w)", "get_dist[4]")
    want(b[5], "w, s, m = (w[indices], np.exp(log_s)[indices], m[indices])", "get_dist[5]")
    want(b[6], "prune_cum, prune_idx = (0.0, 0)", "get_dist[6]")
    lp = b[7]
    if not (isinstance(lp, ast.For) and ast.unparse(lp.target) == "(i, val)" and ast.unparse(lp.iter) == "enumerate(w)"
            and not lp.orelse and len(lp.body) == 1 and isinstance(lp.body[0], ast.If)):
        raise Unsupported("get_dist: prune loop")
    br = lp.body[0]
    if [ast.unparse(s) for s in br.body] != ["prune_idx += 1", "prune_cum += val"] or [ast.unparse(s) for s in br.orelse] != ["break"]:
        raise Unsupported("get_dist: prune loop body")
    test = E({"prune_cum": "prune_cum", "val": "val", "percentile": "percentile"}).lt(br.test)
    out.append("Fixpoint prune_count_src {A} (O : ops A) (ltb : A -> A -> bool) (percentile prune_cum : A) (w : list A) : nat :=\n"
               "  match w with\n  | [] => 0%nat\n"
               f"  | val :: w => if {test} then S (prune_count_src O ltb percentile (oadd O prune_cum val) w) else 0%nat\n  end.\n")
    want(b[8], "w, s, m = (w[prune_idx:], s[prune_idx:], m[prune_idx:])", "get_dist[8]")
    want(b[9], "w = normalize_weights(w)", "get_dist[9]")
    want(b[10], "cdist = distrax.Normal(loc=m, scale=s)", "get_dist[10]")
    want(b[11], "dist = distrax.MixtureSameFamily(mixture_distribution=distrax.Categorical(probs=w), components_distribution=cdist)", "get_dist[11]")
    want(b[12], "return base.StaticDist.create(dist)", "get_dist[12]")


def translate(repo):
    out = [HEADER, "From Rex Require Import Dist.\n"]
    t = parse(f"{repo}/rex/base.py")
    static_dist(t, out); trainable(t, out)
    grid(parse(f"{repo}/rex/utils.py"), out)
    node_delay(parse(f"{repo}/rex/node.py"), out)
    gmm(parse(f"{repo}/rex/gmm_estimator.py"), out)
    return "\n".join(out)
