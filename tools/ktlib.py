"""Kernel translator: Python ast -> Coq, fail-closed.

library used by kernel_translate.py and the kt_<group>.py modules

Regenerates Gallina definitions of selected arithmetic / decision kernels of rex from the *current* source.  Every
construct outside the small grammar below raises Unsupported and the translation fails (a failed translation counts as
a broken tie in the check).  coq/Ties/<Group>Tie.v proves the generated definitions equal to the hand-written model.

Grammar: names and attribute chains listed in the kernel's environment, int/float literals (floats must be small
dyadic-or-decimal rationals), + - * /, unary minus, comparisons, and/or/not, conditional expressions, max/min/abs,
jnp.maximum/minimum/clip/where/exp/log/tanh/sqrt/round-free calls, straight-line assignments, if/else whose branches
assign the same names.
"""
import ast, sys
from fractions import Fraction


class Unsupported(Exception):
    pass


def parse(path):
    return ast.parse(open(path).read())


def find_class(tree, cls):
    for n in ast.walk(tree):
        if isinstance(n, ast.ClassDef) and n.name == cls:
            return n
    raise Unsupported(f"class {cls} not found")


def find_func(tree, cls, name):
    if cls is None:
        for n in tree.body:
            if isinstance(n, ast.FunctionDef) and n.name == name:
                return n
        raise Unsupported(f"function {name} not found")
    c = find_class(tree, cls)
    for f in c.body:
        if isinstance(f, ast.FunctionDef) and f.name == name:
            return f
    raise Unsupported(f"{cls}.{name} not found")


def lambdas_in(node):
    return [n for n in ast.walk(node) if isinstance(n, ast.Lambda)]


def body_wo_doc(f):
    b = f.body
    if b and isinstance(b[0], ast.Expr) and isinstance(b[0].value, ast.Constant) and isinstance(b[0].value.value, str):
        b = b[1:]
    return b


class Expr:
    """carrier: 'O' (generic ops record O : ops A), 'R', 'Z', 'Q'"""

    def __init__(self, env, carrier="O", benv=None, round6_identity=False, divmap=None):
        self.env = dict(env); self.carrier = carrier; self.benv = dict(benv or {}); self.round6_identity = round6_identity
        self.divmap = dict(divmap or {})   # `x / <rate expr>` is `x * <period>` in tick units (DESIGN 1.1)

    def lit(self, v):
        if isinstance(v, bool): raise Unsupported("bool literal in arithmetic")
        q = None
        if isinstance(v, int): q = Fraction(v)
        elif isinstance(v, float):
            q = Fraction(str(v))
            if q.denominator > 10 ** 9: raise Unsupported(f"literal {v!r}")
        else: raise Unsupported(f"literal {v!r}")
        c = self.carrier
        if q.denominator == 1:
            n = q.numerator
            return {"O": f"(oz O ({n}))", "R": f"({n})%R", "Z": f"({n})%Z", "Q": f"({n} # 1)%Q"}[c]
        if c == "O": return f"(odiv O (oz O ({q.numerator})) (oz O ({q.denominator})))"
        if c == "R": return f"({q.numerator} / {q.denominator})%R"
        if c == "Q": return f"({q.numerator} # {q.denominator})%Q"
        raise Unsupported(f"non-integer literal {v!r} over Z")

    def name(self, n):
        key = n.id if isinstance(n, ast.Name) else ast.unparse(n)
        if key not in self.env: raise Unsupported(f"unknown name {key}")
        return self.env[key]

    def bin(self, op, a, b):
        c = self.carrier
        if c == "O":
            f = {"+": "oadd", "-": "osub", "*": "omul", "/": "odiv", "max": "omax", "min": "omin"}[op]
            return f"({f} O {a} {b})"
        if op in ("max", "min"):
            f = {"R": {"max": "Rmax", "min": "Rmin"}, "Z": {"max": "Z.max", "min": "Z.min"}, "Q": {"max": "Qmax", "min": "Qmin"}}[c][op]
            return f"({f} {a} {b})"
        if c == "Z" and op == "/": raise Unsupported("division over Z")
        return f"({a} {op} {b})%{c}"

    def tr(self, n):
        if isinstance(n, ast.Constant): return self.lit(n.value)
        if isinstance(n, (ast.Name, ast.Attribute)): return self.name(n)
        if isinstance(n, ast.UnaryOp) and isinstance(n.op, ast.USub):
            a = self.tr(n.operand)
            return f"(oopp O {a})" if self.carrier == "O" else f"(- {a})%{self.carrier}"
        if isinstance(n, ast.BinOp) and isinstance(n.op, ast.Div) and ast.unparse(n.right) in self.divmap:
            return self.bin("*", self.tr(n.left), self.divmap[ast.unparse(n.right)])
        if isinstance(n, ast.BinOp):
            op = {ast.Add: "+", ast.Sub: "-", ast.Mult: "*", ast.Div: "/"}.get(type(n.op))
            if op is None: raise Unsupported("operator " + ast.dump(n.op))
            return self.bin(op, self.tr(n.left), self.tr(n.right))
        if isinstance(n, ast.IfExp):
            return f"(if {self.trb(n.test)} then {self.tr(n.body)} else {self.tr(n.orelse)})"
        if isinstance(n, ast.Call):
            fn = ast.unparse(n.func)
            if n.keywords: raise Unsupported(f"keyword arguments in call {fn}")
            if fn == "round" and self.round6_identity and len(n.args) == 2 and isinstance(n.args[1], ast.Constant) \
                    and n.args[1].value == 6:
                # round(x, 6) is the identity on the 1/64 s lattice (DESIGN 1.1); any other rounding is refused
                return self.tr(n.args[0])
            args = [self.tr(a) for a in n.args]
            if fn in ("max", "min", "jnp.maximum", "jnp.minimum", "onp.maximum", "onp.minimum") and len(args) >= 2:
                op = "max" if "max" in fn else "min"
                out = args[0]
                for a in args[1:]: out = self.bin(op, out, a)
                return out
            if fn in ("jnp.clip", "onp.clip") and len(args) == 3:
                return self.bin("min", self.bin("max", args[0], args[1]), args[2])
            if self.carrier == "R":
                one = {"jnp.exp": "exp", "jnp.log": "ln", "jnp.tanh": "tanh", "jnp.sqrt": "sqrt", "jnp.arctanh": "atanh"}
                if fn in one and len(args) == 1: return f"({one[fn]} {args[0]})"
            if fn in self.env and callable(self.env[fn]): return self.env[fn](*args)
            raise Unsupported(f"call {fn}")
        raise Unsupported(ast.dump(n)[:200])

    def trb(self, n):
        key = ast.unparse(n)
        if key in self.benv: return self.benv[key]
        if isinstance(n, ast.BoolOp):
            op = "&&" if isinstance(n.op, ast.And) else "||"
            return "(" + f" {op} ".join(self.trb(v) for v in n.values) + ")"
        if isinstance(n, ast.UnaryOp) and isinstance(n.op, ast.Not): return f"(negb {self.trb(n.operand)})"
        if isinstance(n, ast.Compare) and len(n.ops) == 1:
            a, b = self.tr(n.left), self.tr(n.comparators[0])
            c = self.carrier
            if c == "Z":
                f = {ast.Lt: "Z.ltb", ast.LtE: "Z.leb", ast.Gt: "Z.gtb", ast.GtE: "Z.geb", ast.Eq: "Z.eqb"}.get(type(n.ops[0]))
                if f: return f"({f} {a} {b})"
        raise Unsupported("boolean " + key)


def lam(l, name, carrier="O", rename=None):
    args = [a.arg for a in l.args.args]
    ren = {a: (rename or {}).get(a, a.strip("_") or "x") for a in args}
    e = Expr(ren, carrier)
    if carrier == "O":
        return f"Definition {name} {{A}} (O : ops A) {' '.join('(%s : A)' % ren[a] for a in args)} : A :=\n  {e.tr(l.body)}.\n"
    return f"Definition {name} {' '.join('(%s : %s)' % (ren[a], carrier) for a in args)} : {carrier} :=\n  {e.tr(l.body)}.\n"


HEADER = "(* generated by tools/kernel_translate.py from the current source of /repo; do not edit *)\n" \
         "From Coq Require Import Reals QArith Qminmax ZArith Bool List.\nFrom Rex Require Import Ops.\nImport ListNotations.\n\n"


