"""kernel group Interp: rex/base.py TrainableDist.sample and the linear branches of TrainableDist.apply_delay (C11).

Arithmetic / decision kernels (delay, delayed arrival, real-only mask, query shift, window arithmetic, the `>` of the
first-not-yet-arrived search) are translated expression by expression; the data flow between them (which array is sliced,
what is interpolated over what, dtype restoration) is checked statement by statement and re-emitted as the composite
`apply_linear_src`.  Any other shape raises Unsupported (fail closed)."""
import ast
from ktlib import *

GROUP = "Interp"


def expect(node, text, what):
    got = ast.unparse(node)
    if got != text: raise Unsupported(f"{what}: expected `{text}`, got `{got}`")


def assign(st, target, what):
    if not (isinstance(st, ast.Assign) and len(st.targets) == 1 and ast.unparse(st.targets[0]) == target):
        raise Unsupported(f"{what}: expected an assignment to {target}, got `{ast.unparse(st)[:80]}`")
    return st.value


def where_seq_neg(call, e, what):
    """jnp.where(input.seq < 0, A, B)  ->  (if (seq <? 0)%Z then A else B)"""
    if not (isinstance(call, ast.Call) and ast.unparse(call.func) == "jnp.where" and len(call.args) == 3 and not call.keywords):
        raise Unsupported(f"{what}: not a 3-argument jnp.where")
    expect(call.args[0], "input.seq < 0", what + " condition")
    return f"(if (seq <? 0)%Z then {e.tr(call.args[1])} else {e.tr(call.args[2])})"


def translate(repo):
    t = parse(f"{repo}/rex/base.py")
    out = [HEADER, "From Rex Require Import Interp.\n"]

    # ---- TrainableDist.sample: d = min + alpha * (max - min) (* ones(shape)) ----
    f = find_func(t, "TrainableDist", "sample"); b = body_wo_doc(f)
    if len(b) != 3: raise Unsupported("sample: body shape")
    expect(b[0], "if shape is None:\n    shape = ()", "sample: default shape")
    v = assign(b[1], "samples", "sample")
    expect(b[2], "return (self, samples)", "sample: return")

    class Ones(ast.NodeTransformer):
        def visit_Call(self, n):
            if ast.unparse(n) == "jnp.ones(shape)": return ast.copy_location(ast.Constant(1), n)
            return self.generic_visit(n)
    v = Ones().visit(v)
    e = Expr({"self.min": "mn", "self.max": "mx", "self.alpha": "alpha"})
    out.append(f"Definition delay_src {{A}} (O : ops A) (mn mx alpha : A) : A :=\n  {e.tr(v)}.\n")

    # ---- TrainableDist.apply_delay ----
    f = find_func(t, "TrainableDist", "apply_delay"); b = body_wo_doc(f)
    if [a.arg for a in f.args.args] != ["self", "rate_out", "input", "ts_start"]: raise Unsupported("apply_delay: signature")
    if len(b) != 10: raise Unsupported(f"apply_delay: {len(b)} top-level statements")
    expect(b[0], "window_delayed = self.window(rate_out)", "apply_delay[0]")
    expect(b[1], "if window_delayed == 0:\n    return input", "apply_delay[1]")
    expect(b[2], "cum_window = input.seq.shape[0]", "apply_delay[2]")
    ez = Expr({"cum_window": "cum_window", "window_delayed": "window_delayed", "idx_max": "idx_max", "window": "window"}, carrier="Z")
    out.append(f"Definition window_src (cum_window window_delayed : Z) : Z :=\n  {ez.tr(assign(b[3], 'window', 'apply_delay[3]'))}.\n")
    expect(b[4], "new_delay_dist, d = self.sample()", "apply_delay[4]")
    env = {"input.ts_sent": "sent", "input.ts_recv": "recv", "d": "d"}
    recv0 = Expr(env).tr(assign(b[5], "ts_recv", "apply_delay[5]"))
    recv1 = where_seq_neg(assign(b[6], "ts_recv", "apply_delay[6]"), Expr(dict(env, ts_recv=recv0)), "apply_delay[6]")
    out.append(f"Definition recv_src {{A}} (O : ops A) (seq : Z) (sent recv d : A) : A :=\n  {recv1}.\n")
    # idx_max = first index whose delayed arrival is after the step start, cum_window when there is none
    v = assign(b[7], "idx_max", "apply_delay[7]")
    if not (isinstance(v, ast.Subscript) and ast.unparse(v.slice) == "(0, 0)" and isinstance(v.value, ast.Call)): raise Unsupported("idx_max: shape")
    c = v.value
    if ast.unparse(c.func) != "jnp.argwhere" or len(c.args) != 1: raise Unsupported("idx_max: argwhere")
    if sorted((k.arg, ast.unparse(k.value)) for k in c.keywords) != [("fill_value", "cum_window"), ("size", "1")]:
        raise Unsupported("idx_max: argwhere keywords")
    cmp_ = c.args[0]
    if not (isinstance(cmp_, ast.Compare) and len(cmp_.ops) == 1 and ast.unparse(cmp_.left) == "ts_recv"
            and ast.unparse(cmp_.comparators[0]) == "ts_start"): raise Unsupported("idx_max: comparison operands")
    late = {ast.Gt: "Qltb ts_start ts_recv", ast.GtE: "Qle_bool ts_start ts_recv", ast.Lt: "Qltb ts_recv ts_start",
            ast.LtE: "Qle_bool ts_recv ts_start"}.get(type(cmp_.ops[0]))
    if late is None: raise Unsupported("idx_max: comparison operator")
    out.append(f"Definition late_src (ts_recv ts_start : Q) : bool := {late}.\n")
    # branches
    br = b[8]
    if not isinstance(br, ast.If): raise Unsupported("apply_delay[8]: not an if")
    expect(br.test, "self.interp == 'zoh'", "branch 1 test")
    if len(br.orelse) != 1 or not isinstance(br.orelse[0], ast.If): raise Unsupported("apply_delay[8]: elif")
    lin = br.orelse[0]
    expect(lin.test, "self.interp in ['linear', 'linear_real_only']", "branch 2 test")
    if len(lin.orelse) != 1 or not isinstance(lin.orelse[0], ast.Raise): raise Unsupported("apply_delay[8]: else must raise")
    expect(b[9], "return delayed_input_state", "apply_delay[9]")
    L = lin.body
    if len(L) != 8: raise Unsupported(f"linear branch: {len(L)} statements")
    out.append(f"Definition idx_min_src (idx_max window : Z) : Z :=\n  {ez.tr(assign(L[0], 'idx_min', 'linear[0]'))}.\n")
    m = L[1]
    if not (isinstance(m, ast.If) and len(m.body) == 1 and len(m.orelse) == 1): raise Unsupported("linear[1]: mask if/else")
    expect(m.test, "self.interp == 'linear_real_only'", "linear[1] test")
    em = Expr({"ts_recv": "ts_recv"})
    m_ro = where_seq_neg(assign(m.body[0], "ts_recv_mask", "linear[1] real_only"), em, "linear[1] real_only")
    m_lin = em.tr(assign(m.orelse[0], "ts_recv_mask", "linear[1] linear"))
    out.append(f"Definition mask_src {{A}} (O : ops A) (real_only : bool) (seq : Z) (ts_recv : A) : A :=\n"
               f"  if real_only then {m_ro} else {m_lin}.\n")
    expect(L[2], "tb = [input.seq, input.ts_sent, ts_recv, input.data]", "linear[2]")
    expect(L[3], "ts_recv_interp = jax.lax.dynamic_slice(ts_recv_mask, [idx_min], [window])", "linear[3]")
    q = assign(L[4], "ts_recv_interp", "linear[4]")
    class Last(ast.NodeTransformer):
        def visit_Subscript(self, n):
            if ast.unparse(n) == "ts_recv_interp[-1]": return ast.copy_location(ast.Name("ts_recv_interp_last", ast.Load()), n)
            raise Unsupported("linear[4]: subscript " + ast.unparse(n))
    q = Last().visit(q)
    eq = Expr({"ts_recv_interp": "r", "ts_start": "t", "ts_recv_interp_last": "lst"})
    out.append(f"Definition query_src {{A}} (O : ops A) (r t lst : A) : A :=\n  {eq.tr(q)}.\n")
    fn = L[5]
    if not (isinstance(fn, ast.FunctionDef) and fn.name == "interp_maybe_batched" and [a.arg for a in fn.args.args] == ["_fp"]):
        raise Unsupported("linear[5]: interp_maybe_batched")
    if len(fn.body) != 2: raise Unsupported("interp_maybe_batched: body")
    # pinned form, or the repaired forms: out_axes=1 (window axis first, so that the reshape is the identity on the window axis)
    # and, optionally, the final-knot repair `res = jnp.where(<query >= last knot>, _fp[-1], res)` in both branches
    def body_text(out_axes, knot_fix):
        oa = ", out_axes=1" if out_axes else ""
        kb = "\n    res = jnp.where((ts_recv_interp >= ts_recv_mask[-1]).reshape((window,) + (1,) * (_fp.ndim - 1)), _fp[-1], res)" if knot_fix else ""
        ks = "\n    res = jnp.where(ts_recv_interp >= ts_recv_mask[-1], _fp[-1], res)" if knot_fix else ""
        return ("if _fp.ndim > 1:\n    _fp_shape = _fp.shape\n    _fp_batch = _fp.reshape(_fp_shape[0], -1)\n"
                "    _f_shape = (window,) + _fp_shape[1:]\n"
                f"    res = jax.vmap(jnp.interp, in_axes=(None, None, 1){oa})(ts_recv_interp, ts_recv_mask, _fp_batch).reshape(_f_shape){kb}\n"
                f"else:\n    res = jnp.interp(ts_recv_interp, ts_recv_mask, _fp){ks}")
    got = ast.unparse(fn.body[0])
    forms = {body_text(oa, kf): (oa, kf) for oa in (False, True) for kf in (False, True)}
    if got not in forms: raise Unsupported(f"interp_maybe_batched[0]: unexpected body `{got}`")
    out_axes_fixed, knot_fixed = forms[got]
    out.append(f"(* layout of batched leaves: window axis first after vmap ({'repaired' if out_axes_fixed else 'pinned: (components, window) reshaped'}); "
               f"final-knot repair {'present' if knot_fixed else 'absent'} *)\n"
               f"Definition batched_window_axis_first_src : bool := {'true' if out_axes_fixed else 'false'}.\n"
               f"Definition final_knot_repair_src : bool := {'true' if knot_fixed else 'false'}.\n")
    expect(fn.body[1], "return res.astype(jax.dtypes.canonicalize_dtype(_fp.dtype))", "interp_maybe_batched[1]")
    expect(L[6], "interp_tb = jax.tree_util.tree_map(interp_maybe_batched, tb)", "linear[6]")
    expect(L[7], "delayed_input_state = InputState(*interp_tb, delay_dist=new_delay_dist)", "linear[7]")
    # ---- composite: the data flow checked above (the scalar kernels enter through the hand versions k_*, to which the
    # regenerated *_src are tied up to ring identities, so that commuting an addition in the source breaks nothing) ----
    out.append("""Fixpoint first_late_src (t : Q) (l : list Q) : nat :=
  match l with [] => 0%nat | r :: l => if late_src r t then 0%nat else S (first_late_src t l) end.

Definition apply_linear_src (real_only : bool) (d ts_start : Q) (window : nat) (input : list ent) (fp : list Q) : list Q :=
  let cum_window := length input in
  let ts_recv := map (fun e => k_recv Qops (e_seq e) (e_sent e) (e_recv e) d) input in
  let idx_max := first_late_src ts_start ts_recv in
  let idx_min := idx_min_src (Z.of_nat idx_max) (Z.of_nat window) in
  let ts_recv_mask := map (fun e => k_mask Qops real_only (e_seq e) (k_recv Qops (e_seq e) (e_sent e) (e_recv e) d)) input in
  (* jax.lax.dynamic_slice: a negative start is taken relative to the end, then clamped into [0, cum_window - window] *)
  let idx_min := if (idx_min <? 0)%Z then (idx_min + Z.of_nat cum_window)%Z else idx_min in
  let start := Z.to_nat (Z.max 0 (Z.min idx_min (Z.of_nat cum_window - Z.of_nat window))) in
  let ts_recv_interp := slice start window ts_recv_mask in
  let ts_recv_interp := map (fun r => k_query Qops r ts_start (last ts_recv_interp 0%Q)) ts_recv_interp in
  map (fun x => interp x (combine ts_recv_mask fp)) ts_recv_interp.
""")
    return "\n".join(out)
