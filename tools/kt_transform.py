"""kernel group Transform: rex/base.py Denormalize / Chain / Exponential / Identity / Extend / Shared (C17)"""
import ast
from ktlib import *

GROUP = "Transform"


def loop_shape(f, method):
    """`acc = params; for t in <iter>: acc = t.<method>(acc); return acc`  ->  'forward' | 'reverse'"""
    b = body_wo_doc(f)
    if len(b) != 3: raise Unsupported(f"{f.name}: expected init/loop/return")
    init, loop, ret = b
    if not (isinstance(init, ast.Assign) and isinstance(loop, ast.For) and isinstance(ret, ast.Return)): raise Unsupported(f.name)
    acc = ast.unparse(init.targets[0])
    if ast.unparse(init.value) != "params" or ast.unparse(ret.value) != acc: raise Unsupported(f"{f.name}: accumulator")
    tv = ast.unparse(loop.target)
    if len(loop.body) != 1 or loop.orelse: raise Unsupported(f"{f.name}: loop body")
    st = loop.body[0]
    if ast.unparse(st) != f"{acc} = {tv}.{method}({acc})": raise Unsupported(f"{f.name}: loop body is {ast.unparse(st)}")
    it = ast.unparse(loop.iter)
    if it == "self.transforms": return "forward"
    if it == "self.transforms[::-1]": return "reverse"
    raise Unsupported(f"{f.name}: iterates over {it}")


def translate(repo):
    t = parse(f"{repo}/rex/base.py")
    out = [HEADER, "From Rex Require Import Tree.\n"]
    init = find_func(t, "Denormalize", "init"); ls = lambdas_in(init)
    if len(ls) < 3: raise Unsupported("Denormalize.init: lambdas")
    out.append(lam(ls[0], "denorm_offset_src", rename={"_min": "mn", "_max": "mx"}))
    out.append(lam(ls[1], "denorm_scale_src", rename={"_min": "mn", "_max": "mx"}))
    zf = ls[2]
    if ast.unparse(zf.body) != "_scale == 0.0": raise Unsupported("Denormalize.init: zero filter")
    ren = {"_params": "p", "_offset": "o", "_scale": "s"}
    for nm in ("normalize", "denormalize"):
        f = find_func(t, "Denormalize", nm)
        l = lambdas_in(f)
        if len(l) != 1: raise Unsupported(nm)
        call = [n for n in ast.walk(f) if isinstance(n, ast.Call) and ast.unparse(n.func) == "jax.tree_util.tree_map"][0]
        if [ast.unparse(a) for a in call.args[1:]] != ["params", "self.offset", "self.scale"]: raise Unsupported(nm + ": tree_map operands")
        out.append(lam(l[0], nm + "_src", rename=ren))
    for nm, tgt in (("apply", "denormalize"), ("inv", "normalize")):
        f = find_func(t, "Denormalize", nm); b = body_wo_doc(f)
        if len(b) != 1 or ast.unparse(b[0]) != f"return self.{tgt}(params)": raise Unsupported(f"Denormalize.{nm}")
    # Chain
    d1 = loop_shape(find_func(t, "Chain", "apply"), "apply"); d2 = loop_shape(find_func(t, "Chain", "inv"), "inv")
    lst = {"forward": "ts", "reverse": "(rev ts)"}
    out.append(f"Definition chain_apply_src {{A}} (ts : list (transform A)) (t : tree A) : tree A :=\n"
               f"  fold_left (fun acc T => app T acc) {lst[d1]} t.\n")
    out.append(f"Definition chain_inv_src {{A}} (ts : list (transform A)) (t : tree A) : tree A :=\n"
               f"  fold_left (fun acc T => inv T acc) {lst[d2]} t.\n")
    # Exponential
    for nm in ("apply", "inv"):
        f = find_func(t, "Exponential", nm); l = lambdas_in(f)
        if len(l) != 1: raise Unsupported("Exponential." + nm)
        out.append(lam(l[0], f"exponential_{nm}_src", carrier="R"))
    # Identity
    for nm in ("apply", "inv"):
        b = body_wo_doc(find_func(t, "Identity", nm))
        if len(b) != 1 or ast.unparse(b[0]) != "return params": raise Unsupported("Identity." + nm)
    out.append("Definition identity_src {A} (t : tree A) : tree A := t.\n")
    # Extend.extend pick lambda and Extend.apply
    f = find_func(t, "Extend", "extend"); l = lambdas_in(f)
    if len(l) != 1 or ast.unparse(l[0]) != "lambda base_x, ex_x: base_x if ex_x is None else ex_x": raise Unsupported("Extend.extend pick")
    calls = [ast.unparse(n) for n in ast.walk(f) if isinstance(n, ast.Call)]
    if "rjax.tree_extend(self.base_params, params)" not in calls: raise Unsupported("Extend.extend: tree_extend operands")
    out.append("Definition extend_pick_src {A} (base_x : A) (ex_x : option A) : A :=\n  match ex_x with None => base_x | Some ex_x => ex_x end.\n")
    b = body_wo_doc(find_func(t, "Extend", "apply"))
    if len(b) != 1 or ast.unparse(b[0]) != "return self.extend(params)": raise Unsupported("Extend.apply")
    # Shared: apply replaces at `where` by replace_fn(params); inv by inverse_fn(params)
    for nm, fn in (("apply", "replace_fn"), ("inv", "inverse_fn")):
        b = body_wo_doc(find_func(t, "Shared", nm))
        if len(b) != 2 or ast.unparse(b[0]) != f"new = self.{fn}(params)" or \
                ast.unparse(b[1]) != "return eqx.tree_at(self.where, params, new, is_leaf=lambda x: x is None)":
            raise Unsupported("Shared." + nm)
    out.append("Definition shared_apply_src {A} (w fr : list Z) (t : tree A) : tree A :=\n"
               "  match get_at fr t with Some new => set_at w new t | None => t end.\n")
    out.append("Definition shared_inv_src {A} (w : list Z) (t : tree A) : tree A := set_at w (Leaf None) t.\n")
    return "\n".join(out)


