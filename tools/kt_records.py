"""kernel group Records (C14): rex/base.py Graph.stack/_stack padding, Graph.__getitem__, Graph.filter and EpisodeRecord.filter
connection lookup, EpisodeRecord.to_graph field selection, ExperimentRecord.stack/_padded_stack padding; rex/utils.py
to_networkx_graph skip / stateful-edge conditions.  Fail closed: any unexpected statement shape raises Unsupported."""
import ast
from ktlib import *

GROUP = "Records"


def U(n):
    s = ast.unparse(n)
    return s[1:-1] if isinstance(n, ast.Tuple) and s.startswith("(") else s


def expect(cond, msg):
    if not cond: raise Unsupported(msg)


def inner_func(f, name):
    for n in ast.walk(f):
        if isinstance(n, ast.FunctionDef) and n.name == name and n is not f: return n
    raise Unsupported(f"{f.name}: inner function {name} not found")


def pad_call(fn, where):
    """the single onp.pad(arr, <widths>, constant_values=<fill>) call of fn -> (before, after, fill) expressions"""
    calls = [n for n in ast.walk(fn) if isinstance(n, ast.Call) and U(n.func) == "onp.pad"]
    expect(len(calls) == 1, f"{where}: expected exactly one onp.pad call")
    c = calls[0]
    expect(len(c.args) == 2 and U(c.args[0]) == "arr", f"{where}: onp.pad operands")
    expect(len(c.keywords) == 1 and c.keywords[0].arg == "constant_values", f"{where}: onp.pad keywords")
    w = c.args[1]
    if isinstance(w, ast.BinOp) and isinstance(w.op, ast.Add):            # [(0, after)] + zero_pad_widths: axis 0 first
        expect(U(w.right) == "zero_pad_widths" and isinstance(w.left, ast.List) and len(w.left.elts) == 1, f"{where}: pad widths")
        w = w.left.elts[0]
    expect(isinstance(w, ast.Tuple) and len(w.elts) == 2, f"{where}: pad widths")
    gens = [n for n in ast.walk(fn) if isinstance(n, ast.GeneratorExp) and any(m is c for m in ast.walk(n))]
    expect(len(gens) == 1 and len(gens[0].generators) == 1 and U(gens[0].generators[0].target) == "arr"
           and not gens[0].generators[0].ifs, f"{where}: padding comprehension")
    return w.elts[0], w.elts[1], c.keywords[0].value, U(gens[0].generators[0].iter)


def maxlen_of(fn, it, where):
    a = [s for s in ast.walk(fn) if isinstance(s, ast.Assign) and U(s.targets[0]) == "_max_len"]
    expect(len(a) == 1 and U(a[0].value) == f"max((len(arr) for arr in {it}))", f"{where}: _max_len is {U(a[0].value) if a else None}")


def zexpr(n, names):
    env = {k: v for k, v in names.items()}
    env["len"] = lambda a: f"(Z.of_nat (length {a}))"
    return Expr(env, "Z").tr(n)


def conn_key(f, flag, where):
    """which name of a connection the filter looks up when `flag` is set: 'fst' (input name: key of node.inputs) or
    'snd' (c.output_node.name)"""
    loops = [n for n in f.body if isinstance(n, ast.For)]
    expect(loops and U(loops[0].target) == "n2, v2" and U(loops[0].iter) == "nodes.items()", f"{where}: outer loop")
    ifs = [n for n in loops[0].body if isinstance(n, ast.If) and U(n.test) == flag]
    expect(len(ifs) == 1, f"{where}: `if {flag}` not found")
    body = ifs[0].body
    expect(len(body) == 1 and isinstance(body[0], ast.For), f"{where}: connection loop")
    lp = body[0]
    it = U(lp.iter)
    if it == "v2.inputs.items()":
        expect(isinstance(lp.target, ast.Tuple) and len(lp.target.elts) == 2, f"{where}: loop target")
        kvar, cvar = U(lp.target.elts[0]), U(lp.target.elts[1])
    elif it == "v2.inputs.values()":
        kvar, cvar = None, U(lp.target)
    else:
        raise Unsupported(f"{where}: iterates over {it}")
    local = {}
    stmts = list(lp.body)
    while stmts and isinstance(stmts[0], ast.Assign) and len(stmts[0].targets) == 1 and isinstance(stmts[0].targets[0], ast.Name):
        local[stmts[0].targets[0].id] = U(stmts[0].value); stmts.pop(0)
    expect(len(stmts) == 1 and isinstance(stmts[0], ast.If) and not stmts[0].orelse, f"{where}: connection loop body")
    t = stmts[0].test
    expect(isinstance(t, ast.Compare) and len(t.ops) == 1 and isinstance(t.ops[0], ast.In) and U(t.comparators[0]) == "nodes", f"{where}: membership test")
    x = U(t.left)
    expect(len(stmts[0].body) == 1 and U(stmts[0].body[0]) == f"connections.add(({x}, n2))", f"{where}: connections.add")
    x = local.get(x, x)
    if kvar is not None and x == kvar and kvar not in local: key = "fst"
    elif x == f"{cvar}.output_node.name": key = "snd"
    else: raise Unsupported(f"{where}: connection looked up by {x}")
    return key, ifs[0]


def translate(repo):
    t = parse(f"{repo}/rex/base.py")
    out = [HEADER, "From Rex Require Import Convert.\nOpen Scope Z_scope.\n"]
    # ---- Graph.stack
    f = find_func(t, "Graph", "stack"); st = inner_func(f, "_stack")
    b, a, fill, it = pad_call(st, "Graph.stack._stack")
    maxlen_of(st, it, "Graph.stack._stack")
    expect(it == "_graphs" and [x.arg for x in st.args.args] == [] and st.args.vararg is not None and st.args.vararg.arg == "_graphs", "Graph.stack._stack: operands")
    expect(U(st.body[-1]) == "return onp.stack(_padded, axis=0)", "Graph.stack._stack: stacking axis")
    expect(any(U(s) == "graphs = jax.tree_util.tree_map(_stack, *graphs_raw)" for s in f.body) and U(f.body[-1]) == "return graphs", "Graph.stack: tree_map")
    names = {"_max_len": "m", "arr": "l"}
    out.append(f"Definition stack_pad_before_src (m : Z) (l : list Z) : Z := {zexpr(b, names)}.\n")
    out.append(f"Definition stack_pad_after_src (m : Z) (l : list Z) : Z := {zexpr(a, names)}.\n")
    out.append(f"Definition stack_fill_src : Z := {zexpr(fill, {})}.\n")
    # ---- ExperimentRecord.stack / _padded_stack
    f = find_func(t, "ExperimentRecord", "_padded_stack"); pd = inner_func(f, "_pad")
    b, a, fill, it = pad_call(pd, "ExperimentRecord._padded_stack._pad")
    maxlen_of(pd, it, "ExperimentRecord._padded_stack._pad")
    expect(it == "x" and U(fill) == "fill_value", "_padded_stack._pad: operands")
    tr = [n for n in pd.body if isinstance(n, ast.Try)]
    expect(len(tr) == 1 and U(tr[0].body[0]) == "res = onp.array(x)" and len(tr[0].handlers) == 1 and U(tr[0].handlers[0].type) == "ValueError",
           "_padded_stack._pad: try onp.array first")
    expect(any(U(s) == "stacked = jax.tree_util.tree_map(_pad, *self.episodes)" for s in f.body), "_padded_stack: tree_map")
    s = find_func(t, "ExperimentRecord", "stack")
    rets = [n for n in ast.walk(s) if isinstance(n, ast.Call) and U(n.func) == "self._padded_stack"]
    expect(len(rets) == 1 and len(rets[0].keywords) == 1 and rets[0].keywords[0].arg == "fill_value" and not rets[0].args, "ExperimentRecord.stack")
    out.append(f"Definition record_pad_before_src (m : Z) (l : list Z) : Z := {zexpr(b, names)}.\n")
    out.append(f"Definition record_pad_after_src (m : Z) (l : list Z) : Z := {zexpr(a, names)}.\n")
    out.append(f"Definition record_fill_src : Z := {zexpr(rets[0].keywords[0].value, {})}.\n")
    tg = find_func(t, "ExperimentRecord", "to_graph")
    expect([U(x) for x in body_wo_doc(tg)] == ["graphs_raw = [e.to_graph() for e in self.episodes]", "return Graph.stack(graphs_raw)"],
           "ExperimentRecord.to_graph")
    # ---- __getitem__
    g = find_func(t, "Graph", "__getitem__")
    expect(any(isinstance(n, ast.Return) and U(n.value) == "jax.tree_util.tree_map(lambda v: v[val], self)" for n in ast.walk(g)), "Graph.__getitem__")
    g = find_func(t, "EpisodeRecord", "__getitem__")
    expect(U(body_wo_doc(g)[-1]) == "return jax.tree_util.tree_map(lambda x: x[val], self)", "EpisodeRecord.__getitem__")
    out.append("Definition getitem_src {X} (val : nat) (d : X) (v : list X) : X := nth val v d.\n")
    # ---- __len__
    g = find_func(t, "Graph", "__len__"); bl = body_wo_doc(g)
    expect(len(bl) == 2 and U(bl[0]) == "shape = next(iter(self.vertices.values())).seq.shape" and isinstance(bl[1], ast.If)
           and U(bl[1].test) == "len(shape) > 1" and U(bl[1].body[0]) == "return shape[0]" and U(bl[1].orelse[0]) == "return 1", "Graph.__len__")
    out.append("Definition len_src (bg : graph (list arr)) : nat := match g_v bg with nv :: _ => length (f1 (snd nv)) | [] => 0%nat end.\n")
    # ---- filters: which name is looked up
    gf = find_func(t, "Graph", "filter")
    k1, if1 = conn_key(gf, "filter_edges", "Graph.filter")
    expect([U(x) for x in if1.orelse] == ["if n2 in self.vertices:\n    for n1, _ in filter(lambda x: x[1] == n2, self.edges):\n"
                                          "        if n1 in nodes:\n            connections.add((n1, n2))"], "Graph.filter: filter_edges=False branch")
    tail = [U(x) for x in body_wo_doc(gf) if not (isinstance(x, ast.For) and U(x.target) == "n2, v2")]
    expect(tail == ["connections = set()", "vertices = self.vertices.copy()", "edges = self.edges.copy()", "v_names = list(vertices.keys())",
                    "e_names = list(edges.keys())", "for k in v_names:\n    if k not in nodes:\n        vertices.pop(k)",
                    "for n1, n2 in e_names:\n    if (n1, n2) not in connections:\n        edges.pop((n1, n2))",
                    "return Graph(vertices=vertices, edges=edges)"], "Graph.filter: vertex / edge removal")
    rf = find_func(t, "EpisodeRecord", "filter")
    k2, if2 = conn_key(rf, "filter_connections", "EpisodeRecord.filter")
    expect([U(x) for x in if2.orelse] == ["if n2 in self.nodes:\n    for n1, v1 in self.nodes[n2].inputs.items():\n"
                                          "        if n1 in nodes:\n            connections.add((n1, n2))"], "EpisodeRecord.filter: filter_connections=False branch")
    tail = [U(x) for x in body_wo_doc(rf)[-3:]]
    expect(tail == ["new_nodes = {n: self.nodes[n] for n in nodes}",
                    "for n2, v2 in new_nodes.items():\n"
                    "    new_info_inputs = {n1: v2.info.inputs[n1] for n1 in v2.inputs if (n1, n2) in connections}\n"
                    "    new_info = v2.info.replace(inputs=new_info_inputs)\n"
                    "    new_inputs = {n1: v2.inputs[n1] for n1 in v2.inputs if (n1, n2) in connections}\n"
                    "    new_nodes[n2] = v2.replace(info=new_info, inputs=new_inputs)",
                    "return EpisodeRecord(nodes=new_nodes)"], "EpisodeRecord.filter: node / connection selection")
    out.append(f"Definition graph_filter_key_src (c : Z * Z) : Z := {k1} c.\n")
    out.append(f"Definition record_filter_key_src (c : Z * Z) : Z := {k2} c.\n")
    # ---- EpisodeRecord.to_graph: which leaves become the vertex / edge arrays, how edges are keyed
    f = find_func(t, "EpisodeRecord", "to_graph"); bd = body_wo_doc(f)
    expect(len(bd) == 4 and U(bd[1]) == "edges = dict()" and U(bd[3]) == "return Graph(vertices=vertices, edges=edges)", "EpisodeRecord.to_graph")
    dc = bd[0].value
    expect(isinstance(dc, ast.DictComp) and U(dc.key) == "n" and U(dc.generators[0].target) == "n, v" and U(dc.generators[0].iter) == "self.nodes.items()"
           and isinstance(dc.value, ast.Call) and U(dc.value.func) == "Vertex" and not dc.value.args, "EpisodeRecord.to_graph: vertices")
    sacc = {"seq": "s_seq", "ts_start": "s_start", "ts_end": "s_end", "eps": "s_eps", "delay": "s_delay"}
    kw = {k.arg: U(k.value) for k in dc.value.keywords}
    expect(sorted(kw) == ["seq", "ts_end", "ts_start"] and all(v.startswith("v.steps.") and v[8:] in sacc for v in kw.values()), "Vertex(...) fields")
    out.append("Definition to_graph_vertex_src {L} (s : steps L) : vertex L := T3 " +
               " ".join(f"({sacc[kw[k][8:]]} s)" for k in ("seq", "ts_start", "ts_end")) + ".\n")
    lp = bd[2]
    expect(isinstance(lp, ast.For) and U(lp.target) == "n2, v2" and U(lp.iter) == "self.nodes.items()", "EpisodeRecord.to_graph: node loop")
    inner = [x for x in lp.body if isinstance(x, ast.For)]
    expect(len(inner) == 1 and U(inner[0].target) == "n1, i" and U(inner[0].iter) == "v2.inputs.items()", "EpisodeRecord.to_graph: input loop")
    local = {}
    for s_ in inner[0].body[:-1]:
        expect(isinstance(s_, ast.Assign) and isinstance(s_.targets[0], ast.Name), "EpisodeRecord.to_graph: input loop body")
        local[s_.targets[0].id] = U(s_.value)
    last = inner[0].body[-1]
    expect(isinstance(last, ast.Assign) and isinstance(last.targets[0], ast.Subscript) and U(last.targets[0].value) == "edges"
           and isinstance(last.value, ast.Call) and U(last.value.func) == "Edge" and not last.value.args, "EpisodeRecord.to_graph: edges[...] = Edge(...)")
    key = last.targets[0].slice
    expect(isinstance(key, ast.Tuple) and len(key.elts) == 2 and all(U(e) in ("n1", "n2") for e in key.elts), "EpisodeRecord.to_graph: edge key")
    out.append(f"Definition to_graph_key_src (n1 n2 : Z) : Z * Z := ({U(key.elts[0])}, {U(key.elts[1])}).\n")
    macc = {"seq_out": "m_out", "seq_in": "m_in", "ts_sent": "m_sent", "ts_recv": "m_recv", "delay": "m_delay"}
    kw = {k.arg: local.get(U(k.value), U(k.value)) for k in last.value.keywords}
    expect(sorted(kw) == ["seq_in", "seq_out", "ts_recv"] and all(v.startswith("i.messages.") and v[11:] in macc for v in kw.values()), "Edge(...) fields")
    out.append("Definition to_graph_edge_src {L} (m : msgs L) : edge L := T3 " +
               " ".join(f"({macc[kw[k][11:]]} m)" for k in ("seq_out", "seq_in", "ts_recv")) + ".\n")
    # ---- rex/utils.py to_networkx_graph
    u = parse(f"{repo}/rex/utils.py")
    f = find_func(u, None, "to_networkx_graph")
    loops = [n for n in ast.walk(f) if isinstance(n, ast.For) and isinstance(n.iter, ast.Call) and U(n.iter.func) == "zip"]
    expect(len(loops) == 2, "to_networkx_graph: expected the vertex loop and the edge loop")
    vl = [l for l in loops if U(l.iter) == "zip(v.seq, v.ts_start, v.ts_end)"]
    el = [l for l in loops if U(l.iter) == "zip(e.seq_out, e.seq_in, e.ts_recv)"]
    expect(len(vl) == 1 and len(el) == 1 and U(vl[0].target) == "seq, ts_start, ts_end" and U(el[0].target) == "seq_out, seq_in, ts_recv",
           "to_networkx_graph: loop operands")
    vb = vl[0].body
    expect(isinstance(vb[0], ast.If) and U(vb[0].body[0]) == "continue" and not vb[0].orelse, "to_networkx_graph: vertex skip")
    ez = Expr({"seq": "seq", "seq_out": "seq_out", "seq_in": "seq_in"}, "Z")
    out.append(f"Definition nx_skip_vertex_src (seq : Z) : bool := {ez.trb(vb[0].test)}.\n")
    rest = [U(x) for x in vb[1:-1]]
    expect(rest == ["vname = f'{n}_{seq}'", "position = (ts_start, order[n])",
                    "G.add_node(vname, seq=seq, ts=ts_start, ts_start=ts_start, ts_end=ts_end, position=position, **static_data)"],
           "to_networkx_graph: add_node")
    sf = vb[-1]
    expect(isinstance(sf, ast.If) and not sf.orelse and [U(x) for x in sf.body] == ["uname = f'{n}_{seq - 1}'", "G.add_edge(uname, vname)"],
           "to_networkx_graph: stateful edge")
    out.append(f"Definition nx_stateful_src (seq : Z) : bool := {ez.trb(sf.test)}.\n")
    eb = el[0].body
    expect(isinstance(eb[0], ast.If) and U(eb[0].body[0]) == "continue" and not eb[0].orelse, "to_networkx_graph: edge skip")
    out.append(f"Definition nx_skip_edge_src (seq_out seq_in : Z) : bool := {ez.trb(eb[0].test)}.\n")
    rest = [U(x) for x in eb[1:] if not (isinstance(x, ast.If) and U(x.test) == "validate")]
    expect(rest == ["u = f'{n1}_{seq_out}'", "v = f'{n2}_{seq_in}'", "G.add_edge(u, v, ts_recv=ts_recv)"], "to_networkx_graph: add_edge")
    expect(U(el[0]) in [U(x) for x in ast.walk(f) if isinstance(x, ast.For) and U(x.target) == "(n1, n2), e" and U(x.iter) == "graph.edges.items()"
                         for x in x.body], "to_networkx_graph: edge dict loop")
    return "\n".join(out)
