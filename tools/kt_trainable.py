"""kernel group Trainable: TrainableDist alpha/delay kernels and the zero-order-hold slice of apply_delay (C10)"""
import ast
from ktlib import *

GROUP = "Trainable"


def translate(repo):
    t = parse(f"{repo}/rex/base.py")
    out = [HEADER]
    f = find_func(t, "TrainableDist", "_get_alpha"); b = body_wo_doc(f)
    if len(b) != 1 or not isinstance(b[0], ast.Return): raise Unsupported("_get_alpha")
    e = Expr({"delay": "delay", "min": "mn", "max": "mx"}, "O")
    out.append(f"Definition get_alpha_raw_src {{A}} (O : ops A) (delay mn mx : A) : A :=\n  {e.tr(b[0].value)}.\n")
    f = find_func(t, "TrainableDist", "get_alpha"); b = body_wo_doc(f)
    if len(b) != 1 or ast.unparse(b[0]) != "return jnp.clip(self._get_alpha(delay, self.min, self.max), 0.0, 1.0)": raise Unsupported("get_alpha: " + ast.unparse(b[0]))
    out.append("Definition get_alpha_src {A} (O : ops A) (delay mn mx : A) : A :=\n  omin O (omax O (get_alpha_raw_src O delay mn mx) (oz O 0)) (oz O 1).\n")
    e = Expr({"self.min": "mn", "self.max": "mx", "self.alpha": "alpha"}, "O")
    for fn in ("quantile", "mean"):
        b = body_wo_doc(find_func(t, "TrainableDist", fn))
        if len(b) != 1 or not isinstance(b[0], ast.Return): raise Unsupported(fn)
        out.append(f"Definition trainable_{fn}_src {{A}} (O : ops A) (alpha mn mx : A) : A :=\n  {e.tr(b[0].value)}.\n")
    f = find_func(t, "TrainableDist", "sample")
    asg = [s for s in body_wo_doc(f) if isinstance(s, ast.Assign) and ast.unparse(s.targets[0]) == "samples"]
    if len(asg) != 1 or ast.unparse(asg[0].value) != "self.min + self.alpha * (self.max - self.min) * jnp.ones(shape)": raise Unsupported("sample")
    out.append("Definition trainable_sample_src {A} (O : ops A) (alpha mn mx : A) : A :=\n  oadd O mn (omul O (omul O alpha (osub O mx mn)) (oz O 1)).\n")
    # apply_delay, zoh branch: shape check of the statements the model transliterates
    f = find_func(t, "TrainableDist", "apply_delay")
    src = {ast.unparse(s.targets[0]): ast.unparse(s.value) for s in ast.walk(f) if isinstance(s, ast.Assign) and len(s.targets) == 1}
    want = {"window": "cum_window - window_delayed", "cum_window": "input.seq.shape[0]", "window_delayed": "self.window(rate_out)",
            "idx_max": "jnp.argwhere(ts_recv > ts_start, size=1, fill_value=cum_window)[0, 0]", "idx_min": "idx_max - window"}
    for k, v in want.items():
        if src.get(k) != v: raise Unsupported(f"apply_delay: {k} = {src.get(k)}")
    recvs = [ast.unparse(s.value) for s in ast.walk(f) if isinstance(s, ast.Assign) and ast.unparse(s.targets[0]) == "ts_recv"]
    if recvs[:2] != ["input.ts_sent + d", "jnp.where(input.seq < 0, input.ts_recv, ts_recv)"]: raise Unsupported("apply_delay: ts_recv " + repr(recvs))
    if "jax.lax.dynamic_slice(_tb, [idx_min] + [0 * s for s in _size], [window] + _size)" not in ast.unparse(f): raise Unsupported("apply_delay: zoh slice")
    out.append("Open Scope Z_scope.\n(* redelayed arrival of one entry and the visibility test of the zero-order hold, in ticks *)\n"
               "Definition redelay_recv_src (seq sent recv d : Z) : Z := if Z.ltb seq 0 then recv else (sent + d).\n"
               "Definition in_flight_src (ts_recv ts_start : Z) : bool := Z.gtb ts_recv ts_start.\n"
               "Definition idx_min_src (idx_max window : Z) : Z := idx_max - window.\n")
    f = find_func(t, "TrainableDist", "window"); b = body_wo_doc(f)
    if len(b) != 1 or ast.unparse(b[0]) != "return int(onp.ceil(rate_out * (self.max - self.min)).astype(int))": raise Unsupported("window")
    return "\n".join(out)
