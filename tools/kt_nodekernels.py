"""kernel group NodeKernels: rex/node.py  Connection.__init__/set_delay/info/phase, BaseNode.__init__/set_delay/from_info/
connect_from_info/info/phase/phase_output/connect (C16)

Arithmetic kernels (phase) are emitted over Z ticks, the choice kernels (`x if x is not None else y`) over an opaque type
with the argument as an option, and the keyword-to-attribute wiring of info / from_info / connect_from_info as association
lists of strings.  Anything that does not have the expected statement shape raises Unsupported (fail closed)."""
import ast
from ktlib import *

GROUP = "NodeKernels"


def stmts(f):
    return body_wo_doc(f)


def assign_to(f, target):
    """the right-hand sides of all `target = ...` statements at the top level of f, in order"""
    out = [s.value for s in stmts(f) if isinstance(s, ast.Assign) and len(s.targets) == 1 and ast.unparse(s.targets[0]) == target]
    if not out: raise Unsupported(f"{f.name}: no assignment to {target}")
    return out


def choice(e, arg, env_some, env_none, what):
    """`A if <arg> is not None else B`  ->  (A', B') with A' over env_some (argument available), B' over env_none"""
    if not isinstance(e, ast.IfExp) or ast.unparse(e.test) != f"{arg} is not None": raise Unsupported(f"{what}: {ast.unparse(e)}")
    def pick(x, env):
        k = ast.unparse(x)
        if k not in env: raise Unsupported(f"{what}: unexpected operand {k}")
        return env[k]
    return pick(e.body, env_some), pick(e.orelse, env_none)


def opt_def(name, ty, params, a, b):
    return f"Definition {name} {params} (arg : option {ty}) : {ty} :=\n  match arg with Some arg => {a} | None => {b} end.\n"


WRAP = "self.delay_dist = base.StaticDist.create(self.delay_dist) if isinstance(self.delay_dist, distrax.Distribution) else self.delay_dist"
DEFAULT_DIST = "base.StaticDist.create(distrax.Normal(loc=0.0, scale=0.0))"
DEFAULT_DELAY = "float(self.delay_dist.quantile(0.99))"


def set_delay(t, cls, prefix, out):
    f = find_func(t, cls, "set_delay")
    if [a.arg for a in f.args.args] != ["self", "delay_dist", "delay"]: raise Unsupported(f"{cls}.set_delay: signature")
    rhs = assign_to(f, "self.delay_dist")
    if len(rhs) != 2 or "self.delay_dist = " + ast.unparse(rhs[1]) != WRAP: raise Unsupported(f"{cls}.set_delay: distribution wrapping")
    a, b = choice(rhs[0], "delay_dist", {"delay_dist": "arg", "self.delay_dist": "cur"}, {"self.delay_dist": "cur"}, f"{cls}.set_delay dist")
    out.append(opt_def(f"{prefix}_set_delay_dist_src", "D", "{D : Type} (cur : D)", a, b))
    rhs = assign_to(f, "self.delay")
    if len(rhs) != 1: raise Unsupported(f"{cls}.set_delay: delay assignments")
    a, b = choice(rhs[0], "delay", {"delay": "arg", "self.delay": "cur"}, {"self.delay": "cur"}, f"{cls}.set_delay delay")
    out.append(opt_def(f"{prefix}_set_delay_delay_src", "Z", "(cur : Z)", a, b))
    # nothing else may touch the object: the remaining statements are the assert / the TrainableDist rejection
    for s in stmts(f):
        if isinstance(s, ast.Assign): continue
        if isinstance(s, ast.Assert): continue
        if isinstance(s, ast.If) and ast.unparse(s.test) == "isinstance(self.delay_dist, base.TrainableDist)" and \
                len(s.body) == 1 and isinstance(s.body[0], ast.Raise) and not s.orelse: continue
        raise Unsupported(f"{cls}.set_delay: unexpected statement {ast.unparse(s)[:80]}")


def init(t, cls, prefix, out):
    f = find_func(t, cls, "__init__")
    rhs = assign_to(f, "self.delay_dist")
    if len(rhs) != 2 or "self.delay_dist = " + ast.unparse(rhs[1]) != WRAP: raise Unsupported(f"{cls}.__init__: distribution wrapping")
    a, b = choice(rhs[0], "delay_dist", {"delay_dist": "arg"}, {DEFAULT_DIST: "d0"}, f"{cls}.__init__ dist")
    out.append(opt_def(f"{prefix}_init_dist_src", "D", "{D : Type} (d0 : D)", a, b))
    rhs = assign_to(f, "self.delay")
    if len(rhs) != 1: raise Unsupported(f"{cls}.__init__: delay assignments")
    a, b = choice(rhs[0], "delay", {"delay": "arg"}, {DEFAULT_DELAY: "q"}, f"{cls}.__init__ delay")
    out.append(opt_def(f"{prefix}_init_delay_src", "Z", "(q : Z)", a, b))
    # the delay default is computed after the distribution is final
    order = [ast.unparse(s.targets[0]) for s in stmts(f) if isinstance(s, ast.Assign) and len(s.targets) == 1
             and ast.unparse(s.targets[0]) in ("self.delay_dist", "self.delay")]
    if order != ["self.delay_dist", "self.delay_dist", "self.delay"]: raise Unsupported(f"{cls}.__init__: assignment order {order}")


def single_return(f, what):
    b = stmts(f)
    if len(b) != 1 or not isinstance(b[0], ast.Return): raise Unsupported(f"{what}: expected a single return")
    return b[0].value


def kwmap(call, strip, what):
    """keyword -> source expression (with the prefix `strip` removed) of a constructor call, as a Coq association list"""
    if call.args and what not in ("connect",): raise Unsupported(f"{what}: positional arguments")
    items = []
    for k in call.keywords:
        if k.arg is None: continue      # **extra_kwargs
        v = ast.unparse(k.value)
        items.append((k.arg, strip(v)))
    return "[" + "; ".join(f'("{a}", "{b}")' for a, b in sorted(items)) + "]"


def translate(repo):
    t = parse(f"{repo}/rex/node.py")
    out = [HEADER, "From Coq Require Import String.\nOpen Scope string_scope.\n"]
    # ---- set_delay / __init__ choice kernels
    set_delay(t, "BaseNode", "node", out)
    set_delay(t, "Connection", "conn", out)
    init(t, "BaseNode", "node", out)
    init(t, "Connection", "conn", out)
    # ---- phase kernels over Z ticks
    e = Expr({"self.output_node.phase_output": "phase_out", "self.delay": "delay"}, "Z")
    out.append(f"Definition conn_phase_src (phase_out delay : Z) : Z :=\n  {e.tr(single_return(find_func(t, 'Connection', 'phase'), 'Connection.phase'))}.\n")
    e = Expr({"self.phase": "phase", "self.delay": "delay"}, "Z")
    out.append(f"Definition phase_output_src (phase delay : Z) : Z :=\n  {e.tr(single_return(find_func(t, 'BaseNode', 'phase_output'), 'BaseNode.phase_output'))}.\n")
    f = find_func(t, "BaseNode", "phase"); b = stmts(f)
    if len(b) != 1 or not isinstance(b[0], ast.Try): raise Unsupported("BaseNode.phase: expected try/except")
    tr = b[0]
    if len(tr.body) != 1 or not isinstance(tr.body[0], ast.Return) or tr.orelse or tr.finalbody: raise Unsupported("BaseNode.phase: try body")
    r = tr.body[0].value
    if not (isinstance(r, ast.Call) and ast.unparse(r.func) == "max" and len(r.args) == 1 and not r.keywords and
            isinstance(r.args[0], ast.BinOp) and isinstance(r.args[0].op, ast.Add) and isinstance(r.args[0].left, ast.List) and
            len(r.args[0].left.elts) == 1 and isinstance(r.args[0].right, ast.ListComp)):
        raise Unsupported("BaseNode.phase: expected max([c] + [... for ...])")
    lc = r.args[0].right
    if len(lc.generators) != 1: raise Unsupported("BaseNode.phase: generators")
    g = lc.generators[0]
    if ast.unparse(g.target) != "i" or ast.unparse(g.iter) != "self.inputs.values()" or [ast.unparse(x) for x in g.ifs] != ["not i.skip"] \
            or g.is_async:
        raise Unsupported("BaseNode.phase: comprehension " + ast.unparse(lc))
    ez = Expr({"i.phase": "p"}, "Z")
    out.append(f"Definition node_phase_elt_src (p : Z) : Z :=\n  {ez.tr(lc.elt)}.\n")
    out.append(f"Definition node_phase_base_src : Z :=\n  {Expr({}, 'Z').tr(r.args[0].left.elts[0])}.\n")
    out.append("(* max([base] + [elt(i.phase) for i in inputs if not i.skip]) over entries (skip, i.phase) *)\n"
               "Definition node_phase_src (l : list (bool * Z)) : Z :=\n"
               "  fold_right Z.max node_phase_base_src (map (fun sp => node_phase_elt_src (snd sp)) (filter (fun sp => negb (fst sp)) l)).\n")
    # the except clause turns the RecursionError into the algebraic-loop report and raises it again
    if len(tr.handlers) != 1 or ast.unparse(tr.handlers[0].type) != "RecursionError": raise Unsupported("BaseNode.phase: handler")
    h = tr.handlers[0]
    if not isinstance(h.body[-1], ast.Raise) or not ast.unparse(h.body[-1].exc).startswith("RecursionError("):
        raise Unsupported("BaseNode.phase: handler must re-raise RecursionError")
    consts = [c.value for c in ast.walk(h) if isinstance(c, ast.Constant) and isinstance(c.value, str)]
    if not any("Algebraic loop detected" in c for c in consts): raise Unsupported("BaseNode.phase: algebraic-loop message")
    for s in ast.walk(h):
        if isinstance(s, ast.Return): raise Unsupported("BaseNode.phase: handler returns a value")
    # ---- connect: the input name and the dict assignment
    f = find_func(t, "BaseNode", "connect")
    want = ["name = name if isinstance(name, str) else output_node.name",
            "connection = Connection(self, output_node, blocking, delay, delay_dist, window, skip, jitter, input_name=name)",
            "self.inputs[name] = connection", "output_node.outputs[self.name] = connection"]
    if [ast.unparse(s) for s in stmts(f)] != want: raise Unsupported("BaseNode.connect: body changed")
    f = find_func(t, "Connection", "__init__")
    if [a.arg for a in f.args.args] != ["self", "input_node", "output_node", "blocking", "delay", "delay_dist", "window", "skip", "jitter", "input_name"]:
        raise Unsupported("Connection.__init__: signature")
    if ast.unparse(assign_to(f, "self.input_name")[0]) != "input_name if isinstance(input_name, str) else output_node.name":
        raise Unsupported("Connection.__init__: input_name")
    for a in ("input_node", "output_node", "blocking", "window", "skip", "jitter"):
        if ast.unparse(assign_to(f, "self." + a)[0]) != a: raise Unsupported("Connection.__init__: self." + a)
    out.append("Definition connect_key_src (name : option Z) (sender : Z) : Z :=\n  match name with Some name => name | None => sender end.\n")
    # ---- connect_from_info
    f = find_func(t, "BaseNode", "connect_from_info"); b = stmts(f)
    if len(b) != 1 or not isinstance(b[0], ast.For) or ast.unparse(b[0].target) != "(input_name, info)" or \
            ast.unparse(b[0].iter) != "infos.items()" or b[0].orelse:
        raise Unsupported("connect_from_info: loop header")
    lb = b[0].body
    if len(lb) != 2 or ast.unparse(lb[0]) != "output_node = nodes[info.output]" or not isinstance(lb[1], ast.Expr) or \
            not isinstance(lb[1].value, ast.Call) or ast.unparse(lb[1].value.func) != "self.connect":
        raise Unsupported("connect_from_info: loop body")
    call = lb[1].value
    if [ast.unparse(a) for a in call.args] != ["output_node"]: raise Unsupported("connect_from_info: positional arguments")
    kws = {k.arg: ast.unparse(k.value) for k in call.keywords}
    if "name" not in kws or kws["name"] not in ("input_name", "info.name"): raise Unsupported(f"connect_from_info: name={kws.get('name')}")
    out.append(f"Definition cfi_name_src (key info_name : Z) : Z :=\n  {'key' if kws['name'] == 'input_name' else 'info_name'}.\n")
    items = [(k, v[5:] if v.startswith("info.") else "?" + v) for k, v in kws.items() if k != "name"]
    out.append("Definition cfi_fields_src : list (string * string) :=\n  [" + "; ".join(f'("{a}", "{b}")' for a, b in sorted(items)) + "].\n")
    # ---- Connection.info, BaseNode.info, from_info: keyword wiring
    r = single_return(find_func(t, "Connection", "info"), "Connection.info")
    if not isinstance(r, ast.Call) or ast.unparse(r.func) != "base.InputInfo": raise Unsupported("Connection.info")
    out.append("Definition inputinfo_fields_src : list (string * string) :=\n  " +
               kwmap(r, lambda v: v[5:] if v.startswith("self.") else "?" + v, "Connection.info") + ".\n")
    r = single_return(find_func(t, "BaseNode", "info"), "BaseNode.info")
    if not isinstance(r, ast.Call) or ast.unparse(r.func) != "base.NodeInfo": raise Unsupported("BaseNode.info")
    def strip_ni(v):
        if v == "{c.output_node.name: c.info for i, c in self.inputs.items()}": return "{sender name: connection info}"
        if v == "self.__class__.__module__ + '/' + self.__class__.__qualname__": return "class"
        if v == "self.color if self.color is not None else 'gray'": return "color or gray"
        return v[5:] if v.startswith("self.") else "?" + v
    out.append("Definition nodeinfo_fields_src : list (string * string) :=\n  " + kwmap(r, strip_ni, "BaseNode.info") + ".\n")
    f = find_func(t, "BaseNode", "from_info")
    r = [s for s in stmts(f) if isinstance(s, ast.Return)]
    if len(r) != 1 or not isinstance(r[0].value, ast.Call) or ast.unparse(r[0].value.func) != "cls": raise Unsupported("from_info")
    def strip_fi(v):
        import re
        m = re.fullmatch(r"kwargs\.get\('(\w+)', info\.(\w+)\)", v)
        return f"{m.group(2)} or kwargs[{m.group(1)}]" if m else "?" + v
    out.append("Definition from_info_fields_src : list (string * string) :=\n  " + kwmap(r[0].value, strip_fi, "from_info") + ".\n")
    return "\n".join(out)
