#!/bin/bash
# runs every registered check (quick by default) and prints one summary line per property
cd "$(dirname "$0")/.."
TIER=${1:-quick}
for p in $(python3 -c "import json;print(' '.join(c['property_id'] for c in json.load(open('MANIFEST.json'))['checks']))"); do
  s=$(date +%s); out=$(./check $p --tier $TIER 2>&1 | grep "VIOL\|^OK\|KNOWN" | cut -c1-160 | tr '\n' '|'); e=$(date +%s)
  echo "$p $((e-s))s $out"
done
