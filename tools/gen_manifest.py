#!/usr/bin/env python3
"""writes /verif/MANIFEST.json from the table below (kept here so the manifest stays consistent)"""
import json, os
V = os.path.dirname(os.path.dirname(os.path.abspath(__file__)))
props = [json.loads(l) for l in open(os.path.join(V, "properties.jsonl"))]
CHECKS = {
 "C17": dict(design="6/C17", technique="Coq proof (TreeLaws.v: inv_apply for all transforms incl. nested chains, extend_spec, chain order) + kernel translator tie + model-vs-implementation correspondence evaluated inside Coq",
   text="Theorems over all pytrees / chains in Coq (R for the arithmetic laws); the model is tied to rex/base.py by regenerating the Denormalize/Chain/Exponential/Extend/Shared kernels from source on every run (tie lemmas) and by running the Q instance of the same definitions against the implementation on generated trees and chains.",
   note="Trusted: Coq kernel, real-number axioms (sig_forall_dec, sig_not_dec, functional_extensionality_dep, classic via Reals), translator, harness; float rounding judged exactly on dyadic cases and within 8e-5 otherwise; Exponential judged by Coq-Interval certified enclosures. Extend.inv is not claimed by the property."),
 "C02": dict(design="6/C02", technique="Coq proof (Kahn-net confluence: diamond, sim_episode_deterministic) + translator tie of the scheduling kernels + differential runs of the real threaded runtime under perturbed schedules against the extracted model",
   text="Determinism is a theorem about the actor-net model of rex/asynchronous.py for every schedule (any finite list of actor firings); the model is tied to the code by regenerated arithmetic/selection kernels and by exact trace equality on generated lattice graphs executed K times under different drivings, real-time factors and hook-perturbed thread schedules.",
   note="Handlers are atomic in the model (single-reader/single-writer deques); interleavings inside a handler, wall-clock mode and float rounding off the 1/64 s lattice are outside the theorem. Trusted: Coq kernel, extraction (ExtrOcamlBasic) + OCaml driver, harness, hooks."),
 "C03": dict(design="6/C03", technique="Coq proof (per-actor history laws lifted by the Kahn principle: msgs_law, recv laws, consumption clause, blocking count, window_is_lastn) + translator tie + model/implementation trace equality + direct clause checker on implementation traces",
   text="Loss-freeness, causality, the consumption rule and the window rule are theorems over all reachable states of the actor net; implementation records of generated graphs must equal the model's and are also judged clause by clause.",
   note="Blocking count closed form proved for non-skip N>0 (skip / N=0 variants covered by correspondence only); wall-clock episodes are judged by the clause checker only. Same trusted base as C02."),
 "C04": dict(design="6/C04", technique="Coq proof (start_is_max, start_recurrence, frequency_drift, phase_no_drift, never_early, arrival law on the actor net) + translator tie of push_scheduled_ts/push_phase_shift/push_ts_input + reference recurrence evaluated on implementation records",
   text="The start/end/arrival law is proved for every reachable state of the model; the arithmetic kernels are regenerated from source and re-proved equal to the model each run; implementation records must equal the model's and satisfy an independently written reference recurrence.",
   note="Times on the 1/64 s lattice (round(.,6) is the identity there); off-lattice float rounding is not covered. Same trusted base as C02."),
 "C05": dict(design="6/C05", technique="Coq proof of the stop() handshake protocol (invariant + decreasing measure: stop_returns; pinned-protocol deadlock/IndexError witnesses) + translator tie of the shared-variable access order + gate-forced interleavings on the real threads + multi-episode histories against the single-episode model",
   text="stop() termination for every interleaving and queue length is a theorem about the protocol the translator reads off AsyncGraph.stop/_Synchronizer._async_step; the model's critical interleaving is forced on the real code through the REX_VERIF gate points; episode isolation is checked against the model on random call histories.",
   note="run/step/reset return under the dataflow-liveness hypothesis (supported class: supervisor's next step needs <= 10 look-ahead ticks); node startup/stop user code and timeouts not modelled. Trusted: Coq kernel, hooks, watchdog harness."),
 "C06": dict(design="6/C06", technique="Coq proof (async_once: ghost log of step applications = recorded ticks; compiled_once via the symbolic runner) + host-side invocation log of probe nodes compared with records under run/step/override/jit driving",
   text="Exactly-once execution is a theorem of both runtime models; on the code it is observed through the probe nodes' host-side invocation log for every node and tick.",
   note="vmapped execution excluded by the property; trusted: probe nodes, io_callback ordering."),
 "C13": dict(design="6/C13", technique="Coq proof (rows_law, record_state_chain, async_once on the actor net) + relational runs under all record-setting combinations compared with the probe nodes' host log",
   text="Faithfulness of rows and the state chain are theorems of the model; that recording has no feedback into the execution is decided by running each case under every record-setting combination and comparing the host-side execution log.",
   note="purity holds by construction in the functional model, so for that clause only the relational runs carry weight (DESIGN 9)."),
}
NOT_YET = "check not built yet in this session (design in DESIGN.md section 6); not claimed until its check exists"
man = dict(version=1,
  setup_cmd="./check setup",
  hooks=dict(guard="REX_VERIF", enable="environment variable REX_VERIF=1 (read at import of rex.asynchronous); the harness installs rex.asynchronous._verif_hook",
             baseline_off_cmd="cd /repo && env -u REX_VERIF /venv/bin/python -m pytest -ra -q -p no:cacheprovider --timeout=900 --continue-on-collection-errors",
             source_commits=["c947202"], add_only=True),
  engines=[dict(name="coq-models", path="coq/", serves_properties=sorted(CHECKS), kind_free_text="Gallina models + theorems (Coq 8.16.1), Props/Cxx.v hold the property statements"),
           dict(name="harness", path="harness/", serves_properties=sorted(CHECKS), kind_free_text="Python correspondence harness: generated cases run on /repo's working tree and on the model (vm_compute inside Coq or the extracted OCaml runner)"),
           dict(name="kernel-translator", path="tools/kernel_translate.py", serves_properties=sorted(CHECKS), kind_free_text="fail-closed Python-ast -> Coq translator, ties re-proved every run")],
  checks=[], not_applicable=[],
  notes="All checks: ./check Cxx --tier quick|thorough (VERIF_SEED / VERIF_TIER honoured). known_findings.json lists recorded defects.")
for p in props:
    pid = p["id"]
    if pid in CHECKS:
        c = CHECKS[pid]
        man["checks"].append(dict(property_id=pid, quick_cmd=f"./check {pid} --tier quick", thorough_cmd=f"./check {pid} --tier thorough",
            evidence_file=f"/verif/evidence/{pid}.json", replay_cmd_template=f"./check {pid} --replay {{path}}", engine="coq-models",
            level_claimed=dict(category="proof", text=c["text"], design_ref=c["design"]), level_note=c["note"], technique=c["technique"]))
    else:
        man["not_applicable"].append(dict(property_id=pid, reason=NOT_YET))
json.dump(man, open(os.path.join(V, "MANIFEST.json"), "w"), indent=1)
print("checks:", [c["property_id"] for c in man["checks"]])
