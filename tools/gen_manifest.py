#!/usr/bin/env python3
"""writes /verif/MANIFEST.json from the table below (kept here so the manifest stays consistent)"""
import json, os
V = os.path.dirname(os.path.dirname(os.path.abspath(__file__)))
props = [json.loads(l) for l in open(os.path.join(V, "properties.jsonl"))]
CHECKS = {
 "C17": dict(design="6/C17", technique="Coq proof (TreeLaws.v: inv_apply for all transforms incl. nested chains, extend_spec, chain order) + kernel translator tie + model-vs-implementation correspondence evaluated inside Coq",
   text="Theorems over all pytrees / chains in Coq (R for the arithmetic laws); the model is tied to rex/base.py by regenerating the Denormalize/Chain/Exponential/Extend/Shared kernels from source on every run (tie lemmas) and by running the Q instance of the same definitions against the implementation on generated trees and chains.",
   note="Trusted: Coq kernel, real-number axioms (sig_forall_dec, sig_not_dec, functional_extensionality_dep, classic via Reals), translator, harness; float rounding judged exactly on dyadic cases and within 8e-5 otherwise; Exponential judged by Coq-Interval certified enclosures. Extend.inv is not claimed by the property."),
}
NOT_YET = "check not built yet in this session (design in DESIGN.md section 6); not claimed until its check exists"
man = dict(version=1,
  setup_cmd="./check setup",
  hooks=dict(guard="REX_VERIF", enable="environment variable REX_VERIF=1 (read at import of rex.asynchronous); the harness installs rex.asynchronous._verif_hook",
             baseline_off_cmd="cd /repo && env -u REX_VERIF /venv/bin/python -m pytest -ra -q -p no:cacheprovider --timeout=900 --continue-on-collection-errors",
             source_commits=["c947202"], add_only=True),
  engines=[dict(name="coq-models", path="coq/", serves_properties=sorted(CHECKS), kind_free_text="Gallina models + theorems (Coq 8.16.1), Props/Cxx.v hold the property statements"),
           dict(name="harness", path="harness/", serves_properties=sorted(CHECKS), kind_free_text="Python correspondence harness: generated cases run on /repo's working tree and on the model (vm_compute inside Coq or the extracted OCaml runner)"),
           dict(name="kernel-translator", path="tools/kernel_translate.py", serves_properties=sorted(CHECKS), kind_free_text="fail-closed Python-ast -> Coq translator, ties re-proved every run")],
  checks=[], not_applicable=[],
  notes="All checks: ./check Cxx --tier quick|thorough (VERIF_SEED / VERIF_TIER honoured). known_findings.json lists recorded defects.")
for p in props:
    pid = p["id"]
    if pid in CHECKS:
        c = CHECKS[pid]
        man["checks"].append(dict(property_id=pid, quick_cmd=f"./check {pid} --tier quick", thorough_cmd=f"./check {pid} --tier thorough",
            evidence_file=f"/verif/evidence/{pid}.json", replay_cmd_template=f"./check {pid} --replay {{path}}", engine="coq-models",
            level_claimed=dict(category="proof", text=c["text"], design_ref=c["design"]), level_note=c["note"], technique=c["technique"]))
    else:
        man["not_applicable"].append(dict(property_id=pid, reason=NOT_YET))
json.dump(man, open(os.path.join(V, "MANIFEST.json"), "w"), indent=1)
print("checks:", [c["property_id"] for c in man["checks"]])
