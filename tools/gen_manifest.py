#!/usr/bin/env python3
"""writes /verif/MANIFEST.json from the table below (kept here so the manifest stays consistent)"""
import json, os
V = os.path.dirname(os.path.dirname(os.path.abspath(__file__)))
props = [json.loads(l) for l in open(os.path.join(V, "properties.jsonl"))]
CHECKS = {
 "C17": dict(design="6/C17", technique="Coq proof (TreeLaws.v: inv_apply for all transforms incl. nested chains, extend_spec, chain order) + kernel translator tie + model-vs-implementation correspondence evaluated inside Coq",
   text="Theorems over all pytrees / chains in Coq (R for the arithmetic laws); the model is tied to rex/base.py by regenerating the Denormalize/Chain/Exponential/Extend/Shared kernels from source on every run (tie lemmas) and by running the Q instance of the same definitions against the implementation on generated trees and chains.",
   note="Trusted: Coq kernel, real-number axioms (sig_forall_dec, sig_not_dec, functional_extensionality_dep, classic via Reals), translator, harness; float rounding judged exactly on dyadic cases and within 8e-5 otherwise; Exponential judged by Coq-Interval certified enclosures. Extend.inv is not claimed by the property."),
 "C02": dict(design="6/C02", technique="Coq proof (Kahn-net confluence: diamond, sim_episode_deterministic) + translator tie of the scheduling kernels + differential runs of the real threaded runtime under perturbed schedules against the extracted model",
   text="Determinism is a theorem about the actor-net model of rex/asynchronous.py for every schedule (any finite list of actor firings); the model is tied to the code by regenerated arithmetic/selection kernels and by exact trace equality on generated lattice graphs executed K times under different drivings, real-time factors and hook-perturbed thread schedules.",
   note="Handlers are atomic in the model (single-reader/single-writer deques); interleavings inside a handler, wall-clock mode and float rounding off the 1/64 s lattice are outside the theorem. Trusted: Coq kernel, extraction (ExtrOcamlBasic) + OCaml driver, harness, hooks."),
 "C03": dict(design="6/C03", technique="Coq proof (per-actor history laws lifted by the Kahn principle: msgs_law, recv laws, consumption clause, blocking count, window_is_lastn) + translator tie + model/implementation trace equality + direct clause checker on implementation traces",
   text="Loss-freeness, causality, the consumption rule and the window rule are theorems over all reachable states of the actor net; implementation records of generated graphs must equal the model's and are also judged clause by clause.",
   note="Blocking count closed form proved for non-skip N>0 (skip / N=0 variants covered by correspondence only); wall-clock episodes are judged by the clause checker only. Same trusted base as C02."),
 "C04": dict(design="6/C04", technique="Coq proof (start_is_max, start_recurrence, frequency_drift, phase_no_drift, never_early, arrival law on the actor net) + translator tie of push_scheduled_ts/push_phase_shift/push_ts_input + reference recurrence evaluated on implementation records",
   text="The start/end/arrival law is proved for every reachable state of the model; the arithmetic kernels are regenerated from source and re-proved equal to the model each run; implementation records must equal the model's and satisfy an independently written reference recurrence.",
   note="Times on the 1/64 s lattice (round(.,6) is the identity there); off-lattice float rounding is not covered. Same trusted base as C02."),
 "C05": dict(design="6/C05", technique="Coq proof of the stop() handshake protocol (invariant + decreasing measure: stop_returns; pinned-protocol deadlock/IndexError witnesses) + translator tie of the shared-variable access order + gate-forced interleavings on the real threads + multi-episode histories against the single-episode model",
   text="stop() termination for every interleaving and queue length is a theorem about the protocol the translator reads off AsyncGraph.stop/_Synchronizer._async_step; the model's critical interleaving is forced on the real code through the REX_VERIF gate points; episode isolation is checked against the model on random call histories.",
   note="run/step/reset return under the dataflow-liveness hypothesis (supported class: supervisor's next step needs <= 10 look-ahead ticks); node startup/stop user code and timeouts not modelled. Trusted: Coq kernel, hooks, watchdog harness."),
 "C06": dict(design="6/C06", technique="Coq proof (async_once: ghost log of step applications = recorded ticks; compiled_once via the symbolic runner) + host-side invocation log of probe nodes compared with records under run/step/override/jit driving",
   text="Exactly-once execution is a theorem of both runtime models; on the code it is observed through the probe nodes' host-side invocation log for every node and tick.",
   note="vmapped execution excluded by the property; trusted: probe nodes, io_callback ordering."),
 "C13": dict(design="6/C13", technique="Coq proof (rows_law, record_state_chain, async_once on the actor net) + relational runs under all record-setting combinations compared with the probe nodes' host log",
   text="Faithfulness of rows and the state chain are theorems of the model; that recording has no feedback into the execution is decided by running each case under every record-setting combination and comparing the host-side execution log.",
   note="purity holds by construction in the functional model, so for that clause only the relational runs carry weight (DESIGN 9)."),
 "C01": dict(design="6/C01", technique="Coq proof (dataflow_unique, runner_dataflow via the certified symbolic checker, apply_window_spec, async row/window laws) + replay of recorded threaded episodes through the compiled runtime compared row by row, for every supergraph mode x prune",
   text="Both runtimes are proved to satisfy the same dataflow equations (whose solutions are unique); on the code every executed compiled row of a recorded multi-episode experiment is compared with the recorded asynchronous row (seq, ts, rng, state, windows with payloads, output) and with the extracted model.",
   note="The closed end-to-end statement is not assembled in Coq (C01 is _partial: the four component theorems are proved, their composition is checked per instance by check_schedule/check_sym and the replay). Lattice times only. Trusted: Coq kernel, extraction, harness, supergraph package (validated per instance)."),
 "C07": dict(design="6/C07", technique="Coq proof (apply_window_spec) + extracted boolean schedule validator check_schedule run on rex's Timings of every instance + direct clause checker (coverage, order, once) + model/implementation row equality",
   text="apply_window is specified for every graph; the schedule found by the external supergraph search is validated per instance (translation-validation style) by the extracted checker and a direct clause checker written from the property text.",
   note="That the external search always finds a valid schedule is not a theorem (validated per instance). check_schedule's soundness w.r.t. a Prop-level ValidSchedule is by unfolding of forallb (not stated separately yet)."),
 "C08": dict(design="6/C08", technique="Coq proof (runner_dataflow: a passed symbolic check implies every read returned the scheduled producer's payload, for any step function; naturality; ring arithmetic lemmas) + extracted check_sym on rex's Timings with the ring sizes rex allocated + buffer_need = get_buffer_sizes + row equality with payload-identifying probes",
   text="Generic-payload runner proved natural and coherent; the certified symbolic checker is run on every instance with the actual ring sizes (computed, user-supplied, padded); model buffer sizes must equal rex's; recorded windows must carry exactly the producers' payloads.",
   note="buffer_sufficient (sizes >= get_buffer_sizes always pass check_sym) is not proved in general (arithmetic core only); decided per instance. Starting steps > 0: restricted to entries whose producer ran in this execution, as the property text."),
 "C09": dict(design="6/C09", technique="Coq proof (run_n_eq_reset_steps, rollout laws, step_override_eq, clip_spec over an abstract graph state) + translator tie of the API compositions and clipping + all API paths (eager, jit, vmap, override, out-of-range indices) compared on final graph states",
   text="API equivalences are theorems over the abstract composition that the translator reads off rex/graph.py; jit/vmap equivalence is decided by comparing every path's final GraphState.",
   note="jit / vmap / XLA have no Gallina counterpart (DESIGN 9)."),
 "C12": dict(design="6/C12", technique="Coq proof (vertex law, no overlap / spacing, horizon masking, recv law, assigned step fits, first-step under the no-overtaking hypothesis + refutation witness, augment laws, acyclicity) + translator tie of rex/artificial.py kernels + model/implementation equality on generated and augmented graphs",
   text="All clauses are theorems over the Z-tick model of generate_graphs/augment_graphs; the first-step clause needs the no-overtaking hypothesis (refuted without it: known finding F6); kernels regenerated and tied each run; graphs compared exactly on lattice delays.",
   note="F6 (overtaking communication delays) is a recorded known finding. Off-lattice runs judged by float-tolerant recurrence checks."),
 "C14": dict(design="6/C14", technique="Coq proof (to_graph naturality, stack/get/pad laws, padding invisible to to_networkx_graph, filter specs incl. pinned refutations) + translator tie (pad widths, indexing, filter lookup key, networkx skip conditions) + exact model/implementation comparison on random ragged records",
   text="Conversion, stacking, padding, indexing, filtering and networkx conversion are specified and proved over polymorphic leaf types; every API is compared exactly on generated ragged multi-episode records with shadow-named connections.",
   note="networkx upsert semantics trusted; records built from rex dataclasses directly."),
 "C10": dict(design="6/C10", technique="Coq proof (zoh_eq_static under ordered arrivals and at most ext in-flight messages, exact window size, alpha_saturates; refutation witnesses for skip ties and too-small extensions) + translator tie of the TrainableDist kernels + apply_delay vs the Gallina zoh evaluated in Coq + end-to-end compiled runs (trainable at d vs edge regenerated at Deterministic(d))",
   text="The zero-order hold on the extended window is proved equal to the static-delay window under two explicit hypotheses; both are refuted on the code as it is outside them (known findings F5, F7); the code is tied by regenerated kernels, exact unit-level comparison and end-to-end runs.",
   note="Known findings: trainable-skip-tie (F5), window-extension-too-small (F7). Lattice delays."),
 "C15": dict(design="6/C15", technique="Coq proof (sample_nonneg, key chain, replay, exact quantiles for deterministic/normal over an abstract strictly increasing Phi/Phinv pair, grid quantile bracket + monotonicity, default delay, GMM proper-mixture laws) + translator tie (sample/reset/quantile, grid bounds, index pick, TrainableDist, node defaults, GMM rescale/prune) + exact grid-quantile correspondence evaluated in Coq + implementation runs",
   text="All clauses are theorems over the model with PRNG and the standard normal pair as Section variables; kernels regenerated and tied each run; the grid quantile routine is compared exactly on integer CDF ranks; sampling purity/replay and float accuracy are decided by implementation runs.",
   note="PRNG (jax.random), distrax CDFs, the Adam fit of GMMEstimator are outside the model (contracts / tested). Real-number axioms."),
 "C16": dict(design="6/C16", technique="Coq proof (phase = longest non-skipped path, loop iff unskipped cycle, set_delay takes effect incl. drawn delays, info round trip; refutations of the historic defect variants) + translator tie of node.py kernels with a computed source variant + model/implementation correspondence on generated node/operation sequences + simulated episodes after set_delay",
   text="Phase, loop detection, set_delay and the info round trip are proved on the configuration model; the source variant is recomputed from regenerated kernels each run; rex is compared with the model on generated topologies and op sequences, and simulated episodes confirm the new delays are drawn.",
   note="Lattice times; Python's recursion limit on very long acyclic chains is outside the model."),
 "C18": dict(design="6/C18", technique="Coq proof (samples in bounds, best loss non-increasing = least finite loss, best candidate attained, NaN ranks last / never best, stable argsort, evo laws under an explicit ask/tell contract, sound history checker) + translator tie of cem.py/evo.py kernels + exact comparison of cem_update_mean_stdev / gaussian_samples on dyadic inputs + end-to-end histories judged by the checker evaluated in Coq",
   text="All clauses are theorems for every loss function, noise stream, bounds, population, elite count and iteration count; evosax enters through a contract validated on every run; kernels regenerated and tied; public kernels compared exactly; full cem/evo histories checked.",
   note="Known finding: value-based evosax strategies sample NaN candidates after a NaN loss. The literal 'NaN never elite while any finite exists' reading is refuted for fixed elite counts (DESIGN reading used)."),
 "C20": dict(design="6/C20", technique="Coq proof (policy mean = actor mean for every depth/width/weights/activation name incl. failure cases, permutation invariance of the params dict, same Gaussian, get_action = the action training hands the environment, range laws) + translator tie (unsquash, normalise, activation tables, loops, flags) + synthetic and real PPOResults compared with the flax actor and an exact Q model",
   text="Two independent transliterations (exported Policy vs flax Actor) are proved equal for all parameters; kernels regenerated and tied; exported policies from synthetic and real training results are compared with the actor network, exactly over Q for dyadic relu nets.",
   note="flax Dense / activations / distrax / jax.random are shared code on both sides (trusted); state-dependent std is outside the property (training itself fails there)."),
}
NOT_YET = "check not built yet in this session (design in DESIGN.md section 6); not claimed until its check exists"
man = dict(version=1,
  setup_cmd="./check setup",
  hooks=dict(guard="REX_VERIF", enable="environment variable REX_VERIF=1 (read at import of rex.asynchronous); the harness installs rex.asynchronous._verif_hook",
             baseline_off_cmd="cd /repo && env -u REX_VERIF /venv/bin/python -m pytest -ra -q -p no:cacheprovider --timeout=900 --continue-on-collection-errors",
             source_commits=["c947202"], add_only=True),
  engines=[dict(name="coq-models", path="coq/", serves_properties=sorted(CHECKS), kind_free_text="Gallina models + theorems (Coq 8.16.1), Props/Cxx.v hold the property statements"),
           dict(name="harness", path="harness/", serves_properties=sorted(CHECKS), kind_free_text="Python correspondence harness: generated cases run on /repo's working tree and on the model (vm_compute inside Coq or the extracted OCaml runner)"),
           dict(name="kernel-translator", path="tools/kernel_translate.py", serves_properties=sorted(CHECKS), kind_free_text="fail-closed Python-ast -> Coq translator, ties re-proved every run")],
  checks=[], not_applicable=[],
  notes="All checks: ./check Cxx --tier quick|thorough (VERIF_SEED / VERIF_TIER honoured). known_findings.json lists recorded defects.")
for p in props:
    pid = p["id"]
    if pid in CHECKS:
        c = CHECKS[pid]
        man["checks"].append(dict(property_id=pid, quick_cmd=f"./check {pid} --tier quick", thorough_cmd=f"./check {pid} --tier thorough",
            evidence_file=f"/verif/evidence/{pid}.json", replay_cmd_template=f"./check {pid} --replay {{path}}", engine="coq-models",
            level_claimed=dict(category="proof", text=c["text"], design_ref=c["design"]), level_note=c["note"], technique=c["technique"]))
    else:
        man["not_applicable"].append(dict(property_id=pid, reason=NOT_YET))
json.dump(man, open(os.path.join(V, "MANIFEST.json"), "w"), indent=1)
print("checks:", [c["property_id"] for c in man["checks"]])
