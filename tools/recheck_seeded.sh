#!/bin/bash
# usage: tools/recheck_seeded.sh <id> <check> [<check> ...]   (re-runs checks against an already confirmed seeded change in seeded/<id>/)
set -u
ID=$1; shift
V=/verif; W=/tmp/recheck_$ID; OUT=$V/seeded/$ID
git -C /repo worktree remove --force $W 2>/dev/null; git -C /repo worktree add -q $W HEAD
if ! git -C $W apply $OUT/patch.diff; then echo "PATCH DOES NOT APPLY"; git -C /repo worktree remove --force $W; exit 2; fi
export JAX_PLATFORMS=cpu PYTHONHASHSEED=0
for c in "$@"; do
  ( cd $V && VERIF_REPO=$W ./check $c --tier ${TIER:-quick} 2>&1 | grep "VIOL\|^OK\|KNOWN" | cut -c1-300 > $OUT/check_$c.log )
  echo "-- $ID check $c:"; cat $OUT/check_$c.log
  for r in $(grep -o "replay=[^ ]*" $OUT/check_$c.log | cut -d= -f2); do cp $r $OUT/ 2>/dev/null; done
done
git -C /repo worktree remove --force $W
