#!/usr/bin/env python3
"""Kernel translator driver: Python ast -> Coq, fail-closed.

usage: kernel_translate.py <Group> <repo> <out.v>

Each kernel group lives in tools/kt_<name>.py and exposes GROUP (the name) and translate(repo) -> Coq source text.
Any construct outside the grammar of ktlib.Expr, or any change of the expected statement shape, raises
ktlib.Unsupported: the translation fails and the check reports the tie as broken (fail-closed).
"""
import glob, importlib, os, sys
sys.path.insert(0, os.path.dirname(os.path.abspath(__file__)))
import ktlib

def groups():
    out = {}
    for p in sorted(glob.glob(os.path.join(os.path.dirname(os.path.abspath(__file__)), "kt_*.py"))):
        m = importlib.import_module(os.path.basename(p)[:-3])
        out[m.GROUP] = m.translate
    return out

if __name__ == "__main__":
    g, repo, outp = sys.argv[1], sys.argv[2], sys.argv[3]
    try:
        src = groups()[g](repo)
    except ktlib.Unsupported as e:
        print(f"kernel_translate: {g}: unsupported / changed source shape: {e}", file=sys.stderr)
        sys.exit(2)
    except (AssertionError, IndexError, KeyError, AttributeError) as e:
        print(f"kernel_translate: {g}: source shape changed ({type(e).__name__}: {e})", file=sys.stderr)
        sys.exit(2)
    open(outp, "w").write(src)
