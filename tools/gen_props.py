#!/usr/bin/env python3
"""helper used while writing coq/Props/Cxx.v: prints `Theorem <name> : <statement of lemma>. Proof. exact lemma. Qed.` blocks
with the statement copied from Coq's own `Check` output (so the Props file shows the full statement)."""
import re, subprocess, sys, os
def stmts(header, lemmas, coqdir):
    src = header + "\nSet Printing Width 100000.\nSet Printing Depth 100000.\n" + "\n".join(f"Check @{l}." for l in lemmas) + "\n"
    p = "/tmp/_gp.v"; open(p, "w").write(src)
    out = subprocess.run(f"coqc -Q {coqdir} Rex {p}", shell=True, capture_output=True, text=True)
    if out.returncode: raise SystemExit(out.stdout + out.stderr)
    res = {}
    for m in re.finditer(r"(?ms)^@?([\w']+)\s*\n?\s*: (.*?)(?=^@?[\w']+\s*\n?\s*: |\Z)", out.stdout):
        res[m.group(1)] = " ".join(m.group(2).split())
    return res
if __name__ == "__main__":
    import json
    spec = json.load(open(sys.argv[1]))
    st = stmts(spec["header"], [l for _, l, _ in spec["theorems"]], spec.get("coqdir", "/verif/coq"))
    out = [spec["preamble"], spec["header"], ""]
    for name, lemma, comment in spec["theorems"]:
        out.append(f"(* {comment} *)\nTheorem {name} : {st[lemma]}.\nProof. exact @{lemma}. Qed.\nPrint Assumptions {name}.\n")
    out.append(spec.get("epilogue", ""))
    open(sys.argv[2], "w").write("\n".join(out))
