#!/bin/bash
# usage: tools/eval_seeded.sh <id> <src dir with patch.diff demo.py meta.json> <check> [<check> ...]
# confirms a seeded change (applies to a fresh worktree of /repo HEAD, demo passes unchanged / fails changed, existing unit tests pass)
# and runs the given checks against it; writes /verif/seeded/<id>/
set -u
ID=$1; SRC=$2; shift 2
V=/verif; W=/tmp/eval_$ID; OUT=$V/seeded/$ID
mkdir -p $OUT; cp $SRC/patch.diff $SRC/demo.py $OUT/ 2>/dev/null; cp $SRC/meta.json $OUT/agent_meta.json 2>/dev/null
git -C /repo worktree remove --force $W 2>/dev/null; git -C /repo worktree add -q $W HEAD
if ! git -C $W apply $OUT/patch.diff; then echo "PATCH DOES NOT APPLY"; git -C /repo worktree remove --force $W; exit 2; fi
export JAX_PLATFORMS=cpu PYTHONHASHSEED=0
( cd /tmp && PYTHONPATH=/repo timeout 600 /venv/bin/python $OUT/demo.py >$OUT/demo_unchanged.log 2>&1; echo $? > $OUT/demo_unchanged.rc ) &
( cd /tmp && PYTHONPATH=$W timeout 600 /venv/bin/python $OUT/demo.py >$OUT/demo_changed.log 2>&1; echo $? > $OUT/demo_changed.rc ) &
( cd $W && PYTHONPATH=$W timeout 1500 /venv/bin/python -m pytest -q -p no:cacheprovider --timeout=900 tests/unit -x -q --deselect tests/unit/test_jax_utils.py::test_same_structure --deselect tests/unit/test_transforms.py::test_chain --deselect tests/unit/test_transforms.py::test_extend >$OUT/tests.log 2>&1; echo $? > $OUT/tests.rc ) &
for c in "$@"; do
  ( cd $V && VERIF_REPO=$W ./check $c --tier quick 2>&1 | grep "VIOL\|^OK\|KNOWN" | cut -c1-300 > $OUT/check_$c.log ) 
done
wait
echo "== $ID demo unchanged rc=$(cat $OUT/demo_unchanged.rc) changed rc=$(cat $OUT/demo_changed.rc) tests rc=$(cat $OUT/tests.rc) ($(tail -1 $OUT/tests.log))"
for c in "$@"; do echo "-- check $c:"; cat $OUT/check_$c.log; done
# keep the replays of detected violations next to the seeded change
for c in "$@"; do for r in $(grep -o "replay=[^ ]*" $OUT/check_$c.log | cut -d= -f2); do cp $r $OUT/ 2>/dev/null; done; done
git -C /repo worktree remove --force $W
