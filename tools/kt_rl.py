"""kernel group Rl: rex/rl.py — Environment.init/reset/step call chain, AutoResetWrapper selection, LogWrapper accounting,
SquashState.scale/unsquash, ClipActionWrapper, NormalizeVec.normalize/denormalize, the running-moment update blocks (C19)"""
import ast
from ktlib import *

GROUP = "Rl"


# ---------------------------------------------------------------- straight-line blocks over the ops carrier
class Block:
    """assignments `v = expr`, `if <bool name>: assignments [else: assignments]`; produces nested lets; every variable
    assigned gets a fresh Coq name"""

    def __init__(self, env, benv, funcs):
        self.env = dict(env); self.benv = dict(benv); self.funcs = funcs; self.n = 0; self.lets = []

    def expr(self, node):
        e = Expr({**self.env, **self.funcs}, "O", self.benv)
        return e.tr(node)

    def fresh(self, v):
        self.n += 1
        return f"{v.replace('.', '_')}_{self.n}"

    def assign(self, st):
        if not (isinstance(st, ast.Assign) and len(st.targets) == 1 and isinstance(st.targets[0], ast.Name)):
            raise Unsupported("statement " + ast.unparse(st)[:80])
        v = st.targets[0].id
        if isinstance(st.value, ast.Call) and ast.unparse(st.value.func) == "jnp.logical_or" and len(st.value.args) == 2:
            a, b = [ast.unparse(x) for x in st.value.args]
            if a not in self.benv or b not in self.benv: raise Unsupported("logical_or operands " + a + ", " + b)
            self.benv[v] = f"(orb {self.benv[a]} {self.benv[b]})"
            self.env[v] = f"(b2a O (orb {self.benv[a]} {self.benv[b]}))"
            return
        rhs = self.expr(st.value)
        nm = self.fresh(v)
        self.lets.append(f"let {nm} := {rhs} in")
        self.env[v] = nm

    def stmt(self, st):
        if isinstance(st, ast.If):
            key = ast.unparse(st.test)
            if key not in self.benv: raise Unsupported("if test " + key)
            outs = {}
            for branch, stmts in (("t", st.body), ("f", st.orelse)):
                sub = Block(self.env, self.benv, self.funcs); sub.n = self.n + (100 if branch == "f" else 0)
                for s in stmts: sub.stmt(s)
                assigned = {s.targets[0].id for s in stmts if isinstance(s, ast.Assign)}
                outs[branch] = (sub, assigned)
            names = sorted(outs["t"][1] | outs["f"][1])
            for v in names:
                vals = {}
                for br in ("t", "f"):
                    sub = outs[br][0]
                    vals[br] = " ".join(sub.lets) + " " + sub.env[v] if v in outs[br][1] else self.env[v]
                nm = self.fresh(v)
                self.lets.append(f"let {nm} := (if {self.benv[key]} then ({vals['t']}) else ({vals['f']})) in")
                self.env[v] = nm
            return
        self.assign(st)

    def run(self, stmts):
        for s in stmts: self.stmt(s)
        return self

    def close(self, result):
        return "\n  ".join(self.lets + [result])


def ret_name(f):
    b = body_wo_doc(f)
    if not (isinstance(b[-1], ast.Return)): raise Unsupported(f.name + ": no final return")
    return b[:-1], b[-1].value


def seq_of(f, first, last):
    """the consecutive assignments of f's body from the one assigning `first` to the one assigning `last`"""
    b = body_wo_doc(f)
    tg = [s.targets[0].id if isinstance(s, ast.Assign) and len(s.targets) == 1 and isinstance(s.targets[0], ast.Name) else None for s in b]
    if tg.count(first) != 1 or tg.count(last) != 1: raise Unsupported(f"{f.name}: block {first}..{last}")
    i, j = tg.index(first), tg.index(last)
    if i > j or None in tg[i:j + 1]: raise Unsupported(f"{f.name}: block {first}..{last} not contiguous")
    return b, i, j


def norm(s):
    """assignment statements print their tuple targets with or without parentheses depending on the Python version"""
    if s.startswith("(") and ") = " in s:
        i = s.index(") = ")
        if "(" not in s[1:i]: return s[1:i] + s[i + 1:]
    return s


def expect(stmts, texts, where):
    got = [norm(ast.unparse(s)) for s in stmts]
    texts = [norm(x) for x in texts]
    if got != texts: raise Unsupported(f"{where}: expected {texts}, found {got}")


FUNCS = {"jnp.tanh": lambda a: f"(th {a})", "jnp.arctanh": lambda a: f"(ath {a})", "jnp.sqrt": lambda a: f"(sq {a})",
         "jnp.square": lambda a: f"(omul O {a} {a})"}


def moment_block(f, name, x_name, state_expr, flags, out):
    """the Chan update in f; checks the batch statistics, the source of the state and the normalize call"""
    b, i, j = seq_of(f, "delta", "new_count")
    expect(b[i - 3:i], [f"batch_mean = jnp.mean({x_name}, axis=0)", f"batch_var = jnp.var({x_name}, axis=0)", "batch_count = obs.shape[0]"],
           f"{name}: batch statistics")
    env = {"norm_state.mean": "mean", "norm_state.var": "var", "norm_state.count": "count", "batch_mean": "bmean", "batch_var": "bvar",
           "batch_count": "bcount"}
    blk = Block(env, {}, FUNCS).run(b[i:j + 1])
    out.append(f"Definition {name} {{A}} (O : ops A) (mean var count bmean bvar bcount : A) : A * A * A :=\n  "
               + blk.close(f"({blk.env['new_mean']}, {blk.env['new_var']}, {blk.env['new_count']}).") + "\n")
    src = ast.unparse(f)
    if state_expr is not None and state_expr not in src: raise Unsupported(f"{name}: state source {state_expr}")
    cons = [n for n in ast.walk(f) if isinstance(n, ast.Call) and ast.unparse(n.func) == "NormalizeVec"]
    kw = {k.arg: ast.unparse(k.value) for k in cons[-1].keywords}
    if (kw.get("mean"), kw.get("var"), kw.get("count")) != ("new_mean", "new_var", "new_count"): raise Unsupported(f"{name}: NormalizeVec(...) fields")
    if flags not in src: raise Unsupported(f"{name}: {flags}")
    return kw


def call_chain(f, fn_map, out_name, params, result_tuple):
    """`v = self.m(args)` / `v, _ = self.graph.m(args)` chains -> lets over abstract functions"""
    stmts, ret = ret_name(f)
    lets = []; env = {p: p for p in params}
    def arg(n):
        if isinstance(n, ast.Name):
            if n.id not in env: raise Unsupported(f"{f.name}: unknown name {n.id}")
            return env[n.id]
        if isinstance(n, ast.Call): return call(n)
        raise Unsupported(f"{f.name}: argument {ast.unparse(n)}")
    def call(c):
        fn = ast.unparse(c.func)
        if fn not in fn_map: raise Unsupported(f"{f.name}: call {fn}")
        args = [arg(a) for a in c.args]
        for k in c.keywords:
            if k.arg != "action": raise Unsupported(f"{f.name}: keyword {k.arg}")
            args.append("None" if ast.unparse(k.value) == "None" else f"(Some {arg(k.value)})")
        return fn_map[fn](args)
    for s in stmts:
        if not (isinstance(s, ast.Assign) and len(s.targets) == 1 and isinstance(s.value, ast.Call)): raise Unsupported(f"{f.name}: {ast.unparse(s)[:80]}")
        t = s.targets[0]
        if isinstance(t, ast.Name): v, wrap = t.id, "{}"
        elif isinstance(t, ast.Tuple) and len(t.elts) == 2 and ast.unparse(t.elts[1]) == "_": v, wrap = t.elts[0].id, "(fst {})"
        else: raise Unsupported(f"{f.name}: target {ast.unparse(t)}")
        lets.append(f"let {v} := {wrap.format(call(s.value))} in"); env[v] = v
    if not isinstance(ret, ast.Tuple) or [ast.unparse(e) for e in ret.elts] != result_tuple: raise Unsupported(f"{f.name}: returns {ast.unparse(ret)}")
    return "\n  ".join(lets + ["(" + ", ".join(result_tuple) + ")."])


def translate(repo):
    t = parse(f"{repo}/rex/rl.py")
    out = [HEADER, "From Rex Require Import RlKernels.\n"]

    # ---- SquashState
    for nm, fn in (("unsquash", "th"), ("scale", "ath")):
        f = find_func(t, "SquashState", nm)
        stmts, ret = ret_name(f)
        if ast.unparse(ret) != "x": raise Unsupported("SquashState." + nm + " returns")
        blk = Block({"x": "x", "self.low": "low", "self.high": "high"}, {"self.squash": "squash"}, FUNCS).run(stmts)
        out.append(f"Definition {nm}_src {{A}} (O : ops A) ({fn} : A -> A) (squash : bool) (low high x : A) : A :=\n  " + blk.close(blk.env["x"] + ".") + "\n")
    f = find_func(t, "SquashActionWrapper", "step")
    expect(body_wo_doc(f), ["act_scaling = graph_state.aux['act_scaling']", "action = act_scaling.unsquash(action)", "return self._env.step(graph_state, action)"],
           "SquashActionWrapper.step")
    f = find_func(t, "SquashActionWrapper", "reset")
    expect(body_wo_doc(f)[1:3], ["act_space = self._env.action_space(gs)", "act_scaling = SquashState(low=act_space.low, high=act_space.high, squash=self.squash)"],
           "SquashActionWrapper.reset")
    # ---- ClipActionWrapper
    f = find_func(t, "ClipActionWrapper", "step")
    b = body_wo_doc(f)
    expect([b[0], b[2]], ["act_space = self._env.action_space(graph_state)", "return self._env.step(graph_state, action)"], "ClipActionWrapper.step")
    blk = Block({"action": "x", "act_space.low": "low", "act_space.high": "high"}, {}, FUNCS).run([b[1]])
    out.append("Definition clip_src {A} (O : ops A) (x low high : A) : A :=\n  " + blk.close(blk.env["action"] + ".") + "\n")

    # ---- NormalizeVec.normalize / denormalize
    f = find_func(t, "NormalizeVec", "normalize"); stmts, ret = ret_name(f)
    if [a.arg for a in f.args.args] != ["self", "x", "clip", "subtract_mean"]: raise Unsupported("normalize signature")
    blk = Block({"x": "x", "self.mean": "mean", "self.var": "var", "self.clip": "clipv"}, {"clip": "do_clip", "subtract_mean": "sub_mean"}, FUNCS).run(stmts)
    out.append("Definition normalize_src {A} (O : ops A) (sq : A -> A) (mean var clipv : A) (do_clip sub_mean : bool) (x : A) : A :=\n  "
               + blk.close(blk.env["x"] + ".") + "\n")
    f = find_func(t, "NormalizeVec", "denormalize"); stmts, ret = ret_name(f)
    if [a.arg for a in f.args.args] != ["self", "x", "add_mean"]: raise Unsupported("denormalize signature")
    blk = Block({"x": "x", "self.mean": "mean", "self.var": "var"}, {"add_mean": "add_mean"}, FUNCS).run(stmts)
    out.append("Definition denormalize_src {A} (O : ops A) (sq : A -> A) (mean var : A) (add_mean : bool) (x : A) : A :=\n  "
               + blk.close(blk.env["x"] + ".") + "\n")

    # ---- running moments (three copies) + priors + the discounted return
    f = find_func(t, "NormalizeVecObservationWrapper", "reset")
    moment_block(f, "nobs_reset_update_src", "obs", None, "norm_state.normalize(obs, clip=True, subtract_mean=True)", out)
    cons = [n for n in ast.walk(f) if isinstance(n, ast.Call) and ast.unparse(n.func) == "NormalizeVec"][0]
    kw = {k.arg: k.value for k in cons.keywords}
    if ast.unparse(kw["mean"]) != "jnp.zeros_like(obs[0])" or ast.unparse(kw["var"]) != "jnp.ones_like(obs[0])": raise Unsupported("norm_obs prior")
    e = Expr({}, "O")
    out.append(f"Definition nobs_prior_src {{A}} (O : ops A) : A * A * A := (oz O 0, oz O 1, {e.tr(kw['count'])}).\n")
    f = find_func(t, "NormalizeVecObservationWrapper", "step")
    moment_block(f, "nobs_step_update_src", "obs", "norm_state = graph_state.aux['norm_obs']", "norm_state.normalize(obs, clip=True, subtract_mean=True)", out)
    f = find_func(t, "NormalizeVecReward", "step")
    moment_block(f, "nrew_step_update_src", "return_val", "norm_state = graph_state.aux['norm_reward']",
                 "norm_state.normalize(reward, clip=True, subtract_mean=False)", out)
    b, i, j = seq_of(f, "done", "return_val")
    blk = Block({"norm_state.return_val": "rv", "self.gamma": "gamma", "reward": "r"}, {"terminated": "terminated", "truncated": "truncated"}, FUNCS)
    blk.run([s for s in b[i:j + 1] if ast.unparse(s.targets[0]) in ("done", "return_val")])
    out.append("Definition ret_update_src {A} (O : ops A) (gamma rv r : A) (terminated truncated : bool) : A :=\n  " + blk.close(blk.env["return_val"] + ".") + "\n")
    f = find_func(t, "NormalizeVecReward", "reset")
    cons = [n for n in ast.walk(f) if isinstance(n, ast.Call) and ast.unparse(n.func) == "NormalizeVec"][0]
    kw = {k.arg: k.value for k in cons.keywords}
    if ast.unparse(kw["return_val"]) != "jnp.zeros((batch_count,))": raise Unsupported("norm_reward prior return_val")
    out.append(f"Definition nrew_prior_src {{A}} (O : ops A) : A * A * A := ({e.tr(kw['mean'])}, {e.tr(kw['var'])}, {e.tr(kw['count'])}).\n")

    # ---- LogWrapper
    f = find_func(t, "LogWrapper", "step"); b = body_wo_doc(f)
    expect(b[:1] + b[2:3], ["(gs, obs, reward, terminated, truncated, info) = self._env.step(graph_state, action)", "log_state = gs.aux['log']"], "LogWrapper.step head")
    env = {"reward": "r", "log_state.episode_returns": "(l_ret s)", "log_state.episode_lengths": "(l_len s)",
           "log_state.returned_episode_returns": "(l_rret s)", "log_state.returned_episode_lengths": "(l_rlen s)", "log_state.timestep": "(l_t s)"}
    blk = Block(env, {"terminated": "terminated", "truncated": "truncated"}, FUNCS).run([b[1], b[3], b[4]])
    rep = b[5]
    if not (isinstance(rep, ast.Assign) and ast.unparse(rep.targets[0]) == "log_state" and ast.unparse(rep.value.func) == "log_state.replace"): raise Unsupported("LogWrapper.step replace")
    kw = {k.arg: blk.expr(k.value) for k in rep.value.keywords}
    if sorted(kw) != ["episode_lengths", "episode_returns", "returned_episode_lengths", "returned_episode_returns", "timestep"]: raise Unsupported("LogState fields")
    out.append("Definition log_step_src {A} (O : ops A) (s : logst (A:=A)) (r : A) (terminated truncated : bool) : logst (A:=A) :=\n  "
               + blk.close(f"{{| l_ret := {kw['episode_returns']}; l_len := {kw['episode_lengths']}; l_rret := {kw['returned_episode_returns']}; "
                           f"l_rlen := {kw['returned_episode_lengths']}; l_t := {kw['timestep']} |}}.") + "\n")
    expect(b[6:], ["info['returned_episode_returns'] = log_state.returned_episode_returns", "info['returned_episode_lengths'] = log_state.returned_episode_lengths",
                   "info['timestep'] = log_state.timestep", "info['returned_episode'] = done", "log_gs = gs.replace_aux({'log': log_state})",
                   "return (log_gs, obs, reward, terminated, truncated, info)"], "LogWrapper.step tail")
    f = find_func(t, "LogWrapper", "reset")
    cons = [n for n in ast.walk(f) if isinstance(n, ast.Call) and ast.unparse(n.func) == "LogState"][0]
    kw = {k.arg: e.tr(k.value) for k in cons.keywords}
    out.append(f"Definition log0_src {{A}} (O : ops A) : logst (A:=A) := {{| l_ret := {kw['episode_returns']}; l_len := {kw['episode_lengths']}; "
               f"l_rret := {kw['returned_episode_returns']}; l_rlen := {kw['returned_episode_lengths']}; l_t := {kw['timestep']} |}}.\n")

    # ---- AutoResetWrapper.step: which triple is returned when
    f = find_func(t, "AutoResetWrapper", "step"); b = body_wo_doc(f)
    expect(b[:2], ["(gs, obs, reward, terminated, truncated, info) = self._env.step(graph_state, action)", "done = jnp.logical_or(terminated, truncated)"], "AutoResetWrapper.step head")
    br = b[2]
    if not (isinstance(br, ast.If) and ast.unparse(br.test) == "self.fixed_init"): raise Unsupported("AutoResetWrapper.step: fixed_init branch")
    expect(br.body, ["init = gs.aux['init']", "init = init.replace(graph_state=init.graph_state.replace(rng=gs.rng))"], "AutoResetWrapper.step fixed branch")
    fresh = [norm(ast.unparse(s)) for s in br.orelse if not isinstance(s, ast.If)]
    want = ["names = [name for name in list(gs.rng.keys()) if self._env.params is not None and name not in self._env.params]", "name = names[0]",
            "(new_rng, rng_init) = jax.random.split(gs.rng[name])", "gs = gs.replace(rng=gs.rng.copy({name: new_rng}))",
            "(init_gs, init_obs, init_info) = self._env.reset(rng_init)", "init = InitialState(graph_state=init_gs, obs=init_obs, info=init_info)"]
    if fresh != [norm(x) for x in want]: raise Unsupported(f"AutoResetWrapper.step fresh branch: {fresh}")
    defs = {s.name: s for s in b if isinstance(s, ast.FunctionDef)}
    if sorted(defs) != ["is_done", "not_done"]: raise Unsupported("AutoResetWrapper.step: branch functions")
    expect(body_wo_doc(defs["is_done"]), ["_gs = init.graph_state.replace(aux=gs.aux)", "return (_gs, init.obs, init.info)"], "is_done")
    nm = {"_gs": "init_gs", "init.obs": "init_obs", "init.info": "init_info", "gs": "gs", "obs": "obs", "info": "info"}
    def tup(fn):
        r = body_wo_doc(fn)[-1].value
        return "(" + ", ".join(nm[ast.unparse(x)] for x in r.elts) + ")"
    cond = [s for s in b if isinstance(s, ast.Assign) and isinstance(s.value, ast.Call) and ast.unparse(s.value.func) == "jax.lax.cond"]
    if len(cond) != 1 or ast.unparse(cond[0].targets[0]) != "(next_gs, next_obs, next_info)": raise Unsupported("AutoResetWrapper.step: cond")
    c_args = [ast.unparse(a) for a in cond[0].value.args]
    if c_args[0] != "done" or sorted(c_args[1:]) != ["is_done", "not_done"]: raise Unsupported("AutoResetWrapper.step: cond arguments")
    out.append("Definition auto_done_src (terminated truncated : bool) : bool := orb terminated truncated.\n")
    out.append("Definition auto_select_src {G Ob I : Type} (done : bool) (init_gs : G) (init_obs : Ob) (init_info : I) (gs : G) (obs : Ob) (info : I) : G * Ob * I :=\n"
               f"  if done then {tup(defs[c_args[1]])} else {tup(defs[c_args[2]])}.\n")
    expect(b[-1:], ["return (next_gs, next_obs, reward, terminated, truncated, next_info)"], "AutoResetWrapper.step return")
    f = find_func(t, "AutoResetWrapper", "reset")
    if "init_state = InitialState(graph_state=gs, obs=obs, info=info)" not in ast.unparse(f) or "aux_gs = gs.replace_aux({'init': init_state})" not in ast.unparse(f):
        raise Unsupported("AutoResetWrapper.reset")

    # ---- Environment.step / reset / init
    fm = {"self.get_output": lambda a: f"(get_output {' '.join(a)})", "self.update_graph_state_pre_step": lambda a: f"(pre_step {' '.join(a)})",
          "self.graph.step": lambda a: f"(graph_step {' '.join(a)})", "self.get_step_state": lambda a: f"(get_step_state {' '.join(a)})",
          "self.get_reward": lambda a: f"(get_reward {' '.join(a)})", "self.get_truncated": lambda a: f"(get_truncated {' '.join(a)})",
          "self.get_terminated": lambda a: f"(get_terminated {' '.join(a)})",
          "self.update_graph_state_post_step": lambda a: f"(post_step {a[0]} {a[1] if len(a) > 1 else 'None'})".replace(" action)", " (Some action))"),
          "self.get_info": lambda a: f"(get_info {a[0]} {a[1] if len(a) > 1 else 'None'})".replace(" action)", " (Some action))"),
          "self.get_observation": lambda a: f"(get_observation {' '.join(a)})", "self.init": lambda a: f"(env_init_src {' '.join(a)})"}
    sec = ("Section EnvSrc.\nVariables (GS SS Out Act Obs Rw Flag Info Rng : Type).\nVariable graph_init : Rng -> Z -> GS.\nVariable graph_reset : GS -> GS * SS.\n"
           "Variable graph_step : GS -> SS -> Out -> GS * SS.\nVariable get_step_state : GS -> SS.\nVariable get_output : GS -> Act -> Out.\n"
           "Variable pre_step : GS -> Act -> GS.\nVariable post_step : GS -> option Act -> GS.\nVariable get_reward : GS -> Act -> Rw.\n"
           "Variables get_truncated get_terminated : GS -> Flag.\nVariable get_info : GS -> option Act -> Info.\nVariable get_observation : GS -> Obs.\n")
    body = call_chain(find_func(t, "Environment", "step"), fm, "env_step_src", ["graph_state", "action"],
                      ["gs_post", "obs", "reward", "terminated", "truncated", "info"])
    sec += "Definition env_step_src (graph_state : GS) (action : Act) : GS * Obs * Rw * Flag * Flag * Info :=\n  " + body + "\n"
    # init: the two graph.init calls differ only in starting_step; the non-only_init branch runs graph.reset
    f = find_func(t, "Environment", "init"); b = body_wo_doc(f)
    if len(b) != 2 or not isinstance(b[0], ast.If) or ast.unparse(b[0].test) != "self.only_init" or ast.unparse(b[1]) != "return gs": raise Unsupported("Environment.init")
    def init_call(s):
        if not (isinstance(s, ast.Assign) and ast.unparse(s.targets[0]) == "gs" and ast.unparse(s.value.func) == "self.graph.init"): raise Unsupported("Environment.init: graph.init")
        kw = {k.arg: ast.unparse(k.value) for k in s.value.keywords}
        if [ast.unparse(a) for a in s.value.args] != ["rng"] or {k: v for k, v in kw.items() if k != "starting_step"} != \
                {"params": "self.params", "starting_eps": "self.starting_eps", "randomize_eps": "self.randomize_eps", "order": "self.order"}:
            raise Unsupported("Environment.init: graph.init arguments")
        return int(kw["starting_step"])
    if len(b[0].body) != 1 or len(b[0].orelse) != 2 or norm(ast.unparse(b[0].orelse[1])) != "gs, _ = self.graph.reset(gs)": raise Unsupported("Environment.init branches")
    s1, s0 = init_call(b[0].body[0]), init_call(b[0].orelse[0])
    sec += (f"Definition env_init_src (only_init : bool) (rng : Rng) : GS :=\n  if only_init then graph_init rng ({s1}) else fst (graph_reset (graph_init rng ({s0}))).\n")
    f = find_func(t, "Environment", "reset")
    fm2 = dict(fm); fm2["self.init"] = lambda a: f"(env_init_src only_init {' '.join(a)})"
    body = call_chain(f, fm2, "env_reset_src", ["rng"], ["gs", "obs", "info"])
    sec += "Definition env_reset_src (only_init : bool) (rng : Rng) : GS * Obs * Info :=\n  " + body + "\nEnd EnvSrc.\n"
    out.append(sec)
    return "\n".join(out)
