"""kernel group GenGraph: rex/artificial.py _generate_graphs — the per-node timestamp step, the carried while-loop of
_scan_body_seq, the masking of unsent / unreceived messages and the padded length (C12).

Fail closed: the plumbing statements must match textually, the arithmetic / decision statements are translated from their
ast.  `jnp.inf` is translated as `None : option Z` (+infinity): `x + inf = inf`, `inf > x = true`, `x > inf = x >= inf = false`."""
import ast
from ktlib import *

GROUP = "GenGraph"

SAMPLE_COMP = "comp_delay.replace(rng=rng_comp).sample()[1]"
SAMPLE_COMM = "communication_delays[output_name, input_name].replace(rng=_rng).sample(shape=ts_end.shape)[1]"


def nested(f, name):
    for n in ast.walk(f):
        if isinstance(n, ast.FunctionDef) and n.name == name: return n
    raise Unsupported(f"nested function {name} not found")


class Sub(ast.NodeTransformer):
    """replace sub-expressions (by their source text) with plain names"""
    def __init__(self, table): self.table = table
    def visit(self, node):
        if isinstance(node, ast.expr):
            k = ast.unparse(node)
            if k in self.table: return ast.Name(id=self.table[k], ctx=ast.Load())
        return self.generic_visit(node)


class ZT(Expr):
    """Expr over Z plus jnp.where / jnp.max(jnp.array([a, b])) / jnp.logical_not / jnp.logical_or / boolean IfExp"""
    def tr(self, n):
        if isinstance(n, ast.Call):
            fn = ast.unparse(n.func)
            if fn == "jnp.where" and len(n.args) == 3 and not n.keywords:
                return f"(if {self.trb(n.args[0])} then {self.tr(n.args[1])} else {self.tr(n.args[2])})"
            if fn == "jnp.max" and len(n.args) == 1 and not n.keywords and isinstance(n.args[0], ast.Call) \
                    and ast.unparse(n.args[0].func) == "jnp.array" and len(n.args[0].args) == 1 \
                    and isinstance(n.args[0].args[0], ast.List) and len(n.args[0].args[0].elts) == 2:
                a, b = n.args[0].args[0].elts
                return self.bin("max", self.tr(a), self.tr(b))
        return super().tr(n)

    def trb(self, n):
        if isinstance(n, ast.Name) and n.id in self.benv: return self.benv[n.id]
        if isinstance(n, ast.IfExp): return f"(if {self.trb(n.test)} then {self.trb(n.body)} else {self.trb(n.orelse)})"
        if isinstance(n, ast.Call):
            fn = ast.unparse(n.func)
            if fn == "jnp.logical_not" and len(n.args) == 1: return f"(negb {self.trb(n.args[0])})"
            if fn == "jnp.logical_or" and len(n.args) == 2: return f"(orb {self.trb(n.args[0])} {self.trb(n.args[1])})"
        return super().trb(n)


def assign_of(stmts, target, nth=0):
    hits = [s for s in stmts if isinstance(s, ast.Assign) and ast.unparse(s.targets[0]) == target]
    if len(hits) <= nth: raise Unsupported(f"assignment to {target} #{nth} not found")
    return hits[nth].value


def norm(text):
    """canonical spelling of a statement under the running Python's ast.unparse"""
    try: return ast.unparse(ast.parse(text))
    except SyntaxError: return text          # e.g. a bare `return` / `continue` outside its context


def expect(stmts, texts, what):
    have = [ast.unparse(s) for s in stmts]
    for t in texts:
        if norm(t) not in have and t not in have: raise Unsupported(f"{what}: expected statement `{t}`")


def translate(repo):
    t = parse(f"{repo}/rex/artificial.py")
    G = find_func(t, None, "_generate_graphs")
    out = [HEADER, "From Coq Require Import Qround.\nOpen Scope Z_scope.\n"]

    # ---- step: ts_start / ts_end / ts_next / seq
    st = nested(G, "step"); b = body_wo_doc(st)
    if [a.arg for a in st.args.args] != ["name", "__ts_max", "carry", "i"]: raise Unsupported("step: signature")
    expect(b, ["(ts_prev, rng_prev) = carry", "rate = rates[name]", "ts_start = ts_prev",
               "vertex = Vertex(seq=seq, ts_start=ts_start, ts_end=ts_end)", "return ((ts_next, rng_next), vertex)"], "step")
    if len(b) != 10: raise Unsupported(f"step: {len(b)} statements")
    sub = Sub({SAMPLE_COMP: "d", "1 / rate": "period"})
    e = ZT({"ts_start": "ts_start", "ts_prev": "ts_prev", "ts_end": "ts_end", "d": "d", "period": "period", "__ts_max": "ts_max", "i": "i"}, "Z")
    out.append(f"Definition ts_end_src (ts_start d : Z) : Z :=\n  {e.tr(sub.visit(assign_of(b, 'ts_end')))}.\n")
    out.append(f"Definition next_start_src (period ts_prev ts_end : Z) : Z :=\n  {e.tr(sub.visit(assign_of(b, 'ts_next')))}.\n")
    out.append(f"Definition mask_seq_src (ts_max ts_end i : Z) : Z :=\n  {e.tr(sub.visit(assign_of(b, 'seq')))}.\n")

    # ---- _scan_body_seq
    sb = nested(G, "_scan_body_seq"); b = body_wo_doc(sb)
    if [a.arg for a in sb.args.args] != ["skip", "ts_start", "seq", "ts_recv"]: raise Unsupported("_scan_body_seq: signature")
    cond = nested(sb, "_while_cond"); body = nested(sb, "_while_body")
    cb = body_wo_doc(cond)
    expect(cb, ["_seq_mod = _seq % ts_start.shape[0]"], "_while_cond")
    if len(cb) != 4 or not isinstance(cb[-1], ast.Return): raise Unsupported("_while_cond: shape")
    if ast.unparse(body_wo_doc(body)[0]) != "return _seq + 1" or len(body_wo_doc(body)) != 1: raise Unsupported("_while_body")
    subc = Sub({"ts_start[_seq_mod]": "t", "ts_start[seq]": "t", "ts_start.shape[0]": "n"})
    ez = ZT({"t": "t", "ts_recv": "r", "seq": "seq"}, "Z", benv={"skip": "skip"})
    il1 = ez.trb(subc.visit(assign_of(cb, "is_larger")))
    out.append(f"Definition is_larger_src (skip : bool) (t r : Z) : bool :=\n  {il1}.\n")
    il2 = ez.trb(subc.visit(assign_of(b, "is_larger")))
    if il2 != il1: raise Unsupported("_scan_body_seq: the test after the loop differs from the loop's test")
    last = subc.visit(assign_of(cb, "is_last"))
    if ast.unparse(last) != "n <= _seq + 1": raise Unsupported("_while_cond: is_last")
    en = ZT({}, "Z", benv={"is_larger": "is_larger", "is_last": "is_last"})
    out.append("(* a comparison with an unsent message's arrival time (+inf, None) is false *)\n"
               "Definition larger_src (skip : bool) (ts_start : list Z) (s : nat) (ts_recv : option Z) : bool :=\n"
               "  match ts_recv with None => false | Some r => is_larger_src skip (nth s ts_start 0) r end.\n")
    out.append("Definition while_cond_src (skip : bool) (ts_start : list Z) (ts_recv : option Z) (_seq : nat) : bool :=\n"
               "  let is_larger := larger_src skip ts_start (_seq mod length ts_start)%nat ts_recv in\n"
               "  let is_last := (length ts_start <=? _seq + 1)%nat in\n"
               f"  {en.trb(cb[-1].value)}.\n")
    expect(b, ["seq = jax.lax.while_loop(_while_cond, _while_body, seq)", "return (seq, seq_clipped)"], "_scan_body_seq")
    out.append("Fixpoint while_src (fuel : nat) (skip : bool) (ts_start : list Z) (ts_recv : option Z) (_seq : nat) : nat :=\n"
               "  match fuel with O => _seq | S fuel => if while_cond_src skip ts_start ts_recv _seq\n"
               "    then while_src fuel skip ts_start ts_recv (_seq + 1)%nat else _seq end.\n")
    ec = ZT({"seq": "(Z.of_nat seq)"}, "Z", benv={"is_larger": "is_larger"})
    out.append("Definition scan_body_src (skip : bool) (ts_start : list Z) (seq : nat) (ts_recv : option Z) : nat * Z :=\n"
               "  let seq := while_src (length ts_start) skip ts_start ts_recv seq in\n"
               "  let is_larger := larger_src skip ts_start seq ts_recv in\n"
               f"  (seq, {ec.tr(assign_of(b, 'seq_clipped'))}).\n")

    # ---- masking of unsent / unreceived messages (body of the connection loop in `episode`)
    ep = nested(G, "episode")
    loops = [n for n in ast.walk(ep) if isinstance(n, ast.For) and ast.unparse(n.iter) == "zip(connections.items(), rngs_comm)"]
    if len(loops) != 1: raise Unsupported("episode: connection loop")
    lb = loops[0].body
    tail = lb[[i for i, s in enumerate(lb) if ast.unparse(s) == "seq_out = vertices[output_name].seq"][0]:]
    texts = [ast.unparse(s) for s in tail]
    if len(tail) != 11: raise Unsupported(f"episode: {len(tail)} statements after seq_out")
    want = {3: "ts_start = vertices[input_name].ts_start", 4: "scan_body_seq = functools.partial(_scan_body_seq, c.skip, ts_start)",
            5: "(last_seq, seqs_clipped) = jax.lax.scan(scan_body_seq, 0, ts_recv)",
            10: "edges[output_name, input_name] = Edge(seq_out=seq_out, seq_in=seq_in, ts_recv=ts_recv)"}
    for i, w in want.items():
        if texts[i] != norm(w): raise Unsupported(f"episode: statement {i} is `{texts[i]}`")
    # symbolic evaluation with extended values: kind 'Z' or 'ext' (option Z, None = +inf)
    env = {"seq_out": ("seq_out", "Z"), "_ts_max": ("ts_max", "Z"), "seqs_clipped": ("clipped", "Z"), "TS_END_RAW": ("ts_end_raw", "Z"),
           "COMM": ("c", "Z"), "MX": ("mx", "Z")}
    subm = Sub({"vertices[output_name].ts_end": "TS_END_RAW", SAMPLE_COMM: "COMM", "vertices[input_name].seq.max()": "MX"})

    def ev(n):
        if isinstance(n, ast.Name):
            if n.id not in env: raise Unsupported(f"masking: unknown name {n.id}")
            return env[n.id]
        if isinstance(n, ast.Attribute) and ast.unparse(n) == "jnp.inf": return ("None", "ext")
        if isinstance(n, ast.Constant) and isinstance(n.value, int) and not isinstance(n.value, bool): return (f"({n.value})", "Z")
        if isinstance(n, ast.UnaryOp) and isinstance(n.op, ast.USub):
            a, k = ev(n.operand)
            if k != "Z": raise Unsupported("masking: -inf")
            return (f"(- {a})", "Z")
        if isinstance(n, ast.BinOp) and isinstance(n.op, ast.Add):
            (a, ka), (b, kb) = ev(n.left), ev(n.right)
            if ka == "Z" and kb == "Z": return (f"({a} + {b})", "Z")
            if ka == "ext" and kb == "Z": return (f"(option_map (fun x => x + {b}) {a})", "ext")
            raise Unsupported("masking: addition")
        if isinstance(n, ast.Call) and ast.unparse(n.func) == "jnp.where" and len(n.args) == 3 and not n.keywords:
            c = evb(n.args[0]); (a, ka), (b, kb) = ev(n.args[1]), ev(n.args[2])
            if ka == kb: return (f"(if {c} then {a} else {b})", ka)
            lift = lambda x, k: x if k == "ext" else f"(Some {x})"
            return (f"(if {c} then {lift(a, ka)} else {lift(b, kb)})", "ext")
        raise Unsupported("masking: " + ast.unparse(n))

    def evb(n):
        if isinstance(n, ast.Compare) and len(n.ops) == 1:
            (a, ka), (b, kb) = ev(n.left), ev(n.comparators[0])
            op = type(n.ops[0])
            if ka == "Z" and kb == "Z":
                f = {ast.Gt: "Z.gtb", ast.GtE: "Z.geb", ast.Lt: "Z.ltb", ast.LtE: "Z.leb", ast.Eq: "Z.eqb"}.get(op)
                if f: return f"({f} {a} {b})"
            if ka == "ext" and kb == "Z" and op in (ast.Gt, ast.GtE):
                f = "Z.gtb" if op is ast.Gt else "Z.geb"
                return f"(match {a} with None => true | Some x => {f} x {b} end)"
        raise Unsupported("masking condition: " + ast.unparse(n))

    lets = []
    for i in (1, 2, 6, 7, 8, 9):
        s = tail[i]
        if not isinstance(s, ast.Assign) or len(s.targets) != 1 or not isinstance(s.targets[0], ast.Name): raise Unsupported("masking: statement shape")
        tgt = s.targets[0].id
        val, kind = ev(subm.visit(s.value))
        nm = {"seq_out": "seq_out'"}.get(tgt, tgt)       # the masked seq_out must not shadow the vertex's seq (ts_recv / ts_end tests use the original only before)
        lets.append(f"  let {nm} := {val} in")
        env[tgt] = (nm, kind)
    if [ast.unparse(tail[i].targets[0]) for i in (1, 2, 6, 7, 8, 9)] != ["ts_end", "ts_recv", "ts_recv", "seq_out", "seq_in", "seq_in"]:
        raise Unsupported("masking: order of assignments")
    if env["ts_recv"][1] != "ext" or env["seq_in"][1] != "Z" or env["seq_out"][1] != "Z": raise Unsupported("masking: kinds")
    out.append("Definition recv_src (seq_out ts_end_raw c : Z) : option Z :=\n" + "\n".join(lets[:2]) + "\n  ts_recv.\n")
    out.append("Definition edge_src (ts_max mx seq_out ts_end_raw c clipped : Z) : Z * Z * option Z :=\n" + "\n".join(lets) +
               f"\n  ({env['seq_out'][0]}, {env['seq_in'][0]}, {env['ts_recv'][0]}).\n")

    # ---- padded length
    loops = [n for n in ast.walk(ep) if isinstance(n, ast.For) and ast.unparse(n.iter) == "zip(nodes, rngs_episode)"]
    if len(loops) != 1: raise Unsupported("episode: node loop")
    ns = assign_of(loops[0].body, "num_steps")
    if ast.unparse(ns) != "ceil(ts_max_all * rates[n]) + 1": raise Unsupported("num_steps: " + ast.unparse(ns))
    expect(loops[0].body, ["ts_max_all = float(ts_max.max())",
                           "(_, vertices[n]) = jax.lax.scan(node_step, (offsets[n], _rng), jnp.arange(0, num_steps), length=num_steps)"], "node loop")
    out.append("Definition num_steps_src (ts_max_all rate : Q) : Z := (Qceiling (ts_max_all * rate)%Q + 1)%Z.\n")
    # ---- augmentation: existing vertices / edges are reused verbatim, the horizon is the largest stored ts_end
    expect(body_wo_doc(ep), ["vertices = {n: v for (n, v) in _graphs.vertices.items()}",
                             "edges = {(n1, n2): e for ((n1, n2), e) in _graphs.edges.items()}"], "episode")
    skipv = [ast.unparse(s) for s in loops[0].body[:1]]
    if skipv != ["if n in vertices:\n    continue"]: raise Unsupported("node loop: existing nodes must be skipped first")
    if "if (output_name, input_name) in edges:\n    continue" not in [ast.unparse(s) for s in lb]: raise Unsupported("connection loop: existing edges")
    return "\n".join(out)
