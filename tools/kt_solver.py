"""kernel group Solver: rex/cem.py (gaussian_samples.sample, cem_update_mean_stdev, init_state, cem_step, cem) and the wrapper
of rex/evo.py (evo_step, EvoSolver.init clip bounds, evo) (C18).

Every statement of the translated functions is matched against the shape the model was written from (fail-closed: an
unexpected statement raises Unsupported); arithmetic / decision expressions are translated, not matched, so that a changed
operator, operand, comparison or index shows up as a different Gallina term and the tie lemma fails."""
import ast
from ktlib import *

GROUP = "Solver"


def U(n): return ast.unparse(n)


def expect(cond, what):
    if not cond: raise Unsupported(what)


def assign(st, what):
    expect(isinstance(st, ast.Assign) and len(st.targets) == 1, f"{what}: expected a single assignment, got {U(st)}")
    return st.targets[0], st.value


def tree_map_call(v, what, nargs):
    """jax.tree_util.tree_map(lambda ..., a1, .., an) -> (lambda, [unparsed operands])"""
    expect(isinstance(v, ast.Call) and U(v.func) == "jax.tree_util.tree_map" and not v.keywords, f"{what}: expected tree_map")
    expect(len(v.args) == nargs + 1 and isinstance(v.args[0], ast.Lambda), f"{what}: tree_map arity")
    l = v.args[0]
    expect(len(l.args.args) == nargs and not l.args.defaults, f"{what}: lambda arity")
    return l, [U(a) for a in v.args[1:]]


def where3(v, what):
    expect(isinstance(v, ast.Call) and U(v.func) == "jnp.where" and len(v.args) == 3 and not v.keywords, f"{what}: expected jnp.where(c, a, b)")
    return v.args


def nan_to_inf(v, src, what):
    """jnp.where(jnp.isnan(<src>), jnp.inf, <src>)  ->  Gallina map over the loss list"""
    c, a, b = where3(v, what)
    expect(U(c) == f"jnp.isnan({src})", f"{what}: condition is {U(c)}")
    expect(U(a) == "jnp.inf", f"{what}: replacement is {U(a)}")
    expect(U(b) == src, f"{what}: else-branch is {U(b)}")
    return f"map (fun l => if is_nan l then PInf else num_of l) {src}"


def lt_cond(c, env, what):
    """a < b on (NaN-free) losses -> ltb a b ; any other comparison is translated to what it means"""
    expect(isinstance(c, ast.Compare) and len(c.ops) == 1, f"{what}: comparison")
    a, b = U(c.left), U(c.comparators[0])
    expect(a in env and b in env, f"{what}: operands {a}, {b}")
    a, b = env[a], env[b]
    op = type(c.ops[0])
    if op is ast.Lt: return f"(ltb {a} {b})"
    if op is ast.Gt: return f"(ltb {b} {a})"
    if op is ast.LtE: return f"(leb {a} {b})"
    if op is ast.GtE: return f"(leb {b} {a})"
    raise Unsupported(f"{what}: operator")


def translate_sample(t):
    f = find_func(t, None, "gaussian_samples")
    inner = [n for n in f.body if isinstance(n, ast.FunctionDef) and n.name == "sample"]
    expect(len(inner) == 1, "gaussian_samples: inner sample()")
    sf = inner[0]
    args = [a.arg for a in sf.args.args]
    expect(args == ["rng", "mean", "stdev", "u_min", "u_max"], f"sample args {args}")
    b = body_wo_doc(sf)
    expect(len(b) >= 2 and isinstance(b[-1], ast.Return), "sample: body")
    tgt, v = assign(b[0], "sample")
    expect(U(v) == "jax.random.normal(rng, mean.shape)", f"sample: noise is {U(v)}")
    noise = U(tgt)
    env = {"mean": "mean", "stdev": "stdev", "u_min": "u_min", "u_max": "u_max", noise: noise}
    lets = []
    for st in b[1:-1]:
        tg, v = assign(st, "sample")
        e = Expr(env, "O").tr(v)
        nm = U(tg); expect(nm.isidentifier(), "sample: target")
        lets.append(f"let {nm} := {e} in"); env[nm] = nm
    ret = Expr(env, "O").tr(b[-1].value)
    out = f"Definition gauss_src {{A}} (O : ops A) (mean stdev u_min u_max {noise} : A) : A :=\n  " + "\n  ".join(lets) + f"\n  {ret}.\n"
    # the tree_map that applies sample leaf-wise: operands in the order (rngs, mean, stdev, u_min, u_max)
    calls = [n for n in ast.walk(f) if isinstance(n, ast.Call) and U(n.func) == "jax.tree_util.tree_map"]
    expect(len(calls) == 1, "gaussian_samples: tree_map")
    l, ops = tree_map_call(calls[0], "gaussian_samples", 5)
    expect(ops == ["rngs", "state.mean", "state.stdev", "solver.u_min", "solver.u_max"], f"gaussian_samples operands {ops}")
    la = [a.arg for a in l.args.args]
    expect(U(l.body) == f"sample({', '.join(la)})", f"gaussian_samples lambda {U(l.body)}")
    rets = [n for n in f.body if isinstance(n, ast.Return)]
    tm = [n for n in f.body if isinstance(n, ast.Assign) and n.value is calls[0]]
    expect(len(rets) == 1 and len(tm) == 1 and U(rets[0].value) == U(tm[0].targets[0]), "gaussian_samples: return")
    return out


def translate_update(t):
    f = find_func(t, None, "cem_update_mean_stdev")
    args = [a.arg for a in f.args.args]
    expect(args == ["solver", "state", "samples", "losses"], f"cem_update_mean_stdev args {args}")
    b = body_wo_doc(f)
    expect(len(b) == 17, f"cem_update_mean_stdev: {len(b)} statements (expected 17)")
    out = []
    i = 0
    def nxt():
        nonlocal i
        st = b[i]; i += 1; return st
    tg, v = assign(nxt(), "smoothing"); sm = U(tg); expect(U(v) == "solver.evolution_smoothing", "evolution_smoothing")
    tg, v = assign(nxt(), "num_samples"); ns = U(tg); expect(U(v) == "solver.num_samples", "num_samples")
    tg, v = assign(nxt(), "num_elites"); ne = U(tg)
    expect(U(v) in (f"int({ns} * solver.elite_portion)", f"int(solver.elite_portion * {ns})"), f"num_elites is {U(v)}")
    tg, v = assign(nxt(), "nan->inf"); cl = U(tg)
    clean = nan_to_inf(v, "losses", "nan->inf")
    cl_coq = "cl" if cl == "losses" else cl
    tg, v = assign(nxt(), "elite_indices"); ei = U(tg)
    expect(isinstance(v, ast.Subscript) and isinstance(v.slice, ast.Slice) and v.slice.lower is None and v.slice.step is None
           and v.slice.upper is not None and U(v.slice.upper) == ne, f"elite_indices slice {U(v)}")
    expect(U(v.value) == f"jnp.argsort({cl})", f"elite_indices sorts {U(v.value)}")
    tg, v = assign(nxt(), "elite_samples"); es = U(tg)
    l, ops = tree_map_call(v, "elite_samples", 1)
    expect(ops == ["samples"] and U(l.body) == f"{l.args.args[0].arg}[{ei}]", f"elite_samples {U(v)}")
    tg, v = assign(nxt(), "new_mean"); nm = U(tg)
    l, ops = tree_map_call(v, "new_mean", 1)
    expect(ops == [es] and U(l.body) == f"jnp.mean({l.args.args[0].arg}, axis=0)", f"new_mean {U(v)}")
    tg, v = assign(nxt(), "new_stdev"); nsd = U(tg)
    l, ops = tree_map_call(v, "new_stdev", 1)
    expect(ops == [es] and U(l.body) == f"jnp.std({l.args.args[0].arg}, axis=0)", f"new_stdev {U(v)}")
    sm_defs = []
    upd = {}
    for (fld, new) in (("mean", nm), ("stdev", nsd)):
        tg, v = assign(nxt(), "updated_" + fld); upd[fld] = U(tg)
        l, ops = tree_map_call(v, "updated_" + fld, 2)
        expect(ops == [f"state.{fld}", new], f"updated_{fld} operands {ops}")
        a0, a1 = [a.arg for a in l.args.args]
        e = Expr({sm: "s", a0: "x", a1: "y"}, "O").tr(l.body)
        sm_defs.append(f"Definition smooth_{fld}_src {{A}} (O : ops A) (s x y : A) : A :=\n  {e}.\n")
    tg, v = assign(nxt(), "best_index"); bi = U(tg); expect(U(v) == f"{ei}[0]", f"best_index is {U(v)}")
    tg, v = assign(nxt(), "best_loss"); bl = U(tg); expect(U(v) == f"{cl}[{bi}]", f"best_loss is {U(v)}")
    tg, v = assign(nxt(), "best_sample"); bs = U(tg)
    l, ops = tree_map_call(v, "best_sample", 1)
    expect(ops == ["samples"] and U(l.body) == f"{l.args.args[0].arg}[{bi}]", f"best_sample {U(v)}")
    env = {"state.bestsofar_loss": "(best_loss state)", bl: "bl"}
    tg, v = assign(nxt(), "updated_bestsofar"); ub = U(tg)
    l, ops = tree_map_call(v, "updated_bestsofar", 2)
    expect(ops == ["state.bestsofar", bs], f"updated_bestsofar operands {ops}")
    a0, a1 = [a.arg for a in l.args.args]
    c, x, y = where3(l.body, "updated_bestsofar")
    pick = {a0: "(best state)", a1: "best_sample"}
    expect(U(x) in pick and U(y) in pick, "updated_bestsofar branches")
    ub_coq = f"if {lt_cond(c, env, 'updated_bestsofar')} then {pick[U(x)]} else {pick[U(y)]}"
    tg, v = assign(nxt(), "updated_bestsofar_loss"); ubl = U(tg)
    c, x, y = where3(v, "updated_bestsofar_loss")
    expect(U(x) in env and U(y) in env, "updated_bestsofar_loss branches")
    ubl_coq = f"if {lt_cond(c, env, 'updated_bestsofar_loss')} then {env[U(x)]} else {env[U(y)]}"
    tg, v = assign(nxt(), "updated_state"); us = U(tg)
    expect(isinstance(v, ast.Call) and U(v.func) == "state.replace" and not v.args, "state.replace")
    kw = {k.arg: U(k.value) for k in v.keywords}
    expect(kw == {"mean": upd["mean"], "stdev": upd["stdev"], "bestsofar": ub, "bestsofar_loss": ubl}, f"state.replace fields {kw}")
    r = nxt(); expect(isinstance(r, ast.Return) and U(r.value) == us, "return")
    out += sm_defs
    out.append(
        "Definition update_src (sqrtq : Q -> Q) (sm_mean sm_stdev : Q -> Q -> Q -> Q) (d num_elites : nat) (s : Q)\n"
        "    (state : cstate) (samples : list cand) (losses : list loss) : cstate :=\n"
        f"  let cl := {clean} in\n"
        "  let elite_indices := firstn num_elites (argsort cl) in\n"
        "  let elite_samples := map (fun i => nth i samples []) elite_indices in\n"
        "  let new_mean := fun k => qmean (col k elite_samples) in          (* per coordinate: jnp.mean(x, axis=0) *)\n"
        "  let new_stdev := fun k => sqrtq (qvar (col k elite_samples)) in   (* per coordinate: jnp.std(x, axis=0) *)\n"
        "  let best_index := nth 0 elite_indices 0%nat in\n"
        "  let bl := nth best_index cl PInf in\n"
        "  let best_sample := nth best_index samples [] in\n"
        "  {| mean := vec d (fun k => sm_mean s (at_ (mean state) k) (new_mean k));\n"
        "     stdev := vec d (fun k => sm_stdev s (at_ (stdev state) k) (new_stdev k));\n"
        f"     best := {ub_coq};\n"
        f"     best_loss := {ubl_coq} |}}.\n")
    return "\n".join(out)


def translate_init_state(t):
    f = find_func(t, "CEMSolver", "init_state")
    rets = [n for n in ast.walk(f) if isinstance(n, ast.Call) and U(n.func) == "CEMState"]
    expect(len(rets) == 1 and not rets[0].args, "init_state: CEMState(...)")
    kw = {k.arg: U(k.value) for k in rets[0].keywords}
    expect(kw == {"mean": "u_mean", "stdev": "u_stdev", "bestsofar": "u_mean", "bestsofar_loss": "jnp.inf"}, f"init_state fields {kw}")
    src = U(f)
    expect("u_mean = jax.tree_util.tree_map(lambda x: jnp.array(x), mean)" in src and
           "u_stdev = jax.tree_util.tree_map(lambda x: jnp.array(x), stdev)" in src, "init_state: u_mean / u_stdev")
    return ("Definition init_state_src (mean stdev : cand) : cstate :=\n  let u_mean := mean in let u_stdev := stdev in\n"
            "  {| Cem.mean := u_mean; Cem.stdev := u_stdev; best := u_mean; best_loss := PInf |}.\n")


def translate_cem_step(t):
    f = find_func(t, None, "cem_step")
    b = body_wo_doc(f)
    src = [U(s) for s in b]
    want = ["if rng is None:\n    rng = rnd.PRNGKey(0)",
            "rngs = jax.random.split(rng, num=solver.num_samples * 2)",
            "samples = eqx.filter_vmap(gaussian_samples, in_axes=(None, None, 0))(solver, state, rngs[:solver.num_samples])",
            "losses = eqx.filter_vmap(loss, in_axes=(0, None, 0))(samples, transform, rngs[solver.num_samples:])",
            "new_state = cem_update_mean_stdev(solver, state, samples, losses)",
            "return (new_state, losses)"]
    expect(src == want, f"cem_step body changed: {src}")
    g = find_func(t, None, "cem")
    inner = [n for n in g.body if isinstance(n, ast.FunctionDef)]
    expect(len(inner) == 1, "cem: inner step")
    ib = [U(s) for s in inner[0].body]
    expect(ib[0] == "i, _rngs = xs" and ib[1] == "new_state, losses = cem_step(loss, solver, _state, transform, _rngs)" and
           ib[-1] == "return (new_state, losses)", f"cem._cem_step changed: {ib[:2]} .. {ib[-1]}")
    gs = [U(s) for s in body_wo_doc(g)]
    expect(f"final_state, losses = jax.lax.scan({inner[0].name}, init_state, (jnp.arange(max_steps), rngs))" in gs and
           gs[-1] == "return (final_state, losses)", "cem: scan / return")
    return ("Definition step_src (sqrtq : Q -> Q) (sm : Q -> Q -> Q -> Q) (d N ne : nat) (s : Q) (lo hi : cand)\n"
            "    (noise : nat -> nat -> cand) (f : nat -> nat -> cand -> loss) (i : nat) (state : cstate) : cstate :=\n"
            "  let samples := map (fun j => gauss_sample d (mean state) (stdev state) lo hi (noise i j)) (seq 0 N) in\n"
            "  let losses := map (fun j => f i j (nth j samples [])) (seq 0 N) in\n"
            "  let new_state := update_src sqrtq sm sm d ne s state samples losses in\n"
            "  new_state.\n"
            "Fixpoint scan_src {St} (step : nat -> St -> St) (n : nat) (init_state : St) : St :=\n"
            "  match n with O => init_state | S n => step n (scan_src step n init_state) end.\n")


def translate_evo(t):
    f = find_func(t, None, "evo_step")
    b = body_wo_doc(f)
    expect(len(b) == 7, f"evo_step: {len(b)} statements (expected 7)")
    expect(U(b[0]) == "if rng is None:\n    rng = rnd.PRNGKey(0)", "evo_step: rng default")
    expect(U(b[1]) == "rngs = jax.random.split(rng, num=1 + solver.strategy.popsize)", "evo_step: rng split")
    tg, v = assign(b[2], "ask")
    expect(isinstance(tg, ast.Tuple) and len(tg.elts) == 2, "ask: targets")
    x, st1 = [U(e) for e in tg.elts]
    expect(U(v) == "solver.strategy.ask(rngs[0], state, solver.strategy_params)", f"ask call {U(v)}")
    tg, v = assign(b[3], "losses"); ls = U(tg)
    expect(U(v) == f"eqx.filter_vmap(loss, in_axes=(0, None, 0))({x}, transform, rngs[1:])", f"losses {U(v)}")
    tg, v = assign(b[4], "loss_nonan"); ln = U(tg)
    clean = nan_to_inf(v, ls, "evo nan->inf")
    tg, v = assign(b[5], "tell"); ns = U(tg)
    expect(isinstance(v, ast.Call) and U(v.func) == "solver.strategy.tell" and len(v.args) == 4 and not v.keywords, "tell call")
    a = [U(z) for z in v.args]
    expect(a[3] == "solver.strategy_params", "tell params")
    for nmx in (x, st1, ls, ln, ns): expect(nmx.isidentifier(), "evo_step names")
    expect(st1 == "state", "ask: state target")
    fin = b[6]
    expect(isinstance(fin, ast.If) and U(fin.test) == "logger is not None", "evo_step: logger branch")
    r1, r2 = fin.body[-1], fin.orelse[-1]
    expect(U(r1) == f"return (({ns}, new_logger), {ls})" and U(r2) == f"return (({ns}, None), {ls})", "evo_step: returns")
    out = ("Definition evo_step_src (ES : Type) (ask : nat -> ES -> list cand * ES) (tell : list cand -> list ext -> ES -> ES)\n"
           "    (f : nat -> nat -> cand -> loss) (i : nat) (state0 : ES) : ES :=\n"
           f"  let '({x}, state) := ask i state0 in\n"
           f"  let {ls} := map (fun j => f i j (nth j {x} [])) (seq 0 (length {x})) in\n"
           f"  let {ln} := {clean} in\n"
           f"  let {ns} := tell {a[0]} {a[1]} {a[2]} in\n"
           f"  {ns}.\n")
    # clip bounds handed to evosax
    g = find_func(t, "EvoSolver", "init")
    gs = [U(s) for s in body_wo_doc(g)]
    expect("clip_min = strategy.param_reshaper.flatten_single(u_min)" in gs and
           "clip_max = strategy.param_reshaper.flatten_single(u_max)" in gs, "EvoSolver.init: clip_min / clip_max")
    reps = [n for n in ast.walk(g) if isinstance(n, ast.Call) and U(n.func) == "strategy_params.replace"]
    expect(len(reps) == 1 and not reps[0].args, "EvoSolver.init: strategy_params.replace")
    kw = {k.arg: U(k.value) for k in reps[0].keywords}
    expect(set(kw) == {"clip_min", "clip_max"} and set(kw.values()) <= {"clip_min", "clip_max"}, f"EvoSolver.init: replace {kw}")
    expect(gs[-1] == "return cls(strategy_params=strategy_params, strategy=strategy, strategy_name=strategy_name)", "EvoSolver.init: return")
    out += ("Definition evo_clip_src {A} (u_min u_max : A) : A * A :=\n  let clip_min := u_min in let clip_max := u_max in\n"
            f"  ({kw['clip_min']}, {kw['clip_max']}).\n")
    # evo = scan of evo_step
    h = find_func(t, None, "evo")
    inner = [n for n in h.body if isinstance(n, ast.FunctionDef)]
    expect(len(inner) == 1, "evo: inner step")
    ib = [U(s) for s in inner[0].body]
    expect(ib[:4] == ["i, _rngs = xs", "_evo_state, _logger = _state",
                      "new_state, losses = evo_step(loss, solver, _evo_state, transform, _rngs, _logger)",
                      "new_evo_state, new_logger = new_state"] and ib[-1] == "return (new_state, losses)", "evo._evo_step changed")
    hs = [U(s) for s in body_wo_doc(h)]
    expect(f"final_state, losses = jax.lax.scan({inner[0].name}, (init_state, logger), (jnp.arange(max_steps), rngs))" in hs and
           hs[-1] == "return (*final_state, losses)", "evo: scan / return")
    return out


def translate(repo):
    t = parse(f"{repo}/rex/cem.py")
    e = parse(f"{repo}/rex/evo.py")
    out = [HEADER, "From Rex Require Import Cem.\n"]
    out.append(translate_sample(t))
    out.append(translate_update(t))
    out.append(translate_init_state(t))
    out.append(translate_cem_step(t))
    out.append(translate_evo(e))
    return "\n".join(out)
