"""C12 — generated and augmented graphs are well-formed and match the node configuration.

Correspondence between rex.artificial.generate_graphs / augment_graphs and the Gallina model coq/Generate.v.
generate_graphs draws every delay from `dist.replace(rng=key)`, so the delay streams are not known in advance: the model
is fed the delays *observed* in the produced graph (ts_end - ts_start, ts_recv - ts_end; these must be non-negative members
of the configured tables) and has to reproduce everything else: start times, seq masks, seq_out / seq_in / ts_recv masks,
padding length.  The property's edge clause (first receiver step at/after the arrival) is evaluated by an independent
Gallina specification (spec_edges) on the implementation's graph."""
import json, os
from fractions import Fraction
from math import lcm
from . import lib

HEADER = """From Coq Require Import List ZArith Bool.
From Rex Require Import Generate.
Import ListNotations.
Open Scope Z_scope.
Definition V (a b c : Z) := {| v_seq := a; v_start := b; v_end := c |}.
Definition E (a b c : Z) := {| e_out := a; e_in := b; e_recv := c |}.
Definition Nd (i p ph : Z) (ds : list Z) := {| n_id := i; n_P := p; n_phase := ph; n_ds := ds |}.
Definition Cn (o i : Z) (s : bool) (cs : list Z) := {| c_out := o; c_in := i; c_skip := s; c_cs := cs |}.
Definition encV (m : vmap) := map (fun kv => (fst kv, map (fun v => (v_seq v, v_start v, v_end v)) (snd kv))) m.
Definition encE (m : emap) := map (fun kv => (fst kv, map (fun e => (e_out e, e_in e, e_recv e)) (snd kv))) m.
(* case: (Some horizon -> generate | None -> augment_graphs, existing graph, nodes, connections, (T_all, periods)) *)
Definition run (c : option Z * graph * list nodecfg * list conncfg * (Z * list Z)) :=
  let '(oh, g0, nodes, conns, (tall, ps)) := c in
  let hor := match oh with Some h => h | None => aug_horizon (fst g0) end in
  let g := augment hor g0 nodes conns in
  let specs := map (fun c => match lookupE (c_out c, c_in c) (snd g0), lookupV (c_out c) (fst g), lookupV (c_in c) (fst g) with
                             | None, Some outs, Some ins => Some (spec_edges (c_skip c) hor outs (c_cs c) ins)
                             | _, _, _ => None end) conns in
  (hor, encV (fst g), encE (snd g), specs, map (num_steps tall) ps).
"""

RATES = [1, 2, 4, 8, 16, 32]
TICK = Fraction(1, 64)


# ---------------------------------------------------------------- configuration generation (pure python, ticks)
def gen_table(r, P, kind):
    """a delay table in ticks"""
    if kind == "zero": return [0]
    if kind == "const": return [r.randint(0, max(1, P))]
    if kind == "small": return [r.randint(0, max(1, P // 2)) for _ in range(r.randint(2, 4))]
    if kind == "overrun": return [r.choice([0, 1, P, P + r.randint(1, P + 2), 2 * P + 1]) for _ in range(r.randint(2, 5))]
    if kind == "overtake":  # consecutive delays dropping by more than a period: later messages arrive before earlier ones
        return [r.choice([0, 1, 2 * P + r.randint(0, 3), 3 * P, P]) for _ in range(r.randint(2, 5))]
    raise ValueError(kind)


def gen_config(r, tier, lattice=True):
    n = r.randint(2, 4 if tier == "quick" else 5)
    order = list(range(n)); r.shuffle(order)          # non-skipped connections follow this order: no un-skipped cycle
    nodes = []
    for i in range(n):
        rate = r.choice(RATES); P = 64 // rate
        kind = r.choice(["zero", "const", "small", "small", "overrun", "overrun"])
        nodes.append(dict(id=i, rate=rate, P=P, delay=r.randint(0, P), table=gen_table(r, P, kind), dkind="table"))
    conns = []
    pairs = [(a, b) for a in range(n) for b in range(n) if a != b]
    r.shuffle(pairs)
    for (o, i) in pairs[: r.randint(1, min(len(pairs), n + 2))]:
        forward = order.index(o) < order.index(i)
        skip = (not forward) or r.random() < 0.25
        Po = nodes[o]["P"]
        kind = r.choice(["zero", "const", "small", "overtake", "overtake", "trainable", "static"])
        c = dict(out=o, inp=i, skip=skip, delay=r.randint(0, Po), dkind="table")
        if kind == "trainable":
            mn = r.randint(0, 4); mx = mn + r.randint(1, 8)
            c.update(dkind="trainable", tmin=mn, tmax=mx, tdelay=r.randint(mn, mx), table=[mn])
        elif kind == "static":
            c.update(dkind="static", table=[r.randint(0, Po + 1)])
        else:
            c["table"] = gen_table(r, Po, kind)
        conns.append(c)
    T = r.choice([32, 48, 64, 64, 80, 96, 100, 128]) if tier == "quick" else r.choice([32, 50, 64, 96, 128, 160])
    if r.random() < 0.3:   # horizon exactly on a vertex boundary candidate
        T = r.choice([nd["P"] for nd in nodes]) * r.randint(2, 6)
    return dict(nodes=nodes, conns=conns, T=T, eps=r.choice([1, 1, 2, 3]), key=r.randint(0, 2 ** 31 - 1),
                key2=r.randint(0, 2 ** 31 - 1))


def gen_offlattice(r):
    cfg = gen_config(r, "quick")
    for nd in cfg["nodes"]:
        k = r.choice(["normal", "mixture", "table"])
        nd["dkind"] = k
        nd["par"] = [round(r.uniform(0.0, 0.08), 4), round(r.uniform(0.001, 0.03), 4), round(r.uniform(0.0, 0.2), 4), round(r.uniform(0.001, 0.05), 4),
                     round(r.uniform(0.1, 0.9), 3)]
    for c in cfg["conns"]:
        k = r.choice(["normal", "mixture", "mixture", c["dkind"]])
        c["dkind"] = k
        c["par"] = [round(r.uniform(0.0, 0.05), 4), round(r.uniform(0.001, 0.05), 4), round(r.uniform(0.0, 0.3), 4), round(r.uniform(0.001, 0.1), 4),
                    round(r.uniform(0.1, 0.9), 3)]
    cfg["offlattice"] = True
    return cfg


# ---------------------------------------------------------------- implementation side
_CLS = {}


def classes():
    if _CLS: return _CLS
    import jax, jax.numpy as jnp
    from flax import struct
    from rex.base import DelayDistribution
    from rex.node import BaseNode

    @struct.dataclass
    class TableDist(DelayDistribution):
        """table[(idx + key word + arange(n)) % len]: lattice-valued delays whatever rng the generator installs"""
        table: jax.Array
        idx: jax.Array
        rng: jax.Array

        @classmethod
        def create(cls, ticks):
            return cls(table=jnp.array([t / 64 for t in ticks], dtype=jnp.float32), idx=jnp.array(0, dtype=jnp.int32),
                       rng=jnp.zeros((2,), dtype=jnp.uint32))

        def reset(self, rng): return self.replace(idx=jnp.array(0, dtype=jnp.int32), rng=jnp.zeros((2,), dtype=jnp.uint32))

        def sample(self, shape=None):
            n = 1 if shape is None else (shape if isinstance(shape, int) else shape[0])
            off = (jnp.asarray(self.rng).reshape(-1)[-1] % self.table.shape[0]).astype(jnp.int32)
            ids = (self.idx + off + jnp.arange(n)) % self.table.shape[0]
            s = self.table[ids]
            if shape is None: s = s[0]
            return self.replace(idx=self.idx + n), s

        def quantile(self, q): return jnp.max(self.table)
        def mean(self): return jnp.mean(self.table)
        def pdf(self, x): return 0.0

    class PlainNode(BaseNode):
        def init_output(self, rng=None, graph_state=None): return jnp.zeros(())
        def step(self, step_state): return step_state, jnp.zeros(())

    _CLS.update(TableDist=TableDist, PlainNode=PlainNode)
    return _CLS


def make_dist(d):
    import distrax, jax.numpy as jnp
    from rex.base import StaticDist, TrainableDist
    k = d["dkind"]
    if k == "table": return classes()["TableDist"].create(d["table"])
    if k == "static": return StaticDist.create(distrax.Deterministic(loc=d["table"][0] / 64))
    if k == "trainable": return TrainableDist.create(delay=d["tdelay"] / 64, min=d["tmin"] / 64, max=d["tmax"] / 64)
    p = d["par"]
    if k == "normal": return StaticDist.create(distrax.Normal(loc=p[0], scale=p[1]))
    if k == "mixture":
        return StaticDist.create(distrax.MixtureSameFamily(
            mixture_distribution=distrax.Categorical(probs=jnp.array([p[4], 1 - p[4]])),
            components_distribution=distrax.Normal(loc=jnp.array([p[0], p[2]]), scale=jnp.array([p[1], p[3]]))))
    raise ValueError(k)


def build(cfg, node_ids, conn_idx):
    """fresh rex nodes for the sub-configuration (node ids, connection indices)"""
    N = classes()["PlainNode"]
    nodes = {}
    for i in node_ids:
        nd = cfg["nodes"][i]
        nodes[f"n{i}"] = N(f"n{i}", rate=nd["rate"], delay=nd["delay"] / 64, delay_dist=make_dist(nd))
    for j in conn_idx:
        c = cfg["conns"][j]
        nodes[f"n{c['inp']}"].connect(nodes[f"n{c['out']}"], delay=c["delay"] / 64, delay_dist=make_dist(c), skip=c["skip"])
    return nodes


def fr(x): return Fraction(float(x))


def graph_to_py(g, e):
    """episode e of a (batched) rex Graph -> (vertices {id: [(seq, start, end)]}, edges {(o, i): [(out, in, recv)]}) with
    exact Fractions for the times"""
    import numpy as onp
    V, Ed = {}, {}
    for n, v in g.vertices.items():
        s, a, b = onp.asarray(v.seq), onp.asarray(v.ts_start), onp.asarray(v.ts_end)
        if s.ndim == 2: s, a, b = s[e], a[e], b[e]
        V[int(n[1:])] = [(int(x), fr(y), fr(z)) for x, y, z in zip(s, a, b)]
    for (n1, n2), ed in g.edges.items():
        so, si, tr = onp.asarray(ed.seq_out), onp.asarray(ed.seq_in), onp.asarray(ed.ts_recv)
        if so.ndim == 2: so, si, tr = so[e], si[e], tr[e]
        Ed[(int(n1[1:]), int(n2[1:]))] = [(int(x), int(y), fr(z)) for x, y, z in zip(so, si, tr)]
    return V, Ed


def pad_like_record(g):
    """what Graph.stack / EpisodeRecord.to_graph produce for ragged episodes: masked entries carry -1 in every field"""
    import jax.numpy as jnp
    from rex.base import Graph, Vertex, Edge
    vs = {n: Vertex(seq=v.seq, ts_start=jnp.where(v.seq == -1, -1.0, v.ts_start), ts_end=jnp.where(v.seq == -1, -1.0, v.ts_end))
          for n, v in g.vertices.items()}
    es = {k: Edge(seq_out=e.seq_out, seq_in=jnp.where(e.seq_out == -1, -1, e.seq_in), ts_recv=jnp.where(e.seq_out == -1, -1.0, e.ts_recv))
          for k, e in g.edges.items()}
    return Graph(vertices=vs, edges=es)


def same_arrays(a, b):
    import numpy as onp
    a, b = onp.asarray(a), onp.asarray(b)
    return a.shape == b.shape and a.dtype == b.dtype and onp.array_equal(a, b)


# ---------------------------------------------------------------- one graph set: implementation run -> model jobs
class Rec:
    """picklable stand-in for the Check object inside worker processes"""
    def __init__(self): self.violations = []; self.traces_impl = 0
    def violation(self, sig, what, case): self.violations.append((sig, what, case))


def worker(cfgs):
    import sys
    if lib.REPO not in sys.path: sys.path.insert(0, lib.REPO)
    out = []
    for cfg in cfgs:
        rec = Rec(); jobs = []
        try:
            impl_graphset(rec, cfg, jobs)
        except Exception as e:  # noqa  (a crash of the harness itself: reported as broken, never silently dropped)
            import traceback
            out.append(dict(crash=traceback.format_exc()[-1500:], violations=rec.violations, jobs=[], traces=rec.traces_impl)); continue
        out.append(dict(violations=rec.violations, jobs=jobs, traces=rec.traces_impl))
    return out


def run_impl_parallel(chk, cases, workers):
    import concurrent.futures as cf, multiprocessing as mp
    chunks = [cases[i::workers] for i in range(workers)]
    res = [None] * len(cases)
    with cf.ProcessPoolExecutor(max_workers=workers, mp_context=mp.get_context("spawn")) as ex:
        futs = {ex.submit(worker, ch): w for w, ch in enumerate(chunks) if ch}
        for f in cf.as_completed(futs):
            w = futs[f]
            for k, r in enumerate(f.result()): res[w + k * workers] = r
    jobs = []
    for r in res:
        if r.get("crash"): chk.broke("harness-crash:worker", r["crash"])
        for (sig, what, case) in r["violations"]: chk.violation(sig, what, case)
        chk.traces_impl += r["traces"]
        jobs += r["jobs"]
    return jobs


def impl_graphset(chk, cfg, jobs):
    """runs generate_graphs (and, for cfg['aug'], augment_graphs) and appends model jobs (one per episode)"""
    import jax, numpy as onp, networkx as nx
    from rex import artificial, utils
    case = dict(repr=repr(cfg))
    aug = cfg.get("aug")
    all_nodes = list(range(len(cfg["nodes"]))); all_conns = list(range(len(cfg["conns"])))
    try:
        if aug is None:
            nodes = build(cfg, all_nodes, all_conns)
            phases = {i: fr(nodes[f"n{i}"].phase) for i in all_nodes}
            g = artificial.generate_graphs(nodes, ts_max=cfg["T"] / 64, rng=jax.random.PRNGKey(cfg["key"]), num_episodes=cfg["eps"])
            g0 = None; new_nodes, new_conns = all_nodes, all_conns
        else:
            base_nodes = build(cfg, aug["nodes"], aug["conns"])
            g0 = artificial.generate_graphs(base_nodes, ts_max=cfg["T"] / 64, rng=jax.random.PRNGKey(cfg["key"]), num_episodes=cfg["eps"])
            if aug.get("pad"): g0 = pad_like_record(g0)
            if aug.get("squeeze") and cfg["eps"] == 1: g0 = g0[0]
            if aug.get("trim1") and aug.get("squeeze") and cfg["eps"] == 1:
                # an existing node that stepped exactly once (e.g. a slow planner in a short record): its arrays have length 1. Only a node without existing
                # edges is trimmed, so the rest of the existing graph is untouched
                from rex import base as _rb
                used = {x for k in g0.edges for x in k}
                lone = [n for n in g0.vertices if n not in used]
                if lone:
                    n1 = lone[0]; v1 = g0.vertices[n1]
                    g0 = _rb.Graph(vertices={**g0.vertices, n1: _rb.Vertex(seq=v1.seq[:1], ts_start=v1.ts_start[:1], ts_end=v1.ts_end[:1])}, edges=g0.edges)
            nodes = build(cfg, all_nodes, all_conns)
            phases = {i: fr(nodes[f"n{i}"].phase) for i in all_nodes}
            g = artificial.augment_graphs(g0, nodes, rng=jax.random.PRNGKey(cfg["key2"]))
            new_nodes = [i for i in all_nodes if i not in aug["nodes"]]
            new_conns = [j for j in all_conns if j not in aug["conns"]]
    except Exception as e:  # noqa
        chk.violation(f"raises:{type(e).__name__}", f"generate/augment raised on a supported configuration: {str(e)[:300]}", case)
        return
    chk.traces_impl += 1
    # --- API-level checks that need no model: key sets, existing entries verbatim, shapes
    want_v = {f"n{i}" for i in all_nodes}
    want_e = {(f"n{cfg['conns'][j]['out']}", f"n{cfg['conns'][j]['inp']}") for j in all_conns}
    if set(g.vertices) != want_v or set(g.edges) != want_e:
        chk.violation("keyset", f"vertices/edges keys {sorted(g.vertices)} {sorted(g.edges)} differ from the node configuration", case)
        return
    if g0 is not None:
        for n, v in g0.vertices.items():
            w = g.vertices[n]
            if not (same_arrays(v.seq, w.seq) and same_arrays(v.ts_start, w.ts_start) and same_arrays(v.ts_end, w.ts_end)):
                chk.violation("augment-changed-existing-vertex", f"augment_graphs changed the existing vertices of {n}", case); return
        for k, ed in g0.edges.items():
            w = g.edges[k]
            if not (same_arrays(ed.seq_out, w.seq_out) and same_arrays(ed.seq_in, w.seq_in) and same_arrays(ed.ts_recv, w.ts_recv)):
                chk.violation("augment-changed-existing-edge", f"augment_graphs changed the existing edge {k}", case); return
    squeezed = onp.asarray(next(iter(g.vertices.values())).seq).ndim == 1
    if squeezed != bool(aug and aug.get("squeeze") and cfg["eps"] == 1):
        chk.violation("episode-dimension", "episode dimension of the result differs from that of the input", case); return
    neps = 1 if squeezed else onp.asarray(next(iter(g.vertices.values())).seq).shape[0]
    if neps != cfg["eps"]:
        chk.violation("episode-count", f"{neps} episodes returned, {cfg['eps']} requested", case); return
    for (n1, n2), ed in g.edges.items():
        if onp.asarray(ed.seq_out).shape != onp.asarray(g.vertices[n1].seq).shape:
            chk.violation("edge-shape", f"edge {(n1, n2)} does not have one entry per sender vertex", case); return
    for nm, arrs in [(n, (v.ts_start, v.ts_end)) for n, v in g.vertices.items()] + [(k, (ed.ts_recv,)) for k, ed in g.edges.items()]:
        if not all(onp.isfinite(onp.asarray(a)).all() for a in arrs):
            chk.violation("non-finite-timestamp", f"{nm}: a stored time stamp is inf/nan", case); return
    # --- per episode: networkx validation + acyclicity, then a model job
    eps_data = [graph_to_py(g, e) for e in range(neps)]
    if g0 is not None:
        tall = max(max(max(z for (_, _, z) in vs) for i, vs in V.items() if i in aug["nodes"]) for (V, _) in eps_data)
        tall = max(tall, Fraction(0))
    else:
        tall = Fraction(cfg["T"], 64)
    for e, (V, Ed) in enumerate(eps_data):
        ge = g if squeezed else g[e]
        try:
            G = utils.to_networkx_graph(ge, nodes, validate=True)
        except AssertionError as ex:
            chk.violation("networkx-validate", f"to_networkx_graph(validate=True) fails: {str(ex)[:200]}", dict(case, episode=e)); continue
        if not nx.is_directed_acyclic_graph(G):
            chk.violation("cyclic-graph", f"generated graph has a cycle: {nx.find_cycle(G)[:6]}", dict(case, episode=e)); continue
        nvalid = sum(1 for vs in V.values() for (s, _, _) in vs if s != -1)
        if G.number_of_nodes() != nvalid:
            chk.violation("networkx-vertex-count", f"{G.number_of_nodes()} networkx vertices, {nvalid} valid vertices", dict(case, episode=e)); continue
        jobs.append(dict(cfg=cfg, episode=e, V=V, E=Ed, phases=phases, new_nodes=new_nodes, new_conns=new_conns, tall=tall,
                         existing_nodes=(aug or {}).get("nodes", []), existing_conns=(aug or {}).get("conns", [])))


# ---------------------------------------------------------------- model job -> Coq term
def job_term(chk, job):
    """returns (term, scale) or None when an observed delay is already inadmissible (reported)"""
    cfg, V, Ed = job["cfg"], job["V"], job["E"]
    case = dict(repr=repr(cfg), episode=job["episode"])
    off = cfg.get("offlattice", False)
    vals = [y for vs in V.values() for (_, a, b) in vs for y in (a, b)] + [z for es in Ed.values() for (_, _, z) in es]
    vals += list(job["phases"].values()) + [job["tall"]]
    D = 64
    for x in vals: D = lcm(D, x.denominator)
    Z = lambda x: int(x * D)
    RZ = lambda x: -1 if x == -1 else int(x * D)     # ts_recv = -1 is the "never sent" sentinel, not a time
    if D != 64 and not off:
        chk.violation("off-lattice-time", f"a time stamp of a lattice configuration is not a multiple of 1/64 s (denominator {D})", case)
        return None
    nodes_t, conns_t, ps = [], [], []
    exist_v = {i: V[i] for i in job["existing_nodes"]}
    exist_e = {}
    for j in job["existing_conns"]:
        c = cfg["conns"][j]; exist_e[(c["out"], c["inp"])] = Ed[(c["out"], c["inp"])]
    if off:   # vertices are judged in float32 by check_vertices_float; the model only regenerates the edges from them
        exist_v = dict(V)
    for i in job["new_nodes"]:
        nd = cfg["nodes"][i]
        ds = [b - a for (_, a, b) in V[i]]
        if any(d < 0 for d in ds):
            chk.violation("negative-computation-delay", f"node n{i}: a vertex ends before it starts", case); return None
        if nd["dkind"] == "table" and not off:
            bad = [d for d in ds if d not in [t * TICK for t in nd["table"]]]
            if bad:
                chk.violation("computation-delay-not-sampled", f"node n{i}: ts_end - ts_start = {float(bad[0])} s is not a value of its delay table "
                              f"{nd['table']} (ticks of 1/64 s)", case); return None
        P = Fraction(1) / nd["rate"]
        nodes_t.append(f"Nd {i} {Z(P)} {Z(job['phases'][i])} {lib.listlit([lib.zlit(Z(d)) for d in ds])}")
        ps.append(Z(P))
    for j in job["new_conns"]:
        c = cfg["conns"][j]
        es = Ed[(c["out"], c["inp"])]; outs = V[c["out"]]
        cs = []
        for (sq, a, b), (so, si, tr) in zip(outs, es):
            if sq == -1: cs.append(Fraction(0)); continue          # unsent: no delay observable, none needed
            cs.append(tr - b)
        sent = [x for x, (sq, _, _) in zip(cs, outs) if sq != -1]
        if any(x < 0 for x in sent):
            chk.violation("negative-communication-delay", f"connection {c['out']}->{c['inp']}: a message is received before it was sent", case)
            return None
        if not off:
            tab = [t * TICK for t in c["table"]]
            ks = [k for k, (sq, _, _) in enumerate(outs) if sq != -1]
            # TableDist.sample(shape=n) returns a cyclic run of the table: delay of message k is table[(o + k) % len]
            ok = any(all(cs[k] == tab[(o + k) % len(tab)] for k in ks) for o in range(len(tab)))
            if not ok:
                chk.violation("communication-delay-not-sampled", f"connection {c['out']}->{c['inp']}: ts_recv - ts_end = "
                              f"{[float(x * 64) for x in sent][:8]} ticks is not a run of its delay table {c['table']}", case); return None
        conns_t.append(f"Cn {c['out']} {c['inp']} {lib.boollit(c['skip'])} {lib.listlit([lib.zlit(Z(x)) for x in cs])}")
    def vl(vs): return lib.listlit([f"V {lib.zlit(s)} {lib.zlit(Z(a))} {lib.zlit(Z(b))}" for (s, a, b) in vs])
    def el(es): return lib.listlit([f"E {lib.zlit(o)} {lib.zlit(i)} {lib.zlit(RZ(t))}" for (o, i, t) in es])
    g0 = "(" + lib.listlit([f"({lib.zlit(i)}, {vl(vs)})" for i, vs in sorted(exist_v.items())]) + ", " + \
         lib.listlit([f"(({lib.zlit(o)}, {lib.zlit(i)}), {el(es)})" for (o, i), es in sorted(exist_e.items())]) + ")"
    if off: nodes_t, ps = [], []
    hor = "None" if (cfg.get("aug") is not None) else f"(Some {lib.zlit(Z(Fraction(cfg['T'], 64)))})"
    term = f"({hor}, {g0}, {lib.listlit(nodes_t)}, {lib.listlit(conns_t)}, ({lib.zlit(-(-job['tall'] * D // 1))}, {lib.listlit([lib.zlit(p) for p in ps])}))"
    return term, D


def check_vertices_float(chk, job):
    """off-lattice runs: the vertex recurrence replayed in float32 (the model computes in exact arithmetic)"""
    import numpy as onp
    cfg, V = job["cfg"], job["V"]
    case = dict(repr=repr(cfg), episode=job["episode"])
    f32 = onp.float32
    T = f32(cfg["T"] / 64)
    for i in job["new_nodes"]:
        nd = cfg["nodes"][i]; vs = V[i]
        per = f32(1 / nd["rate"])
        if len(vs) != -(-cfg["T"] * nd["rate"] // 64) + 1:
            chk.violation("num-steps", f"node n{i}: {len(vs)} vertices, expected ceil(ts_max*rate)+1", case); return False
        if vs[0][1] != job["phases"][i]:
            chk.violation("model-mismatch:vertex:ts_start", f"node n{i} does not start at its phase", case); return False
        for k, (s, a, b) in enumerate(vs):
            a32, b32 = f32(float(a)), f32(float(b))
            if b < a: chk.violation("negative-computation-delay", f"node n{i} vertex {k} ends before it starts", case); return False
            if s != (-1 if b32 > T else k):
                chk.violation("model-mismatch:vertex:seq", f"node n{i} vertex {k}: seq {s}, ts_end {float(b)}, horizon {float(T)}", case); return False
            if k + 1 < len(vs):
                want = max(b32, f32(a32 + per)); got = f32(float(vs[k + 1][1]))
                if abs(float(want) - float(got)) > 1e-6 * max(1.0, abs(float(want))):
                    chk.violation("model-mismatch:vertex:ts_start", f"node n{i} vertex {k + 1}: ts_start {float(got)} != max(ts_end, ts_start + 1/rate) = "
                                  f"{float(want)}", case); return False
    return True


# ---------------------------------------------------------------- comparison
def compare(chk, job, res, D):
    cfg, V, Ed = job["cfg"], job["V"], job["E"]
    case = dict(repr=repr(cfg), episode=job["episode"])
    off = cfg.get("offlattice", False)
    hor, mv, me, specs, nums = res
    MV = {k: v for (k, v) in mv}; ME = {(o, i): v for (o, i, v) in me}
    feats = set()
    ok = True
    if not off:
        for i, n in zip(job["new_nodes"], nums):
            if len(V[i]) != n:
                chk.violation("num-steps", f"node n{i}: {len(V[i])} vertices, the model pads to ceil(ts_max*rate)+1 = {n}", case); ok = False
        for i in job["new_nodes"]:
            for k, ((s, a, b), (ms, ma, mb)) in enumerate(zip(V[i], MV[i])):
                for fld, x, y in (("seq", s, ms), ("ts_start", int(a * D), ma), ("ts_end", int(b * D), mb)):
                    if x != y and ok:
                        chk.violation(f"model-mismatch:vertex:{fld}", f"node n{i} vertex {k}: {fld} = {x} (implementation, 1/{D} s) vs {y} (model); "
                                      f"phase {float(job['phases'][i])}, period {cfg['nodes'][i]['P']} ticks", case); ok = False
            nd = cfg["nodes"][i]; vs = V[i]
            if any(b - a > Fraction(1, nd["rate"]) for (_, a, b) in vs): feats.add("overrun")
            if any(s == -1 for (s, _, _) in vs): feats.add("masked-vertex")
            if vs and vs[-1][0] != -1: feats.add("last-vertex-valid")
            if any(b == Fraction(cfg["T"], 64) for (_, _, b) in vs): feats.add("ends-exactly-at-horizon")
            if any(b == a for (_, a, b) in vs): feats.add("zero-duration")
    for j, sp in zip(job["new_conns"], specs):
        c = cfg["conns"][j]; key = (c["out"], c["inp"])
        es = Ed[key]; ms = ME[key]; outs = V[c["out"]]; ins = V[c["inp"]]
        if sp is None or len(ms) != len(es):
            chk.broke("model-evaluation", f"no model edges for {key}"); return
        sp = sp[1] if isinstance(sp, tuple) and sp and sp[0] == "Some" else sp
        starts = [a for (_, a, _) in ins]
        for k, ((so, si, tr), (mo, mi, mr)) in enumerate(zip(es, ms)):
            for fld, x, y in (("seq_out", so, mo), ("seq_in", si, mi), ("ts_recv", -1 if tr == -1 else int(tr * D), mr)):
                if x != y and ok:
                    chk.violation(f"model-mismatch:edge:{fld}", f"connection {key} (skip={c['skip']}) message {k}: {fld} = {x} (implementation) vs "
                                  f"{y} (model); receiver starts {[float(t * 64) for t in starts][:12]} ticks", case); ok = False
        # the property's clause, by the independent specification
        for k, ((so, si, tr), want) in enumerate(zip(es, sp)):
            if si != want and ok:
                earlier = [es[m][2] for m in range(k) if outs[m][0] != -1]
                overtaken = any(t > tr for t in earlier)
                sig = "overtaken-message-not-first-step" if overtaken else "message-not-first-step"
                chk.violation(sig, f"connection {key} (skip={c['skip']}): message {k} arrives at {float(tr * 64)} ticks and is assigned to receiver "
                              f"step {si}, but the first step starting at{'' if not c['skip'] else ' strictly after'}/after its arrival is {want}"
                              + ("; an earlier message arrives later (overtaking)" if overtaken else ""),
                              dict(case, connection=list(key), message=k, minimal=minimal_f6(cfg, key, k) if overtaken else None))
                if not overtaken: ok = False
                break
        recvs = [tr for (so, _, tr), (sq, _, _) in zip(es, outs) if sq != -1]
        if any(recvs[m] > recvs[m + 1] for m in range(len(recvs) - 1)): feats.add("overtaking")
        if any(tr in starts for tr in recvs): feats.add("skip-tie" if c["skip"] else "arrival-tie")
        if c["skip"]: feats.add("skip")
        if any(so != -1 and si == -1 for (so, si, _) in es): feats.add("sent-not-received")
        sis = [si for (_, si, _) in es if si != -1]
        if len(sis) != len(set(sis)): feats.add("several-messages-one-step")
        if c["dkind"] == "trainable": feats.add("trainable")
        if c["dkind"] in ("normal", "mixture"): feats.add(c["dkind"])
    if cfg.get("aug"):
        feats.add("augment")
        if cfg["aug"].get("pad"): feats.add("augment-padded-existing")
        if cfg["aug"].get("squeeze") and cfg["eps"] == 1: feats.add("augment-unbatched")
        if any(cfg["conns"][j]["out"] in cfg["aug"]["nodes"] and cfg["conns"][j]["inp"] in cfg["aug"]["nodes"] for j in job["new_conns"]):
            feats.add("augment-edge-between-existing")
    if cfg["eps"] > 1: feats.add("multi-episode")
    if off: feats.add("off-lattice")
    return feats


def minimal_f6(cfg, key, k):
    return ("two nodes at 1 Hz-scale rates, sender delay table with a drop of more than one sender period between consecutive messages "
            "(e.g. communication delays [3 periods, 0]): the second message arrives first but is assigned at/after the step of the first")


# ---------------------------------------------------------------- run
def gen_cases(chk, n_gen, n_aug, n_off):
    r = chk.rnd
    cases = []
    for _ in range(n_gen): cases.append(gen_config(r, chk.tier))
    for _ in range(n_aug):
        cfg = gen_config(r, chk.tier)
        n = len(cfg["nodes"])
        keep = sorted(r.sample(range(n), r.randint(1, n)))       # existing nodes (possibly all: only edges are added)
        inner = [j for j, c in enumerate(cfg["conns"]) if c["out"] in keep and c["inp"] in keep]
        kc = [j for j in inner if r.random() < 0.6]
        cfg["aug"] = dict(nodes=keep, conns=kc, pad=r.random() < 0.35, squeeze=r.random() < 0.5)
        cfg["aug"]["trim1"] = cfg["aug"]["squeeze"] and not cfg["aug"]["pad"]
        if len(cases) == n_gen:
            # the first augment case of every run: an un-batched existing graph made of a single node that stepped exactly once
            cfg["eps"] = 1; cfg["aug"] = dict(nodes=keep[:1], conns=[], pad=False, squeeze=True, trim1=True)
        cases.append(cfg)
    for _ in range(n_off): cases.append(gen_offlattice(r))
    return cases


def run(chk, replay=None):
    chk.stage_proofs(kernels=["GenGraph"])
    quick = chk.tier == "quick"
    if replay:
        rp = json.load(open(replay)); cases = [eval(rp["case"]["repr"], {"Fraction": Fraction})]
    else:
        cases = fixed_cases() + (gen_cases(chk, 14, 10, 4) if quick else gen_cases(chk, 110, 80, 30))
    jobs = run_impl_parallel(chk, cases, 1 if replay else 6)
    terms, kept = [], []
    for job in jobs:
        if job["cfg"].get("offlattice") and not check_vertices_float(chk, job): continue
        t = job_term(chk, job)
        if t is None: continue
        terms.append(t[0]); kept.append((job, t[1]))
    results = lib.coq_eval_sharded("C12", HEADER, "run", terms, per=12 if quick else 25) if terms else []
    for (job, D), res in zip(kept, results):
        feats = compare(chk, job, res, D)
        if feats is None: continue
        chk.case((repr(job["cfg"]), job["episode"]), sorted(feats),
                 dict(nodes=[(nd["rate"], nd["table"]) for nd in job["cfg"]["nodes"]],
                      conns=[(c["out"], c["inp"], c["skip"], c["dkind"], c.get("table")) for c in job["cfg"]["conns"]],
                      horizon_ticks=job["cfg"]["T"], episodes=job["cfg"]["eps"], augment=job["cfg"].get("aug")))
    chk.extra["rule"] = ("random node sets (2-5 nodes, rates 1..32 Hz, computation-delay tables with zero / overrun entries), random connection "
                         "sets (skip only where needed plus 25%, delay tables with ties and overtaking, static Deterministic, trainable), horizons "
                         "incl. exact vertex boundaries, 1-3 episodes, random keys; augment cases keep a random subset of nodes / connections as "
                         "the existing graph (optionally -1 padded like stacked records, optionally unbatched). A case is one episode of one "
                         "graph set; non-trivial when it shows an overrun, masked vertex, tie, skip, overtaking, unreceived message, several "
                         "messages on one step, augmentation or several episodes. Off-lattice cases (Normal / mixture) check vertices in float32 "
                         "and edges through the model on exactly scaled integers.")
    chk.trusted += ["harness TableDist (lattice-valued DelayDistribution subclass with an rng field)",
                    "networkx.is_directed_acyclic_graph on rex.utils.to_networkx_graph(validate=True)"]
    chk.notes += ["times are multiples of 1/64 s in the lattice stream (exact in float32); off-lattice floats are converted to exact rationals "
                  "and scaled to integers for the edge clauses; the float32 vertex recurrence is replayed with tolerance 1e-6",
                  "computation-delay streams are not predictable (fresh dist.replace(rng=key) per step): the model is fed the observed "
                  "delays, which must be non-negative table members; communication delays must form a cyclic run of the table"]


def fixed_cases():
    """hand-written boundary cases that run first"""
    def nd(i, rate, table, delay=0): return dict(id=i, rate=rate, P=64 // rate, delay=delay, table=table, dkind="table")
    def cn(o, i, skip, table, delay=0): return dict(out=o, inp=i, skip=skip, delay=delay, dkind="table", table=table)
    return [
        # exact ties on a skipped and an un-skipped connection, everything zero-delay, horizon on a boundary
        dict(nodes=[nd(0, 4, [0]), nd(1, 8, [0])], conns=[cn(0, 1, False, [0]), cn(1, 0, True, [0])], T=64, eps=1, key=1, key2=2),
        # overtaking communication delays (F6): delays 40, 0 ticks alternate at a 16-tick sender period
        dict(nodes=[nd(0, 4, [1]), nd(1, 8, [1])], conns=[cn(0, 1, False, [40, 0])], T=96, eps=2, key=5, key2=6),
        # overruns: computation delay longer than the period
        dict(nodes=[nd(0, 8, [20, 1, 9]), nd(1, 4, [3])], conns=[cn(0, 1, False, [2]), cn(1, 0, True, [1, 5])], T=100, eps=1, key=7, key2=8),
    ]
