"""Child process of the C18 check: runs cem_step / cem / evo_step / evo end to end (harness.c18.run_cem / run_evo, host-side loss)
under the JAX configuration given by the environment (family (E): JAX_ENABLE_X64=1, i.e. float64 candidates and losses).
usage: c18_worker.py   (cases as a JSON list on stdin, one result per case as a JSON list on stdout after the marker line)
Floats travel as JSON numbers (python's repr round-trips every float64; NaN / Infinity are python's JSON extensions)."""
import json, os, sys

VERIF = os.path.dirname(os.path.dirname(os.path.abspath(__file__)))
sys.path.insert(0, VERIF)
sys.path.insert(0, os.environ.get("VERIF_REPO", "/repo"))
MARK = "@@C18-WORKER-RESULT@@"


def main():
    from fractions import Fraction
    import numpy as onp
    import jax
    from harness import c18
    cases = [eval(s, dict(Fraction=Fraction)) for s in json.load(sys.stdin)]
    out = []
    for c in cases:
        try:
            if c["solver"] == "cem":
                states, calls, ret = c18.run_cem(c); clip = None
            else:
                states, calls, clip = c18.run_evo(c); ret = None
            out.append(dict(states=states, calls=[[X.tolist(), L.tolist()] for X, L in calls],
                            loss_dtype=sorted({str(L.dtype) for _, L in calls}),
                            ret=None if ret is None else [onp.asarray(l).tolist() for l in ret], clip=clip))
        except Exception as e:  # noqa
            out.append(dict(error=f"{type(e).__name__}: {str(e)[:300]}"))
    sys.stdout.write("\n" + MARK + "\n" + json.dumps(dict(x64=bool(jax.config.jax_enable_x64), results=out)) + "\n")


if __name__ == "__main__":
    main()
