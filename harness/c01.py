"""C01 — compiled replay reproduces the recorded asynchronous execution step for step."""
import random
from . import lib, asynclib as al, compiledlib as cl, c07

COMBOS = [(m, p) for m in ("MCS", "GEN", "TOPO") for p in (True, False)]


def run(chk, replay=None):
    chk.stage_proofs(kernels=["Async"])
    quick = chk.tier == "quick"
    r = chk.rnd
    ng = 4 if quick else 24
    jobs = []
    for g in range(ng):
        rnd = random.Random(r.getrandbits(32))
        cfg = cl.gen_cfg_async(rnd, max_nodes=3 if quick else 4)
        ne = 2 if quick else rnd.choice([1, 2, 3])
        steps = [max(3, cfg["steps"] - 2 * i) for i in range(ne)]
        if g % 4 == 2:
            # a node that runs 8-16 times between two supervisor steps
            names = sorted(cfg["nodes"]); sup = cfg["sup"]
            fast = next(n for n in names if n != sup)
            cfg["nodes"][sup]["period"] = 32; cfg["nodes"][fast]["period"] = 2
            cfg["nodes"][fast]["delays"] = [0, 1, 1, 2, 5]; cfg["nodes"][sup]["delays"] = [min(d, 20) for d in cfg["nodes"][sup]["delays"]]
            steps = [3 for _ in range(ne)]
        if g % 2 == 1:
            # short episodes with wide windows: entries still unfilled (negative seq = default output) when the horizon ends
            steps = [rnd.choice([3, 4, 5]) for _ in range(ne)]
            for c in cfg["conns"].values(): c["window"] = 3
        vary = False
        if g % 4 == 0:
            # more recorded episodes than supervisor steps per episode: every episode is replayed with ITS OWN slice of the timings (no confusion of the
            # episode axis with the step axis)
            ne = 5; steps = [3, 3, 4, 3, 3]; vary = True
        if g % 4 == 3:
            # nodes that adapt their own params in step(): the returned step state (params included) is what the node's next step starts from in BOTH runtimes
            # (the models have no params: these graphs are compared runtime against runtime only)
            cfg["adaptive_params"] = True
        combos = [COMBOS[(2 * g + chk.seed + i) % 6] for i in range(2)] if quick else COMBOS
        seed = rnd.getrandbits(16)
        for (m, p) in combos:
            jobs.append(dict(id=f"{g}:{m}:{int(p)}", cfg=cfg, source="async", steps=steps, episodes=ne, mode=m, prune=p, seed=seed, vary_eps_rng=vary))
    res = cl.run_jobs(jobs, nproc=8 if quick else 12, per_job_timeout=400)
    insts = []; meta = []
    for j in jobs:
        rr = res.get(j["id"], dict(error="MISSING")); cfg = j["cfg"]
        case = dict(cfg=cfg, mode=j["mode"], prune=j["prune"], seed=j["seed"], steps=j["steps"])
        key = (repr(cfg), j["mode"], j["prune"])
        if "error" in rr or "graph_error" in rr:
            e = rr.get("error") or rr.get("graph_error")
            if e.startswith("RecursionError") or "no nodes in the partition" in e or "tree_map()" in e or "record_unavailable" in e:
                chk.feat("rejected-or-unavailable"); continue
            chk.case(key, ["error"], None)
            zero = any(0 in nd["delays"] for nd in cfg["nodes"].values())
            sig = ("graph-construction-fails:noprune+zero-duration" if ("graph_error" in rr and not j["prune"] and zero) else "replay-pipeline-fails:" + e.split(":")[0])
            import re
            m = re.fullmatch(r"KeyError:'(\w+)'", e.strip())
            if "graph_error" in rr and m and m.group(1) in cfg["nodes"]: sig = "graph-construction-fails:node-without-supergraph-slot"
            chk.violation(sig, f"{e[:300]}", dict(case, tb=rr.get("tb", "")[-800:])); continue
        feats = [j["mode"], "prune" if j["prune"] else "noprune", f"episodes={len(j['steps'])}"] + al.features(cfg)
        chk.case(key, feats, case if len(chk.samples) < 2 else None)
        names = sorted(cfg["nodes"]); cn = list(cfg["conns"])
        for e, ep in enumerate(rr["episodes"]):
            chk.traces_impl += 1
            arec = rr["async_records"][e]
            if "error" in arec: chk.feat("async-record-unavailable"); continue
            if ep.get("final", {}).get("eps") != e:
                chk.violation("replay-runs-another-episode", f"init(starting_eps={e}) + rollout ends with eps = {ep.get('final', {}).get('eps')}: episode {e} of the {len(rr['episodes'])} "
                              f"recorded episodes is replayed with another episode's slice of the compiled timings", case)
            if "rows" not in ep: chk.feat("init_record-unavailable"); continue
            nrows = 0
            for n in names:
                if n not in ep["rows"]: continue      # pruned from the compiled graph: never runs, no record
                a = arec["rows"][n]; c = ep["rows"][n]
                for k in range(len(c["seq"])):
                    sq = c["seq"][k]
                    if sq < 0: continue
                    nrows += 1
                    if sq >= len(a["seq"]):
                        chk.violation("replay-executes-unrecorded-step", f"episode {e}: compiled runtime executed {n}[{sq}] which the recording does not contain", case); break
                    def W(w): return {m: [[max(x[0], -1)] + (x[1:] if x[0] >= 0 else [0, 0, x[3]]) for x in v] for m, v in w.items()}
                    got = dict(seq=sq, ts=c["start"][k], rng=c["rng"][k], state=c["state"][k], wins=W(c["wins"][k]) if "wins" in c else {}, out=c["out"][k])
                    want = dict(seq=a["seq"][sq], ts=a["start"][sq], rng=a["rng"][sq], state=a["state"][sq], wins=W(a["wins"][sq]) if "wins" in a else {}, out=a["out"][sq] if sq < len(a["out"]) else None)
                    if want["out"] is None: got["out"] = None   # the supervisor's last recorded tick was skipped at stop: no output recorded
                    if got != want:
                        fld = next(f for f in got if got[f] != want[f])
                        chk.violation(f"replay-differs:{fld}", f"episode {e} {n}[{sq}] ({j['mode']}, prune={j['prune']}): field {fld}: compiled {got[fld]} recorded {want[fld]}", case); break
                    # next state: state before step k+1 in the async record = this step's output (probe: state' = output)
            if nrows == 0: chk.feat("empty-horizon")
            insts.append((rr["insts"][e], names, cn, cfg)); meta.append((j, rr, e, case))
    if insts:
        for (j, rr, e, case), m in zip(meta, cl.run_model(insts)):
            if m["check"] != 1: chk.violation("check_schedule-rejects", f"episode {e}: check_schedule rejects rex's Timings of the recorded graph", case)
            if m.get("checkreplay") != 1:
                chk.violation("replay-not-a-dataflow-solution", f"episode {e}: check_replay (hypothesis of C01_replay_unique) rejects rex's Timings / ring sizes: "
                              "some executed row does not take its state or a window payload from the scheduled producer, or a vertex is executed twice", case)
            else: chk.feat("check_replay-accepts")
            # the remaining decidable hypotheses of C01_replay_reproduces_async_export / C08_buffer_sufficient on rex's own Timings (informative: where
            # they do not hold the theorem is silent and the verdict rests on check_replay + the row comparison alone)
            chk.feat("sched_ok-accepts" if m.get("schedok") == 1 else "sched_ok-rejects")
            chk.feat("extra_ok-accepts" if m.get("extraok") == 1 else "extra_ok-rejects")
            # the hypotheses of the final capstone C01_compiled_replay_closed about things outside the models, evaluated on this instance: the partitioner's
            # contract (check_mono, tmpl_ok, sup_covered on Graph._Gs_monomorphism), to_timings(model) = rex's Timings, windows >= 1, ring sizes >= buffer_need
            if m.get("nmono", 0) > 0:
                ring_ok = all(m["need"].get(c, 0) <= rr["ring"].get(cc["out"], 1) for c, cc in j["cfg"]["conns"].items()) if rr.get("ring") else False
                full = (m.get("checkmono") == 1 and m.get("tmplok") == 1 and m.get("supcov") == 1 and m.get("ttmatch") == 1 and ring_ok
                        and all(cc["window"] >= 1 for cc in j["cfg"]["conns"].values()))
                chk.feat("final-capstone-hypotheses-hold" if full else
                         f"final-capstone-hypotheses:mono={m.get('checkmono')},tmpl={m.get('tmplok')},sup={m.get('supcov')},ttmatch={m.get('ttmatch')},ring={int(ring_ok)}")
                if full and (m.get("check") != 1 or m.get("extraok") != 1 or m.get("schedok") != 1 or m.get("checkreplay") != 1):
                    chk.broke("SchedOk.compiled_replay_closed(derived checks)", f"episode {e}: the partitioner contract holds and to_timings matches, but a derived check rejects: "
                              f"check_schedule={m.get('check')} extra_ok={m.get('extraok')} sched_ok={m.get('schedok')} check_replay={m.get('checkreplay')}")
            if j["cfg"].get("adaptive_params"): chk.feat("adaptive-params(runtime-vs-runtime only)"); continue
            d = cl.compare_rows(j["cfg"], rr["episodes"][e], m)
            if d: chk.broke("correspondence:M3-vs-Graph", f"{d} | job={j['id']}")
    chk.extra["rule"] = ("lattice graphs with probe nodes (all connection policies) are run for 1-3 episodes of different lengths by the threaded runtime with "
                         "full recording, converted with ExperimentRecord.to_graph(), compiled (quick: 2 of the 6 mode x prune combinations per graph, rotated "
                         "by seed; thorough: all 6) and replayed from the same per-node rng/state; every executed compiled row is compared with the recorded "
                         "async row (seq, ts, rng words, state, windows incl. payloads, output); non-trivial = boundary feature; distinct by (graph, mode, prune)")
    chk.notes += ["equality is established on the 1/64 s lattice; off it the claim holds up to float rounding of round(.,6) / float32 ts (DESIGN 9)"]
