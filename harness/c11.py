"""C11 — interpolated delays: correspondence between rex.base.TrainableDist.apply_delay (linear / linear_real_only) and the
Gallina model Interp.v evaluated over Q inside Coq, jax.grad w.r.t. alpha against the model's exact difference quotient,
and the zero-order-hold coincidence clause checked on the implementation itself."""
import json
from fractions import Fraction as F
from . import lib

HEADER = """From Coq Require Import List ZArith QArith Bool.
From Rex Require Import Ops Interp.
Import ListNotations.
Open Scope Q_scope.
Definition enc (q : Q) : Z * Z * Z := let r := Qred q in (Qnum r, Zpos (Qden r), trunc q).
(* instrumentation only: width of the segment jnp.interp divides by (0 = clamp / dx == 0 branch) *)
Fixpoint interp_dx (x : Q) (pts : list (Q * Q)) : Q :=
  match pts with
  | [] => 0
  | (x0, y0) :: rest =>
      match rest with
      | [] => 0
      | (x1, y1) :: rest' =>
          if Qltb x x0 then 0 else if Qltb x x1 then x1 - x0
          else match rest' with
               | [] => if Qltb x1 x then 0 else if Qeq_bool x0 x1 then 0 else x1 - x0
               | _ => interp_dx x rest end
      end
  end.
Definition encd (q : Q) : Z * Z := let r := Qred q in (Qnum r, Zpos (Qden r)).
Definition mk (r : Z * Q * Q) : ent := let '(s, a, b) := r in {| e_seq := s; e_sent := a; e_recv := b |}.
Definition outs ro d t w es fps := map (fun fp => map enc (apply_linear ro d t w es fp)) fps.
Definition run (c : bool * (Q * Q * Q) * Q * nat * list (Z * Q * Q) * list (list Q) * Q) :=
  let '(ro, (mn, mx, a), t, w, raw, fps, h) := c in
  let es := map mk raw in
  let d := delay mn mx a in
  let std := [map (fun e => inject_Z (e_seq e)) es; map e_sent es; map (recv_d d) es] in
  let dxs := map (fun x => encd (interp_dx x (knots ro d es (map e_sent es)))) (queries ro d t w es) in
  (* exact symmetric difference quotient in alpha of the first data leaf, with the local-affinity test *)
  let g := match fps with
           | fp :: _ =>
               let o0 := apply_linear ro d t w es fp in
               let op := apply_linear ro (delay mn mx (a + h)) t w es fp in
               let om := apply_linear ro (delay mn mx (a - h)) t w es fp in
               map (fun '(x0, (xp, xm)) => (Qeq_bool (xp - x0) (x0 - xm), encd ((xp - xm) / (2 * h)))) (combine o0 (combine op om))
           | [] => [] end in
  (Z.of_nat (start d t w es), outs ro d t w es (std ++ fps), dxs, g).
"""

TICK = F(1, 64)
H = F(1, 4096)


# ---------------------------------------------------------------- generation
def gen_configs(r, m):
    """array-shape configurations (window, extension, float leaf shape, int leaf shape); few of them per run, because every
    new shape costs an XLA compilation of the eagerly dispatched primitives"""
    base = [(1, 1, (), ()), (2, 1, (2,), ()), (2, 2, (), (2,)), (3, 1, (2, 2), ()), (4, 3, (3,), (2,)), (1, 2, (2, 3), (2, 2)),
            (3, 2, (), ()), (4, 1, (2,), (2,))]
    out = list(base)
    while len(out) < m:
        out.append((r.choice([1, 2, 3, 4]), r.choice([1, 2, 3]), r.choice([(), (2,), (3,), (2, 2), (2, 3)]), r.choice([(), (2,), (2, 2)])))
    r.shuffle(out)
    return out[:m] if m < len(base) else out


def gen_case(r, kind, cfg):
    """kind: 'lattice' (float32, everything dyadic), 'f32' (random float32 values), 'f64' (random float64 under x64)"""
    ro = r.random() < 0.5
    w, ext, shape_f, shape_i = cfg
    n = w + ext
    rate = r.choice([1, 2, 4, 8, 16])          # sender rate (Hz); period P = 64 / rate ticks (a power of two)
    P = 64 // rate
    span = r.randint((ext - 1) * P + 1, ext * P)  # (max - min) in ticks: ceil(rate * (max - min)) = ext
    mn = r.choice([0, 0, 1, 2, 5, P])
    lat = kind == "lattice"
    if lat:
        alpha = F(r.choice([0, 0, 1, 2, 3, 4, 5, 6, 7, 8, 8]), 8)
    else:
        alpha = r.choice([F(0), F(1), None, None, None, None])
    # number of dummies at the front
    k = r.choice([0, 0, 0, 0, 1, 1, 2, n - 1, n, min(n, 3)])
    k = max(0, min(n, k))
    periodic = r.random() < 0.6
    sent = []
    cur = r.choice([0, 0, 1, 3, P // 2, P, 2 * P]) + (0 if k else r.randint(0, 6) * P)
    for i in range(n - k):
        sent.append(cur)
        cur += P if periodic else P + r.choice([0, 0, 1, 2, P // 2, P])
    seq0 = 0 if k else r.choice([0, 0, 3, 17])
    ents = [(-1, F(0), F(0))] * k
    jit = (lambda: F(0)) if lat else (lambda: F(r.randint(0, 999), 64000))
    for i, s in enumerate(sent):
        st = s * TICK + jit()
        ents.append((seq0 + i, st, st + r.randint(0, 3) * TICK))   # the recorded ts_recv of real entries is overwritten by ts_sent + d
    d_ticks = mn + (alpha if alpha is not None else F(1, 2)) * span
    # step start time: biased to knots / between / before / after
    recvs = [(e[1] / TICK + d_ticks) if e[0] >= 0 else F(0) for e in ents]
    mode = r.choice(["knot", "knot", "between", "between", "between", "before", "after", "zero"])
    pick = r.choice(recvs)
    if mode == "knot": t = pick
    elif mode == "between": t = pick + F(r.randint(1, max(1, P - 1)))
    elif mode == "before": t = max(F(0), min(recvs) - r.randint(0, 3))
    elif mode == "after": t = max(recvs) + r.randint(0, 2 * P)
    else: t = F(0)
    if lat:
        t = F(int(t * 8), 8) if mode != "knot" else t     # multiples of 1/512 s
    else:
        t = t + F(r.randint(1, 9999), 10000)
    t = max(F(0), t) * TICK
    # payload leaves
    def numel(s):
        m = 1
        for x in s: m *= x
        return m
    # rex gives every dummy the sender's default output; distinct dummy payloads are only generated for "linear" (with the
    # -1e9 mask, float32 absorbs the query shift and which of several equal dummy knots is hit is a rounding artefact)
    same_dummy = (r.random() < 0.8) or ro
    fvals, ivals = [], []
    dflt_f = [F(r.randint(-64, 64), 8) for _ in range(numel(shape_f))]
    dflt_i = [r.randint(-20, 20) for _ in range(numel(shape_i))]
    for e in ents:
        if e[0] < 0 and same_dummy:
            fvals.append(list(dflt_f)); ivals.append(list(dflt_i))
        else:
            if lat: fvals.append([F(r.randint(-64, 64), 8) for _ in range(numel(shape_f))])
            else: fvals.append([F(r.randint(-8000, 8000), 1000) for _ in range(numel(shape_f))])
            ivals.append([r.randint(-50, 50) for _ in range(numel(shape_i))])
    return dict(kind=kind, ro=ro, w=w, ext=ext, rate=rate, mn=str(mn * TICK), mx=str((mn + span) * TICK),
                alpha=None if alpha is None else str(alpha), alpha_raw=r.random(),
                ents=[(s, str(a), str(b)) for (s, a, b) in ents], t=str(t), shape_f=shape_f, shape_i=shape_i,
                fvals=[[str(x) for x in row] for row in fvals], ivals=ivals, jit=False)


def directed_cases():
    """the corner of DESIGN-level interest: one dummy (arrival 0) and message 0 sent at 0 with delay 0, step at 0"""
    out = []
    for ro in (False, True):
        out.append(dict(kind="lattice", ro=ro, w=1, ext=1, rate=2, mn="0", mx="1/2", alpha="0", alpha_raw=0.0,
                        ents=[(-1, "0", "0"), (0, "0", "0")], t="0", shape_f=(), shape_i=(), fvals=[["10"], ["20"]],
                        ivals=[[7], [9]], jit=False))
        out.append(dict(kind="lattice", ro=ro, w=2, ext=2, rate=2, mn="0", mx="1", alpha="1/4", alpha_raw=0.0,
                        ents=[(-1, "0", "0"), (-1, "0", "0"), (0, "1/2", "3/5"), (1, "1", "11/10")], t="1", shape_f=(),
                        shape_i=(2,), fvals=[["10"], ["10"], ["20"], ["30"]], ivals=[[7, 7], [7, 7], [9, 11], [13, 15]], jit=False))
    return out


# ---------------------------------------------------------------- exact inputs as the implementation sees them
def concretise(c):
    """round every input to the dtype the implementation receives and return exact Fractions of those floats"""
    import numpy as onp
    ft = onp.float64 if c["kind"] == "f64" else onp.float32
    fx = lambda x: F(float(ft(float(F(x)))))
    alpha = fx(c["alpha"]) if c["alpha"] is not None else fx(F(c["alpha_raw"]))
    mn, mx = F(float(F(c["mn"]))), F(float(F(c["mx"])))      # python floats (static fields)
    ents = [(s, fx(a), fx(b)) for (s, a, b) in c["ents"]]
    return dict(alpha=alpha, mn=mn, mx=mx, ents=ents, t=fx(c["t"]), fvals=[[fx(x) for x in row] for row in c["fvals"]], ft=ft)


def qlit(x): return f"({x.numerator} # {x.denominator})"


def coq_term(c, x):
    raw = "[" + "; ".join(f"(({s})%Z, {qlit(a)}, {qlit(b)})" for (s, a, b) in x["ents"]) + "]"
    nf = len(x["fvals"][0]); ni = len(c["ivals"][0])
    fps = [[row[j] for row in x["fvals"]] for j in range(nf)] + [[F(row[j]) for row in c["ivals"]] for j in range(ni)]
    fl = "[" + "; ".join("[" + "; ".join(qlit(v) for v in fp) + "]" for fp in fps) + "]"
    return (f"({'true' if c['ro'] else 'false'}, ({qlit(x['mn'])}, {qlit(x['mx'])}, {qlit(x['alpha'])}), {qlit(x['t'])}, "
            f"{c['w']}%nat, {raw}, {fl}, {qlit(H)})")


# ---------------------------------------------------------------- implementation side
def impl_run(cases, xs, want_grad=True):
    import jax, jax.numpy as jnp, numpy as onp
    from jax.experimental import enable_x64
    from rex import base as rb
    import contextlib
    out = []
    for c, x in zip(cases, xs):
        ctx = enable_x64() if c["kind"] == "f64" else contextlib.nullcontext()
        with ctx:
            ft = jnp.float64 if c["kind"] == "f64" else jnp.float32
            n = len(x["ents"])
            seq = jnp.array([e[0] for e in x["ents"]], dtype=jnp.int32)
            sent = jnp.array([float(e[1]) for e in x["ents"]], dtype=ft)
            recv = jnp.array([float(e[2]) for e in x["ents"]], dtype=ft)
            fl = jnp.array([[float(v) for v in row] for row in x["fvals"]], dtype=ft).reshape((n,) + tuple(c["shape_f"]))
            il = jnp.array(c["ivals"], dtype=jnp.int32).reshape((n,) + tuple(c["shape_i"]))
            data = {"f": fl, "i": il}
            res = {}
            try:
                def build(interp, alpha):
                    return rb.TrainableDist(alpha=alpha, min=float(x["mn"]), max=float(x["mx"]), interp=interp)
                alpha = ft(float(x["alpha"]))
                ts = ft(float(x["t"]))
                rate = float(c["rate"])
                def call(interp, alpha):
                    dist = build(interp, alpha)
                    inp = rb.InputState.from_outputs(seq, sent, recv, data, dist, is_data=True)
                    return dist.apply_delay(rate, inp, ts)
                name = "linear_real_only" if c["ro"] else "linear"
                if build(name, alpha).window(rate) != c["ext"]:
                    raise AssertionError(f"window extension {build(name, alpha).window(rate)} != {c['ext']}")
                o = jax.jit(lambda a: call(name, a))(alpha) if c.get("jit") else call(name, alpha)
                def leaf(a, isint):
                    a = onp.asarray(a); res.setdefault("dtypes", []).append(str(a.dtype)); res.setdefault("shapes", []).append(list(a.shape))
                    a2 = a.reshape(a.shape[0], -1)
                    return [[int(v) if isint else F(float(v)) for v in a2[:, j]] for j in range(a2.shape[1])]
                res["seq"] = leaf(o.seq, True)[0]; res["sent"] = leaf(o.ts_sent, False)[0]; res["recv"] = leaf(o.ts_recv, False)[0]
                res["f"] = leaf(o.data["f"], False); res["i"] = leaf(o.data["i"], True)
                res["dist_same"] = bool(o.delay_dist.interp == name)
                z = call("zoh", alpha)
                res["zoh"] = dict(seq=leaf(z.seq, True)[0], sent=leaf(z.ts_sent, False)[0], recv=leaf(z.ts_recv, False)[0],
                                  f=leaf(z.data["f"], False), i=leaf(z.data["i"], True))
                if want_grad:
                    g = jax.jacfwd(lambda a: call(name, a).data["f"].reshape(c["w"], -1)[:, 0])(alpha)
                    res["grad"] = [float(v) for v in onp.asarray(g)]
            except Exception as e:  # noqa
                res = dict(error=f"{type(e).__name__}: {str(e)[:300]}")
        out.append(res)
    return out


# ---------------------------------------------------------------- comparison
def is_pow2(q):
    q = abs(q)
    if q == 0: return True
    a, b = q.numerator, q.denominator
    return (a == 1 and b & (b - 1) == 0) or (b == 1 and a & (a - 1) == 0)


def trunc(q): return int(q) if q >= 0 else -int(-q)


def alpha_routes(chk):
    """the delay a step 'sees' is the configured one whichever way it was configured: TrainableDist.create(delay=d, ...) and get_alpha(d) on an existing distribution
    (the route of graph.init -> init_inputs -> init_delays / params) give the same alpha = clip((d - min) / (max - min), 0, 1); hence the same apply_delay"""
    import jax.numpy as jnp
    from rex import base as rb
    from fractions import Fraction as F_
    r = chk.rnd
    for i in range(40):
        mn = F_(r.choice([0, 0, 1, 2, 3, 5]), 64); span = F_(r.choice([1, 2, 4, 8, 16]), 64); mx = mn + span
        d = mn + span * F_(r.choice([0, 1, 2, 3, 4, 5, 6, 7, 8]), 8)
        want = float((d - mn) / span)
        case = dict(min=str(mn), max=str(mx), delay=str(d))
        chk.case(("alpha-route", str(mn), str(mx), str(d)), ["alpha-routes"] + (["min>0"] if mn > 0 else []), None); chk.traces_impl += 1
        try:
            a1 = float(rb.TrainableDist.create(delay=float(d), min=float(mn), max=float(mx)).alpha)
            other = rb.TrainableDist.create(delay=float(mn), min=float(mn), max=float(mx))
            a2 = float(jnp.asarray(other.get_alpha(float(d))))
            a3 = float(jnp.asarray(other.get_alpha(float(mx + span)))); a0 = float(jnp.asarray(other.get_alpha(float(mn - span))))
        except Exception as e:  # noqa
            chk.violation("alpha-route-raises", f"{type(e).__name__}: {str(e)[:200]}", case); continue
        if abs(a1 - want) > 1e-6 or abs(a2 - want) > 1e-6:
            chk.violation("delay-to-alpha-differs-between-routes", f"delay {float(d)} in [{float(mn)}, {float(mx)}]: create() gives alpha {a1}, get_alpha() (the init_delays / params "
                          f"route) gives {a2}, the configured delay corresponds to {want}", case)
        elif a3 != 1.0 or a0 != 0.0:
            chk.violation("delay-to-alpha-not-saturating", f"get_alpha above max / below min gives {a3} / {a0} (expected 1 / 0)", case)


def run(chk, replay=None):
    chk.stage_proofs(kernels=["Interp"])
    quick = chk.tier == "quick"
    r = chk.rnd
    cases = []
    if replay:
        cases = [json.load(open(replay))["case"]["case"]]
    else:
        cases += directed_cases()
        nl, n32, n64 = (240, 50, 50) if quick else (3600, 700, 700)
        cfgs = gen_configs(r, 8 if quick else 40)
        for i in range(nl):
            c = gen_case(r, "lattice", cfgs[i % len(cfgs)]); c["jit"] = (i % (40 if quick else 120) == 7); cases.append(c)
        sub = cfgs[:3] if quick else cfgs[:10]
        for i in range(n32): cases.append(gen_case(r, "f32", sub[i % len(sub)]))
        for i in range(n64): cases.append(gen_case(r, "f64", sub[i % len(sub)]))
    for c in cases:
        c["shape_f"] = tuple(c["shape_f"]); c["shape_i"] = tuple(c["shape_i"]); c["ents"] = [tuple(e) for e in c["ents"]]
    xs = [concretise(c) for c in cases]
    model = lib.coq_eval_sharded("C11", HEADER, "run", [coq_term(c, x) for c, x in zip(cases, xs)], per=120)
    impl = impl_run(cases, xs)
    ngrad = 0
    for c, x, mo, im in zip(cases, xs, model, impl):
        s, mouts, dxs, g = mo
        w = c["w"]; n = len(x["ents"]); ro = c["ro"]
        d = x["mn"] + x["alpha"] * (x["mx"] - x["mn"])
        recvd = [e[2] if e[0] < 0 else e[1] + d for e in x["ents"]]
        maskd = [F(-10 ** 9) if (ro and e[0] < 0) else rv for e, rv in zip(x["ents"], recvd)]
        k = sum(1 for e in x["ents"] if e[0] < 0)
        idx_max = next((i for i, rv in enumerate(recvd) if rv > x["t"]), n)
        feats = ["real_only" if ro else "linear", c["kind"]]
        if k and s < k: feats.append("dummy-in-slice")
        if k >= n: feats.append("all-dummy")
        if idx_max - w < 0: feats.append("slice-clamped-low")
        if idx_max == n: feats.append("all-arrived(right-clamp)")
        if x["t"] in recvd: feats.append("step-start-on-knot")
        if x["t"] < min(maskd): feats.append("left-clamp")
        if len(set(maskd)) < len(maskd): feats.append("duplicate-knots")
        if w > 1: feats.append("window>1")
        if len(c["shape_f"]) == 2: feats.append("matrix-leaf")
        if c.get("jit"): feats.append("jit")
        sample = dict(variant="linear_real_only" if ro else "linear", window=w, ext=c["ext"], entries=c["ents"], t=c["t"],
                      alpha=str(x["alpha"]), min=c["mn"], max=c["mx"])
        chk.case(json.dumps(c, sort_keys=True, default=str), feats, sample)
        chk.traces_impl += 1
        case = dict(case=c)
        sig = ("real_only" if ro else "linear") + ":" + c["kind"]
        if "error" in im:
            chk.violation("apply_delay-raises:" + sig, f"apply_delay raised on a well-formed input: {im['error']}", case); continue
        # shapes / dtypes (dtype restoration)
        exp_dt = ["int32", str(x["ft"].__name__), str(x["ft"].__name__), str(x["ft"].__name__), "int32"]
        exp_sh = [[w], [w], [w], [w] + list(c["shape_f"]), [w] + list(c["shape_i"])]
        if im["dtypes"][:5] != exp_dt or im["shapes"][:5] != exp_sh:
            chk.violation("dtype-or-shape:" + sig, f"result dtypes/shapes {im['dtypes'][:5]} {im['shapes'][:5]} != {exp_dt} {exp_sh}", case); continue
        # tolerance of this case
        lat = c["kind"] == "lattice"
        eps = F(1, 2 ** 52) if c["kind"] == "f64" else F(1, 2 ** 23)
        tmax = max([abs(x["t"])] + [abs(v) for v in maskd if abs(v) < 10 ** 8] + [1])
        near_tie = (not lat) and any(abs(rv - x["t"]) <= 64 * eps * tmax for rv in recvd)
        if near_tie: chk.feat("skipped:near-tie-offlattice"); continue
        # leaves: name, isint, implementation components (each a list over the window), message values per component
        leaves = [("seq", True, [im["seq"]], [[F(e[0]) for e in x["ents"]]]), ("ts_sent", False, [im["sent"]], [[e[1] for e in x["ents"]]]),
                  ("ts_recv", False, [im["recv"]], [recvd])]
        nf = len(x["fvals"][0]); ni = len(c["ivals"][0])
        leaves.append(("data.f", False, im["f"], [[row[j] for row in x["fvals"]] for j in range(nf)]))
        leaves.append(("data.i", True, im["i"], [[F(row[j]) for row in c["ivals"]] for j in range(ni)]))
        bad = None; scrambled = []
        li = 0
        for (nm, isint, got, fps) in leaves:
            C = len(fps)
            M = [[None] * C for _ in range(w)]       # model value, exactness, tolerance per (window entry, component)
            for cj, fp in enumerate(fps):
                # largest finite-difference slope of this component (conditioning w.r.t. rounding of the times)
                L = F(0)
                for a_ in range(n - 1):
                    dxk = maskd[a_ + 1] - maskd[a_]
                    if dxk > 0: L = max(L, abs(fp[a_ + 1] - fp[a_]) / dxk)
                for j in range(w):
                    num, den, tr = mouts[li][j]
                    m = F(num, den)
                    dx = F(dxs[j][0], dxs[j][1])
                    exact = lat and is_pow2(dx) and abs(dx) < 2 ** 20
                    tol = F(0)
                    if not exact:
                        tol = (F(1, 10 ** 9) if c["kind"] == "f64" else F(1, 10 ** 5)) * (1 + abs(m)) + 16 * eps * tmax * L
                        if c["kind"] == "f64" and ro and k: tol += F(1, 10 ** 6) * (1 + abs(m))   # 1e9 + t in binary64
                    # the one corner where the pinned jnp.interp semantics contradicts the property (query on a duplicated final
                    # knot): the property-conforming value fp[-1] is accepted as well (the zero-order-hold clause below decides)
                    alt = fp[n - 1] if (n >= 2 and maskd[n - 1] == maskd[n - 2] and maskd[s + j] + x["t"] - maskd[s + w - 1] == maskd[n - 1]) else None
                    M[j][cj] = (m, tr, exact, tol, min(fp), max(fp), alt)
                li += 1
            def agree(v, cell):
                m, tr, exact, tol, lo, hi, alt = cell
                if alt is not None and v == alt: return True
                if exact: return (v == tr) if isint else (v == m)
                return (v in {trunc(m - tol), trunc(m), trunc(m + tol)}) if isint else (abs(v - m) <= tol)
            A = [[got[cj][j] for cj in range(C)] for j in range(w)]
            first = next(((j, cj) for j in range(w) for cj in range(C) if not agree(A[j][cj], M[j][cj])), None)
            if first is None:
                # every seen value lies between the smallest and largest message of its component
                for j in range(w):
                    for cj in range(C):
                        m, tr, exact, tol, lo, hi, alt = M[j][cj]
                        if not (lo - tol <= A[j][cj] <= hi + tol) and bad is None:
                            bad = f"{nm}[{j}] component {cj}: {float(A[j][cj])!r} outside the range of the messages"
                continue
            # the (components, window) result of vmap reshaped to (window, components) without a transpose?
            flat = [M[j][cj] for cj in range(C) for j in range(w)]
            S = [[flat[j * C + cj] for cj in range(C)] for j in range(w)]
            if C > 1 and w > 1 and all(agree(A[j][cj], S[j][cj]) for j in range(w) for cj in range(C)):
                scrambled.append(nm); continue
            j, cj = first
            m, tr, exact, tol, lo, hi, alt = M[j][cj]
            if bad is None:
                bad = f"{nm}[{j}] component {cj}: implementation {float(A[j][cj])!r} vs model {float(m)!r}" + \
                      (f" (trunc {tr})" if isint else "") + (" exact" if exact else f" tol {float(tol):.3g}")
        if bad:
            chk.violation("value-differs:" + sig + (":dummies" if k else ""), "apply_delay differs from the model at " + bad, case); continue
        if scrambled:
            chk.violation("nonscalar-leaf-window-scrambled(vmap-out_axes)",
                          "for a payload leaf with more than one component and window > 1 the interpolated (components, window) array is "
                          "reshaped to (window, components) without a transpose: entries of different window positions and components are "
                          f"mixed (leaves {scrambled}; every other value agrees with the model)", case)
        # zero-order-hold coincidence (on the implementation): the newest sliced entry arrives exactly at the step start
        dummy_payloads = {(tuple(x["fvals"][i]), tuple(c["ivals"][i])) for i, e in enumerate(x["ents"]) if e[0] < 0}
        if lat and x["t"] == maskd[s + w - 1] and x["ents"][s + w - 1][0] >= 0 and len(dummy_payloads) <= 1:
            chk.feat("zoh-coincidence-checked")
            z = im["zoh"]
            diff = None
            for nm, a, b in [("seq", [im["seq"]], [z["seq"]]), ("ts_sent", [im["sent"]], [z["sent"]]), ("ts_recv", [im["recv"]], [z["recv"]]),
                             ("data.f", im["f"], z["f"]), ("data.i", im["i"], z["i"])]:
                if nm in scrambled: continue
                if a != b and diff is None: diff = f"{nm}: linear {[[float(v) for v in row] for row in a]} vs zoh {[[float(v) for v in row] for row in b]}"
            if diff:
                # a dummy entry and a real message share their (delayed) arrival time: jnp.interp then returns, for every query
                # at that time, the last of the equal knots (or, at the final knot, the one before it)
                dup = any(e[0] >= 0 and f[0] < 0 and a == b for e, a in zip(x["ents"], maskd) for f, b in zip(x["ents"], maskd))
                chk.violation("knot-eq-zoh:" + ("duplicate-knot(dummy-and-message-arrive-together)" if dup else sig),
                              "delayed arrival coincides with a message but the interpolated window is not the zero-order-hold window: " + diff, case)
                continue
        # derivative w.r.t. alpha against the model's exact difference quotient (only where the model is locally affine)
        if "grad" in im and c["kind"] != "f32" and "data.f" not in scrambled:
            fp = [row[0] for row in x["fvals"]]
            L = F(0)
            for a in range(n - 1):
                dxk = maskd[a + 1] - maskd[a]
                if dxk > 0: L = max(L, abs(fp[a + 1] - fp[a]) / dxk)
            span = x["mx"] - x["mn"]
            for j in range(w):
                aff, (gn, gd) = g[j]
                if not aff: chk.feat("grad-skipped:kink-within-h"); continue
                # away from knots: no knot within 1e-3 s of the query, on either side
                mg = F(gn, gd)
                gt = F(1, 10 ** 4 if c["kind"] == "lattice" else 10 ** 7) * (1 + abs(mg))
                ngrad += 1
                if abs(F(im["grad"][j]) - mg) > gt:
                    chk.violation("grad-differs:" + sig, f"d out[{j}] / d alpha = {im['grad'][j]!r} but the model's slope is {float(mg)!r}", case)
                    break
    chk.features["grad-compared"] = ngrad
    if not replay: alpha_routes(chk)
    chk.extra["rule"] = ("generated InputStates: window 1-4 plus extension 1-3 (rate 1-16 Hz, max-min chosen so that ceil(rate*(max-min)) = "
                         "extension), 0..all dummy entries (seq=-1, ts 0) in front, periodic or jittered send times, step start on a "
                         "knot / between / before / after, float leaf () (m,) (m,k) and int32 leaf, both linear variants; 'lattice' cases "
                         "are dyadic (times k/64 s, alpha k/8, payload k/8) and compared exactly whenever the segment width is a power of "
                         "two, otherwise and for random float32 / float64(x64) cases within 1e-5 / 1e-9 relative plus 16 ulp * "
                         "max|t| * max slope; a case is non-trivial when it exercises a listed feature (every case names its variant); "
                         "distinct by full case content")
    chk.trusted += ["jnp.interp / jax.lax.dynamic_slice / jnp.argwhere as installed (JAX 0.7.1): modelled by Interp.interp / dyn_start / "
                    "first_gt and validated only by this correspondence"]
    chk.notes += ["floating point: theorems are over Q; the implementation is compared exactly on dyadic cases whose segment width is a "
                  "power of two and within a stated tolerance otherwise; integer leaves (astype truncation) are accepted when they equal "
                  "trunc of the exact value moved by at most the tolerance",
                  "off-lattice cases whose step start is within 64 ulp of a delayed arrival are skipped (slice selection is "
                  "discontinuous there); on the lattice ties are exact and compared",
                  "the linear_real_only mask -1e9 is added to ts_start in float32: for ts_start >= 32 s with a dummy as newest sliced "
                  "entry the rounded query time differs from the exact one; generated step times stay below 16 s"]
