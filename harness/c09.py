"""C09 — compiled execution is a pure function of the graph state, whatever the API."""
import random
from . import lib, asynclib as al, compiledlib as cl, c07


def diff(a, b, pre=""):
    if isinstance(a, dict) and isinstance(b, dict):
        for k in sorted(set(a) | set(b)):
            if k not in a or k not in b: return f"{pre}.{k} missing"
            d = diff(a[k], b[k], f"{pre}.{k}")
            if d: return d
        return None
    return None if a == b else f"{pre}: {a} vs {b}"


def run(chk, replay=None):
    chk.stage_proofs(kernels=["Api"])
    quick = chk.tier == "quick"

    def extra(rnd, j):
        paths = [(0, 0, rnd.choice([2, 3])), (1, rnd.choice([1, 2]), 2), (rnd.choice([-3, 7, 10 ** 6]), rnd.choice([-5, 10 ** 6]), 2), (0, 0, 0)]
        return dict(paths=paths, vmap=dict(n=2, pairs=[(0, 0), (1, 1), (-2, 0), (5, 2)]), nrun=0, nolog=True)
    jobs = c07.make_jobs(chk, 4 if quick else 20, extra=extra)
    gi = 0
    for j in jobs:
        if j["source"] != "generate": continue
        # both: a supervisor that updates the delay models carried in its own inputs (its returned step state must be what the next step starts
        # from on every API path, in particular on the step(gs, step_state, output) override path); and params drawn from the rng given to init() and
        # used by the steps, with a partial override dict re-used across two init() calls
        j["cfg"]["nodes"][j["cfg"]["sup"]]["adaptive"] = True
        j["cfg"]["rng_params"] = True
    for j in jobs: j["tmax"] = min(j.get("tmax") or 48, 48)
    res = cl.run_jobs(jobs, nproc=4 if quick else 10, per_job_timeout=400)
    for j in jobs:
        r = res.get(j["id"], dict(error="MISSING")); cfg = j["cfg"]
        case = dict(cfg=cfg, source=j["source"], mode=j["mode"], prune=j["prune"], seed=j.get("seed"), tmax=j.get("tmax"), steps=j.get("steps"), paths=j["paths"])
        if "error" in r or "graph_error" in r:
            e = r.get("error") or r.get("graph_error")
            if e.startswith("RecursionError") or "no nodes in the partition" in e or "tree_map()" in e: chk.feat("rejected-config"); continue
            chk.case((repr(cfg), j["mode"], j["prune"]), ["error"], None)
            chk.violation("compiled-api-fails:" + e.split(":")[0], f"{e[:300]}", dict(case, tb=r.get("tb", "")[-800:])); continue
        E = len(r["raw"]); maxstep = r["max_steps"] + 1
        for key, d in r["paths"].items():
            if key in ("vmap", "params"): continue
            eps, step, n = map(int, key.split(":"))
            feats = [j["source"], j["mode"]] + (["eps-out-of-range"] if not 0 <= eps < E else []) + (["step-out-of-range"] if not 0 <= step < maxstep else []) + [f"n={n}"]
            chk.case((repr(cfg), j["mode"], j["prune"], key), feats, dict(case, path=key) if len(chk.samples) < 2 else None)
            chk.traces_impl += len(d)
            # clipping, not wrapping
            want_eps = min(max(eps, 0), E - 1); want_step = min(max(step, 0), maxstep - 1)
            if d["init"]["eps"] != want_eps or d["init"]["step"] != want_step:
                chk.violation("init-index-not-clipped", f"init(starting_eps={eps}, starting_step={step}) gives eps={d['init']['eps']} step={d['init']['step']}, "
                              f"expected saturation to eps={want_eps} step={want_step}", case)
            # the starting episode given to init() is what the steps see: every step state the API hands out (reset()/step() return values = the supervisor's
            # next step input; the per-node views graph_state.step_state[n] the runner feeds to the step functions) carries the graph state's episode
            es = d.get("eps_seen")
            if es is not None:
                chk.feat("eps-seen-by-step-states:checked" + (":eps>0" if want_eps > 0 else ""))
                bad = [("returned by reset()/step()", v) for v in es["returned"] if v != d["init"]["eps"]] + \
                      [(f"view step_state[{nm}] after init()", v) for nm, v in sorted(es["views_init"].items()) if v != d["init"]["eps"]] + \
                      [(f"view step_state[{nm}]", v) for nm, v in sorted(es["views"].items()) if v != d["init"]["eps"]]
                if bad:
                    chk.violation("step-state-eps-not-starting-episode", f"init(starting_eps={eps}) selects episode {d['init']['eps']}, but the step state "
                                  f"{bad[0][0]} carries eps={bad[0][1]} ({len(bad)} such step states)", case)
            groups = [("run_eager", "run_jit"), ("run_eager", "rollout_carry"), ("run_eager", "rollout_full_last"),
                      ("reset_step", "reset_step_jit"), ("reset_step", "run_then_until"), ("reset_step", "override"), ("override", "override_stale_seq")]
            for a, b in groups:
                if a in d and b in d:
                    x = diff(d[a], d[b])
                    if x: chk.violation(f"api-paths-differ:{a}-vs-{b}", f"start (eps={eps}, step={step}), n={n}: {x}", case)
        pr = r["paths"].get("params")
        if pr:
            chk.case((repr(cfg), j["mode"], j["prune"], "params"), ["params-override"], None)
            if pr["reused"].get(pr["other"]) != 5 or pr["fresh"].get(pr["other"]) != 5:
                chk.violation("params-override-not-seen", f"init(params={{{pr['other']}: 5}}) gives params {pr['fresh']}", case)
            if pr["reused"] != pr["fresh"]:
                chk.violation("init-depends-on-earlier-init", f"init(rng2, params=P) after init(rng1, params=P) with the same dict P gives params {pr['reused']}, "
                              f"with a fresh copy of P {pr['fresh']} (P now has keys {pr['keys_after']})", case)
            else:
                x = diff(pr["run_reused"], pr["run_fresh"])
                if x: chk.violation("init-depends-on-earlier-init", f"two run() steps after the two inits differ: {x}", case)
        vm = r["paths"].get("vmap")
        if vm:
            chk.case((repr(cfg), j["mode"], j["prune"], "vmap"), ["vmap"], None)
            for i, (a, b) in enumerate(zip(vm["batched"], vm["single"])):
                x = diff(a, b)
                if x: chk.violation("vmap-differs-from-single", f"batch element {vm['pairs'][i]}: {x}", case)
    chk.extra["rule"] = ("per compiled graph: starting (eps, step) pairs incl. far out-of-range values and n in {0,2,3}; from the same init() state: eager "
                         "run^n, jit run^n, rollout carry / full trajectory, reset+step^n (eager, jit), run^n+run_until_supervisor, the step() override "
                         "path and a vmapped batch; all final GraphStates (node states, inputs, buffers, seq, ts, rng, step, eps) compared; non-trivial = "
                         "every case (n>0 or out-of-range index); distinct by (graph, mode, prune, start, n)")
    chk.notes += ["jit / vmap have no Gallina counterpart: that they preserve the function is decided by these comparisons only (DESIGN 9)"]
