"""C04 — step start times obey the rate / phase / delay / scheduling law (shares machinery with C03)."""
from . import c03


def run(chk, replay=None):
    c03.run(chk, replay=replay, prop="C04")
