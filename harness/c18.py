"""C18 - search solvers (rex/cem.py, rex/evo.py): correspondence between the implementation and the Gallina model Cem.v.

 (A) cem_update_mean_stdev called directly on harness-chosen dyadic samples / losses (NaN, +-inf, ties at the elite boundary,
     fewer finite losses than elites, ties with the previous best) and compared with the model's `update` evaluated in Coq:
     best and best loss exactly, mean exactly when representable, stdev against the model's exact variance.
 (B) gaussian_samples with harness-chosen dyadic noise (jax.random.normal replaced for the call) compared exactly with the
     model's gauss_sample; with real noise: every sample inside the bounds.
 (C) cem_step / cem end to end with a host-side loss (pure_callback: the harness sees every population in order and chooses
     the losses): every observed history is judged by the Coq function check_history (sound: C18_check_history_sound) and
     every step is replayed through the model's `update`.
 (D) evo_step / evo end to end for several evosax strategies, same checker; evosax's ask/tell contract is validated
     separately against the reference strategy ref_tell of Cem.v.
 (E) precision configurations: (C) and (D) again in a child process with JAX_ENABLE_X64=1 (c18_worker.py): float64 bounds,
     candidates and losses whose magnitude is chosen relative to float32 (differences below its resolution at a large offset, values
     below its smallest subnormal, finite values above its maximum); same checker (losses in units of 2^-1074) and model replay.
 (F) sparse / plateau losses with NaN: (C) and (D) again (evo: a sample of all rank-based strategies) with losses whose finite values all
     tie inside a generation while other candidates are NaN (one finite candidate only, scripted finite/NaN masks with one level per
     generation, a constant / 0-1 indicator outside a NaN region): nothing but the NaN handling separates a NaN candidate from the best.
"""
import json, math, os
from fractions import Fraction
from . import lib

UNIT = 2 ** 149           # every float32 is an integer multiple of 2^-149
UNIT64 = 2 ** 1074        # every float64 is an integer multiple of 2^-1074 (the checker only compares losses: any common unit is exact)

HEADER = """From Coq Require Import List ZArith QArith Qminmax Bool.
From Rex Require Import Ops Cem.
Import ListNotations.
Definition encq (q : Q) : Z * Z := let r := Qred q in (Qnum r, Zpos (Qden r)).
Definition ence (e : ext) : Z * Z := match e with NInf => ((-1)%Z, 0%Z) | Val v => (0%Z, v) | PInf => (1%Z, 0%Z) end.
Definition run_upd (c : nat * Q * cstate * list cand * list loss) :=
  let '(ne, s, st, xs, ls) := c in
  let d := length (mean st) in
  let st' := update (fun v => v) (smooth Qops) d ne s st xs ls in
  (map encq (mean st'), map encq (vec d (fun k => qvar (col k (elite_samples ne xs (map clean ls))))),
   map encq (best st'), ence (best_loss st'), map Z.of_nat (elites ne (map clean ls))).
Definition run_gauss (c : cand * cand * cand * cand * cand) :=
  let '(m, sd, lo, hi, z) := c in map encq (gauss_sample (length m) m sd lo hi z).
Fixpoint iter_flags (lo hi pb : cand) (prev : ext) (h : list iter) : list bool :=
  match h with [] => [] | it :: h => check_iter lo hi pb prev it :: iter_flags lo hi (rep_best it) (rep_loss it) h end.
Definition run_hist (c : cand * cand * cand * ext * list iter) :=
  let '(lo, hi, pb, prev, h) := c in (check_history lo hi pb prev h, iter_flags lo hi pb prev h).
Definition run_tell (c : list cand * list ext * (cand * ext)) :=
  let '(xs, fit, st) := c in let r := ref_tell xs fit st in (map encq (fst r), ence (snd r)).
"""


# ---------------------------------------------------------------- literals
def F(x):
    """exact rational of a float (float32 values are passed as python floats)"""
    return Fraction(float(x))


def qv(xs): return "[" + "; ".join(lib.qlit(x) for x in xs) + "]"


def ext_of(x, unit=UNIT):
    """a non-NaN float as the model's ext (an integer number of 1/unit)"""
    x = float(x)
    if x == math.inf: return "PInf"
    if x == -math.inf: return "NInf"
    n = Fraction(x) * unit
    assert n.denominator == 1, x
    return f"(Val {lib.zlit(n.numerator)})"


def loss_of(x, unit=UNIT):
    x = float(x)
    return "NaN" if math.isnan(x) else f"(Num {ext_of(x, unit)})"


def ext_val(p, unit=UNIT):
    """parsed (tag, v) -> float-comparable: Fraction / +-inf"""
    tag, v = p
    return {-1: -math.inf, 1: math.inf}.get(tag, Fraction(v, unit) if tag == 0 else None)


def qs(ps): return [Fraction(a, b) for (a, b) in ps]


def same_num(a, b):
    """exact equality of a float (impl) and a Fraction / +-inf (model)"""
    a = float(a)
    if isinstance(b, float): return a == b
    return (not math.isinf(a)) and (not math.isnan(a)) and Fraction(a) == b


def f32_exact(q):
    import numpy as onp
    try: return Fraction(float(onp.float32(float(q)))) == q
    except OverflowError: return False


# ---------------------------------------------------------------- trees: {"a": (da,), "b": ()} flattened as a.., b
def to_tree(flat, da, batch=None, dtype="float32"):
    """flat: list (or list of lists when batch) of numbers -> pytree of float32 (or `dtype`) arrays"""
    import jax.numpy as jnp, numpy as onp
    a = onp.asarray([[float(v) for v in row] for row in flat] if batch else [float(v) for v in flat], dtype=onp.dtype(dtype))
    t = {}
    if batch:
        if da: t["a"] = jnp.asarray(a[:, :da])
        t["b"] = jnp.asarray(a[:, da])
    else:
        if da: t["a"] = jnp.asarray(a[:da])
        t["b"] = jnp.asarray(a[da])
    return t


def flat_of(tree):
    import numpy as onp, jax
    return [float(v) for leaf in jax.tree_util.tree_leaves(tree) for v in onp.ravel(onp.asarray(leaf))]


def pow2(n): return n >= 1 and (n & (n - 1)) == 0


# ---------------------------------------------------------------- (A) direct update
def gen_upd(r, big):
    N = r.choice([2, 3, 4, 5, 8, 8, 12, 16] + ([24, 32] if big else []))
    ne = min(N, r.choice([1, 1, 2, 2, 3, 4, max(1, N // 2), N]))
    da = r.choice([0, 1, 2]); d = da + 1
    s = r.choice([Fraction(0), Fraction(1, 4), Fraction(1, 2), Fraction(3, 4), Fraction(1), Fraction(1, 10), Fraction(3, 10)])
    # coordinate 0: distinct powers of two (any two different elite sets have different means); others k/8
    pw = [Fraction(2 ** (i % 16), 64) * (1 if i < 16 else -1) for i in range(N)]
    r.shuffle(pw)
    xs = [[pw[j]] + [Fraction(r.randint(-40, 40), 8) for _ in range(d - 1)] for j in range(N)]
    mode = r.choice(["mixed", "mixed", "mixed", "all-nan", "all-tied", "few-finite", "distinct", "boundary-tie"])
    def fin(): return Fraction(r.randint(-6, 6), 4)
    if mode == "mixed":
        ls = [math.nan if (u := r.random()) < 0.25 else math.inf if u < 0.33 else -math.inf if u < 0.35 else fin() for _ in range(N)]
    elif mode == "all-nan": ls = [math.nan] * N
    elif mode == "all-tied": v = fin(); ls = [v] * N
    elif mode == "few-finite":
        k = r.randint(0, max(0, ne - 1)); idx = set(r.sample(range(N), k))
        ls = [fin() if j in idx else (math.nan if r.random() < 0.7 else math.inf) for j in range(N)]
    elif mode == "distinct":
        v = r.sample(range(-40, 40), N); ls = [Fraction(x, 4) for x in v]
    else:   # the ne-th and (ne+1)-th smallest losses are equal: stability decides who is elite
        v = sorted(fin() for _ in range(N))
        if ne < N: v[ne] = v[ne - 1]
        r.shuffle(v); ls = v
        if r.random() < 0.4: ls[r.randrange(N)] = math.nan
    finite = [x for x in ls if isinstance(x, Fraction)]
    mn = min(finite) if finite else None
    bl = r.choice([math.inf, math.inf, mn, mn - Fraction(1, 4) if mn is not None else math.inf,
                   mn + Fraction(1, 4) if mn is not None else math.inf, fin()])
    if bl is None: bl = math.inf
    st = dict(mean=[Fraction(r.randint(-16, 16), 8) for _ in range(d)], stdev=[Fraction(r.randint(0, 16), 8) for _ in range(d)],
              best=[Fraction(r.randint(-16, 16), 8) for _ in range(d)], best_loss=bl)
    return dict(N=N, ne=ne, da=da, s=s, xs=xs, ls=ls, st=st, mode=mode)


def upd_feats(c):
    ls = c["ls"]; ne = c["ne"]
    clean = [math.inf if (isinstance(x, float) and math.isnan(x)) else x for x in ls]
    srt = sorted(clean)
    f = [c["mode"]]
    if any(isinstance(x, float) and math.isnan(x) for x in ls): f.append("nan-loss")
    if ne < len(ls) and srt[ne - 1] == srt[ne]: f.append("tie-at-elite-boundary")
    if sum(1 for x in ls if isinstance(x, Fraction)) < ne: f.append("fewer-finite-than-elites")
    if srt and c["st"]["best_loss"] == srt[0]: f.append("tie-with-previous-best")
    if ne == 1: f.append("one-elite")
    if -math.inf in ls: f.append("neg-inf-loss")
    return f


def upd_term(c):
    st = c["st"]; unit = c.get("unit", UNIT)
    cs = f"(Build_cstate {qv(st['mean'])} {qv(st['stdev'])} {qv(st['best'])} {ext_of(st['best_loss'], unit)})"
    return f"({c['ne']}%nat, {lib.qlit(c['s'])}, {cs}, [" + "; ".join(qv(x) for x in c["xs"]) + "], [" + \
           "; ".join(loss_of(x, unit) for x in c["ls"]) + "])"


def impl_upd(cases, jit_some):
    import jax, jax.numpy as jnp, numpy as onp
    from rex import cem as C
    out = []
    for k, c in enumerate(cases):
        N, ne, da, st = c["N"], c["ne"], c["da"], c["st"]
        d = da + 1
        portion = (ne + 0.5) / N               # int(N * portion) == ne whatever the rounding
        assert int(N * portion) == ne
        solver = C.CEMSolver.init(to_tree([-100] * d, da), to_tree([100] * d, da), num_samples=N,
                                  evolution_smoothing=jnp.float32(float(c["s"])), elite_portion=portion)
        state = C.CEMState(mean=to_tree(st["mean"], da), stdev=to_tree(st["stdev"], da), bestsofar=to_tree(st["best"], da),
                           bestsofar_loss=jnp.float32(float(st["best_loss"])))
        samples = to_tree(c["xs"], da, batch=True)
        losses = jnp.asarray(onp.asarray([float(x) for x in c["ls"]], dtype=onp.float32))
        try:
            fn = jax.jit(C.cem_update_mean_stdev) if (jit_some and k % 9 == 0) else C.cem_update_mean_stdev
            ns = fn(solver, state, samples, losses)
            out.append(dict(mean=flat_of(ns.mean), stdev=flat_of(ns.stdev), best=flat_of(ns.bestsofar), best_loss=float(ns.bestsofar_loss)))
        except Exception as e:  # noqa
            out.append(dict(error=f"{type(e).__name__}: {str(e)[:200]}"))
    return out


def judge_upd(chk, c, im, mo):
    case = dict(kind="update", repr=repr({k: (str(v) if not isinstance(v, (int, str)) else v) for k, v in c.items()}))
    m_mean, m_var, m_best, m_bl, m_el = qs(mo[0]), qs(mo[1]), qs(mo[2]), ext_val(mo[3]), mo[4]
    if "error" in im:
        chk.violation("cem-update-raises", f"cem_update_mean_stdev raised on a valid input: {im['error']}", case); return
    if not same_num(im["best_loss"], m_bl):
        chk.violation("cem-update:best-loss", f"bestsofar_loss {im['best_loss']!r} differs from the model's {m_bl!r} "
                      f"(= min(previous, least NaN-cleaned loss)); losses={[str(x) for x in c['ls']]} previous={c['st']['best_loss']}", case); return
    if [F(x) for x in im["best"]] != m_best:
        chk.violation("cem-update:best-candidate", f"bestsofar {im['best']} differs from the model's {[str(x) for x in m_best]} "
                      f"(model elites {m_el})", case); return
    s = c["s"]; exact = pow2(min(c["ne"], c["N"])) and s.denominator in (1, 2, 4)
    for k, (a, b) in enumerate(zip(im["mean"], m_mean)):
        ok = (F(a) == b) if (exact and f32_exact(b)) else abs(F(a) - b) <= Fraction(1, 10 ** 5) * (abs(b) + 1)
        if not ok:
            chk.violation("cem-update:mean", f"updated mean[{k}] = {a!r} differs from the model's {float(b)!r} = "
                          f"s*old + (1-s)*mean of the {c['ne']} candidates with the smallest cleaned losses in stable order (model elites {m_el})", case); return
    for k, (a, v) in enumerate(zip(im["stdev"], m_var)):
        want = float(s) * float(c["st"]["stdev"][k]) + (1 - float(s)) * math.sqrt(float(v))
        if abs(a - want) > 2e-5 * (abs(want) + 1):
            chk.violation("cem-update:stdev", f"updated stdev[{k}] = {a!r} differs from s*old+(1-s)*sqrt(var) = {want!r} "
                          f"(model variance {float(v)!r}, elites {m_el})", case); return


# ---------------------------------------------------------------- (B) gaussian_samples
def gen_gauss(r):
    da = r.choice([0, 1, 2, 3]); d = da + 1
    lo = [Fraction(r.randint(-16, 8), 4) for _ in range(d)]
    hi = [l + r.choice([Fraction(0), Fraction(1, 4), Fraction(1), Fraction(3), Fraction(8)]) for l in lo]
    m = [r.choice([l - 1, l, (l + h) / 2, h, h + 2, Fraction(r.randint(-40, 40), 8)]) for l, h in zip(lo, hi)]
    sd = [r.choice([Fraction(0), Fraction(1, 8), Fraction(1), Fraction(4)]) for _ in range(d)]
    z = [Fraction(r.randint(-24, 24), 8) for _ in range(d)]
    return dict(da=da, lo=lo, hi=hi, m=m, sd=sd, z=z)


def impl_gauss(cases, seeds):
    import jax, jax.numpy as jnp, numpy as onp
    import unittest.mock as um
    from rex import cem as C
    out = []
    for c, seed in zip(cases, seeds):
        da = c["da"]; d = da + 1
        solver = C.CEMSolver.init(to_tree(c["lo"], da), to_tree(c["hi"], da), num_samples=4)
        state = C.CEMState(mean=to_tree(c["m"], da), stdev=to_tree(c["sd"], da), bestsofar=to_tree(c["m"], da), bestsofar_loss=jnp.inf)
        zt = to_tree(c["z"], da); leaves = jax.tree_util.tree_leaves(zt); used = []
        def fake(key, shape=(), dtype=None):
            used.append(tuple(shape)); return jnp.asarray(leaves[len(used) - 1]).reshape(shape)
        res = {}
        try:
            with um.patch.object(jax.random, "normal", fake):
                res["patched"] = flat_of(C.gaussian_samples(solver, state, jax.random.PRNGKey(seed)))
            res["patched_used"] = (len(used) == len(leaves))
            res["real"] = flat_of(C.gaussian_samples(solver, state, jax.random.PRNGKey(seed)))
            big = state.replace(stdev=jax.tree_util.tree_map(lambda x: x * 0 + 1e6, state.stdev))
            res["wide"] = flat_of(C.gaussian_samples(solver, big, jax.random.PRNGKey(seed + 1)))
        except Exception as e:  # noqa
            res = dict(error=f"{type(e).__name__}: {str(e)[:200]}")
        out.append(res)
    return out


# ---------------------------------------------------------------- host-side losses for the end-to-end runs
class HostLoss:
    def __init__(self, kind, d, lo, hi, r, N, dtype="float32", ldtype=None, offset=0.0, scale=1.0):
        """dtype: of the candidates handed to the host; ldtype: of the loss values handed back; the loss is offset + scale * shape(x)
        (scale > 0), evaluated in double precision on the host before it is rounded to ldtype"""
        import numpy as onp
        self.kind, self.d, self.calls, self.in_dtypes = kind, d, [], set()
        self.dtype, self.ldtype, self.offset, self.scale = onp.dtype(dtype), onp.dtype(ldtype or dtype), float(offset), float(scale)
        self.c = onp.asarray([float(l + (h - l) * Fraction(r.randint(0, 8), 8)) for l, h in zip(lo, hi)], dtype=self.dtype)
        self.thr = float(lo[0] + (hi[0] - lo[0]) * Fraction(r.randint(2, 6), 8))
        self.k0 = r.randint(1, 3)
        pool = [math.nan, math.nan, math.inf, 0.25, 0.5, 0.5, 1.0, 1.5, 2.0, -1.0, 3.0, 3.0]
        self.script = [[r.choice(pool) for _ in range(N)] for _ in range(64)]
        # sparse / plateau kinds (family F); drawn after everything above, so the other kinds see the same draws as before
        M = max(N, 64)
        lv = Fraction(r.randint(4, 12), 4); self.levels = []
        for _ in range(64):      # one level per generation: mostly improving, sometimes equal to / worse than the previous one
            self.levels.append(float(lv)); lv += Fraction(r.choice([-4, -2, -2, -1, -1, -1, 0, 2]), 4)
        pfin = r.choice([0.15, 0.3, 0.5])
        self.mask = [[r.random() < pfin for _ in range(M)] for _ in range(64)]
        self.one = [r.randrange(N) for _ in range(64)]
        self.other = r.choice([math.nan, math.nan, "mixed"])

    def f(self, x, it):
        import numpy as onp
        conv = ((x - self.c) ** 2).sum(-1)
        k = self.kind
        if k == "convex": l = conv
        elif k == "multimodal": l = conv + 2 * onp.sin(5 * x[:, 0]) + 2
        elif k == "nan-region": l = onp.where(x[:, 0] > self.thr, onp.nan, conv)
        elif k == "all-nan": l = conv * onp.nan
        elif k == "nan-then-finite": l = conv * onp.nan if it < self.k0 else conv
        elif k == "inf-region": l = onp.where(x[:, 0] > self.thr, onp.inf, conv)
        elif k == "quantized": l = onp.floor(2 * onp.abs(x - self.c).sum(-1)) / 2
        elif k == "worsening": l = conv + 10.0 * it
        elif k == "scripted": l = onp.asarray(self.script[it % 64][:x.shape[0]])
        elif k == "neg-inf-once": l = onp.where((onp.arange(x.shape[0]) == 1) & (it == 1), -onp.inf, conv)
        # sparse / plateau losses: inside one generation all finite losses tie (a 0/1 task-failure indicator, a constant reward for
        # "rollout defined") while other candidates are NaN (the rollout diverged)
        elif k == "plateau-nan-region": l = onp.where(x[:, 0] > self.thr, onp.nan, self.levels[0])
        elif k == "indicator-nan-region": l = onp.where(x[:, 0] > self.thr, onp.nan, (x[:, -1] > self.c[-1]).astype(onp.float64))
        elif k == "sparse-levels": l = onp.where(onp.asarray(self.mask[it % 64][:x.shape[0]]), self.levels[it % 64], onp.nan)
        elif k == "single-finite":
            l = onp.full(x.shape[0], onp.nan)
            if self.other == "mixed": l[::3] = onp.inf
            l[self.one[it % 64] % x.shape[0]] = self.levels[it % 64]
        else: raise ValueError(k)
        if (self.offset, self.scale) != (0.0, 1.0):
            with onp.errstate(all="ignore"): l = self.offset + self.scale * onp.asarray(l, dtype=onp.float64)
        with onp.errstate(all="ignore"): return onp.asarray(l, dtype=self.ldtype)

    def host(self, x):
        import numpy as onp
        self.in_dtypes.add(str(onp.asarray(x).dtype))
        x = onp.asarray(x, dtype=self.dtype)
        single = (x.ndim == 1)
        if single: x = x[None]
        l = self.f(x, len(self.calls))
        self.calls.append((x.copy(), l.copy()))
        return l[0] if single else l

    def loss(self, p, transform, rng):
        import jax, jax.numpy as jnp
        flat = jnp.concatenate([jnp.ravel(v) for v in jax.tree_util.tree_leaves(p)])
        return jax.pure_callback(self.host, jax.ShapeDtypeStruct((), self.ldtype), flat, vmap_method="broadcast_all")


KINDS = ["convex", "multimodal", "nan-region", "all-nan", "nan-then-finite", "inf-region", "quantized", "worsening", "scripted",
         "neg-inf-once", "nan-region", "scripted"]


def gen_box(r, d):
    lo = [Fraction(r.randint(-16, 8), 4) for _ in range(d)]
    hi = [l + r.choice([Fraction(1, 2), Fraction(1), Fraction(2), Fraction(4)]) for l in lo]
    if d > 1 and r.random() < 0.2: hi[-1] = lo[-1]          # a zero-width coordinate
    return lo, hi


def iter_term(X, L, best, bl, unit=UNIT):
    return "(Build_iter [" + "; ".join(qv([F(v) for v in row]) for row in X) + "] [" + "; ".join(loss_of(v, unit) for v in L) + \
           f"] {qv([F(v) for v in best])} {ext_of(bl, unit)})"


def hist_term(lo, hi, pb, prev, iters, unit=UNIT):
    return f"({qv(lo)}, {qv(hi)}, {qv(pb)}, {ext_of(prev, unit)}, [" + "; ".join(iters) + "])"


def explain_iter(lo, hi, pb, prev, X, L, best, bl):
    """which clause fails (plain python, only to word the report; the verdict comes from check_history in Coq)"""
    import numpy as onp
    clean = [math.inf if math.isnan(float(v)) else float(v) for v in L]
    for j, row in enumerate(X):
        for k, v in enumerate(row):
            if not (float(lo[k]) <= float(v) <= float(hi[k])):
                return "bounds", f"candidate {j} coordinate {k} = {float(v)!r} outside [{float(lo[k])}, {float(hi[k])}]"
    want = min([float(prev)] + clean)
    if float(bl) != want or math.isnan(float(bl)):
        if float(bl) > float(prev) or math.isnan(float(bl)): return "best-increased", f"reported best loss {float(bl)!r} after previous {float(prev)!r}"
        return "best-not-min", f"reported best loss {float(bl)!r} but min(previous, cleaned losses) = {want!r}"
    att = [j for j, row in enumerate(X) if clean[j] == float(bl) and [float(v) for v in row] == [float(v) for v in best]]
    if not att and not ([float(v) for v in best] == [float(v) for v in pb] and float(bl) == float(prev)):
        nanb = [j for j, row in enumerate(X) if [float(v) for v in row] == [float(v) for v in best] and math.isnan(float(L[j]))]
        if nanb and float(bl) != math.inf:
            fin = [j for j in range(len(clean)) if clean[j] == float(bl)]
            return "best-is-nan-loss-candidate", f"reported best {list(map(float, best))} is candidate {nanb[0]} of the population, whose loss " \
                   f"is NaN; the reported best loss {float(bl)!r} was attained by candidate(s) {fin[:8]} = {[list(map(float, X[j])) for j in fin[:2]]}"
        return "best-not-attained", f"reported best {list(map(float, best))} did not attain the reported loss {float(bl)!r}"
    return "other", "check_iter = false"


# ---------------------------------------------------------------- (C) CEM end to end
def gen_cem(r, big):
    da = r.choice([0, 1, 2]); d = da + 1
    lo, hi = gen_box(r, d)
    N = r.choice([4, 8, 8, 16] + ([32, 64] if big else []))
    ne = min(N, r.choice([1, 1, 2, max(1, N // 4), max(1, N // 2), N]))
    s = r.choice([0.0, 0.1, 0.5, 0.9, 1.0])
    kind = r.choice(KINDS)
    mean = [r.choice([l + (h - l) / 2, l, h, l - 1, h + 1]) for l, h in zip(lo, hi)]
    steps = r.randint(1, 12 if big else 5)
    mode = r.choice(["step", "step", "scan", "scan2", "scan2"])
    if mode == "scan2":      # short legs and small populations: the second leg often does not beat the best of the first one
        steps = r.choice([2, 2, 3, 4]); N = r.choice([4, 4, 8]); ne = min(ne, N)
    return dict(da=da, lo=lo, hi=hi, N=N, ne=ne, s=s, kind=kind, mean=mean, steps=steps, seed=r.randrange(2 ** 31),
                mode=mode, custom_sd=r.random() < 0.3, hseed=r.randrange(2 ** 31))


def run_cem(c):
    """c may carry pdtype (dtype of bounds / mean / candidates), ldtype (dtype of the loss values), offset / scale (loss magnitude) and
    jit (cem_step under jax.jit): the defaults are the float32 family (C); family (E) sets them (in a child process with x64)"""
    import jax, jax.numpy as jnp, numpy as onp, random
    from rex import cem as C, base
    da = c["da"]; d = da + 1; N = c["N"]; pd = c.get("pdtype", "float32")
    solver = C.CEMSolver.init(to_tree(c["lo"], da, dtype=pd), to_tree(c["hi"], da, dtype=pd), num_samples=N, evolution_smoothing=c["s"],
                              elite_portion=(c["ne"] + 0.5) / N)
    st = solver.init_state(to_tree(c["mean"], da, dtype=pd), to_tree([Fraction(1, 2)] * d, da, dtype=pd) if c["custom_sd"] else None)
    hl = HostLoss(c["kind"], d, c["lo"], c["hi"], random.Random(c["hseed"]), N, dtype=c.get("hdtype", pd), ldtype=c.get("ldtype", pd),
                  offset=c.get("offset", 0.0), scale=c.get("scale", 1.0))
    tr = base.Identity.init()
    states = [dict(mean=flat_of(st.mean), stdev=flat_of(st.stdev), best=flat_of(st.bestsofar), bl=float(st.bestsofar_loss))]
    key = jax.random.PRNGKey(c["seed"])
    ret_losses = []
    if c["mode"] == "step":
        step = (lambda s_, k_: C.cem_step(hl.loss, solver, s_, tr, k_))
        if c.get("jit"): step = jax.jit(step)
        for i in range(c["steps"]):
            key, sub = jax.random.split(key)
            st, ls = step(st, sub)
            ret_losses.append(onp.asarray(ls))
            states.append(dict(mean=flat_of(st.mean), stdev=flat_of(st.stdev), best=flat_of(st.bestsofar), bl=float(st.bestsofar_loss)))
    elif c["mode"] == "scan2":
        # a search continued by a second cem() call from the state the first one returned (the best so far is carried in the state)
        legs = [max(1, c["steps"] // 2), max(1, c["steps"] - c["steps"] // 2)]
        for leg in legs:
            key, sub = jax.random.split(key)
            st, ls = C.cem(hl.loss, solver, st, tr, max_steps=leg, rng=sub, verbose=False)
            ret_losses += list(onp.asarray(ls))
            states.append(dict(mean=flat_of(st.mean), stdev=flat_of(st.stdev), best=flat_of(st.bestsofar), bl=float(st.bestsofar_loss), legsteps=leg))
    else:
        st, ls = C.cem(hl.loss, solver, st, tr, max_steps=c["steps"], rng=key, verbose=False)
        ret_losses = list(onp.asarray(ls))
        states.append(dict(mean=flat_of(st.mean), stdev=flat_of(st.stdev), best=flat_of(st.bestsofar), bl=float(st.bestsofar_loss)))
    states[0]["cand_dtypes"] = sorted(hl.in_dtypes)
    return states, hl.calls, ret_losses


# ---------------------------------------------------------------- (D) evo end to end
RANK_BASED = ["CMA_ES", "DE", "PSO", "SimpleGA", "SimpleES", "Sep_CMA_ES", "SNES", "xNES", "RandomSearch"]
VALUE_BASED = ["OpenES", "PGPE", "ARS"]      # the update uses the fitness values themselves


def gen_evo(r, strat, big):
    da = r.choice([1, 2]); d = da + 1
    lo, hi = gen_box(r, d)
    hi = [h if h > l else l + 1 for l, h in zip(lo, hi)]
    N = r.choice([8, 8, 16] + ([32] if big else []))
    kind = r.choice(["convex", "multimodal", "nan-region", "nan-region", "nan-then-finite", "inf-region", "quantized", "worsening",
                     "scripted", "all-nan"])
    mean = [l + (h - l) / 2 for l, h in zip(lo, hi)]
    return dict(strategy=strat, da=da, lo=lo, hi=hi, N=N, kind=kind, mean=mean, steps=r.randint(2, 10 if big else 4),
                seed=r.randrange(2 ** 31), hseed=r.randrange(2 ** 31), mode=r.choice(["step", "step", "scan"]))


def run_evo(c):
    import jax, jax.numpy as jnp, numpy as onp, random, io, contextlib
    from rex import evo as E, base
    da = c["da"]; d = da + 1; pd = c.get("pdtype", "float32")
    with contextlib.redirect_stdout(io.StringIO()):
        es = E.EvoSolver.init(to_tree(c["lo"], da, dtype=pd), to_tree(c["hi"], da, dtype=pd), c["strategy"], strategy_kwargs=dict(popsize=c["N"]))
        st = es.init_state(to_tree(c["mean"], da, dtype=pd), jax.random.PRNGKey(c["seed"] ^ 5))
    hl = HostLoss(c["kind"], d, c["lo"], c["hi"], random.Random(c["hseed"]), c["N"], dtype=c.get("hdtype", pd), ldtype=c.get("ldtype", pd),
                  offset=c.get("offset", 0.0), scale=c.get("scale", 1.0))
    tr = base.Identity.init()
    clip = tuple([float(v) for v in onp.broadcast_to(onp.asarray(getattr(es.strategy_params, k)), (d,))] for k in ("clip_min", "clip_max"))
    states = [dict(best=[float(v) for v in onp.asarray(st.best_member)], bl=float(st.best_fitness))]
    key = jax.random.PRNGKey(c["seed"])
    if c["mode"] == "step":
        for i in range(c["steps"]):
            key, sub = jax.random.split(key)
            (st, _), ls = E.evo_step(hl.loss, es, st, tr, sub)
            states.append(dict(best=[float(v) for v in onp.asarray(st.best_member)], bl=float(st.best_fitness)))
    else:
        st, _, ls = E.evo(hl.loss, es, st, tr, max_steps=c["steps"], rng=key, verbose=False)
        states.append(dict(best=[float(v) for v in onp.asarray(st.best_member)], bl=float(st.best_fitness)))
    states[0]["cand_dtypes"] = sorted(hl.in_dtypes)
    return states, hl.calls, clip


def contract_cases(r, strat, n):
    """evosax's ask / tell alone, on NaN-free fitness chosen by the harness (finite with ties, +inf)"""
    import jax, jax.numpy as jnp, numpy as onp, io, contextlib
    from rex import evo as E
    out = []
    lo = [Fraction(-1), Fraction(0), Fraction(-2)]; hi = [Fraction(1), Fraction(3), Fraction(-1)]
    with contextlib.redirect_stdout(io.StringIO()):
        es = E.EvoSolver.init(to_tree(lo, 2), to_tree(hi, 2), strat, strategy_kwargs=dict(popsize=8))
        st = es.init_state(to_tree([0, 1, Fraction(-3, 2)], 2), jax.random.PRNGKey(r.randrange(2 ** 31)))
    for i in range(n):
        x, st1 = es.strategy.ask(jax.random.PRNGKey(r.randrange(2 ** 31)), st, es.strategy_params)
        X = onp.stack([onp.asarray(es.flatten(jax.tree_util.tree_map(lambda v: v[j], x))) for j in range(8)])
        rank_only = strat in RANK_BASED
        fit = [r.choice([0.25, 0.5, 0.5, 1.0, 2.0, -1.0, 4.0] + ([math.inf, math.inf] if rank_only else [])) for _ in range(8)]
        if i == 0 and rank_only: fit = [math.inf] * 8
        st2 = es.strategy.tell(x, jnp.asarray(fit, dtype=jnp.float32), st1, es.strategy_params)
        out.append(dict(strategy=strat, lo=lo, hi=hi, X=X, fit=fit, ask_keeps=(float(st1.best_fitness) == float(st.best_fitness) and
                        onp.array_equal(onp.asarray(st1.best_member), onp.asarray(st.best_member))),
                        prev=([float(v) for v in onp.asarray(st1.best_member)], float(st1.best_fitness)),
                        new=([float(v) for v in onp.asarray(st2.best_member)], float(st2.best_fitness))))
        st = st2
    return out


# ---------------------------------------------------------------- (E) precision configurations: 64-bit mode in a child process
# loss = offset + scale * shape(x), evaluated in double precision on the host.  The magnitudes are chosen relative to float32:
# differences far below its resolution at the offset, values below its smallest subnormal, finite values above its maximum.
MAGNITUDES = {
    "plain": (0.0, 1.0),
    "offset-fine": (1000.0, 1e-6),           # float32 spacing at 1000 is 6.1e-5
    "neg-offset-fine": (-1.0e6, 1e-7),       # float32 spacing at 1e6 is 6.25e-2
    "offset-dyadic": (1.0, 2.0 ** -40),
    "tiny": (0.0, 1e-60),                    # the smallest positive float32 is 1.4e-45
    "huge": (1e39, 1e39),                    # the largest finite float32 is 3.4e38
}
EVO_X64 = ["CMA_ES", "DE", "SimpleGA", "OpenES"]


def gen_prec_cases(r, big):
    """cem / cem_step with float64 bounds, candidates and (mostly) float64 losses; evo_step with float64 bounds and float32 losses
    (evosax 0.1.6 itself raises a TypeError in get_best_fitness_member when it is handed float64 fitness)"""
    out = []
    mags = list(MAGNITUDES)
    for i in range(9 if not big else 40):
        c = gen_cem(r, big)
        if c["kind"] == "all-nan" and r.random() < 0.75: c["kind"] = r.choice(["convex", "nan-region", "scripted", "quantized", "multimodal"])
        mag = mags[i % len(mags)] if i < len(mags) else r.choice(mags)       # every magnitude class in every run
        c.update(solver="cem", pdtype="float64", hdtype="float64", ldtype=r.choice(["float64"] * 4 + ["float32"]), jit=r.random() < 0.5,
                 mag=mag, offset=MAGNITUDES[mag][0], scale=MAGNITUDES[mag][1])
        if i < len(mags): c["ldtype"] = "float64"
        out.append(c)
    for s_ in (r.sample(EVO_X64, 2) if not big else EVO_X64):
        c = gen_evo(r, s_, big)
        mag = r.choice(["plain", "plain", "offset-fine"])
        c.update(solver="evo", pdtype="float64", hdtype="float64", ldtype="float32", mode="step", mag=mag, offset=MAGNITUDES[mag][0],
                 scale=MAGNITUDES[mag][1])
        out.append(c)
    return out


def prec_feats(c, calls):
    """what the losses of this run exercise relative to float32"""
    import numpy as onp
    f = ["x64", "magnitude:" + c["mag"], "loss-dtype:" + c["ldtype"]] + (["jit"] if c.get("jit") else [])
    with onp.errstate(all="ignore"):
        for _, L in calls:
            fin = onp.unique(L[onp.isfinite(L)])
            if fin.size and onp.unique(fin.astype(onp.float32)).size < fin.size and "losses-differ-below-float32-resolution" not in f:
                f.append("losses-differ-below-float32-resolution")
            if fin.size and (onp.isinf(fin.astype(onp.float32)).any() or ((fin != 0) & (fin.astype(onp.float32) == 0)).any()) \
                    and "finite-loss-outside-float32-range" not in f:
                f.append("finite-loss-outside-float32-range")
    return f


def run_prec(chk, cases, hist_jobs, upd_jobs):
    import numpy as onp
    if not cases: return
    worker = os.path.join(os.path.dirname(os.path.abspath(__file__)), "c18_worker.py")
    env = dict(lib.CHILD_ENV, PYTHONPATH=lib.REPO, VERIF_REPO=lib.REPO, JAX_ENABLE_X64="1")
    rc, o, e, dt = lib.sh([lib.PY, worker], inp=json.dumps([repr(c) for c in cases]), env=env, timeout=900)
    mark = "@@C18-WORKER-RESULT@@"
    if rc != 0 or mark not in o:
        chk.broke("x64-child-failed", f"rc={rc}: {(o + e)[-1200:]}"); return
    res = json.loads(o[o.index(mark) + len(mark):])
    if not res["x64"] or len(res["results"]) != len(cases):
        chk.broke("x64-child-failed", f"x64={res['x64']}, {len(res['results'])} results for {len(cases)} cases"); return
    chk.feat("x64-child-seconds", int(dt))
    for c, x in zip(cases, res["results"]):
        which = c["solver"] + "-x64"
        case = dict(kind=which, gen=repr(c), jax_enable_x64=True)
        if "error" in x:
            chk.violation(which + "-raises", f"{c['solver']} raised with jax_enable_x64 (float64 bounds, {c['ldtype']} losses): {x['error']}", case); continue
        calls = [(onp.asarray(X, dtype=onp.float64).reshape(len(L), -1), onp.asarray(L, dtype=onp.float64)) for X, L in x["calls"]]
        states = x["states"]
        xf = prec_feats(c, calls)
        for dtn in states[0].get("cand_dtypes", []): chk.feat(f"{which}:candidate-dtype:{dtn}")
        if c["solver"] == "cem":
            judge_cem(chk, c, case, states, calls, [onp.asarray(l, dtype=onp.float64) for l in x["ret"]], which, UNIT64, xf, hist_jobs, upd_jobs)
        else:
            judge_evo(chk, c, case, states, calls, x["clip"], which, UNIT64, xf, hist_jobs)


# ---------------------------------------------------------------- (F) sparse / plateau losses with NaN
# Inside one generation every finite loss has the same value (plateau, 0/1 indicator, one finite candidate only) and the other
# candidates are NaN: the only thing that separates a NaN candidate from the best one is the NaN handling itself (no finite loss
# lies between them), and the NaN candidates come before / after the finite ones in population order.
SPARSE_KINDS = ["single-finite", "sparse-levels", "plateau-nan-region", "indicator-nan-region"]


def gen_sparse_cases(r, big):
    out = []
    strategies = r.sample(RANK_BASED, 5) if not big else [s_ for s_ in RANK_BASED for _ in range(2)]
    for i, s_ in enumerate(strategies):
        c = gen_evo(r, s_, big)
        c.update(solver="evo", kind=SPARSE_KINDS[i % len(SPARSE_KINDS)] if i < 8 else r.choice(SPARSE_KINDS), steps=max(3, c["steps"]), family="sparse")
        out.append(c)
    for i in range(3 if not big else 8):
        c = gen_cem(r, big)
        c.update(solver="cem", kind=SPARSE_KINDS[i % len(SPARSE_KINDS)] if i < 8 else r.choice(SPARSE_KINDS), family="sparse")
        out.append(c)
    return out


def sparse_feats(calls):
    """what the generations of a run exercise: NaN next to finite losses that all tie, and where the NaN candidates stand"""
    import numpy as onp
    f = ["sparse-loss"]; seen = math.inf
    for _, L in calls:
        L = onp.asarray(L, dtype=onp.float64)
        fin = onp.flatnonzero(onp.isfinite(L)); nan = onp.flatnonzero(onp.isnan(L))
        if fin.size and nan.size and onp.unique(L[fin]).size == 1:
            f.append("generation:nan-and-all-finite-losses-tied")
            if fin.size == 1: f.append("generation:one-finite-loss-only")
            if L[fin[0]] < seen:
                f.append("improving-generation:nan-candidate-" + ("before" if nan[0] < fin[0] else "after") + "-first-finite-one")
        if fin.size: seen = min(seen, float(L[fin].min()))
    return sorted(set(f))


# ---------------------------------------------------------------- judging one end-to-end run (families C, D, E, F)
def judge_cem(chk, c, case, states, calls, ret, which, unit, xfeats, hist_jobs, upd_jobs):
    """which: label of the family in signatures ("cem" / "cem-x64"); unit: common denominator of the loss values"""
    import numpy as onp
    feats = [which + "-" + c["mode"], "loss:" + c["kind"]] + (["one-elite"] if c["ne"] == 1 else []) + \
            (["mean-outside-bounds"] if any(m < l or m > h for m, l, h in zip(c["mean"], c["lo"], c["hi"])) else []) + xfeats
    if any(onp.isnan(L).any() for _, L in calls): feats.append("nan-loss")
    chk.case((which, repr(c)), feats, dict(kind=case["kind"], N=c["N"], elites=c["ne"], smoothing=c["s"], loss=c["kind"], steps=c["steps"],
                                          mode=c["mode"], first_losses=[repr(float(v)) for v in calls[0][1][:8]] if calls else []))
    chk.traces_impl += 1
    nsteps = c["steps"] if c["mode"] != "scan2" else max(1, c["steps"] // 2) + max(1, c["steps"] - c["steps"] // 2)
    if len(calls) != nsteps:
        chk.broke(which + "-host-loss-call-count", f"{len(calls)} populations seen for {nsteps} steps"); return
    for (X, L), rl in zip(calls, ret):
        if not onp.array_equal(L, onp.asarray(rl), equal_nan=True):
            chk.violation(which + "-returned-losses-differ", "the losses returned by cem/cem_step are not the evaluated ones", case)
    nanbl = next((i for i, s1 in enumerate(states) if math.isnan(s1["bl"]) or any(math.isnan(v) for v in s1["best"])), None)
    if nanbl is not None:
        chk.violation(which + "-history:best-is-nan", f"cem: the reported best (candidate, loss) after {nanbl} iteration(s) is "
                      f"({states[nanbl]['best']}, {states[nanbl]['bl']!r})", dict(case, iteration=nanbl)); return
    if c["mode"] == "step":
        iters = [iter_term(X, L, s1["best"], s1["bl"], unit) for (X, L), s1 in zip(calls, states[1:])]
        data = [(X, L, s1["best"], s1["bl"]) for (X, L), s1 in zip(calls, states[1:])]
        # the smoothing factor is a python float: a weakly typed scalar, i.e. rounded to the dtype of the mean it multiplies
        sm = F(onp.float32(c["s"])) if c.get("pdtype", "float32") == "float32" else F(c["s"])
        for i, ((X, L), s0, s1) in enumerate(zip(calls, states[:-1], states[1:])):
            uc = dict(N=c["N"], ne=c["ne"], da=c["da"], s=sm, xs=[[F(v) for v in row] for row in X],
                      ls=[(math.nan if math.isnan(float(v)) else float(v)) for v in L],
                      st=dict(mean=[F(v) for v in s0["mean"]], stdev=[F(v) for v in s0["stdev"]], best=[F(v) for v in s0["best"]],
                              best_loss=s0["bl"]), unit=unit, label=which)
            upd_jobs.append((case, i, uc, s1))
    elif c["mode"] == "scan2":
        iters = []; data = []; off = 0
        for s1 in states[1:]:
            seg = calls[off:off + s1["legsteps"]]; off += s1["legsteps"]
            X2 = onp.concatenate([X for X, _ in seg]); L2 = onp.concatenate([L for _, L in seg])
            iters.append(iter_term(X2, L2, s1["best"], s1["bl"], unit)); data.append((X2, L2, s1["best"], s1["bl"]))
    else:
        allX = onp.concatenate([X for X, _ in calls]); allL = onp.concatenate([L for _, L in calls])
        iters = [iter_term(allX, allL, states[-1]["best"], states[-1]["bl"], unit)]
        data = [(allX, allL, states[-1]["best"], states[-1]["bl"])]
    hist_jobs.append((which, case, c["lo"], c["hi"], states[0]["best"], states[0]["bl"], iters, data, unit))


def judge_evo(chk, c, case, states, calls, clip, which, unit, xfeats, hist_jobs):
    import numpy as onp
    feats = [which + "-" + c["mode"], "strategy:" + c["strategy"], "loss:" + c["kind"]] + xfeats
    if any(onp.isnan(L).any() for _, L in calls): feats.append("nan-loss")
    chk.case((which, repr(c)), feats, dict(kind=case["kind"], strategy=c["strategy"], popsize=c["N"], loss=c["kind"], steps=c["steps"], mode=c["mode"]))
    chk.traces_impl += 1
    if [list(v) for v in clip] != [[float(v) for v in c["lo"]], [float(v) for v in c["hi"]]]:
        chk.violation(which + "-clip-bounds", f"EvoSolver.init hands clip_min/clip_max = {clip} to evosax for bounds "
                      f"{[float(v) for v in c['lo']]}, {[float(v) for v in c['hi']]}", case); return
    # NaN candidates are reported before anything else: they are what a poisoned strategy state produces
    nanc = next(((i, X) for i, (X, _) in enumerate(calls) if onp.isnan(X).any()), None)
    if nanc is not None:
        i, X = nanc
        prevnan = any(onp.isnan(L).any() or onp.isinf(L).any() for _, L in calls[:i])
        sig = "evo:nan-or-inf-loss-makes-value-based-strategy-sample-nan-candidates" if (prevnan and c["strategy"] in VALUE_BASED) \
            else which + "-candidate-nan"
        chk.violation(sig, f"strategy {c['strategy']}: after a generation with a NaN/inf loss (handed to tell as +inf) the "
                      f"population of generation {i} contains NaN candidates (outside the bounds); every later loss is NaN",
                      dict(case, generation=i, first_candidate=[float(v) for v in X[0]]))
        return
    nanbl = next((i for i, s1 in enumerate(states) if math.isnan(s1["bl"]) or any(math.isnan(v) for v in s1["best"])), None)
    if nanbl is not None:
        chk.violation(which + "-history:best-is-nan", f"evo: the reported best (member, fitness) after {nanbl} generation(s) is "
                      f"({states[nanbl]['best']}, {states[nanbl]['bl']!r})", dict(case, iteration=nanbl)); return
    if c["mode"] == "step":
        iters = [iter_term(X, L, s1["best"], s1["bl"], unit) for (X, L), s1 in zip(calls, states[1:])]
        data = [(X, L, s1["best"], s1["bl"]) for (X, L), s1 in zip(calls, states[1:])]
    else:
        allX = onp.concatenate([X for X, _ in calls]); allL = onp.concatenate([L for _, L in calls])
        iters = [iter_term(allX, allL, states[-1]["best"], states[-1]["bl"], unit)]
        data = [(allX, allL, states[-1]["best"], states[-1]["bl"])]
    hist_jobs.append((which, case, c["lo"], c["hi"], states[0]["best"], states[0]["bl"], iters, data, unit))


# ---------------------------------------------------------------- the run
def run(chk, replay=None):
    chk.stage_proofs(kernels=["Solver"])
    import numpy as onp
    r = chk.rnd
    big = chk.tier != "quick"
    rp = json.load(open(replay)) if replay else None
    rkind = rp["case"].get("kind") if rp else None
    if rkind not in ("update", "cem", "evo", "cem-x64", "evo-x64") or "gen" not in rp["case"]: rp = rkind = None     # not replayable alone: full run

    # ---- (A)
    n_upd = 0 if (rp and rkind != "update") else (150 if not big else 1500)
    ucases = [gen_upd(r, big) for _ in range(n_upd)]
    if rp and rkind == "update":
        ucases = [eval(rp["case"]["gen"], dict(Fraction=Fraction, nan=math.nan, inf=math.inf))]
    if ucases:
        impl = impl_upd(ucases, jit_some=True)
        model = lib.coq_eval_sharded("C18_upd", HEADER, "run_upd", [upd_term(c) for c in ucases], per=100)
        for c, im, mo in zip(ucases, impl, model):
            chk.case(("upd", repr(c)), upd_feats(c), dict(kind="update", N=c["N"], ne=c["ne"], s=str(c["s"]), losses=[str(x) for x in c["ls"]],
                                                         previous_best_loss=str(c["st"]["best_loss"])))
            chk.traces_impl += 1
            nv = len(chk.violations)
            judge_upd(chk, c, im, mo)
            if len(chk.violations) > nv: chk.violations[-1]["case"]["gen"] = repr(c)

    # ---- (B)
    if not rp:
        gcases = [gen_gauss(r) for _ in range(40 if not big else 400)]
        seeds = [r.randrange(2 ** 31) for _ in gcases]
        impl = impl_gauss(gcases, seeds)
        model = lib.coq_eval_sharded("C18_gauss", HEADER, "run_gauss",
                                     [f"({qv(c['m'])}, {qv(c['sd'])}, {qv(c['lo'])}, {qv(c['hi'])}, {qv(c['z'])})" for c in gcases], per=200)
        for c, im, mo in zip(gcases, impl, model):
            feats = ["gaussian-samples"] + (["mean-outside-bounds"] if any(m < l or m > h for m, l, h in zip(c["m"], c["lo"], c["hi"])) else []) + \
                    (["zero-width-bound"] if any(l == h for l, h in zip(c["lo"], c["hi"])) else [])
            chk.case(("gauss", repr(c)), feats, None); chk.traces_impl += 1
            case = dict(kind="gauss", repr=repr({k: str(v) for k, v in c.items()}))
            if "error" in im:
                chk.violation("gaussian-samples-raises", im["error"], case); continue
            for nm in ("patched", "real", "wide"):
                for k, v in enumerate(im[nm]):
                    if not (float(c["lo"][k]) <= v <= float(c["hi"][k])):
                        chk.violation("cem-sample-out-of-bounds", f"gaussian_samples returned coordinate {k} = {v!r} outside "
                                      f"[{float(c['lo'][k])}, {float(c['hi'][k])}] ({nm} noise)", case); break
            if im.get("patched_used"):
                chk.feat("gauss-exact-compare")
                if [F(v) for v in im["patched"]] != qs(mo):
                    chk.violation("cem-sample-differs", f"gaussian_samples = {im['patched']} but clip(mean + stdev*noise) = "
                                  f"{[float(x) for x in qs(mo)]}", case)
            else:
                chk.notes.append("gaussian_samples no longer draws through jax.random.normal once per leaf: exact comparison skipped")

    # ---- (C)
    hist_jobs = []      # (label, case dict, lo, hi, previous best, previous loss, iteration terms, per-iteration data, unit)
    upd_jobs = []
    if not rp or rkind == "cem":
        ccases = [gen_cem(r, big) for _ in range(10 if not big else 60)]
        if rp: ccases = [eval(rp["case"]["gen"], dict(Fraction=Fraction))]
        for c in ccases:
            case = dict(kind="cem", gen=repr(c))
            try:
                states, calls, ret = run_cem(c)
            except Exception as e:  # noqa
                chk.violation("cem-raises", f"cem/cem_step raised: {type(e).__name__}: {str(e)[:300]}", case); continue
            judge_cem(chk, c, case, states, calls, ret, "cem", UNIT, [], hist_jobs, upd_jobs)

    # ---- (D)
    tell_jobs = []
    if not rp or rkind == "evo":
        strategies = (RANK_BASED[:3] + VALUE_BASED[:1]) if not big else (RANK_BASED + VALUE_BASED)
        ecases = [gen_evo(r, s_, big) for s_ in strategies for _ in range(2 if not big else 5)]
        for c in ecases:      # every strategy sees at least one loss that returns NaN / inf for some members of (almost) every generation
            if c is next(x for x in ecases if x["strategy"] == c["strategy"]): c["kind"] = "scripted"; c["mode"] = "step"; c["steps"] = max(3, c["steps"])
        if rp: ecases = [eval(rp["case"]["gen"], dict(Fraction=Fraction))]
        for c in ecases:
            case = dict(kind="evo", gen=repr(c))
            try:
                states, calls, clip = run_evo(c)
            except Exception as e:  # noqa
                chk.violation("evo-raises", f"evo/evo_step raised: {type(e).__name__}: {str(e)[:300]}", case); continue
            judge_evo(chk, c, case, states, calls, clip, "evo", UNIT, [], hist_jobs)
        if not rp:
            for s_ in strategies:
                try: tell_jobs += contract_cases(r, s_, 3 if not big else 8)
                except Exception as e:  # noqa
                    chk.broke(f"evosax-contract:{s_}", f"{type(e).__name__}: {str(e)[:200]}")

    # ---- (E) precision configurations (child process with JAX_ENABLE_X64=1)
    if not rp or rkind in ("cem-x64", "evo-x64"):
        pcases = gen_prec_cases(r, big)
        if rp: pcases = [eval(rp["case"]["gen"], dict(Fraction=Fraction))]
        run_prec(chk, pcases, hist_jobs, upd_jobs)

    # ---- (F) sparse / plateau losses with NaN (same runners and checker as (C) and (D); generated after every other family)
    if not rp:
        for c in gen_sparse_cases(r, big):
            case = dict(kind=c["solver"], gen=repr(c))
            try:
                if c["solver"] == "cem": states, calls, ret = run_cem(c)
                else: states, calls, clip = run_evo(c)
            except Exception as e:  # noqa
                chk.violation(c["solver"] + "-raises", f"{c['solver']} raised on a sparse loss ({c['kind']}): {type(e).__name__}: {str(e)[:300]}", case); continue
            if c["solver"] == "cem": judge_cem(chk, c, case, states, calls, ret, "cem", UNIT, sparse_feats(calls), hist_jobs, upd_jobs)
            else: judge_evo(chk, c, case, states, calls, clip, "evo", UNIT, sparse_feats(calls), hist_jobs)

    if hist_jobs:
        res = lib.coq_eval_sharded("C18_hist", HEADER, "run_hist", [hist_term(lo, hi, [F(v) for v in pb], prev, iters, unit)
                                                                      for (_, _, lo, hi, pb, prev, iters, _, unit) in hist_jobs], per=4)
        for (which, case, lo, hi, pb, prev, iters, data, _), (ok, flags) in zip(hist_jobs, res):
            chk.feat("histories-checked"); chk.feat("iterations-checked", len(flags))
            if ok and all(flags): continue
            i = flags.index(False)
            pb_i, prev_i = (pb, prev) if i == 0 else (data[i - 1][2], data[i - 1][3])
            clause, msg = explain_iter(lo, hi, pb_i, prev_i, *data[i])
            chk.violation(f"{which}-history:{clause}", f"{which} iteration {i}: {msg} (check_history = false)",
                          dict(case, iteration=i, losses=[repr(float(v)) for v in data[i][1][:64]], reported_best_loss=repr(data[i][3]),
                               previous_best_loss=repr(float(prev_i))))
    if upd_jobs:
        res = lib.coq_eval_sharded("C18_replay", HEADER, "run_upd", [upd_term(uc) for (_, _, uc, _) in upd_jobs], per=40)
        for (case, i, uc, s1), mo in zip(upd_jobs, res):
            chk.feat("steps-replayed-through-model")
            m_mean, m_var, m_best, m_bl = qs(mo[0]), qs(mo[1]), qs(mo[2]), ext_val(mo[3], uc.get("unit", UNIT))
            cs = dict(case, iteration=i); lab = uc.get("label", "cem") + "-step"
            if not same_num(s1["bl"], m_bl) or [F(v) for v in s1["best"]] != m_best:
                chk.violation(lab + ":best", f"cem_step iteration {i}: (bestsofar, loss) = ({s1['best']}, {s1['bl']!r}) but the model's "
                              f"update on the same population gives ({[float(v) for v in m_best]}, {(float(m_bl) if isinstance(m_bl, Fraction) else m_bl)!r})", cs); continue
            for k, (a, b) in enumerate(zip(s1["mean"], m_mean)):
                if abs(a - float(b)) > 2e-5 * (abs(float(b)) + 1):
                    chk.violation(lab + ":mean", f"cem_step iteration {i}: mean[{k}] = {a!r}, model {float(b)!r} (elites {mo[4]})", cs); break
            for k, (a, v) in enumerate(zip(s1["stdev"], m_var)):
                want = float(uc["s"]) * float(uc["st"]["stdev"][k]) + (1 - float(uc["s"])) * math.sqrt(float(v))
                if abs(a - want) > 1e-4 * (abs(want) + 1):
                    chk.violation(lab + ":stdev", f"cem_step iteration {i}: stdev[{k}] = {a!r}, model {want!r}", cs); break
    if tell_jobs:
        terms = ["([" + "; ".join(qv([F(v) for v in row]) for row in j["X"]) + "], [" + "; ".join(ext_of(v) for v in j["fit"]) +
                 f"], ({qv([F(v) for v in j['prev'][0]])}, {ext_of(j['prev'][1])}))" for j in tell_jobs]
        res = lib.coq_eval_sharded("C18_tell", HEADER, "run_tell", terms, per=60)
        for j, mo in zip(tell_jobs, res):
            chk.feat("evosax-contract-checked:" + j["strategy"])
            cs = dict(kind="evosax-contract", strategy=j["strategy"], fitness=[repr(v) for v in j["fit"]], previous=repr(j["prev"]))
            inb = all(float(l) <= float(v) <= float(h) for row in j["X"] for v, l, h in zip(row, j["lo"], j["hi"]))
            if not inb: chk.broke(f"evosax-contract:ask-clipped:{j['strategy']}", repr(cs))
            if not j["ask_keeps"]: chk.broke(f"evosax-contract:ask-keeps-best:{j['strategy']}", repr(cs))
            if not same_num(j["new"][1], ext_val(mo[1])) or [F(v) for v in j["new"][0]] != qs(mo[0]):
                chk.broke(f"evosax-contract:tell-best:{j['strategy']}", f"evosax reports {j['new']}, reference strategy "
                          f"({[float(v) for v in qs(mo[0])]}, {ext_val(mo[1])!r}); {cs}")

    # ---- the documented precondition ne >= 1: rex raises (IndexError) when int(num_samples * elite_portion) == 0
    if not rp:
        try:
            import jax.numpy as jnp
            from rex import cem as C
            sv = C.CEMSolver.init({"b": jnp.float32(0)}, {"b": jnp.float32(1)}, num_samples=4, elite_portion=0.1)
            C.cem_update_mean_stdev(sv, sv.init_state({"b": jnp.float32(0.5)}), {"b": jnp.arange(4.0)}, jnp.arange(4.0))
            chk.extra["zero_elites"] = "returns (no exception)"
        except Exception as e:  # noqa
            chk.extra["zero_elites"] = f"raises {type(e).__name__} (outside the model: the theorems assume at least one elite)"

    chk.extra["rule"] = (
        "(A) random direct calls of cem_update_mean_stdev: N in 2..16 (thorough ..32), 1..N elites, 1-3 coordinates in a dict pytree, "
        "dyadic samples whose first coordinate is a distinct power of two (the mean identifies the elite set), losses drawn from "
        "{k/4, NaN, +inf, -inf} in the modes mixed / all-nan / all-tied / few-finite / distinct / boundary-tie, previous best loss "
        "inf / equal to / just below / just above the new minimum; (B) gaussian_samples with dyadic mean/stdev/bounds/noise; "
        "(C) cem_step / cem with a host-side loss (convex, multimodal, NaN region, all NaN, NaN then finite, inf region, quantized "
        "with ties, worsening, scripted per evaluation, -inf once), N in 4..16 (thorough ..64), elite counts 1..N, smoothing 0..1, "
        "initial mean inside/outside the box, zero-width coordinates; (D) evo_step / evo for evosax strategies with the same losses; "
        "(E) the generators of (C) and (D) in a child process with jax_enable_x64: float64 bounds / candidates, losses offset + scale * "
        "shape(x) for every magnitude class of MAGNITUDES (plain, fine differences at offsets 1000 / -1e6 / 1, 1e-60, 1e39) as float64 "
        "(CEM; sometimes rounded to float32) or float32 (evo_step), cem_step plain and under jax.jit, cem, cem continued by a second cem. "
        "(F) the generators of (C) and (D) (evo: five of the rank-based strategies per run, all of them in the thorough tier) with sparse / "
        "plateau losses: per generation every finite loss has the same value and the other candidates are NaN (one finite candidate "
        "at a scripted population index; a scripted finite/NaN mask with one level per generation, levels mostly decreasing; a constant "
        "or a 0/1 indicator outside a NaN region of the box). "
        "A case is non-trivial when it has at least one of the listed features (every generated case names its loss mode / "
        "strategy; see `features` for NaN, ties at the elite boundary, fewer finite losses than elites, ties with the previous "
        "best); distinct by full case description.")
    chk.trusted += ["evosax 0.1.6 Strategy.ask/tell (contract: ask clips to [clip_min, clip_max] and keeps the best trackers; tell keeps "
                    "the least fitness seen and the first member of the generation attaining it when strictly better) - validated on "
                    "every run against Cem.ref_tell; enters the theorems as the hypothesis evo_contract",
                    "jax.pure_callback(vmap_method='broadcast_all') delivering each population to the host-side loss in order",
                    "unittest.mock replacement of jax.random.normal for the exact comparison of gaussian_samples"]
    chk.trusted += ["the JAX_ENABLE_X64=1 child process (harness/c18_worker.py) reporting float64 values as JSON numbers (python repr round-trips)"]
    chk.notes += ["losses are exact integers in units of 2^-149 (every float32 value; 2^-1074 in the 64-bit family); candidates exact rationals",
                  "64-bit family: only configurations the pinned code supports are generated - float32 bounds under x64 make cem() raise a "
                  "scan-carry TypeError (jax.random.normal draws float64 noise) and evosax 0.1.6 raises a TypeError in "
                  "get_best_fitness_member for float64 fitness (both loud, no iteration completes), so evo runs get float32 losses there",
                  "mean compared exactly when the elite count is a power of two and smoothing is k/4, else within 1e-5 relative; "
                  "stdev compared with s*old + (1-s)*sqrt(model variance) within 2e-5 relative (sqrt is outside Q)",
                  "the logger passed to evo() receives the raw losses (log_gen_1/mean/std become NaN for a generation with a NaN "
                  "loss); the logger is not part of the observed state of this property"]
