"""C05 — lifecycle calls return and episodes are isolated: the stop() handshake protocol is proved in Lifecycle.v for the
protocol the translator reads off the source; the gate harness forces the model's critical interleaving on the real
threads; random call histories over several episodes check return and isolation against the single-episode model."""
import random
from . import lib, asynclib as al


def gen_history(r, kind=None):
    kind = kind or r.choice(["run", "step", "restart"])
    if kind == "run": return ["run"] * r.randint(2, 6) + ["stop"]
    if kind == "step": return ["reset"] + ["step"] * r.randint(1, 6) + ["stop"]
    a = ["run"] * r.randint(1, 3) if r.random() < 0.5 else ["reset"] + ["step"] * r.randint(0, 3)
    return a + ["reset"] + ["step"] * r.randint(1, 3) + ["stop"]


def simple_cfg(r):
    """graphs in the supported class: every node can always run ahead (no blocking cycle through the supervisor)"""
    return al.gen_cfg(r, max_nodes=3)


def run(chk, replay=None):
    chk.stage_proofs(kernels=["Lifecycle"])
    r = chk.rnd
    quick = chk.tier == "quick"
    jobs = []
    ngate = 3 if quick else 10
    # (1) the interleaving of the model's deadlock witness, forced through the hook points, for run-driven episodes
    for i in range(ngate):
        cfg = simple_cfg(random.Random(r.getrandbits(32)))
        for n_runs in ([1, 3] if quick else [1, 2, 3, 5]):
            jobs.append(dict(id=f"gate:{i}:{n_runs}", cfg=cfg, history=[["run"] * n_runs + ["stop"]], gate=dict(ep=0)))
    # (2) random call histories over 3 episodes, stop() called immediately; also under random pauses and both clocks
    nh = 6 if quick else 40
    for i in range(nh):
        cfg = simple_cfg(random.Random(r.getrandbits(32)))
        hist = [gen_history(r) for _ in range(3)]
        j = dict(id=f"hist:{i}", cfg=cfg, history=hist)
        if i % 4 == 2: j["carry"] = True        # each later episode is started from the previous episode's last graph state
        if i % 3 == 1: j["perturb"] = dict(kind="random", seed=r.getrandbits(16), p=0.5, max_ms=3)
        if i % 3 == 2: j["perturb"] = dict(kind="points", ms=40, points=r.choice([["sup:before_append"], ["sup:after_append"], ["sup:before_check"],
                                                                                  ["sup:before_append", "stop:after_flip"]]))
        if i % 6 == 5: j["clock"] = "wall"; j["rtf"] = 1; j["history"] = [h[:3] + ["stop"] if len(h) > 4 else h for h in hist]
        # wall clock + a node whose startup() hook takes 0.4 s: the episode's time origin is set AFTER the start-up phase
        if i % 6 == 5: j["cfg"] = dict(cfg, slow_startup=0.4)
        jobs.append(j)
    # (3) liveness on the supported class: graphs with several blocking connections and cycles (skipped back edges), bursts and steps that expect
    # zero messages; reset() + step()^n must return whenever the dataflow itself (the confluent actor model with rex's 10 look-ahead ticks) reaches
    # the requested steps
    import glob, json as _json, os as _os, copy as _copy
    corpus = [c for f in sorted(glob.glob(_os.path.join(lib.VERIF, "corpus", "C05", "*.json"))) for c in _json.load(open(f))]
    for ci, c in enumerate(corpus):
        jobs.append(dict(id=f"live:corpus{ci}", cfg=c["cfg"], history=[["reset"] + ["step"] * c["cfg"]["steps"] + ["stop"]]))
        # the neighbourhood of a corpus case: same topology and policies, other delay tables / rates
        for v in range(3 if quick else 12):
            rnd = random.Random(r.getrandbits(32)); cfg = _copy.deepcopy(c["cfg"])
            scale = rnd.choice([1, 1, 2]) if all(nd["period"] % 2 == 0 for nd in cfg["nodes"].values()) else 1
            for nd in cfg["nodes"].values():
                nd["period"] //= scale
                nd["delays"] = [rnd.choice([0, 1, nd["period"] // 2, nd["period"], 2 * nd["period"]]) for _ in range(rnd.choice([1, 3, 5]))]
            for cc in cfg["conns"].values():
                Pm = cfg["nodes"][cc["out"]]["period"]
                cc["delays"] = rnd.choice([[rnd.choice([2, 3]) * Pm + 1, 0, 0], [rnd.randint(0, 5)], [0, rnd.randint(1, 2 * Pm)]])
            jobs.append(dict(id=f"live:corpus{ci}v{v}", cfg=cfg, history=[["reset"] + ["step"] * cfg["steps"] + ["stop"]]))
    nl = 16 if quick else 100
    for i in range(nl):
        rnd = random.Random(r.getrandbits(32))
        cfg = al.gen_cfg(rnd, max_nodes=4)
        if i % 2 == 0 and len(cfg["nodes"]) >= 3:
            # slow senders blocking fast receivers: most receiver steps expect zero messages on that connection
            names = sorted(cfg["nodes"])
            for k, n in enumerate(names): cfg["nodes"][n]["period"] = 16 if k < len(names) // 2 else 4
        for c in cfg["conns"].values():
            slow_to_fast = cfg["nodes"][c["out"]]["period"] > cfg["nodes"][c["in"]]["period"]
            if rnd.random() < (0.7 if slow_to_fast else 0.4): c["blocking"] = True
        for nd in cfg["nodes"].values(): nd["delays"] = [min(d, 2 * nd["period"]) for d in nd["delays"]]
        cfg["steps"] = rnd.choice([6, 8, 12])
        jobs.append(dict(id=f"live:{i}", cfg=cfg, history=[["reset"] + ["step"] * cfg["steps"] + ["stop"]]))
        # the user thread is descheduled inside reset() between starting one node and the next: nodes already started publish to connections whose
        # receiver is reset but not yet started - reset() and the steps must still return (and, C02, give the same episode)
        if i % 3 == 1: jobs[-1]["perturb"] = dict(kind="points", points=["start:node"], ms=60)
    res = al.run_jobs(jobs, nproc=10, per_job_timeout=25)
    model_cases = []; model_meta = []
    for j in jobs:
        rj = res.get(j["id"], dict(error="MISSING"))
        kind = j["id"].split(":")[0]
        hist = j["history"]
        feats = [kind] + (["perturbed"] if j.get("perturb") else []) + (["wall-clock"] if j.get("clock") == "wall" else []) + \
                sorted({"restart" if h.count("reset") > 1 or ("run" in h and "reset" in h) else ("run" if "run" in h else "step") for h in hist})
        chk.case((repr(j["cfg"]), repr(hist), kind, j.get("clock")), feats, dict(history=hist, kind=kind) if len(chk.samples) < 3 else None)
        case = dict(cfg=j["cfg"], history=hist, gate=j.get("gate"), perturb=j.get("perturb"), clock=j.get("clock", "sim"))
        if "error" in rj:
            e = rj["error"]
            if e.startswith("HANG") and kind == "live":
                try: reach = al.model_reaches(j["cfg"], j["cfg"]["steps"])
                except RecursionError: reach = None
                if not reach:
                    chk.feat("outside-supported-class(model-needs-more-look-ahead)"); continue
                chk.violation("step-hangs-on-supported-graph", "reset()/step() did not return within the watchdog although the dataflow (actor model with 10 look-ahead "
                              "ticks per node, any schedule) reaches the requested supervisor steps: the threaded runtime stops making progress", case)
                continue
            if e.startswith("HANG"):
                sig = "stop-after-run-hangs" if any("run" in h for h in hist) else "lifecycle-call-hangs"
                chk.violation(sig, f"lifecycle call did not return within the watchdog ({'forced lost-wake-up order' if kind == 'gate' else 'free schedule'}); "
                                   f"history {hist}", case)
            elif e.startswith(("RecursionError", "ValueError", "NotImplementedError")):
                chk.feat("rejected-config")
            else:
                sig = "stop-raises-IndexError" if "IndexError" in e else "lifecycle-call-raises"
                chk.violation(sig, f"lifecycle call raised: {e[:300]}", case)
            continue
        chk.traces_impl += 1
        if kind == "gate":
            for ep in rj["episodes"]:
                g = ep["info"].get("gate") or {}
                if not g.get("reached"): chk.feat("gate-unreached")
                else: chk.feat("gate-forced")
        # isolation: every episode starts at seq 0 / time >= 0 from fresh channels; records of an episode are those of a
        # single fresh episode (compared with the model); eps counters advance
        if j.get("clock") == "wall":
            if j["cfg"].get("slow_startup"):
                chk.feat("wall-clock+slow-startup")
                for ei, ep in enumerate(rj["episodes"]):
                    early = {n: t for n, t in (ep.get("first_ts") or {}).items() if t < 0}
                    if early:
                        n0_ = sorted(early)[0]
                        chk.violation("episode-does-not-start-at-time-0", f"episode {ei} (wall clock, a startup() hook of {j['cfg']['slow_startup']} s): the time origin of node {n0_} "
                                      f"(NodeRecord.ts_start) lies {-early[n0_]:.3f} s BEFORE the end of the start-up phase: the episode's clock was already running during startup()", case); break
            continue
        for ei, ep in enumerate(rj["episodes"]):
            if "error" in ep["record"]: chk.feat("record_unavailable"); continue
            al.canon_neg(ep)
            for n, c in ep["record"]["rows"].items():
                if c["seq"] and c["seq"][0] != 0:
                    chk.violation("episode-does-not-restart-at-seq-0", f"episode {ei} node {n} first seq {c['seq'][0]}", case)
            for c, ms in ep["record"]["msgs"].items():
                if ms and ms[0][0] != 0:
                    chk.violation("episode-receives-stale-message", f"episode {ei} connection {c} first message seq_out {ms[0][0]}", case)
            # what the step functions and the user SEE (not only what the record says): the first step of every node runs with seq 0, and the step state
            # returned by reset() has seq 0 - also when the episode was started from the previous episode's last graph state
            first = {}      # smallest seq a node's step function saw in this episode (the host log may still receive a late entry of an earlier graph's thread)
            for cl_ in ep.get("calls", []): first[cl_[0]] = min(first.get(cl_[0], cl_[1]), cl_[1])
            for n, sq in first.items():
                if sq != 0: chk.violation("episode-does-not-restart-at-seq-0", f"episode {ei}: no step of node {n} ran with step_state.seq = 0, the smallest was {sq}"
                                          + (" (episode started from the previous episode's last graph state)" if j.get("carry") else ""), case); break
            if ep["obs"] and "reset" in hist[ei] and hist[ei][0] == "reset" and ep["obs"][0].get("seq") != 0:
                chk.violation("episode-does-not-restart-at-seq-0", f"episode {ei}: reset() returned a supervisor step state with seq {ep['obs'][0].get('seq')}", case)
            if j.get("carry") and ei > 0: chk.feat("carried-graph-state"); continue       # carried node states: not a fresh episode, no model comparison
            model_cases.append((j["cfg"], rj["node_phase"], rj["conn_phase"], al.limits_of(j["cfg"], ep), 1 + ei))
            model_meta.append((j, ei, ep, case))
    if model_cases:
        for (j, ei, ep, case), m in zip(model_meta, al.run_model(model_cases)):
            d = al.compare_episode(j["cfg"], ep, m)
            if d:
                chk.violation("episode-not-isolated", f"episode {ei} differs from a fresh single episode of the same graph: {d}", case)
    chk.extra["rule"] = ("gate cases: run()^n then stop() with the supervisor thread parked before its next action-future append until stop() "
                         "has passed its cancel (the model's deadlock witness order); history cases: 3 episodes of run^k|reset step^k|restarts "
                         "then immediate stop(), some under random pauses at task boundaries and under the wall clock; every case is "
                         "non-trivial (it contains a stop racing the supervisor); distinct by (graph, history)")
    chk.notes += ["supported class: graphs rex accepts at reset and on which the supervisor's next step needs at most the 10 look-ahead ticks",
                  "node startup/stop user code and timeout= arguments are not modelled"]
