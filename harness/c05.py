"""C05 — lifecycle calls return and episodes are isolated: the stop() handshake protocol is proved in Lifecycle.v for the
protocol the translator reads off the source; the gate harness forces the model's critical interleaving on the real
threads; random call histories over several episodes check return and isolation against the single-episode model."""
import random
from . import lib, asynclib as al


def gen_history(r, kind=None):
    kind = kind or r.choice(["run", "step", "restart"])
    if kind == "run": return ["run"] * r.randint(2, 6) + ["stop"]
    if kind == "step": return ["reset"] + ["step"] * r.randint(1, 6) + ["stop"]
    a = ["run"] * r.randint(1, 3) if r.random() < 0.5 else ["reset"] + ["step"] * r.randint(0, 3)
    return a + ["reset"] + ["step"] * r.randint(1, 3) + ["stop"]


def simple_cfg(r):
    """graphs in the supported class: every node can always run ahead (no blocking cycle through the supervisor)"""
    return al.gen_cfg(r, max_nodes=3)


def run(chk, replay=None):
    chk.stage_proofs(kernels=["Lifecycle"])
    r = chk.rnd
    quick = chk.tier == "quick"
    jobs = []
    ngate = 3 if quick else 10
    # (1) the interleaving of the model's deadlock witness, forced through the hook points, for run-driven episodes
    for i in range(ngate):
        cfg = simple_cfg(random.Random(r.getrandbits(32)))
        for n_runs in ([1, 3] if quick else [1, 2, 3, 5]):
            jobs.append(dict(id=f"gate:{i}:{n_runs}", cfg=cfg, history=[["run"] * n_runs + ["stop"]], gate=dict(ep=0)))
    # (2) random call histories over 3 episodes, stop() called immediately; also under random pauses and both clocks
    nh = 6 if quick else 40
    for i in range(nh):
        cfg = simple_cfg(random.Random(r.getrandbits(32)))
        hist = [gen_history(r) for _ in range(3)]
        j = dict(id=f"hist:{i}", cfg=cfg, history=hist)
        if i % 3 == 1: j["perturb"] = dict(kind="random", seed=r.getrandbits(16), p=0.5, max_ms=3)
        if i % 3 == 2: j["perturb"] = dict(kind="points", ms=40, points=r.choice([["sup:before_append"], ["sup:after_append"], ["sup:before_check"],
                                                                                  ["sup:before_append", "stop:after_flip"]]))
        if i % 6 == 5: j["clock"] = "wall"; j["rtf"] = 1; j["history"] = [h[:3] + ["stop"] if len(h) > 4 else h for h in hist]
        jobs.append(j)
    res = al.run_jobs(jobs, nproc=8, per_job_timeout=25)
    model_cases = []; model_meta = []
    for j in jobs:
        rj = res.get(j["id"], dict(error="MISSING"))
        kind = j["id"].split(":")[0]
        hist = j["history"]
        feats = [kind] + (["perturbed"] if j.get("perturb") else []) + (["wall-clock"] if j.get("clock") == "wall" else []) + \
                sorted({"restart" if h.count("reset") > 1 or ("run" in h and "reset" in h) else ("run" if "run" in h else "step") for h in hist})
        chk.case((repr(j["cfg"]), repr(hist), kind, j.get("clock")), feats, dict(history=hist, kind=kind) if len(chk.samples) < 3 else None)
        case = dict(cfg=j["cfg"], history=hist, gate=j.get("gate"), perturb=j.get("perturb"), clock=j.get("clock", "sim"))
        if "error" in rj:
            e = rj["error"]
            if e.startswith("HANG"):
                sig = "stop-after-run-hangs" if any("run" in h for h in hist) else "lifecycle-call-hangs"
                chk.violation(sig, f"lifecycle call did not return within the watchdog ({'forced lost-wake-up order' if kind == 'gate' else 'free schedule'}); "
                                   f"history {hist}", case)
            elif e.startswith(("RecursionError", "ValueError", "NotImplementedError")):
                chk.feat("rejected-config")
            else:
                sig = "stop-raises-IndexError" if "IndexError" in e else "lifecycle-call-raises"
                chk.violation(sig, f"lifecycle call raised: {e[:300]}", case)
            continue
        chk.traces_impl += 1
        if kind == "gate":
            for ep in rj["episodes"]:
                g = ep["info"].get("gate") or {}
                if not g.get("reached"): chk.feat("gate-unreached")
                else: chk.feat("gate-forced")
        # isolation: every episode starts at seq 0 / time >= 0 from fresh channels; records of an episode are those of a
        # single fresh episode (compared with the model); eps counters advance
        if j.get("clock") == "wall": continue
        for ei, ep in enumerate(rj["episodes"]):
            if "error" in ep["record"]: chk.feat("record_unavailable"); continue
            al.canon_neg(ep)
            for n, c in ep["record"]["rows"].items():
                if c["seq"] and c["seq"][0] != 0:
                    chk.violation("episode-does-not-restart-at-seq-0", f"episode {ei} node {n} first seq {c['seq'][0]}", case)
            for c, ms in ep["record"]["msgs"].items():
                if ms and ms[0][0] != 0:
                    chk.violation("episode-receives-stale-message", f"episode {ei} connection {c} first message seq_out {ms[0][0]}", case)
            model_cases.append((j["cfg"], rj["node_phase"], rj["conn_phase"], al.limits_of(j["cfg"], ep), 1 + ei))
            model_meta.append((j, ei, ep, case))
    if model_cases:
        for (j, ei, ep, case), m in zip(model_meta, al.run_model(model_cases)):
            d = al.compare_episode(j["cfg"], ep, m)
            if d:
                chk.violation("episode-not-isolated", f"episode {ei} differs from a fresh single episode of the same graph: {d}", case)
    chk.extra["rule"] = ("gate cases: run()^n then stop() with the supervisor thread parked before its next action-future append until stop() "
                         "has passed its cancel (the model's deadlock witness order); history cases: 3 episodes of run^k|reset step^k|restarts "
                         "then immediate stop(), some under random pauses at task boundaries and under the wall clock; every case is "
                         "non-trivial (it contains a stop racing the supervisor); distinct by (graph, history)")
    chk.notes += ["supported class: graphs rex accepts at reset and on which the supervisor's next step needs at most the 10 look-ahead ticks",
                  "node startup/stop user code and timeout= arguments are not modelled"]
