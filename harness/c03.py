"""C03 — recorded episodes are causal and loss-free: the clauses are theorems about the actor model M1 (Props/C03.v); the
model is tied to rex/asynchronous.py by the regenerated kernels (Async group) and by trace equality on generated lattice
graphs; the C03 clauses are also evaluated directly on every implementation trace (async_checks.check_c03)."""
from . import lib, asynclib as al, async_checks as ac

KERNELS = ["Async"]


def run(chk, replay=None, prop="C03"):
    chk.stage_proofs(kernels=KERNELS)
    quick = chk.tier == "quick"
    n = 10 if quick else 70
    variants = {"reset_step": dict(drive="reset_step")}
    if not quick: variants["run"] = dict(drive="run")
    # expected delays re-configured between two episodes of the same graph object: phases (hence the schedule, the blocking counts and the expected
    # arrivals of buffered jitter) of the second episode follow
    variants["set_delay_between"] = dict(drive="reset_step", episodes=2, between="auto")
    # the user thread is descheduled inside reset() between starting one node and the next: outputs of nodes that already run reach connections whose
    # receiver is not started yet - none of them may be lost or re-timed
    variants["start_pause"] = dict(drive="reset_step", perturb=dict(kind="points", points=["start:node"], ms=60))
    # a record capped at a few steps per node (set_record_settings(max_records=3)): what IS recorded is still an episode prefix - steps gap-free from 0,
    # every recorded message consumed by a recorded step
    if prop == "C03": variants["max_records3"] = dict(drive="reset_step", record=dict(al.FULLREC, max_records=3))
    count = [0]
    def gen(rnd, max_nodes=4):
        count[0] += 1
        if count[0] % 5 == 3: return buffer_cfg(rnd)
        if count[0] % 5 == 1: return chain_cfg(rnd)
        if count[0] % 5 == 4: return buffer_skip_cfg(rnd)
        if count[0] % 5 == 0: return blocking_far_cfg(rnd)
        return al.gen_cfg(rnd, max_nodes=max_nodes)
    graphs = al.async_suite(chk, n, variants, max_nodes=4 if quick else 5, model_seeds=(1, 2), gen=gen)
    evaluate(chk, graphs, variants, prop)
    if not quick and prop == "C03":
        wall_clock(chk)
    chk.extra["rule"] = ("random lattice graphs (2-5 probe nodes; per connection blocking x skip x jitter x window 1-3; per node advance x "
                         "scheduling; table delays with zeros, ties, overruns up to 2 periods, comm jitter); the implementation's record is "
                         "compared field by field with the extracted actor model under two random actor orders and judged by the direct "
                         "clause checker; non-trivial = exercises at least one boundary feature (see features); distinct by graph")


def evaluate(chk, graphs, variants, prop):
    for G in graphs:
        cfg = G["cfg"]
        if G["skipped"]: chk.feat("skipped:" + G["skipped"].split(":")[0]); continue
        for vn, r in G["runs"].items():
            key = (repr(cfg), vn)
            if "error" in r and al.unsupported_hang(chk, cfg, r): continue
            if "error" in r:
                chk.case(key, ["impl-error"], None)
                chk.violation(f"async-run-fails:{r['error'].split(':')[0].split(' ')[0]}", f"threaded run failed ({vn}): {r['error'][:300]}", dict(cfg=cfg, variant=vn))
                continue
            ep = al.canon_neg(r["episodes"][0])
            if vn == "set_delay_between":
                second_episode(chk, G, r, prop); continue
            feats = al.features(cfg)
            ties = tie_features(cfg, ep)
            chk.case(key, feats + ties, dict(cfg=cfg) if len(chk.samples) < 2 else None)
            chk.traces_impl += 1
            case = dict(cfg=cfg, variant=vn, node_phase=G["node_phase"], conn_phase=G["conn_phase"])
            if prop == "C04":
                # the phases in force follow from the DECLARED delays (longest expected-delay path over non-skipped connections), whatever the node objects report
                try: want_n, want_c = al.cfg_phases(cfg)
                except RecursionError: want_n = None
                if want_n is not None and (want_n != G["node_phase"] or want_c != G["conn_phase"]):
                    bad = next(k for k in list(want_n) + list(want_c) if dict(want_n, **want_c)[k] != dict(G["node_phase"], **G["conn_phase"]).get(k))
                    chk.violation("phase-differs-from-declared-delays", f"phase of {bad}: rex {dict(G['node_phase'], **G['conn_phase']).get(bad)}, the declared delays give "
                                  f"{dict(want_n, **want_c)[bad]} ticks", case)
            checker = ac.check_c03 if prop == "C03" else ac.check_c04
            vs = checker(cfg, G["node_phase"], G["conn_phase"], ep["record"])
            if prop == "C04": vs = vs + ac.check_sched_terms(cfg, G["node_phase"], G["conn_phase"], ep["record"])
            for sig, det in vs[:3]:
                chk.violation(sig, det, dict(case, record=ep["record"] if len(str(ep["record"])) < 20000 else "large"))
            for mi, m in enumerate(G["models"]):
                d = al.compare_episode(cfg, ep, m)
                if d:
                    if vs: break     # already explained by a property violation
                    # the model satisfies the theorems; a trace that differs from it without violating a clause we can
                    # evaluate is reported as a broken correspondence
                    if prop == "C04" and "field ts_start" in d:
                        # C04 is the start law itself: for this configuration and these delay streams the law (proved for the model: start_is_max,
                        # never_early, frequency_drift, blocking counts) gives exactly one start time for every step - the model's
                        chk.violation("start-differs-from-law", f"{d} (model = the rate / phase / delay / scheduling law evaluated for this configuration)", case); break
                    chk.broke("correspondence:M1-vs-AsyncGraph", f"{d} | cfg={cfg}"); break
            # the model itself must satisfy the clauses (self-test of checker and model; a failure here is ours)
    return


def buffer_cfg(rnd):
    """buffered jitter where it bites: a slow sender whose messages arrive (almost) immediately, a receiver twice as fast, and a declared connection
    delay that the user raises by 2-3 ticks between two episodes - messages then sit in the connection, already arrived, until their (new)
    expected arrival seq * period_sender + phase"""
    Ps = rnd.choice([4, 8]); e0 = rnd.choice([0, 1]); ec = rnd.choice([0, 1])
    nodes = {"n0": dict(nid=0, period=Ps, exp=e0, delays=[0], advance=False, sched="FREQ"),
             "n1": dict(nid=1, period=Ps // 2, exp=rnd.choice([0, 1]), delays=rnd.choice([[0], [0, 1], [1]]), advance=False, sched=rnd.choice(["FREQ", "PHASE"]))}
    conns = {"n0>n1": dict(out="n0", **{"in": "n1"}, blocking=False, skip=rnd.random() < 0.3, jitter="BUFFER", window=rnd.choice([1, 2, 3]), exp=ec, delays=rnd.choice([[0], [0, 1]]))}
    if conns["n0>n1"]["skip"]: conns["n0>n1"]["skip"] = False       # phases follow non-skipped connections only
    sup = "n1"
    if rnd.random() < 0.4:
        nodes["n2"] = dict(nid=2, period=Ps, exp=1, delays=[1], advance=False, sched="FREQ")
        conns["n1>n2"] = dict(out="n1", **{"in": "n2"}, blocking=rnd.random() < 0.5, skip=False, jitter="LATEST", window=1, exp=1, delays=[1])
        sup = rnd.choice(["n1", "n2"])
    return dict(nodes=nodes, conns=conns, sup=sup, steps=rnd.choice([8, 10]), _between={"n0>n1": ec + Ps // 2 + rnd.choice([0, 1])})   # raise by at least one receiver period


def buffer_skip_cfg(rnd):
    """a feedback loop closed by a skipped connection with buffered jitter whose messages arrive EARLY and whose expected arrival seq * period + phase
    falls exactly on a step start of the receiver: the tie rule of skipped connections (strictly after) concerns the actual arrival, the expected arrival
    only has to be reached (not before)"""
    P = rnd.choice([4, 8]); e01 = rnd.choice([1, 2]); e1 = 1
    ph1 = 1 + e01                              # phase of n1: n0's expected delay 1 + the connection's
    ec = (-(ph1 + e1)) % P or P                # makes the feedback connection's phase a multiple of the period: expected arrivals = n0's step starts
    nodes = {"n0": dict(nid=0, period=P, exp=1, delays=rnd.choice([[0], [1], [0, 1]]), advance=False, sched="FREQ"),
             "n1": dict(nid=1, period=P, exp=e1, delays=[rnd.choice([0, 1])], advance=False, sched=rnd.choice(["FREQ", "PHASE"]))}
    conns = {"n0>n1": dict(out="n0", **{"in": "n1"}, blocking=rnd.random() < 0.5, skip=False, jitter="LATEST", window=rnd.choice([1, 2]), exp=e01, delays=[rnd.choice([0, 1])]),
             "n1>n0": dict(out="n1", **{"in": "n0"}, blocking=False, skip=True, jitter="BUFFER", window=rnd.choice([1, 2, 3]), exp=ec, delays=[0])}
    return dict(nodes=nodes, conns=conns, sup=rnd.choice(["n0", "n1"]), steps=rnd.choice([8, 10]))


def blocking_far_cfg(rnd):
    """a blocking connection whose declared delay is longer than a sender period plus a receiver period (the receiver's phase lies more than two
    periods after the sender's), with simulated delays that are sometimes later than declared: the phase-determined counts of the FIRST receiver steps
    include several sender ticks, and the arrival of the last of them - not the schedule - sets the start time"""
    Pp = rnd.choice([2, 4, 8]); Pc = rnd.choice([2, 4, 8]); e = Pp + Pc + rnd.choice([0, 1, 2, Pp])
    nodes = {"n0": dict(nid=0, period=Pp, exp=rnd.choice([0, 1]), delays=rnd.choice([[1], [0, 1], [1, 2]]), advance=False, sched="FREQ"),
             "n1": dict(nid=1, period=Pc, exp=rnd.choice([0, 1]), delays=rnd.choice([[1], [0, 1]]), advance=rnd.random() < 0.3, sched=rnd.choice(["FREQ", "PHASE"]))}
    conns = {"n0>n1": dict(out="n0", **{"in": "n1"}, blocking=True, skip=False, jitter="LATEST", window=rnd.choice([1, 2, 3]), exp=e,
                           delays=rnd.choice([[e], [e, e + 2], [e + 3, e - 1, e], [e + Pp, e]]))}
    sup = "n1"
    if rnd.random() < 0.4:
        nodes["n2"] = dict(nid=2, period=Pc, exp=1, delays=[1], advance=False, sched="FREQ")
        conns["n1>n2"] = dict(out="n1", **{"in": "n2"}, blocking=rnd.random() < 0.5, skip=False, jitter="LATEST", window=1, exp=1, delays=[1, 0])
        sup = rnd.choice(["n1", "n2"])
    return dict(nodes=nodes, conns=conns, sup=sup, steps=rnd.choice([6, 8]))


def chain_cfg(rnd):
    """a chain of 3-4 nodes whose FIRST node's declared delay the user changes between two episodes: the phases of every node downstream, however far,
    must follow"""
    k = rnd.choice([3, 4]); P = rnd.choice([4, 8])
    nodes = {f"n{i}": dict(nid=i, period=P * rnd.choice([1, 2]) if i else P, exp=rnd.choice([0, 1, 2]), delays=rnd.choice([[1], [0, 1], [1, 2]]), advance=False,
                           sched=rnd.choice(["FREQ", "PHASE"])) for i in range(k)}
    conns = {}
    for i in range(1, k):
        conns[f"n{i-1}>n{i}"] = dict(out=f"n{i-1}", **{"in": f"n{i}"}, blocking=rnd.random() < 0.4, skip=False, jitter=rnd.choice(["LATEST", "LATEST", "BUFFER"]),
                                     window=rnd.choice([1, 2]), exp=rnd.choice([0, 1, 2]), delays=rnd.choice([[0], [1], [0, 2]]))
    if rnd.random() < 0.5:
        conns[f"n{k-1}>n0"] = dict(out=f"n{k-1}", **{"in": "n0"}, blocking=False, skip=True, jitter="LATEST", window=1, exp=1, delays=[1])
    return dict(nodes=nodes, conns=conns, sup=f"n{k-1}", steps=rnd.choice([6, 8]), _between={"n0": nodes["n0"]["exp"] + rnd.choice([2, 3])})


def second_episode(chk, G, r, prop="C04"):
    """episode 1 after set_delay(delay=...) between the episodes: judged with the phases in force for that episode (reported by the worker
    after the change) by the C04 reference recurrence and against the model run with those phases"""
    cfg = G["cfg"]
    if len(r["episodes"]) < 2 or "error" in r["episodes"][1]["record"]: chk.feat("second-episode-unavailable"); return
    ep = al.canon_neg(r["episodes"][1]); nph, cph = ep["node_phase"], ep["conn_phase"]
    chk.case((repr(cfg), "set_delay_between", repr(G.get("between"))), al.features(cfg) + ["set_delay-between-episodes"], None); chk.traces_impl += 1
    cfg2 = G["cfg_after"]
    case = dict(cfg=cfg, between=G.get("between"), node_phase_after=nph)
    # the phases in force in the second episode follow from the delays declared NOW (after set_delay), on every node however far downstream
    try: want_n, want_c = al.cfg_phases(cfg2)
    except RecursionError: want_n = None
    if want_n is not None and (want_n != nph or want_c != cph):
        allw = dict(want_n, **want_c); allg = dict(nph, **cph)
        bad = next(k for k in allw if allw[k] != allg.get(k))
        chk.violation("phase-differs-from-declared-delays(after-set_delay)", f"after set_delay({G.get('between')}) the phase of {bad} is {allg.get(bad)}, the declared delays give "
                      f"{allw[bad]} ticks", case)
        return
    vs = (ac.check_c03 if prop == "C03" else ac.check_c04)(cfg2, nph, cph, ep["record"])
    for sig, det in vs[:2]: chk.violation(sig + "(after-set_delay)", f"second episode after set_delay(delay=...): {det}", case)
    m = al.run_model([(cfg2, nph, cph, al.limits_of(cfg2, ep), 5)])[0]
    d = al.compare_episode(cfg2, ep, m)
    if d and not vs:
        if prop == "C04" and "field ts_start" in d:
            chk.violation("start-differs-from-law(after-set_delay)", f"{d} (model = the start law evaluated with the phases in force after set_delay)", case)
        else: chk.broke("correspondence:M1-vs-AsyncGraph(after-set_delay)", d)


def tie_features(cfg, ep):
    """which boundary situations actually occurred in the recorded episode"""
    f = set()
    R = ep["record"]["rows"]; M = ep["record"]["msgs"]
    for key, cc in cfg["conns"].items():
        S = R[cc["in"]]["start"]
        for m in M.get(key, []):
            if m[3] in S: f.add("arrival==step-start" + ("(skip)" if cc["skip"] else ""))
            if m[3] == m[2]: f.add("zero-comm-delay")
        seqin = [m[1] for m in M.get(key, [])]
        from collections import Counter
        if seqin and max(Counter(seqin).values()) > cc["window"]: f.add("burst>window")
        if len(set(range(len(S)))) > len(set(seqin)): f.add("step-without-new-message")
    for n, c in R.items():
        P = cfg["nodes"][n]["period"]
        if any(c["end"][k] - c["start"][k] > P for k in range(len(c["seq"]))): f.add("overrun-occurred")
    return sorted(f)


def wall_clock(chk):
    """short wall-clock episodes: no model (not deterministic); judged by the direct clause checker only"""
    import random
    jobs = []
    for i in range(8):
        cfg = al.gen_cfg(random.Random(chk.rnd.getrandbits(32)), max_nodes=3, allow_advance=False)
        for c in cfg["conns"].values(): c["blocking"] = False
        jobs.append(dict(id=f"wc{i}", cfg=cfg, drive="reset_step", steps=6, clock="wall", rtf=1, record=dict(al.FULLREC)))
    res = al.run_jobs(jobs, nproc=4, per_job_timeout=60)
    for j in jobs:
        r = res.get(j["id"], {})
        if "error" in r or "episodes" not in r or "error" in r["episodes"][0]["record"]:
            if r.get("error", "").startswith("off-lattice") or "off-lattice" in str(r.get("error", "")): chk.feat("wall-clock-off-lattice"); continue
            chk.feat("wall-clock-skipped"); continue
        chk.feat("wall-clock-episode")
