"""C08 — input windows read exactly the scheduled messages from the output buffers."""
import random
from . import lib, asynclib as al, compiledlib as cl, c07


def run(chk, replay=None):
    chk.stage_proofs(kernels=["Runner"])
    quick = chk.tier == "quick"

    def extra(rnd, j):
        x = rnd.random(); d = {}
        if x < 0.25: d["buffer_mode"] = dict(kind="plus", k=rnd.choice([1, 2, 5]))
        elif x < 0.4: d["buffer_mode"] = dict(kind="too_small"); d["expect_reject"] = True
        if rnd.random() < 0.4: d["extra_padding"] = rnd.choice([1, 2, 3])
        if rnd.random() < 0.3 and not d.get("expect_reject"): d["starting_step"] = rnd.choice([1, 2, 3])
        if not d.get("expect_reject") and not d.get("starting_step") and rnd.random() < 0.5:
            d["paths"] = [(0, 0, 3)]; d["override_only"] = True      # supervisor output supplied by the user through step()
        return d
    jobs = c07.make_jobs(chk, 10 if quick else 40, extra=extra)
    res = cl.run_jobs(jobs, nproc=10)
    # a too_small request on a graph whose sizes are all 1 is not a case
    for j in jobs:
        r = res.get(j["id"], {})
        if r.get("skip"): r["error"] = "RecursionError"   # counted as rejected configuration
    needs, meta, mods = c07.evaluate(chk, jobs, res, "C08")
    # model sizes (max over episodes of buffer_need per connection) = Timings.get_buffer_sizes()
    seen = set()
    for (j, r, e, case) in meta:
        if j["id"] in seen or j["id"] not in needs: continue
        seen.add(j["id"])
        cfg = j["cfg"]; nd = needs[j["id"]]
        mx = {c: max(n[c] for n in nd) for c in cfg["conns"]}
        # a connection whose reader has no running cell in the supergraph (e.g. a pruned sink) is never read: buffer_need is the empty maximum
        # (hugely negative) and rex lists no size for that reader
        by_node = {nm: sorted(mx[c] for c in cfg["conns"] if cfg["conns"][c]["out"] == nm and mx[c] > -10 ** 9) for nm in cfg["nodes"]}
        impl = {nm: sorted(x for x in v if x > -10 ** 9) for nm, v in r["impl_sizes"].items()}      # same sentinel on rex's side (clipped to >= 1 by Graph.init)
        if by_node != {nm: impl.get(nm, []) for nm in cfg["nodes"]}:
            chk.violation("buffer-sizes-differ-from-spec", f"Timings.get_buffer_sizes() = {impl}, specification (max over positions of written - still-needed + 1) = {by_node}", case)
        # tightness feature: with one slot less the symbolic check fails
        if any(m["checksym_smaller"] == 0 for (jj, rr, ee, cc), m in zip(meta, mods) if jj["id"] == j["id"]): chk.feat("sizes-tight")
        if j.get("buffer_mode"): chk.feat("user-sizes:" + j["buffer_mode"]["kind"])
        if j.get("extra_padding"): chk.feat("extra-padding")
        if j.get("starting_step"): chk.feat("starting-step>0")
    # outputs supplied through step(graph_state, step_state, output) land in the slot the schedule names, whatever seq field the user's
    # step state carries: all buffers (hence all later windows) equal those of the run in which the supervisor's step is executed by the graph
    from .c09 import diff
    for j in jobs:
        r = res.get(j["id"], {})
        for key, d in (r.get("paths") or {}).items():
            if key == "vmap": continue
            chk.feat("override-path")
            for a, b in (("reset_step", "override"), ("override", "override_stale_seq")):
                if a in d and b in d:
                    x = diff({n: v["buffer"] for n, v in d[a]["nodes"].items()}, {n: v["buffer"] for n, v in d[b]["nodes"].items()}) or \
                        diff({n: v["inputs"] for n, v in d[a]["nodes"].items()}, {n: v["inputs"] for n, v in d[b]["nodes"].items()})
                    if x: chk.violation("override-output-in-wrong-buffer-slot", f"{a} vs {b}: {x}", dict(cfg=j["cfg"], mode=j["mode"], prune=j["prune"], seed=j.get("seed")))
    chk.extra["rule"] = ("instances as for C07 plus user buffer_sizes (computed + k; computed - 1 must be rejected), extra_padding 0-3 and starting "
                         "steps 0-3; the symbolic run (tags) of the extracted runner with the ring sizes rex actually allocated must pass check_sym, "
                         "the model's buffer_need must equal Timings.get_buffer_sizes(), and every recorded row (state, windows incl. payloads, output) "
                         "must equal the model's; distinct by (graph, mode, prune, sizes, padding, start)")
