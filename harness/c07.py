"""C07 — the compiled schedule runs every vertex once, in dependency order; C08 shares the instances (buffers)."""
import random, re
from . import lib, asynclib as al, compiledlib as cl

MODES = ["MCS", "GEN", "TOPO"]


def sink_cfg(rnd):
    """a supervisor feeding sink nodes that do not feed back (non-ancestors of the supervisor): a fast one and a slow, overrunning one"""
    nodes = {"n0": dict(nid=0, period=8, exp=1, delays=[rnd.choice([1, 2])], advance=False, sched="FREQ"),
             "n1": dict(nid=1, period=rnd.choice([2, 4]), exp=1, delays=[1], advance=False, sched="FREQ"),
             "n2": dict(nid=2, period=16, exp=2, delays=[rnd.choice([14, 20, 30]), 3], advance=False, sched="FREQ")}
    conns = {}
    for o, i in (("n0", "n1"), ("n0", "n2")):
        conns[f"{o}>{i}"] = dict(out=o, **{"in": i}, blocking=False, skip=False, jitter="LATEST", window=rnd.choice([1, 2]), exp=1, delays=[rnd.choice([0, 1])])
    if rnd.random() < 0.6:
        nodes["n3"] = dict(nid=3, period=rnd.choice([4, 8]), exp=1, delays=[1, 2], advance=False, sched="FREQ")
        conns["n3>n0"] = dict(out="n3", **{"in": "n0"}, blocking=False, skip=False, jitter="LATEST", window=rnd.choice([1, 3]), exp=1, delays=[1])
    else:
        conns["n1>n0"] = dict(out="n1", **{"in": "n0"}, blocking=False, skip=True, jitter="LATEST", window=2, exp=1, delays=[1])
        conns.pop("n0>n1")
        nodes["n3"] = dict(nid=3, period=4, exp=1, delays=[1], advance=False, sched="FREQ")
        conns["n0>n3"] = dict(out="n0", **{"in": "n3"}, blocking=False, skip=False, jitter="LATEST", window=1, exp=1, delays=[0])
    return dict(nodes=nodes, conns=conns, sup="n0", steps=6)


def corpus_jobs():
    """hand-written boundary graphs (corpus/C07/*.json), run first, under every supergraph mode with pruning off and on"""
    import glob, json, os
    jobs = []
    for f in sorted(glob.glob(os.path.join(lib.VERIF, "corpus", "C07", "*.json"))):
        for c in json.load(open(f)):
            if c.get("source") == "generate":     # minimised past failures found on generated graphs: replayed exactly (same seed, mode, prune)
                jobs.append(dict(id=f"corpus:{c['name']}", cfg=c["cfg"], source="generate", tmax=c["tmax"], episodes=c.get("episodes", 2), mode=c["mode"],
                                 prune=c["prune"], seed=c["seed"]))
                continue
            for m in MODES:
                for prune in (False, True):
                    jobs.append(dict(id=f"corpus:{c['name']}:{m}:{int(prune)}", cfg=c["cfg"], source="explicit", graph=c["graph"], episodes=1, mode=m, prune=prune, seed=0))
    return jobs


def make_jobs(chk, n, seed_off=0, extra=None):
    r = chk.rnd; jobs = []
    for i in range(n):
        rnd = random.Random(r.getrandbits(32))
        mode = MODES[(i + chk.seed) % 3]; prune = bool((i // 3 + chk.seed) % 2) if i % 2 else rnd.random() < 0.5
        if i % 5 == 4:
            # unpruned graphs with sink kinds that overlap in time (to_connected_graph attaches every finished non-ancestor)
            j = dict(id=f"s{i}", cfg=sink_cfg(rnd), source="generate", tmax=rnd.choice([48, 64]), episodes=1, mode=rnd.choice(["MCS", "MCS", "GEN", "TOPO"]),
                     prune=False, seed=rnd.getrandbits(16))
            if extra: j.update(extra(rnd, j))
            jobs.append(j); continue
        if i % 5 == 2:
            # high rate ratio: a node that runs 8-16 times between two supervisor steps (many slots of one kind per partition; with jittery
            # computation delays the number varies, so later slots of the kind are masked in some partitions)
            fastP = rnd.choice([2, 2, 4]); supP = 32
            nodes = {"n0": dict(nid=0, period=supP, exp=1, delays=[1, 3], advance=False, sched="FREQ"),
                     "n1": dict(nid=1, period=fastP, exp=0, delays=[rnd.choice([0, 1]), 1, fastP, 2 * fastP + 1, 0], advance=False, sched="FREQ"),
                     "n2": dict(nid=2, period=rnd.choice([8, 16]), exp=1, delays=[2, 5], advance=False, sched="FREQ")}
            conns = {"n1>n0": dict(out="n1", **{"in": "n0"}, blocking=False, skip=False, jitter="LATEST", window=rnd.choice([1, 3]), exp=1, delays=[0, 1]),
                     "n0>n2": dict(out="n0", **{"in": "n2"}, blocking=False, skip=False, jitter="LATEST", window=1, exp=1, delays=[1]),
                     "n2>n1": dict(out="n2", **{"in": "n1"}, blocking=False, skip=True, jitter="LATEST", window=2, exp=1, delays=[0, 2])}
            cfg = dict(nodes=nodes, conns=conns, sup="n0", steps=4)
            src = rnd.choice(["generate", "async"])
            j = dict(id=f"r{i}", cfg=cfg, source=src, tmax=supP * 4, steps=[4, 3], episodes=2, mode=MODES[(i // 5 + chk.seed + 1) % 3], prune=rnd.random() < 0.5, seed=rnd.getrandbits(16))
            if extra: j.update(extra(rnd, j))
            jobs.append(j); continue
        short = (i % 5 == 3)     # very short horizons: windows still partly unfilled when the episode ends
        if i % 2 == 0:
            cfg = cl.gen_cfg_generated(rnd, max_nodes=3 if chk.tier == "quick" else 4)
            j = dict(id=f"g{i}", cfg=cfg, source="generate", tmax=rnd.choice([16, 24]) if short else rnd.choice([48, 64, 80]), episodes=2, mode=mode, prune=prune, seed=rnd.getrandbits(16))
            if short:
                for c in cfg["conns"].values(): c["window"] = 3
            elif rnd.random() < 0.4: j["reshape"] = dict(drop_tail=0.5)     # hand-edited graph: the last messages of some connections are never consumed
        else:
            cfg = cl.gen_cfg_async(rnd, max_nodes=3 if chk.tier == "quick" else 4)
            j = dict(id=f"a{i}", cfg=cfg, source="async", steps=[3, 4] if short else [cfg["steps"], max(3, cfg["steps"] - 2)], episodes=2, mode=mode, prune=prune, seed=rnd.getrandbits(16))
            if short:
                for c in cfg["conns"].values(): c["window"] = 3
        if extra: j.update(extra(rnd, j))
        jobs.append(j)
    return jobs


def instance_features(j, r):
    f = [j["source"], j["mode"], "prune" if j["prune"] else "noprune"] + al.features(j["cfg"])
    if r.get("raw") and len({len([v for v in e["verts"][j["cfg"]["sup"]] if v[0] >= 0]) for e in r["raw"]}) > 1: f.append("ragged-episodes")
    if r.get("raw") and r.get("max_steps") is not None and len(r["raw"]) > r["max_steps"]: f.append("more-episodes-than-partitions")
    return f


def run(chk, replay=None, prop="C07"):
    chk.stage_proofs(kernels=["Runner"])
    quick = chk.tier == "quick"
    def extra(rnd, j):
        # every fourth graph is entered in the middle of the episode (init(starting_step > 0)): the steps of the later partitions still carry their own
        # sequence numbers and read the scheduled windows
        return dict(starting_step=rnd.choice([1, 2])) if rnd.random() < 0.25 else {}
    jobs = corpus_jobs() + make_jobs(chk, 10 if quick else 40, extra=extra)
    # many short episodes: more episodes than partitions (an episode index is not a partition index: every episode runs its OWN schedule)
    import json as _json
    for k, j0 in enumerate([j for j in jobs if j["id"].startswith("g")][:1 if quick else 4]):
        jm = _json.loads(_json.dumps(j0)); jm.update(id=f"m{k}", episodes=6 if quick else 8, tmax=16, seed=(j0.get("seed") or 0) + 1)
        jm.pop("reshape", None); jm.pop("starting_step", None)
        jobs.append(jm)
    res = cl.run_jobs(jobs, nproc=10)
    evaluate(chk, jobs, res, prop)
    chk.extra["rule"] = ("computation graphs generated by generate_graphs (non-blocking connections) and recorded by the threaded runtime "
                         "(all connection policies), 2 ragged episodes, windows 1-3, supergraph modes MCS/generational/topological x prune; "
                         "rex's Timings are validated by the extracted check_schedule / check_sym and by the direct clause checker; "
                         "non-trivial = has a boundary feature; distinct by (graph, mode, prune)")


def evaluate(chk, jobs, res, prop):
    insts = []; meta = []
    for j in jobs:
        r = res.get(j["id"], dict(error="MISSING"))
        cfg = j["cfg"]
        key = (repr(cfg), j["mode"], j["prune"], j.get("buffer_sizes"), j.get("extra_padding"), j.get("starting_step"))
        case = dict(cfg=cfg, source=j["source"], mode=j["mode"], prune=j["prune"], seed=j.get("seed"), tmax=j.get("tmax"), steps=j.get("steps"), reshape=j.get("reshape"),
                    buffer_sizes=j.get("buffer_sizes"), extra_padding=j.get("extra_padding"), starting_step=j.get("starting_step"))
        if "error" in r:
            e = r["error"]
            if e.startswith(("RecursionError",)): chk.feat("rejected-config"); continue
            if "record_unavailable" in e or "tree_map()" in e: chk.feat("async-record-unavailable"); continue
            chk.case(key, ["worker-error"], None)
            chk.violation("compiled-pipeline-fails:" + e.split(":")[0], f"pipeline failed: {e[:300]}", dict(case, tb=r.get("tb", "")[-800:])); continue
        if "graph_error" in r:
            ge = r["graph_error"]
            if "no nodes in the partition" in ge or "has no ancestors" in ge: chk.feat("rejected:supervisor-without-ancestors"); continue
            # the same degenerate input whatever the supergraph mode says about it: the supervisor receives nothing, so with pruning its partitions hold no
            # other vertex ("No new nodes have been matched" in topological mode)
            if j["prune"] and not any(c["in"] == cfg["sup"] for c in cfg["conns"].values()): chk.feat("rejected:supervisor-without-ancestors"); continue
            # the recorded/generated horizon is too short for the supervisor to have a single vertex: there is no partition to schedule, and
            # supergraph says so with an explicit assertion - a rejected degenerate input, outside the property's domain
            if "No leaf nodes of kind" in ge: chk.feat("rejected:no-supervisor-vertex"); continue
            # the same degenerate input on the prune=False path (to_connected_graph indexes the last supervisor vertex first: IndexError)
            if r.get("raw") and any(not [v for v in e["verts"][cfg["sup"]] if v[0] >= 0] for e in r["raw"]):
                chk.feat("rejected:no-supervisor-vertex"); continue
            if j.get("expect_reject"):
                chk.case(key, ["too-small-buffer-rejected"], None); continue
            chk.case(key, ["graph-error"], None)
            zero = any(0 in nd["delays"] for nd in cfg["nodes"].values())
            sig = "graph-construction-fails:noprune+zero-duration" if (not j["prune"] and zero) else "graph-construction-fails"
            m = re.fullmatch(r"KeyError:'(\w+)'", ge.strip())
            if m and m.group(1) in cfg["nodes"]: sig = "graph-construction-fails:node-without-supergraph-slot"
            chk.violation(sig, f"rex.graph.Graph() raised on an acyclic recorded/generated graph: {ge}", case); continue
        if j.get("expect_reject"):
            chk.violation("too-small-buffer-accepted", f"Graph() accepted user buffer sizes {j['buffer_sizes']} below the computed {r['impl_sizes']}", case); continue
        chk.case(key, instance_features(j, r), case if len(chk.samples) < 2 else None)
        names = sorted(cfg["nodes"]); cn = list(cfg["conns"])
        for e, t in enumerate(r["insts"]):
            insts.append((t, names, cn, cfg)); meta.append((j, r, e, case))
    mods = cl.run_model(insts) if insts else []
    needs = {}
    for (j, r, e, case), m in zip(meta, mods):
        cfg = j["cfg"]; chk.traces_impl += 1
        ep = r["episodes"][e]
        if prop == "C07":
            vs = cl.check_c07(cfg, r["raw"][e], r["slots"][e], j["prune"])
            for sig, det in vs[:3]: chk.violation(sig, f"episode {e}: {det}", case)
            if m["check"] != 1 and not vs:
                chk.violation("check_schedule-rejects", f"episode {e}: the extracted certified checker check_schedule rejects rex's Timings", case)
        if prop == "C07" and m.get("nmono", 0) > 0:
            # rex.utils.to_timings inside the model (ToTimings.v): the schedule the MODEL builds from the partitioner's monomorphism of this episode
            # must be the Timings rex built; check_mono = the decidable contract of the third-party partitioner under which
            # ToTimingsLaws.to_timings_valid proves check_schedule of the model's schedule
            chk.feat("to_timings:model-schedule-equals-rex-Timings" if m.get("ttmatch") == 1 else "to_timings:model-schedule-differs")
            chk.feat("to_timings:check_mono-accepts(to_timings_valid applies)" if m.get("checkmono") == 1 else "to_timings:check_mono-rejects")
            if m.get("ttmatch") != 1:
                chk.violation("to_timings-differs-from-model", f"episode {e}: the Timings rex built are not what to_timings (ToTimings.v) yields for the "
                              f"partitioner's monomorphism of this episode ({m.get('nmono')} mapped vertices): some vertex is not scheduled in the slot / partition "
                              f"it was mapped to, or with another vertex's seq / times / windows", case)
            if m.get("checkmono") == 1 and m.get("ttcheck") != 1:
                chk.broke("ToTimingsLaws.to_timings_valid", f"episode {e}: check_mono accepts but check_schedule rejects the model's schedule")
            # the remaining hypotheses of Capstone3.compiled_replay_from_partitioner_contract about the partitioner: template well-formed, supervisor mapped in every partition
            chk.feat("to_timings:tmpl_ok+sup_covered-accept(extra_ok derived)" if m.get("tmplok") == 1 and m.get("supcov") == 1 else
                     f"to_timings:tmpl_ok={m.get('tmplok')},sup_covered={m.get('supcov')}")
            if m.get("checkmono") == 1 and m.get("tmplok") == 1 and m.get("supcov") == 1 and m.get("ttmatch") == 1 and m.get("extraok") != 1:
                chk.broke("ToTimingsExtra.to_timings_extra_ok", f"episode {e}: check_mono, tmpl_ok and sup_covered accept but extra_ok rejects the schedule")
            if m.get("checkmono") != 1 and m["check"] == 1 and not j.get("starting_step"):
                chk.feat("to_timings:check_mono-rejects-but-check_schedule-accepts")
        if prop == "C08":
            # direct oracle on the implementation's rows: every window entry whose producer ran in this execution carries the
            # payload that producer emitted at that sequence number; negative entries carry the default output
            if "rows" in ep:
                outs = {}
                for n in cfg["nodes"]:
                    for row in cl.impl_rows(ep, n): outs[(n, row[0])] = row[3]
                for n in cfg["nodes"]:
                    for row in cl.impl_rows(ep, n):
                        for snd, w in (row[4] or {}).items():
                            for ent in w:
                                if ent[0] < 0:
                                    if ent[3] != 3 + cfg["nodes"][snd]["nid"]:
                                        chk.violation("negative-entry-not-default-output", f"episode {e}: {n}[{row[0]}] input {snd}: {ent}", case)
                                elif (snd, ent[0]) in outs and ent[3] != outs[(snd, ent[0])]:
                                    chk.violation("window-read-not-scheduled-payload", f"episode {e}: {n}[{row[0]}] reads message {ent[0]} of {snd} "
                                                  f"with payload {ent[3]}, the producer emitted {outs[(snd, ent[0])]}", case)
                # the float side channel: NaN at seq % 7 == 3, inf at seq % 11 == 5, default -1.5: exactly what the producer emitted at that seq
                import math
                from .async_worker_consts import side_f, DEFAULT_F
                for n in cfg["nodes"]:
                    c = ep["rows"].get(n)
                    if c is None: continue          # pruned node: never runs, no record
                    for k in range(len(c["seq"])):
                        if c["seq"][k] < 0 or "winf" not in c: continue
                        for snd, fs in c["winf"][k].items():
                            for (ent, fv) in zip(c["wins"][k][snd], fs):
                                want = DEFAULT_F if ent[0] < 0 else side_f(cfg["nodes"][snd]["nid"], ent[0])
                                produced = ent[0] < 0 or (snd, ent[0]) in outs
                                same = (math.isnan(want) and math.isnan(fv)) or want == fv
                                if produced and not same:
                                    chk.violation("window-read-not-scheduled-payload(float)", f"episode {e}: {n}[{c['seq'][k]}] entry seq {ent[0]} of {snd} carries float "
                                                  f"payload {fv}, the producer emitted {want}", case); break
            if prop == "C08": chk.feat("extra_ok-accepts(buffer_sufficient applies)" if m.get("extraok") == 1 and m["check"] == 1 else "extra_ok-or-check_schedule-rejects")
            if m["checksym"] != 1 and not j.get("starting_step"):
                chk.violation("window-read-not-scheduled-payload", f"episode {e}: symbolic run with ring sizes {r['ring']}: some window entry is not the "
                              f"scheduled producer's output (an output was overwritten before its last reader, or a wrong slot was read)", case)
            needs.setdefault(j["id"], []).append(m["need"])
        if "rows" in ep:
            d = cl.compare_rows(cfg, ep, m)
            if d:
                # the executed rows differ from the generation-ordered dataflow run of the SAME Timings: some step did not run in dependency order (C07) /
                # some read did not return the scheduled producer's payload (C08)
                chk.violation("compiled-run-differs-from-dataflow", f"episode {e}: {d}", case)
        elif "record_error" in ep: chk.feat("init_record-unavailable")
    return needs, meta, mods
