"""C20 — the exported policy computes the trained actor's action.

Correspondence between rex.ppo.Policy / PPOResult.policy and
  (a) the flax ActorCritic (rex.actor_critic) applied to the observation normalised and the action rescaled by an independent
      float32 transcription of the model's normalize1 / unsquash1 (synthetic PPOResults, all depths / widths / activations),
  (b) the Gallina model Policy.v evaluated over Q inside Coq (relu, small dyadic weights: exact),
  (c) the actions ppo.train itself computed and handed to the environment in its last evaluation roll-out (real training runs
      on a small graph-free BaseEnv, single or jax.vmap'ed over seeds),
  (d) for training results with leading batch axes (jax.vmap(train) over seeds / hyper-parameters): the policy of member i exported
      by res.policy[i] / res[i].policy / applied under jax.vmap against member i's own flax actor, statistics and bounds.
"""
import json, os
from fractions import Fraction
from . import lib

HEADER = """From Coq Require Import List ZArith QArith Qminmax Bool.
From Rex Require Import Ops Policy.
Import ListNotations.
Definition qsigma (f : afn) (x : Q) : Q := match f with FRelu => Qmax 0 x | _ => x end.
Definition qeps : Q := 1 # 100000000.
(* float32 sqrt(var + 1e-8) on the four variances used by the exact cases (var + 1e-8 rounds to var in float32) *)
Definition qsqrt (q : Q) : Q :=
  if Qeq_bool q ((1 # 4) + qeps) then 1 # 2 else if Qeq_bool q (1 + qeps) then 1 else
  if Qeq_bool q (4 + qeps) then 2 else if Qeq_bool q (16 + qeps) then 4 else 0.
Definition enc (v : option (list Q)) : option (list (Z * Z)) :=
  option_map (map (fun q => let r := Qred q in (Qnum r, Zpos (Qden r)))) v.
Definition run (c : @result Q * list Q) : option (list (Z * Z)) :=
  enc (get_action Qops qsigma (fun x => x) qsqrt (fun x => x) unit (fun _ _ => []) (export (fst c)) (snd c) None).
"""

ACTS = ["tanh", "relu", "gelu", "softplus"]
EXACT_VARS = [Fraction(1, 4), Fraction(1), Fraction(4), Fraction(16)]


# ---------------------------------------------------------------- case generation (pure python, from chk.rnd)
def gen_spec(r, kind):
    s = dict(kind=kind, seed=r.randrange(1 << 30))
    if kind == "exact":
        s.update(hidden=r.choice([0, 1, 1, 2, 2, 3, 4]), width=r.randint(1, 6), obs_dim=r.randint(1, 4), act_dim=r.randint(1, 3),
                 actn="relu", squash=False, norm=r.random() < 0.6, nenv=r.randint(1, 3),
                 obs_class=r.choice(["small", "small", "huge", "mixed", "zero"]), batch=0, shuffle=r.random() < 0.5)
    elif kind == "unknown-act":
        s.update(hidden=r.choice([0, 0, 1, 2]), width=r.randint(1, 8), obs_dim=r.randint(1, 4), act_dim=r.randint(1, 3),
                 actn=r.choice(["elu", "sigmoid", "Tanh", ""]), squash=r.random() < 0.5, norm=r.random() < 0.5, nenv=r.randint(1, 3),
                 obs_class="small", batch=0, shuffle=False)
    else:
        s.update(hidden=r.choice([0, 1, 2, 2, 3, 4, 4, 11]), width=r.choice([1, 2, 3, 5, 8, 16, 31, 32, 64]), obs_dim=r.randint(1, 8),
                 act_dim=r.randint(1, 4), actn=r.choice(ACTS), squash=r.random() < 0.5, norm=r.random() < 0.6, nenv=r.randint(1, 4),
                 obs_class=r.choice(["small", "medium", "huge", "huge", "mixed", "zero"]), batch=r.choice([0, 0, 0, 3]),
                 shuffle=r.random() < 0.5)
        if s["hidden"] == 11: s["width"] = min(s["width"], 8)
    return s


def build_numbers(s):
    """all numbers of a case as Fractions (exact kinds) or python floats, derived from s['seed'] only"""
    import random
    r = random.Random(s["seed"])
    h, w, od, ad = s["hidden"], s["width"], s["obs_dim"], s["act_dim"]
    dims = [od] + [w] * h + [ad]
    exact = s["kind"] == "exact"
    layers = []
    for i in range(h + 1):
        fi, fo = dims[i], dims[i + 1]
        if exact:
            K = [[r.choice([-1, Fraction(-1, 2), 0, 0, Fraction(1, 2), 1]) for _ in range(fo)] for _ in range(fi)]
            b = [Fraction(r.randint(-4, 4), 4) for _ in range(fo)]
        else:
            g = r.choice([0.5, 1.0, 3.0]) / (fi ** 0.5)
            K = [[r.gauss(0, 1) * g for _ in range(fo)] for _ in range(fi)]
            b = [r.uniform(-0.5, 0.5) for _ in range(fo)]
        layers.append((K, b))
    log_std = [Fraction(r.randint(-8, 2), 4) if exact else r.uniform(-2.0, 0.5) for _ in range(ad)]
    if exact:
        low = [Fraction(r.randint(-12, 4), 4) for _ in range(ad)]; high = [l + Fraction(r.randint(1, 16), 4) for l in low]
        mean = [Fraction(r.randint(-8, 8), 2) for _ in range(od)]; var = [r.choice(EXACT_VARS) for _ in range(od)]
    else:
        low = [r.uniform(-5, 2) for _ in range(ad)]; high = [l + r.choice([0.01, 0.5, 1.0, 7.0]) * r.uniform(0.5, 1.5) for l in low]
        mean = [r.uniform(-3, 3) * r.choice([1, 1, 100]) for _ in range(od)]
        var = [r.choice([0.0, 1e-6, 0.3, 1.0, 17.0, 1e4]) * r.uniform(0.5, 1.5) for _ in range(od)]

    def one_obs():
        c = s["obs_class"]
        out = []
        for j in range(od):
            cc = c if c != "mixed" else r.choice(["small", "medium", "huge", "zero"])
            if exact:
                v = {"small": lambda: Fraction(r.randint(-16, 16), 4), "medium": lambda: Fraction(r.randint(-400, 400), 4),
                     "huge": lambda: r.choice([-1, 1]) * Fraction(2) ** r.randint(10, 20), "zero": lambda: Fraction(0)}[cc]()
            else:
                v = {"small": lambda: r.gauss(0, 1), "medium": lambda: r.uniform(-100, 100),
                     "huge": lambda: r.choice([-1, 1]) * r.choice([1e4, 1e5, 1e6]) * r.uniform(0.1, 1.0), "zero": lambda: 0.0}[cc]()
            out.append(v)
        return out
    obs = [one_obs() for _ in range(s["batch"])] if s["batch"] else one_obs()
    return dict(layers=layers, log_std=log_std, low=low, high=high, mean=mean, var=var, clip=10, obs=obs, key=r.randrange(1 << 30))


def exact_bound_ok(s, nb):
    """True when every product and partial sum of the forward pass is exactly representable in float32 whatever the
    summation order: all values are multiples of 1/D with |value| * D < 2^24 (D a power of two)"""
    def den(q): return Fraction(q).denominator
    x = list(nb["obs"])
    if s["norm"]:
        y = []
        for xi, m, v in zip(x, nb["mean"], nb["var"]):
            d = xi - m
            if abs(d) * max(den(d), 1) >= 2 ** 24: return False
            sd = {Fraction(1, 4): Fraction(1, 2), Fraction(1): Fraction(1), Fraction(4): Fraction(2), Fraction(16): Fraction(4)}[v]
            y.append(max(min(d / sd, Fraction(10)), Fraction(-10)))
        x = y
    for li, (K, b) in enumerate(nb["layers"]):
        out = []
        for j in range(len(b)):
            terms = [x[i] * K[i][j] for i in range(len(x))] + [b[j]]
            D = 1
            for t in terms: D = max(D, den(t))
            S = sum(abs(t) for t in terms)
            if S * D >= 2 ** 24: return False
            v = sum(terms)
            out.append(v)
        x = [max(v, Fraction(0)) for v in out] if li < len(nb["layers"]) - 1 else out
    return True


# ---------------------------------------------------------------- Coq terms
def q(x): x = Fraction(x); return f"({x.numerator} # {x.denominator})"
def ql(xs): return "[" + "; ".join(q(x) for x in xs) + "]"
def coq_case(s, nb, order):
    ents = []
    for k in order:
        if k == "log_std": ents.append(f"(KLogStd, EVec {ql(nb['log_std'])})")
        else:
            K, b = nb["layers"][k]
            ents.append(f"(KDense {k}, ELayer {{| kernel := [" + "; ".join(ql(row) for row in K) + f"]; bias := {ql(b)} |}})")
    no = f"Some {{| n_mean := {ql(nb['mean'])}; n_var := {ql(nb['var'])}; n_clip := {q(nb['clip'])} |}}" if s["norm"] else "None"
    rows = lambda v: "[" + "; ".join(ql(v) for _ in range(s["nenv"])) + "]"
    asc = f"Some {{| v_low := {rows(nb['low'])}; v_high := {rows(nb['high'])}; v_squash := {lib.boollit(s['squash'])} |}}"
    res = (f"{{| r_hidden := {s['hidden']}; r_actname := NRelu; r_params := [" + "; ".join(ents) + f"]; r_norm_obs := {no}; "
           f"r_act_scaling := {asc} |}}")
    return f"({res}, {ql(nb['obs'])})"


# ---------------------------------------------------------------- implementation side
class Impl:
    """builds synthetic PPOResults and evaluates rex on them; jax imported lazily"""

    def __init__(self):
        import jax, jax.numpy as jnp, numpy as onp, optax
        import rex.ppo as ppo
        from rex.actor_critic import Actor, Critic, ActorCritic
        from rex.rl import SquashState, NormalizeVec
        from rex import base
        from flax.training.train_state import TrainState
        self.__dict__.update(locals())
        self.tx = optax.sgd(0.1)

    def key_order(self, s):
        import random
        ks = list(range(s["hidden"] + 1)) + ["log_std"]
        if s.get("shuffle"): random.Random(s["seed"] ^ 0x5a5a).shuffle(ks)
        return ks

    def f32(self, v):
        jnp, onp = self.jnp, self.onp
        return jnp.asarray(onp.array([[float(x) for x in row] for row in v] if v and isinstance(v[0], list) else [float(x) for x in v],
                                     dtype=onp.float32))

    def arrays(self, s, nb):
        """every array of a case as a pytree: the parameter tree {'actor', 'critic'} plus low/high/mean/var"""
        jnp, onp, f32 = self.jnp, self.onp, self.f32
        h, w = s["hidden"], s["width"]
        actor = {}
        for k in self.key_order(s):     # the dict order of the parameters is part of the case
            if k == "log_std": actor["log_std"] = f32(nb["log_std"])
            else:
                K, b = nb["layers"][k]
                actor[f"Dense_{k}"] = {"kernel": f32(K).reshape(len(K), len(b)), "bias": f32(b)}
        import random
        r = random.Random(s["seed"] + 1)
        dims = [s["obs_dim"]] + [w] * h + [1]
        critic = {f"Dense_{i}": {"kernel": jnp.asarray(onp.array([[r.gauss(0, 0.3) for _ in range(dims[i + 1])] for _ in range(dims[i])],
                                                                 dtype=onp.float32).reshape(dims[i], dims[i + 1])),
                                 "bias": jnp.zeros((dims[i + 1],), dtype=jnp.float32)} for i in range(h + 1)}
        return dict(actor=actor, critic=critic, low=f32(nb["low"]), high=f32(nb["high"]), mean=f32(nb["mean"]), var=f32(nb["var"]))

    def network(self, s):
        h, w = s["hidden"], s["width"]
        cfg = self.ppo.Config(NUM_HIDDEN_LAYERS=h, NUM_HIDDEN_UNITS=w, HIDDEN_ACTIVATION=s["actn"], SQUASH=s["squash"],
                              NORMALIZE_ENV=s["norm"], NUM_ENVS=s["nenv"])
        net = self.ActorCritic(
            actor=self.Actor(s["act_dim"], num_hidden_units=w, num_hidden_layers=h, hidden_activation=s["actn"],
                             kernel_init_type=cfg.KERNEL_INIT_TYPE, state_independent_std=True),
            critic=self.Critic(num_hidden_units=w, num_hidden_layers=h, hidden_activation=s["actn"] if s["actn"] in ACTS else "tanh",
                               kernel_init_type=cfg.KERNEL_INIT_TYPE))
        return cfg, net

    def assemble(self, s, A, cfg, net, clip):
        """the PPOResult ppo.train returns for the arrays A of one training run (jax-traceable: used under jax.vmap for stacked results)"""
        jnp = self.jnp
        params = {"params": {"actor": A["actor"], "critic": A["critic"]}}
        ts = self.TrainState.create(apply_fn=net.apply, params=params, tx=self.tx)
        low = jnp.tile(A["low"][None], (s["nenv"], 1)); high = jnp.tile(A["high"][None], (s["nenv"], 1))
        aux = {"act_scaling": self.SquashState(low=low, high=high, squash=s["squash"])}
        if s["norm"]:
            aux["norm_obs"] = self.NormalizeVec(mean=A["mean"], var=A["var"], count=1234.0, return_val=None, clip=clip)
            aux["norm_reward"] = self.NormalizeVec(mean=0.25, var=3.0, count=1234.0, return_val=jnp.zeros((s["nenv"],)), clip=10.0)
        gs = self.base.GraphState(aux=aux)
        return self.ppo.PPOResult(config=cfg, runner_state=self.ppo.RunnerState(train_state=ts, env_state=gs, last_obs=None, rng=None),
                                  metrics={})

    def make(self, s, nb, check_init=False):
        jnp = self.jnp
        A = self.arrays(s, nb)
        params = {"params": {"actor": A["actor"], "critic": A["critic"]}}
        cfg, net = self.network(s)
        if check_init and s["actn"] in ACTS:
            ref = net.init(self.jax.random.PRNGKey(0), jnp.zeros((s["obs_dim"],)))
            sh = lambda t: sorted((self.jax.tree_util.keystr(p), tuple(x.shape)) for p, x in self.jax.tree_util.tree_leaves_with_path(t))
            assert sh(ref) == sh(params), ("synthetic parameter tree differs from ActorCritic.init", sh(ref), sh(params))
        res = self.assemble(s, A, cfg, net, float(nb["clip"]))
        return res, net, params, self.f32

    # independent float32 transcription of the model's normalize1 (clip, subtract mean) and unsquash1
    def ref_norm(self, s, nb, obs, f32):
        jnp = self.jnp
        if not s["norm"]: return obs
        y = (obs - f32(nb["mean"])) / jnp.sqrt(f32(nb["var"]) + 1e-8)
        return jnp.minimum(jnp.maximum(y, -float(nb["clip"])), float(nb["clip"]))

    def ref_unsquash(self, s, nb, a, f32):
        jnp = self.jnp
        lo, hi = f32(nb["low"]), f32(nb["high"])
        if s["squash"]: return 0.5 * (jnp.tanh(a) + 1.0) * (hi - lo) + lo
        return jnp.minimum(jnp.maximum(a, lo), hi)

    def run_case(self, s, nb, check_init=False):
        """returns dict(policy=..., ref=..., policy_sample=..., ref_sample=...) as numpy arrays, or error strings"""
        onp = self.onp
        res, net, params, f32 = self.make(s, nb, check_init)
        obs = f32(nb["obs"])
        out = {}
        key = self.jax.random.PRNGKey(nb["key"])
        try:
            pol = res.policy
            out["policy"] = onp.asarray(pol.get_action(obs))
            out["policy_sample"] = onp.asarray(pol.get_action(obs, rng=key))
        except Exception as e:  # noqa
            out["policy_error"] = f"{type(e).__name__}: {str(e)[:160]}"
        try:
            pi, _ = net.apply(params, self.ref_norm(s, nb, obs, f32))
            out["ref"] = onp.asarray(self.ref_unsquash(s, nb, pi.mean(), f32))
            out["ref_sample"] = onp.asarray(self.ref_unsquash(s, nb, pi.sample(seed=key), f32))
        except Exception as e:  # noqa
            out["ref_error"] = f"{type(e).__name__}: {str(e)[:160]}"
        return out


def close(a, b, tol=1e-5):
    import numpy as onp
    if a.shape != b.shape: return f"shape {a.shape} vs {b.shape}"
    if a.dtype != b.dtype: return f"dtype {a.dtype} vs {b.dtype}"
    if onp.array_equal(a, b, equal_nan=True): return None
    if not (onp.isfinite(a).all() and onp.isfinite(b).all()): return f"non-finite {a.tolist()} vs {b.tolist()}"
    d = onp.abs(a.astype(onp.float64) - b.astype(onp.float64)); lim = tol * (1.0 + onp.abs(b.astype(onp.float64)))
    if (d <= lim).all(): return None
    i = int(onp.argmax(d - lim))
    return f"component {i}: {a.ravel()[i]!r} vs {b.ravel()[i]!r}"


def sig(s, what): return f"{what}:act={s['actn'] if s['actn'] in ACTS else 'unknown'},squash={int(s['squash'])},norm={int(s['norm'])}"


def feats(s, nb=None):
    """(histogram features, boundary features): a case is non-trivial when it exercises at least one boundary feature"""
    hist = [f"act:{s['actn'] if s['actn'] in ACTS else 'unknown'}", f"depth:{s['hidden']}", "squash" if s["squash"] else "clip",
            "norm" if s["norm"] else "no-norm", f"obs:{s['obs_class']}"]
    b = []
    if s["hidden"] == 0: b.append("no-hidden-layer")
    if s["hidden"] >= 10: b.append("two-digit-layer-index")
    if s["obs_class"] in ("huge", "mixed"): b.append("obs-far-outside-range")
    if s["obs_class"] == "zero": b.append("obs-zero")
    if s.get("shuffle"): b.append("dict-order-shuffled")
    if s.get("batch"): b.append("batched-obs")
    if s["width"] >= 32: b.append("wide")
    if s["width"] == 1: b.append("width-1")
    if s["actn"] not in ACTS: b.append("unknown-activation")
    if nb is not None and s["norm"] and any(float(v) < 1e-5 for v in nb["var"]): b.append("near-zero-variance")
    if nb is not None and any(float(h) - float(l) < 0.02 for l, h in zip(nb["low"], nb["high"])): b.append("narrow-action-range")
    return hist, b


# ---------------------------------------------------------------- real training runs
def train_case(chk, im, tspec):
    """one real ppo.train on a small graph-free environment; the exported policy against the actions the trainer itself
    computed (pi.mean()) and the actions the environment actually received in the last evaluation roll-out"""
    import functools
    jax, jnp, onp = im.jax, im.jnp, im.onp
    from rex import rl
    from flax import struct
    ppo, base = im.ppo, im.base
    od, ad, T = tspec["obs_dim"], tspec["act_dim"], tspec["T"]
    lowv = jnp.array([-2.0, 0.5, -1.0][:ad]); highv = jnp.array([3.0, 0.75, 1.0][:ad])

    class TinyEnv(rl.BaseEnv):
        def __init__(self): self.graph = None
        @property
        def max_steps(self): return T
        def observation_space(self, gs): return rl.Box(-jnp.ones((od,)) * 50, jnp.ones((od,)) * 50)
        def action_space(self, gs): return rl.Box(lowv, highv)
        def _obs(self, x): return jnp.resize(jnp.concatenate([x, 3.0 * x[:1] - 7.0, 40.0 * x[1:]]), (od,))
        def reset(self, rng=None):
            x = jax.random.normal(rng, (2,)) * 2.0 + 1.0
            return base.GraphState(step=jnp.int32(0), state={"x": x}, rng={"n": rng}), self._obs(x), {"applied": jnp.zeros((ad,))}
        def step(self, gs, action):
            x = gs.state["x"]; x = x + 0.3 * jnp.resize(action, (2,)) - 0.1 * x
            step = gs.step + 1
            return gs.replace(step=step, state={"x": x}), self._obs(x), -jnp.sum(x ** 2), step >= T, False, {"applied": action}

    @struct.dataclass
    class Cfg(ppo.Config):
        def EVAL_METRICS_JAX_CB(self, total_steps, diagnostics, eval_transitions=None):
            return {"act": eval_transitions.action, "obs": eval_transitions.obs, "done": eval_transitions.done,
                    "applied": eval_transitions.info["applied"]}

    cfg = Cfg(NUM_ENVS=tspec["nenv"], NUM_STEPS=8, TOTAL_TIMESTEPS=tspec["nenv"] * 8 * 4, UPDATE_EPOCHS=2, NUM_MINIBATCHES=2,
              NUM_HIDDEN_LAYERS=tspec["hidden"], NUM_HIDDEN_UNITS=tspec["width"], HIDDEN_ACTIVATION=tspec["actn"], SQUASH=tspec["squash"],
              NORMALIZE_ENV=tspec["norm"], NUM_EVAL_ENVS=3, EVAL_FREQ=2, VERBOSE=False, LR=tspec["lr"], ANNEAL_LR=tspec["anneal"],
              STATE_INDEPENDENT_STD=True)
    case = dict(kind="train", spec=tspec)
    s = dict(actn=tspec["actn"], squash=tspec["squash"], norm=tspec["norm"])
    nv = int(tspec.get("vmap", 0))
    try:
        if nv:   # one training run per seed under vmap: the result (and the exported policy) carries a leading seed axis
            res = jax.jit(jax.vmap(functools.partial(ppo.train, TinyEnv()), in_axes=(None, 0)))(cfg, jax.random.split(jax.random.PRNGKey(tspec["seed"]), nv))
        else:
            res = jax.jit(functools.partial(ppo.train, TinyEnv()))(cfg, rng=jax.random.PRNGKey(tspec["seed"]))
        pol_all = res.policy
    except Exception as e:  # noqa
        chk.violation(sig(s, "train-or-export-raises"), f"ppo.train / PPOResult.policy raised: {type(e).__name__}: {str(e)[:200]}", case)
        return
    n = 0
    for k in range(max(nv, 1)):
        pick = (lambda x: x[k]) if nv else (lambda x: x)
        try: pol = pol_all[k] if nv else pol_all       # res.policy[k]: the documented export of the k-th seed's policy
        except Exception as ex:  # noqa
            chk.violation(sig(s, "vmapped-train-export-raises"), f"res.policy[{k}] raised on a result of jax.vmap(train): {type(ex).__name__}: {str(ex)[:200]}", case); return
        m = jax.tree_util.tree_map(pick, res.metrics)
        act = onp.asarray(m["act"][-1]); obs = onp.asarray(m["obs"][-1]); done = onp.asarray(m["done"][-1]); app = onp.asarray(m["applied"][-1])
        aux = res.runner_state.env_state.aux
        lo = onp.asarray(pick(aux["act_scaling"].low)); hi = onp.asarray(pick(aux["act_scaling"].high))
        for t in range(act.shape[0] - 1):
            for e in range(act.shape[1]):
                o = jnp.asarray(obs[t, e])
                try: a = onp.asarray(pol.get_action(o))
                except Exception as ex:  # noqa
                    chk.violation(sig(s, "get_action-raises"), f"get_action raised after real training: {type(ex).__name__}: {str(ex)[:200]}", case); return
                # (i) the trainer's own deterministic action for this observation, rescaled by the model's unsquash1 with env 0's bounds
                raw = act[t + 1, e].astype(onp.float32)
                ref = (0.5 * (onp.tanh(raw) + 1.0) * (hi[0] - lo[0]) + lo[0]) if tspec["squash"] else onp.minimum(onp.maximum(raw, lo[0]), hi[0])
                d = close(a, ref.astype(onp.float32), tol=2e-5)
                if d:
                    chk.violation(sig(s, ("vmapped-" if nv else "") + "train-action-differs"), f"exported policy{f' res.policy[{k}] of a jax.vmap(train) result' if nv else ''} differs from the trainer's evaluation action (pi.mean through the "
                                  f"action scaling) on an observation of the last evaluation roll-out: {d}",
                                  dict(case, member=k, obs=obs[t, e].tolist(), policy=a.tolist(), trainer=ref.tolist(), low=lo[0].tolist(), high=hi[0].tolist())); return
                # (ii) what the environment really received at that step (not available on the step where the episode ended)
                if not done[t + 1, e]:
                    d = close(a, app[t + 1, e], tol=2e-5)
                    if d:
                        chk.violation(sig(s, ("vmapped-" if nv else "") + "env-action-differs"), f"exported policy{f' res.policy[{k}] of a jax.vmap(train) result' if nv else ''} differs from the action the environment received from the "
                                      f"trainer for the same observation: {d}", dict(case, obs=obs[t, e].tolist(), policy=a.tolist(),
                                                                                     env_received=app[t + 1, e].tolist())); return
                n += 1
    chk.traces_impl += n
    chk.case(("train", json.dumps(tspec, sort_keys=True)), ["real-train", f"act:{tspec['actn']}", "squash" if tspec["squash"] else "clip",
                                                            "norm" if tspec["norm"] else "no-norm"] + (["vmapped-over-seeds"] if nv else []),
             dict(kind="real ppo.train", spec=tspec, eval_observations_compared=n))
    chk.feat("train-eval-observations", n)


# ---------------------------------------------------------------- the training-time wrappers themselves
def wrapper_case(chk, im, s, nb):
    """the wrapper stack of ppo.train (SquashActionWrapper -> VecEnvWrapper -> NormalizeVecObservationWrapper) around a stub
    environment that replays chosen raw observations and reports the action it receives: the policy exported from the resulting
    env_state must map raw observation e to what the stub received when the actor's mean for the wrapper-normalised
    observation e was sent through the stack"""
    import random
    jax, jnp, onp = im.jax, im.jnp, im.onp
    from rex import rl
    r = random.Random(s["seed"] ^ 0x77)
    s0 = s
    ne, od, ad = s["nenv"], s["obs_dim"], s["act_dim"]
    many = s["norm"] and r.random() < 0.5
    if many: ne = 130        # with many parallel envs a single outlier exceeds the clip although it enters the running statistics
    s = dict(s, nenv=ne)
    def ob(huge): return [(r.choice([-1, 1]) * r.choice([1e3, 1e5, 1e6]) * r.uniform(0.1, 1)) if (huge and r.random() < 0.4) else r.gauss(0, 2) for _ in range(od)]
    t0 = jnp.asarray(onp.array([ob(False) for _ in range(ne)], dtype=onp.float32))
    t1 = jnp.asarray(onp.array([ob(e == 0 if many else True) for e in range(ne)], dtype=onp.float32))
    res0, net, params, f32 = im.make(s, nb)
    lowv, highv = f32(nb["low"]), f32(nb["high"])

    class Stub(rl.BaseEnv):
        def __init__(self): self.graph = None
        def observation_space(self, gs): return rl.Box(-jnp.ones((od,)) * 1e7, jnp.ones((od,)) * 1e7)
        def action_space(self, gs): return rl.Box(lowv, highv)
        def reset(self, rng=None): return im.base.GraphState(state={"i": rng}), t0[rng], {}
        def step(self, gs, action): return gs, t1[gs.state["i"]], jnp.float32(0.0), False, False, {"applied": action}

    env = rl.VecEnvWrapper(rl.SquashActionWrapper(Stub(), squash=s["squash"]))
    if s["norm"]: env = rl.NormalizeVecObservationWrapper(env)
    case = dict(spec=dict(s0, kind="wrapper"), obs_table_head=onp.asarray(t1)[:4].tolist())
    try:
        gsv, nobs0, _ = env.reset(jnp.arange(ne))
        a0 = net.apply(params, nobs0)[0].mean()
        gsv1, nobs1, *_ = env.step(gsv, a0)                      # nobs1: what the network is shown for the raw observations t1
        a1 = net.apply(params, nobs1)[0].mean()
        _, _, _, _, _, info = env.step(gsv1, a1)                 # info["applied"]: what the environments received for them
        res = res0.replace(runner_state=res0.runner_state.replace(env_state=gsv1))
        pol = res.policy
        idx = list(range(ne)) if ne <= 8 else [0, 1, 2, ne // 2, ne - 1]      # env 0 carries the outlier
        got = onp.stack([onp.asarray(pol.get_action(t1[e])) for e in idx])
    except Exception as ex:  # noqa
        chk.violation(sig(s, "wrapper-path-raises"), f"training wrapper stack / exported policy raised: {type(ex).__name__}: {str(ex)[:200]}", case); return
    chk.traces_impl += len(idx)
    applied = onp.asarray(info["applied"])[idx]
    if s["norm"] and float(jnp.max(jnp.abs(nobs1))) >= 10.0: chk.feat("wrapper-stack-observation-clipped")
    d = close(got, applied)
    if d:
        chk.violation(sig(s, "wrapper-action-differs"), f"exported policy differs from the action the environment received through the training "
                      f"wrappers (observation wrapper -> actor mean -> SquashActionWrapper) for the same raw observation: {d}",
                      dict(case, envs=idx, policy=got.tolist(), env_received=applied.tolist()))


# ---------------------------------------------------------------- stacked (batched) training results
EXPORTS = ["policy[i]", "policy[i]", "result[i].policy", "result[i].policy", "vmap(get_action)"]
LEADS = [[1], [2], [3], [3], [4], [2, 2], [2, 3], [1, 2], [3, 1]]
# (hidden, width, obs_dim, act_dim): a fixed menu, so that the eagerly dispatched jax primitives are compiled once per run and not once per
# case (the architecture itself is the subject of the float / exact streams; this family varies the layout of the result around it)
ARCHS = [(0, 1, 3, 2), (1, 4, 2, 3), (2, 8, 4, 3), (2, 16, 3, 2), (3, 5, 5, 4), (1, 32, 2, 1), (4, 3, 1, 4), (2, 8, 4, 1)]


def gen_stacked(r):
    """a training result with leading batch axes: what jax.vmap(train, in_axes=(None, 0))(config, rngs) returns (one axis: seeds;
    two axes: e.g. seeds x hyper-parameters). Every leaf of the result carries the leading axes, the action bounds are
    [*lead, NUM_ENVS, ACTION_DIM]; one member's policy is exported as res.policy[i] (the documented way), res[i].policy, or the
    stacked policy is used under jax.vmap. The members have different parameters / statistics, and the same or different bounds.
    leaves: jax arrays, or numpy arrays (jax.device_get / a result restored from disk). construct: the stacked result is obtained by
    jax.vmap of the single-result constructor, or by stacking every leaf of the members' results (checked to be the same thing)."""
    s = gen_spec(r, "float")
    h, w, od, ad = r.choice(ARCHS)
    s.update(kind="stacked", batch=0, shuffle=False, hidden=h, width=w, obs_dim=od, act_dim=ad, lead=list(r.choice(LEADS)),
             export=r.choice(EXPORTS), bounds=r.choice(["shared", "shared", "per-member"]), leaves=r.choice(["jax", "numpy", "numpy"]),
             construct=r.choice(["vmap"] + ["stack"] * 7))
    if r.random() < 0.35:   # coincidences between the sizes of the leading axes, the env axis and the action axis
        s["nenv"] = r.choice([s["lead"][0], s["lead"][-1], ad])
    if s["export"] == "vmap(get_action)" and not s["norm"] and s["obs_class"] in ("huge", "mixed"):
        s["obs_class"] = "medium"   # see the tolerance note in stacked_case
    return s


def stacked_members(s):
    import itertools
    idxs = list(itertools.product(*[range(n) for n in s["lead"]]))
    nbs = []
    for m, _ in enumerate(idxs):
        nb = build_numbers(dict(s, seed=s["seed"] + 1000003 * m))
        if s["bounds"] == "shared" and m: nb["low"], nb["high"] = nbs[0]["low"], nbs[0]["high"]
        nbs.append(nb)
    return idxs, nbs


def sig_st(s, what): return f"{what}:export={s['export']},squash={int(s['squash'])}"


def stacked_case(chk, im, s):
    jax, jnp, onp = im.jax, im.jnp, im.onp
    idxs, nbs = stacked_members(s)
    f32 = im.f32
    cfg, net = im.network(s)
    As = [im.arrays(s, nb) for nb in nbs]
    lead = tuple(s["lead"])
    tu = jax.tree_util
    # every leaf of the members' results (python scalars of config / counters included) stacked along the leading axes
    members = [im.assemble(s, a, cfg, net, 10.0) for a in As]
    leaves = [tu.tree_leaves(m) for m in members]
    def build_stack():
        canon = lambda x: onp.asarray(x).astype(jax.dtypes.canonicalize_dtype(onp.asarray(x).dtype))    # python scalars as jax sees them (float32 / int32)
        st = [onp.stack([canon(x) for x in ls]) for ls in zip(*leaves)]
        st = [x.reshape(lead + x.shape[1:]) for x in st]
        return tu.tree_unflatten(tu.tree_structure(members[0]), st if s.get("leaves") == "numpy" else [jnp.asarray(x) for x in st])
    def build_vmap():
        A = tu.tree_map(lambda *xs: onp.stack([onp.asarray(x) for x in xs]).reshape(lead + xs[0].shape), *As)
        build = lambda a: im.assemble(s, a, cfg, net, 10.0)
        for _ in lead: build = jax.vmap(build)
        out = build(A)
        return jax.device_get(out) if s.get("leaves") == "numpy" else out
    case = dict(spec=s, members=[list(i) for i in idxs], low=[[float(x) for x in nb["low"]] for nb in nbs],
                high=[[float(x) for x in nb["high"]] for nb in nbs])
    hist, f = feats(s, nbs[0])
    f.append("stacked-result"); f.append(f"export:{s['export']}"); f.append(f"leaves:{s.get('leaves')}")
    if s.get("construct") == "vmap": f.append("constructed-by-jax.vmap")
    if len(lead) == 2: f.append("two-leading-axes")
    if 1 in lead: f.append("leading-axis-of-size-1")
    if s["act_dim"] in lead: f.append("leading-axis-size-equals-action-dim")
    if s["nenv"] in lead: f.append("leading-axis-size-equals-num-envs")
    if s["act_dim"] >= 2 and len({(float(l), float(h)) for l, h in zip(nbs[0]["low"], nbs[0]["high"])}) > 1: f.append("bounds-differ-between-action-dims")
    if s["bounds"] == "per-member": f.append("bounds-differ-between-members")
    for h in hist: chk.feat(h)
    chk.case(json.dumps(s, sort_keys=True), f, dict(spec=s))
    # reference per member: the flax network on that member's own parameters, statistics and bounds (no stacking involved)
    obs = [f32(nb["obs"]) for nb in nbs]; keys = [jax.random.PRNGKey(nb["key"]) for nb in nbs]
    refs = []
    for a, nb, o, k in zip(As, nbs, obs, keys):
        pi, _ = net.apply({"params": {"actor": a["actor"], "critic": a["critic"]}}, im.ref_norm(s, nb, o, f32))
        refs.append((onp.asarray(im.ref_unsquash(s, nb, pi.mean(), f32)), onp.asarray(im.ref_unsquash(s, nb, pi.sample(seed=k), f32))))
    res = build_stack()
    shp = tuple(res.runner_state.env_state.aux["act_scaling"].low.shape)
    assert shp == lead + (s["nenv"], s["act_dim"]), shp     # the layout ppo.train produces under vmap
    if s.get("construct") == "vmap":     # self-check of the harness: stacking the leaves is what jax.vmap of the constructor returns
        rv = build_vmap()
        lv, ls = tu.tree_leaves(rv), tu.tree_leaves(res)
        same = tu.tree_structure(jax.device_get(rv)) == tu.tree_structure(jax.device_get(res)) and \
            all(onp.shape(x) == onp.shape(y) and onp.array_equal(onp.asarray(x), onp.asarray(y)) for x, y in zip(lv, ls))
        if not same: chk.broke("harness:stacked-result-differs-from-jax.vmap", json.dumps(s)); return
        res = rv
    try:
        if s["export"] == "vmap(get_action)":
            pol = res.policy
            det = lambda p, o: p.get_action(o)
            smp = lambda p, o, k: p.get_action(o, rng=k)
            for _ in lead: det, smp = jax.vmap(det), jax.vmap(smp)
            O = jnp.stack(obs).reshape(lead + obs[0].shape); K = jnp.stack(keys).reshape(lead + keys[0].shape)
            D, S = onp.asarray(det(pol, O)), onp.asarray(smp(pol, O, K))
            got = [(D[i], S[i]) for i in idxs]
        else:
            got = []
            for i, o, k in zip(idxs, obs, keys):
                if s["export"] == "policy[i]":
                    pol = res.policy
                    for j in i: pol = pol[j]
                else:
                    rr = res
                    for j in i: rr = rr[j]
                    pol = rr.policy
                got.append((onp.asarray(pol.get_action(o)), onp.asarray(pol.get_action(o, rng=k))))
    except Exception as ex:  # noqa
        chk.violation(sig_st(s, "stacked-result-export-raises"), f"exporting / applying the policy of a training result with leading batch axes "
                      f"{list(lead)} via {s['export']} raised: {type(ex).__name__}: {' '.join(str(ex).split())[:200]}", case)
        return
    # tolerance: as in the unstacked float stream, 1e-5*(1+|x|). Under jax.vmap the dense layers become batched matmuls whose summation
    # order may differ from the unbatched one, so that family avoids un-normalised observations of magnitude 1e4..1e6 (cancellation
    # would be amplified beyond a relative tolerance on the result); the indexed exports run the very same unbatched computation.
    for i, nb, (gd, gs), (rd, rs) in zip(idxs, nbs, got, refs):
        chk.traces_impl += 1
        for which, g, rf in (("deterministic", gd, rd), ("sampled", gs, rs)):
            d = close(g, rf)
            if d:
                chk.violation(sig_st(s, "stacked-result-action-differs" if which == "deterministic" else "stacked-result-sample-differs"),
                              f"training result with leading batch axes {list(lead)} (as returned by jax.vmap(train)): the {which} action of the "
                              f"policy exported for member {list(i)} via {s['export']} differs from that member's actor under that member's "
                              f"observation normalisation and action bounds low={[float(x) for x in nb['low']]} high={[float(x) for x in nb['high']]}: {d}",
                              dict(case, member=list(i), obs=[float(x) for x in nb["obs"]], policy=g.tolist(), actor=rf.tolist()))
                return
    chk.feat("stacked-members-compared", len(idxs))


# ---------------------------------------------------------------- main
def judge(chk, s, nb, out, model=None, exact_ok=False):
    import numpy as onp
    case = dict(spec=s, obs=[str(x) for x in (nb["obs"] if not s["batch"] else sum(nb["obs"], []))])
    chk.traces_impl += 1
    known_act = s["actn"] in ACTS
    if not known_act:
        # model: both fail iff there is at least one hidden layer (the table is consulted inside the loop); with no hidden layer both succeed
        expect_fail = s["hidden"] >= 1
        pf, rf = "policy_error" in out, "ref_error" in out
        if rf != expect_fail:
            chk.broke("model:actor_table", f"Actor with unknown activation {s['actn']!r}, hidden={s['hidden']}: raised={rf}, model says {expect_fail}")
        if pf != rf:
            chk.violation(sig(s, "failure-differs"), f"unknown activation {s['actn']!r}: exported policy raised={pf} ({out.get('policy_error')}) but "
                          f"the actor raised={rf} ({out.get('ref_error')})", case)
            return
        if pf: return
    if "ref_error" in out:
        chk.broke("harness:reference-raised", out["ref_error"]); return
    if "policy_error" in out:
        chk.violation(sig(s, "get_action-raises"), f"get_action raised on a well-formed training result: {out['policy_error']}", case); return
    d = close(out["policy"], out["ref"])
    if d:
        chk.violation(sig(s, "action-differs"), f"get_action(obs) differs from the actor's deterministic action (ActorCritic.apply on the "
                      f"normalised observation, mean, action scaling): {d}", dict(case, policy=out["policy"].tolist(), actor=out["ref"].tolist()))
        return
    d = close(out["policy_sample"], out["ref_sample"])
    if d:
        chk.violation(sig(s, "sample-differs"), f"get_action(obs, rng) differs from the actor's Gaussian sampled with the same key: {d}",
                      dict(case, policy=out["policy_sample"].tolist(), actor=out["ref_sample"].tolist()))
        return
    if onp.array_equal(out["policy"], out["ref"]): chk.feat("bit-identical-to-actor")
    if model is not None:
        if model is None or model[0] != "Some":
            chk.broke("model:get_action-none", f"model returned {model} on a well-formed case"); return
        mv = [Fraction(a, b) for (a, b) in model[1]]
        iv = [Fraction(float(x)) for x in out["policy"].ravel()]
        if len(mv) != len(iv):
            chk.violation(sig(s, "model-shape-differs"), f"get_action returned {len(iv)} components, the model {len(mv)}", case); return
        for j, (a, b) in enumerate(zip(iv, mv)):
            ok = (a == b) if exact_ok else abs(a - b) <= Fraction(1, 10 ** 5) * (1 + abs(b))
            if not ok:
                chk.violation(sig(s, "model-differs"), f"get_action differs from the Q model at component {j}: {float(a)!r} vs exact {b} "
                              f"({'exact comparison' if exact_ok else 'tolerance 1e-5'})", dict(case, policy=[str(x) for x in iv], model=[str(x) for x in mv]))
                return
        chk.feat("equal-to-Q-model-exactly" if exact_ok else "equal-to-Q-model-within-tolerance")


def run(chk, replay=None):
    chk.stage_proofs(kernels=["Policy"])
    quick = chk.tier == "quick"
    r = chk.rnd
    only_wrapper = False
    sspecs = []
    if replay:
        rp = json.load(open(replay)); c = rp["case"]
        only_wrapper = c.get("spec", {}).get("kind") == "wrapper"
        if c.get("kind") == "train": specs, tspecs = [], [c["spec"]]
        elif c.get("spec", {}).get("kind") == "stacked": specs, tspecs, sspecs = [], [], [c["spec"]]
        else: specs, tspecs = [dict(c["spec"], kind="float") if only_wrapper else c["spec"]], []
    else:
        specs = [gen_spec(r, "float") for _ in range(140 if quick else 1400)] + [gen_spec(r, "exact") for _ in range(80 if quick else 600)] + \
                [gen_spec(r, "unknown-act") for _ in range(8 if quick else 40)]
        tspecs = []
        for i in range(2 if quick else 6):
            tspecs.append(dict(seed=r.randrange(1 << 20), hidden=r.choice([0, 1, 2, 3]), width=r.choice([4, 8, 16]), actn=ACTS[(i + r.randrange(4)) % 4],
                               squash=(i % 2 == 0) if quick else r.random() < 0.5, norm=(i % 2 == 0) if quick else r.random() < 0.6,
                               nenv=r.choice([2, 4]), obs_dim=r.randint(2, 4), act_dim=r.randint(1, 3), T=r.randint(4, 7),
                               lr=r.choice([5e-4, 1e-2]), anneal=r.random() < 0.3, vmap=(0 if quick or i % 3 else 3)))
        # one of the real runs of the quick tier trains two seeds at once (jax.vmap over the rng) on >= 2 action dimensions
        if quick: tspecs[-1].update(vmap=2, act_dim=max(2, tspecs[-1]["act_dim"]))
        sspecs = [gen_stacked(r) for _ in range(36 if quick else 200)]
    im = Impl()
    import numpy as onp
    # the float32 facts the exact cases rely on
    for v, sd in zip(EXACT_VARS, [0.5, 1.0, 2.0, 4.0]):
        assert float(onp.sqrt(onp.float32(float(v)) + onp.float32(1e-8))) == sd
    nbs = [build_numbers(s) for s in specs]
    outs = [im.run_case(s, nb, check_init=(i < 12)) for i, (s, nb) in enumerate(zip(specs, nbs))]
    ex = [i for i, s in enumerate(specs) if s["kind"] == "exact"]
    models = {}
    if ex:
        terms = [coq_case(specs[i], nbs[i], im.key_order(specs[i])) for i in ex]
        vals = lib.coq_eval_sharded("C20", HEADER, "run", terms, per=100)
        models = dict(zip(ex, vals))
    for i, (s, nb, out) in enumerate(zip(specs, nbs, outs)):
        hist, f = feats(s, nb)
        eo = False
        if i in models:
            eo = exact_bound_ok(s, nb)
            f.append("Q-model-exact" if eo else "Q-model-tolerance")
            if s["norm"] and any(abs((Fraction(x) - m) / {Fraction(1, 4): Fraction(1, 2), Fraction(1): 1, Fraction(4): 2, Fraction(16): 4}[v]) > 10
                                 for x, m, v in zip(nb["obs"], nb["mean"], nb["var"])): f.append("obs-clipped-by-normalisation")
        for h in hist: chk.feat(h)
        chk.case(json.dumps(s, sort_keys=True), f, dict(spec=s))
        if not only_wrapper: judge(chk, s, nb, out, models.get(i), eo)
    wn = 0
    for s, nb in zip(specs, nbs):
        if s["kind"] == "float" and not s["batch"] and wn < (30 if quick else 250):
            wn += 1
            chk.feat("wrapper-stack-case")
            wrapper_case(chk, im, s, nb)
    for s in sspecs: stacked_case(chk, im, s)
    for ts in tspecs: train_case(chk, im, ts)
    chk.extra["rule"] = ("synthetic PPOResults: real ppo.Config / RunnerState / TrainState / GraphState.aux with actor parameters drawn at random "
                         "(depth 0-4 and 11, width 1-64, obs dim 1-8, action dim 1-4, tanh/relu/gelu/softplus, squash or clip, normalisation on "
                         "or off incl. zero variance, 1-4 parallel envs, parameter dict in natural or shuffled order, single or batched observation "
                         "from N(0,1) up to +-1e6); exact stream: relu, weights in {0,+-1/2,+-1}, dyadic observations up to 2^20, evaluated by the "
                         "Gallina model over Q; unknown-activation stream; real ppo.train runs on a 2-state graph-free BaseEnv (one of them jax.vmap'ed over "
                         "seeds, exported with res.policy[k]); stacked stream: training results with one or two leading batch axes of size 1-4 as "
                         "returned by jax.vmap(train) (every leaf stacked, bounds [*lead, NUM_ENVS, ACTION_DIM], members with different parameters / "
                         "statistics and shared or per-member bounds, jax or numpy leaves, sizes of the leading / env / action axes coinciding or "
                         "not), one member exported by res.policy[i], res[i].policy or the stacked policy applied under jax.vmap, each member "
                         "compared with its own flax actor. Every case counts "
                         "as non-trivial (each has a network and a non-identity scaling); distinct by full specification incl. seed")
    chk.trusted += ["flax nn.Dense / activation functions, distrax MultivariateNormalDiag (mean, sample), jax.random: shared by the exported policy "
                    "and the actor, entering the model as Section variables sigma, fexp, normal",
                    "flax auto-naming of the i-th nn.Dense created in a compact __call__ as Dense_i (model: actor_hidden looks up KDense i)"]
    chk.notes += ["floating point: policy vs actor compared within 1e-5*(1+|x|) (bit-identical results are counted in features); policy vs Q "
                  "model compared exactly whenever every product and partial sum of the forward pass is exactly representable in float32, "
                  "else within 1e-5; real training runs (jit) within 2e-5",
                  "STATE_INDEPENDENT_STD=False is outside the property (ppo.train fails there, DESIGN F8)",
                  "the Q model receives float32 sqrt(var+1e-8) as a 4-point table (var in {1/4,1,4,16}); tanh/gelu/softplus/exp are not "
                  "evaluated in the model (Section variables)"]
