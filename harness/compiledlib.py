"""Parent-side helpers for the compiled-runtime properties: graph configurations, watchdogged child processes running
rex.graph.Graph (compiled_worker.py), the extracted M3 model (ocaml/rexmodel3) and comparisons."""
import os, random
from . import lib, asynclib as al

WORKER = os.path.join(lib.VERIF, "harness", "compiled_worker.py")


def gen_cfg_generated(rnd, max_nodes=4):
    """configurations generate_graphs supports: non-blocking LATEST connections, no advance"""
    cfg = al.gen_cfg(rnd, max_nodes=max_nodes, allow_advance=False)
    for c in cfg["conns"].values(): c["blocking"] = False; c["jitter"] = "LATEST"
    for nd in cfg["nodes"].values():
        nd["sched"] = "FREQ"; nd["period"] = max(nd["period"], 4)
    return cfg


def gen_cfg_async(rnd, max_nodes=4):
    cfg = al.gen_cfg(rnd, max_nodes=max_nodes, steps=rnd.choice([5, 7, 9]))
    for nd in cfg["nodes"].values(): nd["period"] = max(nd["period"], 4)
    return cfg


def run_jobs(jobs, nproc=8, per_job_timeout=240):
    return al.run_jobs(jobs, nproc=nproc, per_job_timeout=per_job_timeout, start_timeout=240, worker=WORKER)


def run_model(insts):
    """insts: list of (text, names, cn, cfg) -> list of dict(check, checksym, checksym_smaller, need{conn}, wins{conn:[...]}, rows{node:[...]})"""
    out = lib.run_model([], f"{len(insts)}\n" + "\n".join(t for t, _, _, _ in insts) + "\n", binary="rexmodel3")
    res = []; cur = None
    for line in out.splitlines():
        p = line.split()
        if p[0] == "INST":
            _, names, cn, cfg = insts[int(p[1])]
            cur = dict(need={}, wins={c: [] for c in cn}, rows={n: [] for n in names}); res.append(cur)
        elif p[0] == "CHECK": cur["check"] = int(p[1])
        elif p[0] == "CHECKSYM": cur["checksym"] = int(p[1])
        elif p[0] == "CHECKREPLAY": cur["checkreplay"] = int(p[1])
        elif p[0] == "EXTRAOK": cur["extraok"] = int(p[1])
        elif p[0] == "SCHEDOK": cur["schedok"] = int(p[1])
        elif p[0] in ("NMONO", "TTMATCH", "CHECKMONO", "TTCHECK", "TMPLOK", "SUPCOV"): cur[p[0].lower()] = int(p[1])
        elif p[0] == "CHECKSYM_SMALLER": cur["checksym_smaller"] = int(p[1])
        elif p[0] == "NEED": cur["need"][cn[int(p[1])]] = int(p[2])
        elif p[0] == "WIN":
            v = list(map(int, p[4:])); cur["wins"][cn[int(p[1])]].append([v[3 * i:3 * i + 3] for i in range(int(p[3]))])
        elif p[0] == "ROW":
            n = names[int(p[1])]; seq, ts, st, o, nw = map(int, p[2:7]); rest = list(map(int, p[7:]))
            senders = sorted({cfg["conns"][c]["out"] for c in cn if cfg["conns"][c]["in"] == n})
            wins = {}; i = 0
            for wi in range(nw):
                ln = rest[i]; ent = rest[i + 1:i + 1 + 4 * ln]; i += 1 + 4 * ln
                wins[senders[wi]] = [ent[4 * j:4 * j + 4] for j in range(ln)]
            cur["rows"][n].append((seq, ts, st, o, wins))
    return res


def neg(w):
    return {m: [[max(e[0], -1)] + list(e[1:]) if e[0] >= 0 else [-1, 0, 0, e[3]] for e in v] for m, v in w.items()}


def impl_rows(ep, n):
    """executed rows (seq >= 0) of node n from the compiled record, as (seq, ts, state, out, wins)"""
    c = ep["rows"].get(n); out = []
    if c is None: return out        # a node without a slot in the compiled graph (pruned) never runs and has no record
    for k in range(len(c["seq"])):
        if c["seq"][k] < 0: continue
        out.append((c["seq"][k], c["start"][k], c["state"][k] if "state" in c else None, c["out"][k] if "out" in c else None,
                    neg(c["wins"][k]) if "wins" in c else None))
    return out


def compare_rows(cfg, ep, mod):
    for n in sorted(cfg["nodes"]):
        ir = impl_rows(ep, n); mr = sorted(mod["rows"][n], key=lambda r: r[0])
        mr = [(a, b, c, d, neg(w)) for (a, b, c, d, w) in mr]
        if len(ir) != len(mr): return f"node {n}: implementation executed {len(ir)} rows, model {len(mr)}"
        for a, b in zip(ir, mr):
            for fi, fname in enumerate(["seq", "ts_start", "state", "output", "windows"]):
                if a[fi] is None: continue
                if a[fi] != b[fi]: return f"node {n} seq {a[0]} field {fname}: implementation {a[fi]} model {b[fi]}"
    return None


# ------------------------------------------------------------------ direct clause checkers on the implementation's schedule
def model_windows(cfg, raw):
    """windows per connection and receiver step from the raw graph, written from the property text: the last `window`
    messages consumed up to that step (valid seq_out and seq_in <= k), oldest first; unfilled entries are (-1, 0, 0)"""
    out = {}
    for c, cc in cfg["conns"].items():
        w = cc["window"]; vm = raw["verts"][cc["out"]]; vn = raw["verts"][cc["in"]]
        msgs = [(so, vm[so][2], tr, si) for (so, si, tr) in raw["edges"][c] if so >= 0 and si >= 0]
        res = []
        for (k, _, _) in vn:
            if k < 0: res.append(None); continue
            cons = [m[:3] for m in msgs if m[3] <= k]
            res.append(([(-1, 0, 0)] * w + cons)[-w:])
        out[c] = res
    return out


def check_c07(cfg, raw, slots, prune):
    """C07 clauses evaluated on rex's Timings for one episode. returns list of (signature, detail)"""
    V = []
    sup = cfg["sup"]
    wins = model_windows(cfg, raw)
    ngen = max(s["gen"] for s in slots) + 1
    nparts = len(slots[0]["cells"])
    seen = {}
    for s in slots:
        for p, (run, k, ts, te, w) in enumerate(s["cells"]):
            if not run: continue
            n = s["kind"]
            if (n, k) in seen: V.append(("vertex-scheduled-twice", f"{n}[{k}] in partitions {seen[(n, k)][0]} and {p}"))
            seen[(n, k)] = (p, s["gen"])
            vs = raw["verts"][n]
            if not (0 <= k < len(vs) and vs[k][0] == k): V.append(("scheduled-step-is-no-vertex", f"{n}[{k}]")); continue
            if (ts, te) != tuple(vs[k][1:]): V.append(("scheduled-step-wrong-times", f"{n}[{k}] ({ts},{te}) vs vertex {vs[k][1:]}"))
            for c, cc in cfg["conns"].items():
                if cc["in"] != n: continue
                got = [tuple(e) if e[0] >= 0 else (-1, 0, 0) for e in w[cc["out"]]]
                want = [tuple(e) if e[0] >= 0 else (-1, 0, 0) for e in wins[c][k]]
                if got != want: V.append(("scheduled-window-wrong", f"{c} step {k}: schedule {got} expected {want}"))
    # gens: at most one slot of a kind per generation
    for g in range(ngen):
        kinds = [s["kind"] for s in slots if s["gen"] == g]
        if len(kinds) != len(set(kinds)): V.append(("two-slots-of-a-kind-in-generation", f"gen {g}: {kinds}"))
    for (n, k), (p, g) in seen.items():
        if k > 0:
            if (n, k - 1) not in seen: V.append(("predecessor-step-missing", f"{n}[{k}]"))
            elif not seen[(n, k - 1)] < (p, g): V.append(("steps-out-of-sequence-order", f"{n}[{k - 1}] at {seen[(n, k - 1)]} not before {n}[{k}] at {(p, g)}"))
        for c, cc in cfg["conns"].items():
            if cc["in"] != n: continue
            for (so, _, _) in wins[c][k]:
                if so < 0: continue
                if (cc["out"], so) not in seen: V.append(("producer-missing", f"{c}: step {k} reads message {so} which is not scheduled"))
                elif not seen[(cc["out"], so)] < (p, g): V.append(("producer-not-before-consumer", f"{c}: message {so} at {seen[(cc['out'], so)]}, reader step {k} at {(p, g)}"))
        if n == sup and not (p == k and g == ngen - 1): V.append(("supervisor-does-not-close-partition", f"step {k} at partition {p} generation {g}/{ngen}"))
    # coverage within the horizon
    for p in range(nparts):
        if (sup, p) not in seen: V.append(("supervisor-step-missing", f"partition {p}")); continue
    need = set()
    stack = [(sup, p) for p in range(nparts)]
    while stack:
        v = stack.pop()
        if v in need: continue
        need.add(v)
        n, k = v
        if k > 0: stack.append((n, k - 1))
        for c, cc in cfg["conns"].items():
            if cc["in"] == n:
                for (so, _, _) in wins[c][k]:
                    if so >= 0: stack.append((cc["out"], so))
    for v in sorted(need):
        if v not in seen: V.append(("ancestor-of-supervisor-step-not-executed", f"{v[0]}[{v[1]}]"))
    if not prune:
        sup_starts = [raw["verts"][sup][p][1] for p in range(nparts)]
        for n, vs in raw["verts"].items():
            for (k, ts, te) in vs:
                if k < 0: continue
                if any(te <= s0 for s0 in sup_starts) and (n, k) not in seen:
                    V.append(("unpruned-vertex-not-executed", f"{n}[{k}] ends {te} before a supervisor step starts"))
    else:
        pass
    # nothing outside the horizon's dependencies is required, but nothing may run twice (checked above)
    return V
