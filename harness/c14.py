"""C14 — records and graphs convert, stack, pad and filter without loss: correspondence between rex.base
(EpisodeRecord.to_graph/filter/__getitem__, ExperimentRecord.to_graph/stack/filter, Graph.stack/__getitem__/__len__/filter)
+ rex.utils.to_networkx_graph and the Gallina model Convert.v, on generated ragged records, node subsets with shadow
input names and both filter flags; plus relational checks on the implementation alone (a stacked episode's networkx graph
equals the original one, stacking records then converting equals converting then stacking, padding is -1 only)."""
import json, os
from . import lib

HEADER = """From Coq Require Import List ZArith Bool.
From Rex Require Import Convert.
Import ListNotations.
Open Scope Z_scope.
Definition enct {L} (t : tri L) : list L := [f1 t; f2 t; f3 t].
Definition encg {L} (g : graph L) := (map (fun nv => (fst nv, enct (snd nv))) (g_v g), map (fun ke => (fst ke, enct (snd ke))) (g_e g)).
Definition encc (c : call) : list Z := match c with
  | AddNode k s a b => [0; k; s; a; b]
  | AddEdge k1 s1 k2 s2 None => [1; k1; s1; k2; s2; 0; 0]
  | AddEdge k1 s1 k2 s2 (Some t) => [1; k1; s1; k2; s2; 1; t] end.
Definition encr (ep : episode arr) := map (fun nr => (fst nr, (enct (vertex_of (r_steps (snd nr))), r_info_inputs (snd nr),
   map (fun im => (fst im, [m_out (snd im); m_in (snd im); m_sent (snd im); m_recv (snd im); m_delay (snd im)])) (r_inputs (snd nr))))) ep.
Definition filt (key : Z * Z -> Z) (sel : nodeset) (gs : list (graph arr)) (bg : option (graph (list arr))) (eps : list (episode arr)) (flag : bool) :=
  (map (fun g => encg (graph_filter key flag sel g)) gs, option_map (fun b => encg (graph_filter key flag sel b)) bg,
   map (fun ep => option_map encr (rec_filter key flag sel ep)) eps).
Definition run (c : list (episode arr) * nodeset) :=
  let eps := fst c in let sel := snd c in
  let gs := map to_graph eps in
  let bg := stack gs in
  (map encg gs, option_map encg bg, option_map (fun b => Z.of_nat (blen b)) bg,
   map (fun i => option_map (fun b => (encg (get i b), map encc (nx (get i b)))) bg) (seq 0 (length gs)),
   map (fun g => map encc (nx g)) gs,
   [filt key_sender sel gs bg eps true; filt key_sender sel gs bg eps false],
   [filt key_pinned sel gs bg eps true; filt key_pinned sel gs bg eps false]).
"""

TICK = 64


# ---------------------------------------------------------------- case generation
# a case: dict(names=[...], conns=[(sender, receiver, input_name)], eps=[{node: dict(seq, ts_start, ts_end, ins={sender: dict(...)})}],
#              sel=[names in selection order]); all numbers are python ints (times in ticks)
def nid(case, name):
    """integer id of a node name or input name"""
    if name in case["names"]: return case["names"].index(name) + 1
    return 100 + sorted(set(c[2] for c in case["conns"])).index(name)


def gen_system(r, nmax):
    n = r.randint(2, nmax)
    names = [chr(ord("a") + i) for i in range(n)]
    conns = []
    for rcv in names:
        used = set()
        for snd in names:
            if snd == rcv or r.random() > 0.55: continue
            x = r.random()
            if x < 0.35: iname = f"in_{snd}"                                   # shadow input name
            elif x < 0.42:                                                     # shadow name that equals another node's name
                other = [o for o in names if o not in (snd,)]
                iname = r.choice(other)
            else: iname = snd
            if iname in used or any(iname == s for (s, rc, _) in conns if rc == rcv): continue
            if iname != snd and iname in names and any(s == iname for s in names if s != snd and (s, rcv) in [(a, b) for a, b, _ in conns]):
                continue
            used.add(iname); conns.append((snd, rcv, iname))
    # a default-named connection added later could collide with an earlier colliding shadow name: drop such shadows
    keys = {}
    out = []
    for (s, rc, i) in conns:
        if (rc, i) in keys: continue
        keys[(rc, i)] = s; out.append((s, rc, i))
    return names, out


def gen_episode(r, names, conns, kmax, wild):
    ep = {}
    lens = {n: r.choice([0, 1, 2, 3, r.randint(0, kmax), kmax]) for n in names}
    for n in names:
        k = lens[n]
        seq = list(range(k))
        t = r.randint(0, 8); ts = []
        for _ in range(k): ts.append(t); t += r.randint(1, 40)
        te = [a + r.randint(0, 30) for a in ts]
        if wild and k and r.random() < 0.3:      # vertices that do not start at 0 / have gaps / an interior -1 row
            o = r.randint(1, 3); seq = [s + o for s in seq]
            if r.random() < 0.5: seq[r.randrange(k)] = -1
        ins = {}
        for (s, rc, _) in conns:
            if rc != n: continue
            m = r.randint(0, lens[s]) if not wild else r.randint(0, kmax)
            so = list(range(m))
            si, cur = [], 0
            for _j in range(m):
                cur = min(max(k - 1, 0), cur + r.choice([0, 0, 1, 2])); si.append(cur if k else -1)
            nrecv = r.randint(0, m) if r.random() < 0.5 else m     # the tail was never received
            si = [x if j < nrecv else -1 for j, x in enumerate(si)]
            tsent = [r.randint(0, 300) for _ in range(m)]; tsent.sort()
            trecv = [a + r.randint(0, 20) for a in tsent]
            if wild and m and r.random() < 0.3: so[r.randrange(m)] = -1
            ins[s] = dict(seq_out=so, seq_in=si, ts_sent=tsent, ts_recv=trecv, delay=[b - a for a, b in zip(tsent, trecv)])
        ep[n] = dict(seq=seq, ts_start=ts, ts_end=te, ins=ins)
    return ep


def gen_case(r, tier, i):
    names, conns = gen_system(r, 4 if tier == "quick" else 5)
    wild = (i % 5 == 4)
    ne = r.choice([1, 2, 2, 3, 4])
    kmax = r.choice([2, 4, 6])
    eps = [gen_episode(r, names, conns, kmax, wild) for _ in range(ne)]
    if r.random() < 0.15 and ne > 1: eps[1] = json.loads(json.dumps(eps[0]))     # equal lengths: nothing to pad
    k = r.randint(1, len(names))
    sel = r.sample(names, k) if r.random() < 0.7 else list(names)
    return dict(names=names, conns=conns, eps=eps, sel=sel, wild=wild)


CORPUS = [
    # smallest shadow-name case: b listens to a under the input name "in_a"; both selected
    dict(names=["a", "b"], conns=[("a", "b", "in_a")], sel=["a", "b"], wild=False,
         eps=[{"a": dict(seq=[0, 1], ts_start=[0, 16], ts_end=[4, 20], ins={}),
               "b": dict(seq=[0], ts_start=[32], ts_end=[40],
                         ins={"a": dict(seq_out=[0, 1], seq_in=[0, 0], ts_sent=[4, 20], ts_recv=[8, 24], delay=[4, 4])})}]),
    # ragged two-episode stack without shadow names, one node never steps in episode 0, a never-received tail
    dict(names=["a", "b"], conns=[("a", "b", "a")], sel=["b"], wild=False,
         eps=[{"a": dict(seq=[0, 1, 2], ts_start=[0, 16, 32], ts_end=[4, 20, 36], ins={}),
               "b": dict(seq=[], ts_start=[], ts_end=[],
                         ins={"a": dict(seq_out=[0, 1, 2], seq_in=[-1, -1, -1], ts_sent=[4, 20, 36], ts_recv=[5, 21, 37], delay=[1, 1, 1])})},
              {"a": dict(seq=[0], ts_start=[0], ts_end=[4], ins={}),
               "b": dict(seq=[0, 1], ts_start=[8, 72], ts_end=[9, 73],
                         ins={"a": dict(seq_out=[0], seq_in=[0], ts_sent=[4], ts_recv=[6], delay=[2])})}]),
]


# ---------------------------------------------------------------- Coq terms
def zl(xs): return "[" + "; ".join(str(int(x)) for x in xs) + "]"


def coq_case(case):
    eps = []
    for ep in case["eps"]:
        nodes = []
        for n in sorted(case["names"]):
            d = ep[n]
            k = len(d["seq"])
            ins = sorted(d["ins"].items(), key=lambda kv: nid(case, kv[0]))
            insl = "; ".join(f"({nid(case, s)}, Ms {zl(m['seq_out'])} {zl(m['seq_in'])} {zl(m['ts_sent'])} {zl(m['ts_recv'])} {zl(m['delay'])})"
                             for s, m in ins)
            nodes.append(f"({nid(case, n)}, NR (St {zl([0] * k)} {zl(d['seq'])} {zl(d['ts_start'])} {zl(d['ts_end'])} "
                         f"{zl([b - a for a, b in zip(d['ts_start'], d['ts_end'])])}) {zl([nid(case, s) for s, _ in ins])} [{insl}])")
        eps.append("[" + "; ".join(nodes) + "]")
    sel = []
    for n in case["sel"]:
        ins = [(nid(case, i), nid(case, s)) for (s, rc, i) in case["conns"] if rc == n]
        sel.append(f"({nid(case, n)}, [" + "; ".join(f"({a}, {b})" for a, b in ins) + "])")
    return "([" + "; ".join(eps) + "], [" + "; ".join(sel) + "])"


# ---------------------------------------------------------------- model output -> canonical python
def m_graph(v):
    """(vertices, edges) as parsed from encg -> ({name id: [f1, f2, f3]}, {(n1, n2): [f1, f2, f3]})"""
    vs, es = v
    return ({int(n): t for (n, t) in vs}, {(int(e[0]), int(e[1])): e[2] for e in es})


def m_rec(v):
    if v is None: return None
    out = []
    for (n, rest) in v[1]:
        vt, info, ins = rest
        out.append((int(n), vt, sorted(int(x) for x in info), sorted((int(s), m) for (s, m) in ins)))
    return sorted(out)


def replay_calls(calls):
    """networkx semantics of add_node / add_edge (upsert; add_edge creates missing end points without attributes)"""
    nodes, edges = {}, {}
    for c in calls:
        if c[0] == 0:
            nodes[(c[1], c[2])] = (c[3], c[4])
        else:
            u, v = (c[1], c[2]), (c[3], c[4])
            nodes.setdefault(u, None); nodes.setdefault(v, None)
            if c[5]: edges[(u, v)] = c[6]
            else: edges.setdefault((u, v), None)
    return nodes, edges


# ---------------------------------------------------------------- implementation side
class Impl:
    def __init__(self):
        import numpy as onp, jax, distrax
        from rex import base as rb, node as rn, utils as ru
        from rex.constants import Clock
        self.onp, self.jax, self.rb, self.rn, self.ru, self.Clock = onp, jax, rb, rn, ru, Clock

        class N(rn.BaseNode):
            def init_output(self, rng=None, graph_state=None): return rb.Empty()
            def step(self, step_state): return step_state, rb.Empty()
        self.N = N
        self.dd = rb.StaticDist.create(distrax.Normal(loc=0.0, scale=0.0))

    # canonicalisation: ints stay, times become ticks; the pad value -1 / -1.0 becomes -1
    def ci(self, a): return [int(x) for x in self.onp.asarray(a).tolist()]
    def ct1(self, x):
        x = float(x)
        if x == -1.0: return -1
        t = x * TICK
        assert t == int(t), f"time {x!r} off the lattice"
        return int(t)
    def ct(self, a): return [self.ct1(x) for x in self.onp.asarray(a).tolist()]
    def rows(self, a, f):
        a = self.onp.asarray(a)
        return [f(r) for r in a] if a.ndim == 2 else f(a)

    def graph(self, case, g):
        ids = lambda n: nid(case, n)
        V = {ids(n): [self.rows(v.seq, self.ci), self.rows(v.ts_start, self.ct), self.rows(v.ts_end, self.ct)] for n, v in g.vertices.items()}
        E = {(ids(a), ids(b)): [self.rows(e.seq_out, self.ci), self.rows(e.seq_in, self.ci), self.rows(e.ts_recv, self.ct)]
             for (a, b), e in g.edges.items()}
        return V, E

    def record(self, case, rec):
        out = []
        for n, r in rec.nodes.items():
            vt = [self.ci(r.steps.seq), self.ct(r.steps.ts_start), self.ct(r.steps.ts_end)]
            ins = sorted((nid(case, s), [self.ci(i.messages.seq_out), self.ci(i.messages.seq_in), self.ct(i.messages.ts_sent),
                                          self.ct(i.messages.ts_recv), self.ct(i.messages.delay)]) for s, i in r.inputs.items())
            out.append((nid(case, n), vt, sorted(nid(case, s) for s in r.info.inputs), ins))
        return sorted(out)

    def nxg(self, case, G):
        nodes, edges = {}, {}
        name = {}
        for v, d in G.nodes(data=True):
            if "seq" in d:
                key = (nid(case, d["kind"]), int(d["seq"])); nodes[key] = (self.ct1(d["ts_start"]), self.ct1(d["ts_end"]))
                assert v == f"{d['kind']}_{int(d['seq'])}" and self.ct1(d["ts"]) == nodes[key][0]
            else:
                k, s = v.rsplit("_", 1); key = (nid(case, k), int(s)); nodes[key] = None
            name[v] = key
        for u, v, d in G.edges(data=True):
            edges[(name[u], name[v])] = self.ct1(d["ts_recv"]) if "ts_recv" in d else None
        return nodes, edges

    def build(self, case):
        onp, rb = self.onp, self.rb
        nodes = {n: self.N(n, rate=float(2 ** (i % 4)), delay=0.0, delay_dist=self.dd, order=i + 1) for i, n in enumerate(case["names"])}
        for (s, rc, iname) in case["conns"]:
            nodes[rc].connect(nodes[s], delay=0.0, delay_dist=self.dd, window=1, name=(iname if iname != s else None),
                              skip=case["names"].index(s) > case["names"].index(rc))     # back edges skipped: no algebraic loop
        infos = {n: v.info for n, v in nodes.items()}
        f = lambda xs: onp.asarray(xs, dtype=float) / TICK
        eps = []
        for e, ep in enumerate(case["eps"]):
            nr = {}
            for n in case["names"]:
                d = ep[n]; k = len(d["seq"])
                steps = rb.StepRecord(eps=onp.full(k, e, dtype=int), seq=onp.asarray(d["seq"], dtype=int), ts_start=f(d["ts_start"]),
                                      ts_end=f(d["ts_end"]), delay=f(d["ts_end"]) - f(d["ts_start"]),
                                      rng=onp.arange(2 * k, dtype=onp.uint32).reshape(k, 2) + 7, inputs=None, state=None,
                                      output=(onp.arange(3 * k, dtype=float).reshape(k, 3) + 100 * e))
                inputs = {}
                for s, m in d["ins"].items():
                    inputs[s] = rb.InputRecord(info=infos[n].inputs[s], messages=rb.MessageRecord(
                        seq_out=onp.asarray(m["seq_out"], dtype=int), seq_in=onp.asarray(m["seq_in"], dtype=int),
                        ts_sent=f(m["ts_sent"]), ts_recv=f(m["ts_recv"]), delay=f(m["delay"])))
                nr[n] = rb.NodeRecord(info=infos[n], clock=self.Clock.SIMULATED, real_time_factor=1.0, ts_start=float(e),
                                      params=None, inputs=inputs, steps=steps)
            eps.append(rb.EpisodeRecord(nodes=nr))
        return nodes, eps

    def observe(self, case):
        """everything the API returns for this case, canonicalised; exceptions are recorded per operation"""
        rb, ru, onp = self.rb, self.ru, self.onp
        nodes, eps = self.build(case)
        sel = {n: nodes[n] for n in case["sel"]}
        ex = rb.ExperimentRecord(episodes=eps)
        o = {}

        def op(key, fn):
            try: o[key] = fn()
            except Exception as e:  # noqa
                o[key] = ("RAISED", f"{type(e).__name__}: {str(e)[:160]}")
        gs = [e.to_graph() for e in eps]
        op("to_graph", lambda: [self.graph(case, g) for g in gs])
        bg = ex.to_graph()
        op("stack", lambda: self.graph(case, bg))
        op("stack_direct", lambda: self.graph(case, rb.Graph.stack(gs)))
        op("len", lambda: len(bg))
        op("len_single", lambda: len(gs[0]))
        op("get", lambda: [self.graph(case, bg[i]) for i in range(len(eps))])
        op("nx_get", lambda: [self.nxg(case, ru.to_networkx_graph(bg[i], nodes=nodes)) for i in range(len(eps))])
        op("nx", lambda: [self.nxg(case, ru.to_networkx_graph(g, nodes=nodes)) for g in gs])
        # records: padded stack, its leaves, its items, its graph
        st = ex.stack("padded")
        op("stack_rec_graph", lambda: self.graph(case, st.to_graph()))
        op("stack_rec_items", lambda: [self.graph(case, st[i].to_graph()) for i in range(len(eps))])

        def leaves_ok():
            bad = []
            for n in case["names"]:
                for nm in ("rng", "output", "eps", "delay"):
                    col = [onp.asarray(getattr(e.nodes[n].steps, nm)) for e in eps]
                    big = onp.asarray(getattr(st.nodes[n].steps, nm))
                    mx = max(len(c) for c in col)
                    if big.shape[:2] != (len(eps), mx): bad.append((n, nm, "shape", big.shape)); continue
                    for i, c in enumerate(col):
                        if not (big[i, :len(c)] == c).all(): bad.append((n, nm, i, "prefix altered"))
                        if not (big[i, len(c):] == onp.asarray(-1).astype(big.dtype)).all(): bad.append((n, nm, i, "padding is not -1"))
                if float(onp.asarray(st.nodes[n].ts_start)[len(eps) - 1]) != float(len(eps) - 1): bad.append((n, "ts_start"))
            return bad
        op("stack_rec_leaves", leaves_ok)
        for flag in (True, False):
            op(("gfilter", flag), lambda: [self.graph(case, g.filter(sel, filter_edges=flag)) for g in gs])
            op(("bgfilter", flag), lambda: self.graph(case, bg.filter(sel, filter_edges=flag)))
            op(("rfilter", flag), lambda: [self.record(case, e.filter(sel, filter_connections=flag)) for e in eps])
            op(("xfilter", flag), lambda: [self.record(case, e) for e in ex.filter(sel, filter_connections=flag).episodes])
        # the objects the operations above were called on are unchanged (an episode extracted / a graph filtered from an object does not alter it)
        op("to_graph_after", lambda: [self.graph(case, g) for g in gs])
        op("stack_after", lambda: self.graph(case, bg))
        op("get_after", lambda: [self.graph(case, bg[i]) for i in range(len(eps))])
        op("records_after", lambda: [self.graph(case, e.to_graph()) for e in eps])
        return o


def features(case):
    f = []
    lens = [[len(ep[n]["seq"]) for ep in case["eps"]] for n in case["names"]]
    if any(len(set(l)) > 1 for l in lens): f.append("ragged-vertices")
    el = {}
    for ep in case["eps"]:
        for n in case["names"]:
            for s, m in ep[n]["ins"].items(): el.setdefault((s, n), []).append(len(m["seq_out"]))
    if any(len(set(l)) > 1 for l in el.values()): f.append("ragged-edges")
    if any(0 in l for l in lens): f.append("empty-vertex-array")
    if any(i != s for (s, _, i) in case["conns"]): f.append("shadow-input-name")
    if any(i != s and i in case["names"] for (s, _, i) in case["conns"]): f.append("shadow-name-equals-node-name")
    if any(-1 in m["seq_in"] for ep in case["eps"] for n in case["names"] for m in ep[n]["ins"].values()): f.append("never-received")
    if len(case["sel"]) < len(case["names"]): f.append("proper-subset")
    if any(s in case["sel"] and r in case["sel"] and i != s for (s, r, i) in case["conns"]): f.append("shadow-connection-inside-selection")
    if any((s in case["sel"]) != (r in case["sel"]) for (s, r, _) in case["conns"]): f.append("connection-crossing-selection")
    if case.get("wild"): f.append("malformed-seqs")
    if len(case["eps"]) > 1: f.append("multi-episode")
    return f


def small(case):
    return dict(names=case["names"], conns=case["conns"], sel=case["sel"], eps=case["eps"])


def run(chk, replay=None):
    chk.stage_proofs(kernels=["Records"])
    n = 150 if chk.tier == "quick" else 3000
    r = chk.rnd
    if replay:
        rp = json.load(open(replay)); cases = [rp["case"]["case"]]
        for c in cases: c["conns"] = [tuple(x) for x in c["conns"]]; c.setdefault("wild", False)
    else:
        cases = [json.loads(json.dumps(c)) for c in CORPUS]
        for c in cases: c["conns"] = [tuple(x) for x in c["conns"]]
        cases += [gen_case(r, chk.tier, i) for i in range(n)]
    impl = Impl()
    obs = [impl.observe(c) for c in cases]
    model = lib.coq_eval_sharded("C14", HEADER, "run", [coq_case(c) for c in cases], per=60)
    default_nodes_probe(chk, impl, cases[0])
    hetero_probe(chk, impl, cases, r)
    for case, o, mo in zip(cases, obs, model):
        feats = features(case)
        chk.case(json.dumps(small(case), sort_keys=True), [f for f in feats if f != "multi-episode"] or (["multi-episode"] if "multi-episode" in feats else []),
                 dict(names=case["names"], conns=case["conns"], sel=case["sel"], episodes=len(case["eps"]),
                      lens=[[len(ep[n]["seq"]) for n in case["names"]] for ep in case["eps"]]))
        chk.traces_impl += 1
        compare(chk, case, o, mo, feats)
    chk.extra["rule"] = ("2 hand-written corpus cases, then random systems of 2-5 nodes with random connections (35% made with a shadow "
                         "`name=`, some shadow names equal to another node's name), 1-4 episodes with independently drawn per-node "
                         "lengths 0-6 (ragged), messages with never-received (-1) tails, every 5th case with malformed seqs (offsets, "
                         "interior -1, dangling edges); a random node subset in random order; both filter flags. Non-trivial = ragged, "
                         "empty array, shadow name, never-received message, proper subset, crossing connection or malformed seqs; "
                         "distinct by the whole case")
    chk.trusted += ["networkx DiGraph.add_node/add_edge upsert semantics (used to replay the model's call list into a graph)",
                    "records are built directly from rex.base dataclasses (StepRecord, MessageRecord, InputRecord, NodeRecord) with real "
                    "BaseNode/Connection objects; they are not produced by running an asynchronous graph"]
    chk.notes += ["times are multiples of 1/64 s (exact in binary64): compared exactly as integer ticks; the float pad value -1.0 is "
                  "canonicalised to -1", "dict orders are canonicalised by sorting keys; jax.tree_util sorts dict keys as well"]


def hetero_probe(chk, impl, cases, r):
    """experiments whose episodes did not all record the same connections (a sensor unplugged in one episode): ExperimentRecord.filter is the
    per-episode EpisodeRecord.filter - no episode loses (or gains) a recorded connection because of what ANOTHER episode recorded"""
    done = 0
    for case in cases:
        if done >= (40 if chk.tier == "quick" else 400): break
        if len(case["eps"]) < 2 or case.get("wild"): continue
        cand = [(s, rc) for (s, rc, _) in case["conns"] if s in case["sel"] and rc in case["sel"] and all(s in ep[rc]["ins"] for ep in case["eps"])]
        if not cand: continue
        s_, rc_ = r.choice(cand)
        c2 = json.loads(json.dumps(case)); c2["conns"] = [tuple(x) for x in c2["conns"]]
        j = r.choice([0, 0, len(c2["eps"]) - 1, r.randrange(len(c2["eps"]))])
        del c2["eps"][j][rc_]["ins"][s_]
        try:
            nodes, eps = impl.build(c2)
        except Exception:  # noqa
            chk.feat("hetero:build-unsupported"); continue
        sel = {n: nodes[n] for n in c2["sel"]}
        ex = impl.rb.ExperimentRecord(episodes=eps)
        done += 1
        for flag in (True, False):
            try:
                per = [impl.record(c2, e.filter(sel, filter_connections=flag)) for e in eps]
            except Exception:  # noqa
                chk.feat("hetero:episode-filter-raises"); continue
            chk.traces_impl += 1; chk.feat("hetero:experiment-filter-compared")
            try:
                xs = [impl.record(c2, e) for e in ex.filter(sel, filter_connections=flag).episodes]
            except Exception as e:  # noqa
                chk.violation("filter-raises", f"ExperimentRecord.filter(nodes, filter_connections={flag}) raises {type(e).__name__}: {str(e)[:120]} although every "
                              f"episode filters on its own (episode {j} did not record the connection {s_}->{rc_})", dict(case=small(c2), dropped=[j, s_, rc_])); continue
            if xs != per:
                i = next(i for i in range(len(per)) if i >= len(xs) or xs[i] != per[i])
                chk.violation(f"filter-differs:xfilter:filter_connections={flag}", f"ExperimentRecord.filter(nodes, filter_connections={flag}): episode {i} is not "
                              f"EpisodeRecord.filter of that episode (episode {j} of the experiment did not record the connection {s_}->{rc_}; the other episodes did): "
                              f"ExperimentRecord.filter keeps inputs {[(nd[0], [x[0] for x in nd[3]]) for nd in (xs[i] if i < len(xs) else [])]}, EpisodeRecord.filter keeps "
                              f"{[(nd[0], [x[0] for x in nd[3]]) for nd in per[i]]} (node id, sender ids)", dict(case=small(c2), dropped=[j, s_, rc_]))
    chk.case("hetero-experiments", ["episodes-with-different-recorded-connections"] if done else [], None)


def default_nodes_probe(chk, impl, case):
    """to_networkx_graph's `nodes` argument defaults to None: the call must work without it"""
    nodes, eps = impl.build(case)
    g = eps[0].to_graph()
    chk.case("to_networkx_graph(nodes=None)", ["nodes-default-none"], None)
    try:
        got = impl.nxg(case, impl.ru.to_networkx_graph(g))
        want = impl.nxg(case, impl.ru.to_networkx_graph(g, nodes=nodes))
        if got != want:
            chk.violation("to-networkx-default-nodes-differs", "to_networkx_graph(graph) differs from to_networkx_graph(graph, nodes)",
                          dict(case=small(case)))
    except Exception as e:  # noqa
        chk.violation("to-networkx-default-nodes-raises",
                      f"rex.utils.to_networkx_graph(graph) with the default nodes=None raises {type(e).__name__}: {str(e)[:100]} "
                      "(the order/colour dicts are keyed by enumerate() pairs instead of names): no networkx graph is produced",
                      dict(case=small(case), call="rex.utils.to_networkx_graph(eps[0].to_graph())"))


def compare(chk, case, o, mo, feats):
    c = dict(case=small(case))
    m_gs, m_bg, m_len, m_get, m_nx, m_fs, m_fp = mo
    m_gs = [m_graph(g) for g in m_gs]

    def raised(key, sig):
        v = o[key]
        if isinstance(v, tuple) and len(v) == 2 and v[0] == "RAISED":
            chk.violation(sig + "-raises", f"{key}: rex raised {v[1]} on a well-formed input", c); return True
        return False
    # --- operations do not alter the object they are called on
    for before, after, what in (("to_graph", "to_graph_after", "the per-episode graphs"), ("stack", "stack_after", "the stacked graph"),
                                ("get", "get_after", "the episodes extracted from the stack"), ("to_graph", "records_after", "the episode records")):
        if isinstance(o.get(before), tuple) or isinstance(o.get(after), tuple) and o[after][0] == "RAISED" and not isinstance(o.get(before), tuple):
            if not isinstance(o.get(before), tuple):
                chk.violation("operation-alters-its-object", f"after filtering / indexing / converting, {what} can no longer be read: {o[after][1]}", c)
            continue
        if o.get(before) != o.get(after):
            chk.violation("operation-alters-its-object", f"after filtering / indexing / converting, {what} differ from what they were before "
                          f"(nodes selected by the filters: {case['sel']})", dict(c, before=str(o[before])[:400], after=str(o[after])[:400]))
            break
    # --- to_graph
    if not raised("to_graph", "to-graph") and o["to_graph"] != m_gs:
        chk.violation("to-graph-differs", "EpisodeRecord.to_graph differs from the model (vertices = steps' seq/ts_start/ts_end, edges "
                      "keyed (sender, receiver) = messages' seq_out/seq_in/ts_recv)", dict(c, impl=str(o["to_graph"])[:600], model=str(m_gs)[:600]))
        return
    # --- stack
    m_bgc = m_graph(m_bg[1]) if m_bg is not None else None
    for key in ("stack", "stack_direct", "stack_rec_graph"):
        if raised(key, "stack"): return
        if o[key] != m_bgc:
            chk.violation("stack-differs" if key != "stack_rec_graph" else "padded-record-stack-graph-differs",
                          f"{key}: stacked graph differs from the model (each array followed by -1 padding up to the longest episode)",
                          dict(c, impl=str(o[key])[:600], model=str(m_bgc)[:600])); return
    if not raised("stack_rec_leaves", "padded-record-stack") and o["stack_rec_leaves"]:
        chk.violation("padded-record-stack-leaf-differs", f"ExperimentRecord.stack('padded'): a leaf is not original-then(-1)-padding: {o['stack_rec_leaves'][:3]}", c)
    if o["len"] != (m_len[1] if m_len is not None else None):
        chk.violation("len-differs", f"len(stacked graph) = {o['len']} but {len(case['eps'])} episodes were stacked", c)
    if o["len_single"] != 1:
        chk.violation("len-differs", f"len(unbatched graph) = {o['len_single']}", c)
    # --- getitem and networkx
    m_items = [(m_graph((x[1][0], x[1][1])), replay_calls(x[1][2])) for x in m_get]   # ((vs, es), calls) prints as a flat triple
    m_nxs = [replay_calls(x) for x in m_nx]
    if not raised("get", "getitem") and o["get"] != [x[0] for x in m_items]:
        chk.violation("getitem-differs", "Graph.__getitem__ of a stack differs from the model (the original episode followed by padding)",
                      dict(c, impl=str(o["get"])[:600])); return
    if not raised("stack_rec_items", "record-getitem") and o["stack_rec_items"] != [x[0] for x in m_items]:
        chk.violation("record-getitem-differs", "ExperimentRecord.stack()[i].to_graph() differs from ExperimentRecord.to_graph()[i]", c)
    if not raised("nx", "to-networkx") and o["nx"] != m_nxs:
        chk.violation("to-networkx-differs", "to_networkx_graph differs from the model: " + first_diff(o["nx"], m_nxs), c); return
    if not raised("nx_get", "to-networkx") and o["nx_get"] != o["nx"]:
        chk.violation("padding-changes-networkx-graph", "the networkx graph of an episode taken out of a stack differs from that of the "
                      "original episode: " + first_diff(o["nx_get"], o["nx"]), c); return
    if [x[1] for x in m_items] != m_nxs:
        chk.broke("model:nx_get_stack", "model disagrees with its own theorem")      # cannot happen (proved); guards the harness
    # --- filters
    for fi, flag in enumerate((True, False)):
        ms, mp = m_fs[fi], m_fp[fi]
        for key, pick, conv in ((("gfilter", flag), 0, lambda v: [m_graph(g) for g in v]),
                                (("bgfilter", flag), 1, lambda v: m_graph(v[1]) if v is not None else None),
                                (("rfilter", flag), 2, lambda v: [m_rec(x) for x in v]),
                                (("xfilter", flag), 2, lambda v: [m_rec(x) for x in v])):
            api = {"gfilter": "Graph.filter", "bgfilter": "Graph.filter (stacked)", "rfilter": "EpisodeRecord.filter",
                   "xfilter": "ExperimentRecord.filter"}[key[0]]
            argn = "filter_edges" if "g" == key[0][0] or key[0] == "bgfilter" else "filter_connections"
            if raised(key, "filter"): continue
            want, pinned = conv(ms[pick]), conv(mp[pick])
            if o[key] == want: continue
            if flag and o[key] == pinned and "shadow-input-name" in feats:
                lost = [f"{s}->{rc} (input name {i!r})" for (s, rc, i) in case["conns"] if i != s and s in case["sel"] and rc in case["sel"]]
                chk.violation("filter-drops-shadow-named-connection",
                              f"{api}(nodes, {argn}=True) looks connections up by input name instead of the sender's name: "
                              f"connection(s) {', '.join(lost)} dropped although both ends are selected",
                              dict(c, api=api, impl=str(o[key])[:500], expected=str(want)[:500]))
            else:
                chk.violation(f"filter-differs:{key[0]}:{argn}={flag}", f"{api}(nodes, {argn}={flag}) does not return exactly the selected "
                              "nodes and the connections among them", dict(c, api=api, impl=str(o[key])[:500], expected=str(want)[:500]))


def first_diff(a, b):
    for i, (x, y) in enumerate(zip(a, b)):
        if x != y:
            for part, nm in ((0, "vertices"), (1, "edges")):
                ks = sorted(set(x[part]) | set(y[part]), key=str)
                for k in ks:
                    if x[part].get(k, "absent") != y[part].get(k, "absent"):
                        return f"episode {i} {nm} {k}: {x[part].get(k, 'absent')} vs {y[part].get(k, 'absent')}"
    return "lengths differ"
