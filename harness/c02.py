"""C02 — simulated-clock episodes are deterministic across thread schedules and speed.  Theorem: RexDet.sim_episode_deterministic
(confluence of the actor net).  Tie: the real AsyncGraph is run K times per graph under different drivings, real-time
factors and hook-perturbed schedules (random pauses at every submit / task start; starvation of one wrapper); all records
must agree on their common prefix with each other and with the extracted model under random actor orders."""
from . import lib, asynclib as al, c03


def prefix_diff(a, b, what):
    m = min(len(a), len(b))
    for k in range(m):
        if a[k] != b[k]: return f"{what}[{k}]: {a[k]} vs {b[k]}"
    return None


def compare_runs(cfg, e1, e2):
    """first difference between two implementation episodes on their common prefix, or None"""
    for n in sorted(cfg["nodes"]):
        d = prefix_diff(al.impl_rows(e1, n), al.impl_rows(e2, n), f"node {n} step")
        if d: return d
    for c, cc in cfg["conns"].items():
        l1 = e1["record"]["rows"][cc["in"]]["seq"]; l2 = e2["record"]["rows"][cc["in"]]["seq"]
        last = min(l1[-1] if l1 else -1, l2[-1] if l2 else -1)
        m1 = [m for m in e1["record"]["msgs"].get(c, []) if m[1] <= last]; m2 = [m for m in e2["record"]["msgs"].get(c, []) if m[1] <= last]
        if m1 != m2:
            return prefix_diff(m1, m2, f"connection {c} message") or f"connection {c}: {len(m1)} vs {len(m2)} messages consumed up to step {last}"
    return None


def tie_cfg(rnd):
    """triple ties: on a non-blocking connection two consecutive messages arrive at the same instant (equal send+delay, or the second one held
    back by FIFO), and that instant is exactly a step time of the receiver - which step takes the second message must not depend on when
    its arrival stamp reaches the connection's thread"""
    P0 = rnd.choice([4, 8]); D = P0 + rnd.choice([0, 1, 2, 3])
    second = D - P0 if (rnd.random() < 0.6 or D - P0 - 1 < 0) else D - P0 - 1        # equal arrival, or earlier and clamped by FIFO
    nodes = {"n0": dict(nid=0, period=P0, exp=1, delays=[1], advance=False, sched="FREQ"),
             "n1": dict(nid=1, period=2 * P0, exp=rnd.choice([0, 1]), delays=rnd.choice([[1], [0, 1], [2]]), advance=False, sched=rnd.choice(["FREQ", "PHASE"]))}
    conns = {"n0>n1": dict(out="n0", **{"in": "n1"}, blocking=False, skip=False, jitter=rnd.choice(["LATEST", "LATEST", "BUFFER"]), window=rnd.choice([1, 2, 3]),
                           exp=D, delays=[D, second])}
    sup = "n1"
    if rnd.random() < 0.5:
        nodes["n2"] = dict(nid=2, period=rnd.choice([P0, 2 * P0]), exp=1, delays=[1], advance=False, sched="FREQ")
        conns["n1>n2"] = dict(out="n1", **{"in": "n2"}, blocking=rnd.random() < 0.5, skip=False, jitter="LATEST", window=rnd.choice([1, 2]), exp=1, delays=[1, 0])
        sup = rnd.choice(["n1", "n2"])
    return dict(nodes=nodes, conns=conns, sup=sup, steps=rnd.choice([6, 8]))


def run(chk, replay=None):
    chk.stage_proofs(kernels=["Async"])
    quick = chk.tier == "quick"
    n = 5 if quick else 36
    r = chk.rnd
    variants = {"default": dict(drive="reset_step"), "run": dict(drive="run"),
                "rtf20": dict(drive="reset_step", rtf=20),
                "pert1": dict(drive="reset_step", perturb=dict(kind="random", seed=r.getrandbits(16), p=0.6, max_ms=3)),
                "pert2": dict(drive="run", perturb=dict(kind="random", seed=r.getrandbits(16), p=0.3, max_ms=6))}
    if not quick:
        variants["rtf50"] = dict(drive="run", rtf=50)
        for i in range(3): variants[f"pert{3 + i}"] = dict(drive="reset_step", perturb=dict(kind="random", seed=r.getrandbits(16), p=0.5, max_ms=4))
    # starvation variants are per graph (owner names); added below through a generator wrapper
    variants["two_episodes"] = dict(drive="reset_step", episodes=2)      # same graph object, same initial state, second episode
    # the user thread is descheduled inside AsyncGraph.start() between starting one node and the next (hook point start:node)
    variants["start_pause"] = dict(drive="reset_step", perturb=dict(kind="points", points=["start:node"], ms=60))
    # the same graph object re-configured (set_delay) between two episodes: the second episode is the function of the graph AS IT IS NOW (declared delays ->
    # phases -> schedule) and of the initial state - not of what was evaluated or run before
    variants["set_delay_between"] = dict(drive="reset_step", episodes=2, between="auto")
    # delay tables whose starting offset is a function of the key the runtime hands to DelayDistribution.reset() (like rex's own stochastic distributions):
    # the delay streams are then a function of the initial graph state's rng only - two episodes on one graph object and a run()-driven fresh graph must agree
    variants["seeded_two"] = dict(drive="reset_step", episodes=2, cfg_over=dict(seeded_delays=True))
    variants["seeded_run"] = dict(drive="run", cfg_over=dict(seeded_delays=True))
    starve_owners = ["n0", "n1", "n0>n1", "n1>n0"] if not quick else ["n0", "n0>n1"]
    for o in starve_owners: variants[f"starve:{o}"] = dict(drive="reset_step", perturb=dict(kind="starve", owner=o, ms=3))
    count = [0]
    def gen(rnd, max_nodes=4):
        count[0] += 1
        if count[0] % 3 == 2: return tie_cfg(rnd)
        if count[0] % 3 == 1 and count[0] > 1: return c03.chain_cfg(rnd)
        cfg = al.gen_cfg(rnd, max_nodes=max_nodes, steps=rnd.choice([6, 8]))
        for nd in cfg["nodes"].values(): nd["period"] = max(nd["period"], 4)     # bounds the number of free-running steps per episode
        return cfg
    graphs = al.async_suite(chk, n, variants, max_nodes=4, model_seeds=(1, 2, 3), per_job_timeout=120, nproc=12, gen=gen, retries=1)
    for G in graphs:
        cfg = G["cfg"]
        if G["skipped"]: chk.feat("skipped:" + G["skipped"].split(":")[0]); continue
        eps = {}
        for vn, rr in G["runs"].items():
            if "error" in rr and al.unsupported_hang(chk, cfg, rr): continue
            if vn == "set_delay_between" and "error" not in rr:
                c03.second_episode(chk, G, rr, "C04"); continue
            if vn.startswith("seeded_"):
                if "error" in rr: chk.feat("seeded-delays:run-error"); continue
                continue
            if "error" in rr:
                chk.case((repr(cfg), vn), ["impl-error"], None)
                chk.violation(f"async-run-fails:{rr['error'].split(':')[0].split(' ')[0]}", f"threaded run failed ({vn}): {rr['error'][:300]}", dict(cfg=cfg, variant=vn))
                continue
            eps[vn] = al.canon_neg(rr["episodes"][0]); chk.traces_impl += 1
        chk.case(repr(cfg), al.features(cfg) + [f"K={len(eps)}"], dict(cfg=cfg, variants=sorted(eps)) if len(chk.samples) < 2 else None)
        # a later episode of the same graph object from the same initial state records the same as the first one
        if "two_episodes" in G["runs"] and "error" not in G["runs"]["two_episodes"]:
            e2 = G["runs"]["two_episodes"]["episodes"]
            if len(e2) > 1 and "error" not in e2[1]["record"] and "error" not in e2[0]["record"]:
                d = compare_runs(cfg, al.canon_neg(e2[0]), al.canon_neg(e2[1]))
                if d: chk.violation("episode-depends-on-previous-episode", f"second episode on the same graph from the same initial state differs from the first: {d}", dict(cfg=cfg))
        sd = {vn: G["runs"][vn]["episodes"] for vn in ("seeded_two", "seeded_run") if vn in G["runs"] and "error" not in G["runs"][vn]}
        sd = {vn: [al.canon_neg(e) for e in es] for vn, es in sd.items() if all("error" not in e["record"] for e in es)}
        if "seeded_two" in sd and len(sd["seeded_two"]) > 1:
            chk.traces_impl += 2; chk.feat("seeded-delays:two-episodes-compared")
            d = compare_runs(cfg, sd["seeded_two"][0], sd["seeded_two"][1])
            if d: chk.violation("episode-depends-on-previous-episode", f"rng-seeded delay streams: the second episode on the same graph object from the same initial graph state "
                                f"differs from the first: {d}", dict(cfg=cfg, variant=variants["seeded_two"]))
            if "seeded_run" in sd:
                chk.traces_impl += 1
                d = compare_runs(cfg, sd["seeded_two"][0], sd["seeded_run"][0])
                if d: chk.violation("schedule-dependent-record", f"rng-seeded delay streams: a reset()/step() episode and a run() episode of a fresh graph from the same initial "
                                    f"graph state differ: {d}", dict(cfg=cfg, variants=dict(seeded_two=variants["seeded_two"], seeded_run=variants["seeded_run"])))
        names = sorted(eps)
        if not names: continue
        base = names[0]
        for vn in names[1:]:
            d = compare_runs(cfg, eps[base], eps[vn])
            if d:
                chk.violation("schedule-dependent-record", f"runs '{base}' and '{vn}' of the same graph and initial state differ: {d}",
                              dict(cfg=cfg, variants={base: variants[base], vn: variants[vn]}))
        # supervisor observations (reset()/step() return values) across reset_step-driven runs
        obsruns = [vn for vn in names if variants[vn]["drive"] == "reset_step"]
        for vn in obsruns[1:]:
            d = prefix_diff(eps[obsruns[0]]["obs"], eps[vn]["obs"], "supervisor observation")
            if d: chk.violation("schedule-dependent-observation", f"runs '{obsruns[0]}' and '{vn}': {d}", dict(cfg=cfg))
        # observation k of reset()/step() = what the supervisor's k-th step record says
        sup = cfg["sup"]
        for vn in obsruns[:1]:
            rows = al.impl_rows(eps[vn], sup)
            for k, o in enumerate(eps[vn]["obs"]):
                if k < len(rows) and (o["seq"], o["ts"], o["state"], o["wins"] or {}) != (rows[k][0], rows[k][1], rows[k][3], rows[k][5] or {}):
                    chk.violation("observation-differs-from-record", f"observation {k}: {o} vs recorded {rows[k]}", dict(cfg=cfg)); break
        # with the model under three random actor orders
        for vn in names[:2]:
            for m in G.get("models", []):
                d = al.compare_episode(cfg, eps[vn], m)
                if d: chk.broke("correspondence:M1-vs-AsyncGraph", f"{vn}: {d} | cfg={cfg}"); break
    chk.extra["rule"] = ("each random lattice graph is executed under: reset()/step() and run() driving, real-time factors (fast, 20x, 50x), "
                         "seeded random pauses of 0-6 ms at every submit/task start (REX_VERIF hook), starvation of single node / connection "
                         "wrappers; all records are compared pairwise on their common prefix and with the extracted model under three random "
                         "actor orders; non-trivial = the graph has a boundary feature; distinct by graph")
    chk.notes += ["interleavings inside one handler are not forced (handlers are atomic in the model; single-reader/single-writer deques)",
                  "the other nodes' entries of the GraphState returned by reset/step are a racy snapshot by construction and are excluded, as the property text does"]
