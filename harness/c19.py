"""C19 — RL environment wrappers: correspondence between rex/rl.py and the Gallina model (RlKernels.v, RlEnv.v, executable
instance RlScript.v): a scripted lattice environment under every wrapper stacking that type-checks, Environment.step/reset
on symbolic terms and on a tiny compiled rex Graph, and kernel-level checks of SquashState / NormalizeVec."""
import itertools, json, os
from fractions import Fraction
from . import lib

HEADER = """From Coq Require Import List ZArith QArith Bool.
From Rex Require Import Ops RlKernels RlEnv RlScript.
Import ListNotations.
Open Scope Z_scope.
Definition run := run_case.
"""
P = 251
TWO40 = 2 ** 40
BIG = [25, 1000, 10 ** 6]


def F(x): return Fraction(x)
def q(x):
    x = Fraction(x); return f"({x.numerator} # {x.denominator})%Q"
def ql(xs): return "[" + "; ".join(q(x) for x in xs) + "]"
def bl(xs): return "[" + "; ".join("true" if b else "false" for b in xs) + "]"


# ---------------------------------------------------------------- case generation
def gen_case(r, tier, idx):
    S = r.randint(1, 3); L = r.randint(2, 6)
    rs = [[Fraction(r.randint(-32, 32), 8) for _ in range(L)] for _ in range(S)]
    pt = r.choice([0.0, 0.15, 0.3]); pu = r.choice([0.0, 0.1])
    ts = [[r.random() < pt for _ in range(L)] for _ in range(S)]
    us = [[r.random() < pu for _ in range(L)] for _ in range(S)]
    if r.random() < 0.35: ts[r.randrange(S)][0] = True        # the first step of an episode already ends it: back-to-back ends
    if r.random() < 0.2: us[r.randrange(S)][0] = True
    lo = [Fraction(r.randint(-16, 8), 4) for _ in range(2)]
    hi = [l + Fraction(2) ** r.randint(-1, 3) for l in lo]
    auto = r.choice([None, "af", "af", "an", "an"]); log = r.random() < 0.7
    squash = r.choice([None, "sq", "sq", "ns"]); clip = r.random() < 0.4
    ws = [w for w in [auto, squash, "clip" if clip else None] if w]
    r.shuffle(ws)
    if log:   # LogWrapper must be outside AutoResetWrapper (otherwise lax.cond sees two info structures and rex raises)
        lo_pos = (ws.index(auto) + 1) if auto else 0
        ws.insert(r.randint(lo_pos, len(ws)), "log")
    if idx % 7 == 0: ws = ["af" if idx % 2 else "an", "log", "sq"]          # the stack rex.ppo builds
    B = r.randint(1, 4 if tier == "quick" else 8)
    vws = r.choice([[], [], ["nobs"], ["nrew"], ["nobs", "nrew"], ["nobs", "nrew"], ["nrew", "nobs"]])
    gamma = Fraction(r.choice([0.5, 0.875, 1.0, 0.9900000095367432]))
    if idx % 6 == 4:
        # rewards with a large offset and a small spread, short reward memory: the running variance of the normalised returns is tiny next to the
        # squared mean (a merge by raw second moments cancels catastrophically in float32; the pairwise/Welford merge the property implies does not)
        off = r.choice([256, 512, 1024])
        rs = [[off + Fraction(r.randint(-4, 4), 8) for _ in range(L)] for _ in range(S)]
        gamma = Fraction(0.5); vws = r.choice([["nrew"], ["nobs", "nrew"], ["nrew", "nobs"]])
    T = r.randint(8, 14) if tier == "quick" else r.randint(20, 30)
    squash_on = "sq" in ws
    fd = r.choice([0.0, 0.3, 1.0, 1.0])       # how often the agent asks for an episode end through action[1]
    clip_outside_squash = squash_on and "clip" in ws and ws.index("clip") > ws.index("sq")
    clipping = squash_on or "clip" in ws or "ns" in ws
    acts = []
    for t in range(T):
        row = []
        for b in range(B):
            if clip_outside_squash: a = [F(0), F(0)]       # tanh(clip(x,-1,1)) is exact in float32 only at 0
            elif squash_on:
                def one(p_hi, p_lo):
                    x = r.random()
                    m = F(r.choice(BIG))
                    return m if x < p_hi else (-m if x < p_hi + p_lo else F(0))
                a = [one(0.3, 0.3), one(0.18 * fd, 0.08 * fd)]
            else:
                def one(d, p_hi, p_lo, f):
                    x = r.random()
                    if x < p_hi: return hi[d]
                    if x < p_hi + p_lo: return lo[d]
                    if clipping and x < p_hi + p_lo + 0.12 * f: return F(r.choice([-1, 1]) * r.choice(BIG))
                    if x < p_hi + p_lo + 0.2 * f:            # out of range (unclipped stacks keep it small: exact float32 sums)
                        return (hi[d] + Fraction(r.randint(1, 64), 8)) if r.random() < 0.5 else (lo[d] - Fraction(r.randint(1, 64), 8))
                    n = int((hi[d] - lo[d]) * 8)
                    return lo[d] + Fraction(r.randint(1, n - 1), 8)
                a = [one(0, 0.1, 0.1, 1.0), one(1, 0.12 * fd, 0.06 * fd, fd)]
            row.append(a)
        acts.append(row)
    # gs_full: the scripted environment fills EVERY field of rex's GraphState (step, eps, seq, ts, params, inputs, timings_eps, buffer next to
    # state and rng) with an injective image of its state and moves all of them on every step, as a compiled graph with adaptive node params,
    # per-node clocks and ring buffers does; 1 case in 4 keeps the bare rng+state graph state (the other fields at rex's defaults, None included)
    return dict(rs=rs, ts=ts, us=us, lo=lo, hi=hi, ws=ws, vws=vws, B=B, gamma=gamma, acts=acts,
                unbatched=(B == 1 and not vws and r.random() < 0.5), jit=(r.random() < 0.25), seed=r.randint(0, 2 ** 30),
                gs_full=(idx % 4 != 3))


def case_feats(c, dones):
    f = ["w:" + w for w in c["ws"]] + ["v:" + v for v in c["vws"]]
    if c["B"] > 1: f.append("batch>1")
    if c["unbatched"]: f.append("unbatched")
    if c["jit"]: f.append("jit")
    if c.get("gs_full"): f.append("all-graph-state-fields-evolve")
    flat = [d for row in dones for d in row]
    if any(flat): f.append("episode-end")
    for b in range(c["B"]):
        col = [row[b] for row in dones]
        if any(col[i] and col[i + 1] for i in range(len(col) - 1)): f.append("back-to-back-ends"); break
    if any(abs(x) >= 25 for row in c["acts"] for a in row for x in a): f.append("extreme-action")
    return f


# ---------------------------------------------------------------- implementation side
_cls = {}
def senv_class():
    if "c" in _cls: return _cls["c"]
    import jax, jax.numpy as jnp
    from flax.core import FrozenDict
    from rex import base, rl

    class SEnv:
        """scripted lattice environment with the API of rl.Environment (a user environment as far as the wrappers know)"""
        def __init__(self, rs, ts, us, lo, hi, full=False):
            self.full = full
            self.rs = jnp.array([[float(x) for x in row] for row in rs], jnp.float32)
            self.ts, self.us = jnp.array(ts), jnp.array(us)
            self.lo = jnp.array([float(x) for x in lo], jnp.float32); self.hi = jnp.array([float(x) for x in hi], jnp.float32)
            self.params = {}
            self.max_steps = 10 ** 6
        def draw(self, rng):
            sid = jax.random.randint(jax.random.fold_in(rng, 1), (), 0, self.rs.shape[0])
            acc = jax.random.randint(jax.random.fold_in(rng, 2), (), 0, P)
            return sid, acc
        def action_space(self, gs): return rl.Box(self.lo, self.hi)
        def observation_space(self, gs): return rl.Box(jnp.zeros(4), jnp.ones(4))
        def _obs(self, acc, t, a): return jnp.concatenate([jnp.stack([acc, t]).astype(jnp.float32), a.astype(jnp.float32)])
        def reset(self, rng=None):
            sid, acc = self.draw(rng)
            t = jnp.int32(0)
            gs = base.GraphState(rng=FrozenDict({"agent": rng}), state=FrozenDict({"agent": dict(t=t, acc=acc, sid=sid)}), **self.fields(t, acc, sid))
            return gs, self._obs(acc, t, jnp.zeros(2)), {"t": t}
        def fields(self, t, acc, sid):
            """the other fields of the graph state: each an injective image of (t, acc, sid) (see gs_fields_expected), so each of them changes
            on every step of an episode and differs between the state an episode reached and any initial state"""
            if not self.full: return {}
            code = ((t * P + acc) * 4 + sid).astype(jnp.int32)
            cf = code.astype(jnp.float32)                                   # < 2^24: exact
            return dict(step=code, eps=code + 1, seq=FrozenDict({"agent": code + 2}), ts=FrozenDict({"agent": cf / 64}),
                        params=FrozenDict({"agent": dict(gain=cf / 2, w=jnp.stack([t, acc, sid]).astype(jnp.int32))}),
                        inputs=FrozenDict({"agent": FrozenDict({"world": dict(seq=jnp.stack([code + 3]), data=jnp.stack([cf, -cf]))})}),
                        timings_eps=dict(run=code + 4),
                        buffer=FrozenDict({"agent": jnp.stack([jnp.stack([cf, cf + 1]), jnp.stack([cf + 2, cf + 3])])}))
        def step(self, gs, action):
            s = gs.state["agent"]; t, acc, sid = s["t"], s["acc"], s["sid"]
            L = self.rs.shape[1]
            c = jnp.round(action * 64).astype(jnp.int32)
            acc2 = (7 * acc + 3 * t + 5 * c[0] + 11 * c[1]) % P
            r = self.rs[sid, t % L] + action[0]
            te = jnp.logical_or(self.ts[sid, t % L], action[1] >= self.hi[1])
            tr = jnp.logical_or(self.us[sid, t % L], action[1] <= self.lo[1])
            t2 = t + 1
            rng2 = jax.random.split(gs.rng["agent"])[0]
            gs2 = gs.replace(rng=FrozenDict({"agent": rng2}), state=FrozenDict({"agent": dict(t=t2, acc=acc2, sid=sid)}), **self.fields(t2, acc2, sid))
            return gs2, self._obs(acc2, t2, action), r, te, tr, {"t": t2}
    _cls["c"] = SEnv
    return SEnv


GS_FIELDS = ("step", "eps", "seq", "ts", "params", "inputs", "timings_eps", "buffer")


def gs_fields_expected(core):
    """what SEnv.fields puts into the graph state for the environment state core = (t, acc, sid), flattened to exact numbers"""
    t, acc, sid = core
    code = (t * P + acc) * 4 + sid
    return dict(step=[code], eps=[code + 1], seq=[code + 2], ts=[Fraction(code, 64)], params=[Fraction(code, 2), t, acc, sid],
                inputs=[code, -code, code + 3], timings_eps=[code + 4], buffer=[code, code + 1, code + 2, code + 3])


def gs_fields_decode(vals):
    """the (t, acc, sid) a field's content is the image of, for messages (every field starts with code, code + k or code / k)"""
    out = {}
    for f, v in vals.items():
        k = {"step": v[0], "eps": v[0] - 1, "seq": v[0] - 2, "ts": v[0] * 64, "params": v[0] * 2, "inputs": v[0], "timings_eps": v[0] - 4,
             "buffer": v[0]}[f]
        out[f] = (int(k) // (4 * P), (int(k) // 4) % P, int(k) % 4) if Fraction(k).denominator == 1 and k >= 0 else None
    return out


def build_stack(c):
    from rex import rl
    env = senv_class()(c["rs"], c["ts"], c["us"], c["lo"], c["hi"], full=bool(c.get("gs_full")))
    base_env = env
    mk = {"af": lambda e: rl.AutoResetWrapper(e, fixed_init=True), "an": lambda e: rl.AutoResetWrapper(e, fixed_init=False),
          "log": rl.LogWrapper, "sq": lambda e: rl.SquashActionWrapper(e, squash=True),
          "ns": lambda e: rl.SquashActionWrapper(e, squash=False), "clip": rl.ClipActionWrapper}
    for w in c["ws"]: env = mk[w](env)
    if not c["unbatched"]: env = rl.VecEnvWrapper(env)
    for v in c["vws"]:
        env = rl.NormalizeVecObservationWrapper(env) if v == "nobs" else rl.NormalizeVecReward(env, gamma=float(c["gamma"]))
    return base_env, env


def FQ(x):
    """float -> Fraction; non-finite values become huge sentinels so that they simply compare unequal"""
    x = float(x)
    if x != x: return Fraction(10 ** 40)
    if x in (float("inf"), float("-inf")): return Fraction(10 ** 39) * (1 if x > 0 else -1)
    return Fraction(x)


def fr(x):
    import numpy as onp
    return FQ(onp.asarray(x))


def impl_run(c):
    """run the real wrappers; returns (trace, table, keymap). Everything observable of each return is canonicalised."""
    import contextlib, io
    import jax, jax.numpy as jnp, numpy as onp
    base_env, env = build_stack(c)
    B = c["B"]; Bp = 1
    while Bp < B: Bp *= 2
    master = jax.random.PRNGKey(c["seed"])
    keys = jax.random.split(master, B)
    ub = c["unbatched"]
    step = env.step
    if c["jit"]: step = jax.jit(env.step)
    vsplit = jax.vmap(jax.random.split)

    def canon(gs, obs, rew, te, tr, info):
        bat = (lambda x: onp.asarray(x)[None]) if ub else (lambda x: onp.asarray(x))
        st = gs.state["agent"]
        tt, acc, sid = bat(st["t"]), bat(st["acc"]), bat(st["sid"])
        kd = bat(jax.random.key_data(gs.rng["agent"]) if hasattr(jax.random, "key_data") else gs.rng["agent"])
        aux = gs.aux
        logs = None
        if "log" in aux:
            ls = aux["log"]
            cols = [bat(getattr(ls, n)) for n in ("episode_returns", "episode_lengths", "returned_episode_returns", "returned_episode_lengths", "timestep")]
            logs = [[FQ((col[b])) for col in cols] for b in range(B)]
        envs = [dict(core=(int(tt[b]), int(acc[b]), int(sid[b])), key=tuple(int(x) for x in kd[b]), log=None if logs is None else logs[b])
                for b in range(B)]
        if c.get("gs_full"):
            # every other field of the returned graph state, per environment, as exact numbers (leaves in jax's flattening order: sorted keys)
            for f in GS_FIELDS:
                leaves = [bat(x) for x in jax.tree_util.tree_leaves(getattr(gs, f))]
                for b in range(B):
                    envs[b].setdefault("fields", {})[f] = [FQ(v) for x in leaves for v in onp.asarray(x[b]).reshape(-1)]
        nobs = None
        if aux.get("norm_obs", None) is not None:
            ns = aux["norm_obs"]
            m, v = onp.asarray(ns.mean), onp.asarray(ns.var)
            nobs = [[FQ((m[j])), FQ((v[j])), FQ((onp.asarray(ns.count)))] for j in range(m.shape[0])]
        nrew = None
        if aux.get("norm_reward", None) is not None:
            ns = aux["norm_reward"]
            nrew = ([fr(ns.mean), fr(ns.var), fr(ns.count)], [FQ((x)) for x in onp.asarray(ns.return_val)])
        ob = bat(obs); out = dict(envs=envs, nobs=nobs, nrew=nrew, obs=[[FQ((x)) for x in ob[b]] for b in range(B)])
        it = bat(info["t"])
        infos = []
        for b in range(B):
            il = None
            if "returned_episode_returns" in info:
                il = ([FQ((bat(info[k])[b])) for k in ("returned_episode_returns", "returned_episode_lengths", "timestep")],
                      bool(bat(info["returned_episode"])[b]))
            infos.append((int(it[b]), il))
        out["info"] = infos
        if rew is not None:
            out["rew"] = [FQ((x)) for x in bat(rew)]
            out["te"] = [bool(x) for x in bat(te)]; out["tr"] = [bool(x) for x in bat(tr)]
        return out

    with contextlib.redirect_stdout(io.StringIO()):
        gs, obs, info = env.reset(keys[0] if ub else keys)
        trace = [canon(gs, obs, None, None, None, info)]
        # rng bookkeeping: positions in the split tree along the implementation's own path
        kidx = [Bp + b for b in range(B)]
        kkey = onp.array(keys)
        keymap = {kidx[b]: tuple(int(x) for x in kkey[b]) for b in range(B)}
        need = {kidx[b]: kkey[b].copy() for b in range(B)}          # positions whose reset draw the model needs
        fresh = "an" in c["ws"]
        for row in c["acts"]:
            a = jnp.array([[float(x) for x in aa] for aa in row], jnp.float32)
            gs, obs, rew, te, tr, info = step(gs, a[0] if ub else a)
            rec = canon(gs, obs, rew, te, tr, info)
            trace.append(rec)
            k2 = onp.asarray(vsplit(jnp.asarray(kkey))[:, 0])
            if fresh:
                sp = onp.asarray(vsplit(jnp.asarray(k2)))
                for b in range(B):
                    k = kidx[b]
                    keymap[4 * k] = tuple(int(x) for x in sp[b, 0]); keymap[4 * k + 1] = tuple(int(x) for x in sp[b, 1])
                    need[4 * k + 1] = sp[b, 1]
                    done = rec["te"][b] or rec["tr"][b]
                    kidx[b] = 4 * k + 1 if done else 4 * k
                    kkey[b] = sp[b, 1] if done else sp[b, 0]
            else:
                for b in range(B):
                    keymap[2 * kidx[b]] = tuple(int(x) for x in k2[b]); kidx[b] = 2 * kidx[b]; kkey[b] = k2[b]
        ks = sorted(need)
        sid, acc = jax.vmap(base_env.draw)(jnp.asarray(onp.stack([need[k] for k in ks])))
        table = {k: (int(s), int(a)) for k, s, a in zip(ks, onp.asarray(sid), onp.asarray(acc))}
    return trace, table, keymap, Bp


# ---------------------------------------------------------------- Coq term of a case
def coq_case(c, table, Bp):
    sc = ("{| sc_r := [" + "; ".join(ql(r) for r in c["rs"]) + "]; sc_te := [" + "; ".join(bl(r) for r in c["ts"]) +
          "]; sc_tr := [" + "; ".join(bl(r) for r in c["us"]) + "]; sc_lo := " + ql(c["lo"]) + "; sc_hi := " + ql(c["hi"]) +
          "; sc_tbl := [" + "; ".join(f"({k}, ({s}, {a}))" for k, (s, a) in sorted(table.items())) + "] |}")
    wn = {"af": "WAutoFixed", "an": "WAutoFresh", "log": "WLog", "sq": "WSquash true", "ns": "WSquash false", "clip": "WClip"}
    ws = "[" + "; ".join(wn[w] for w in c["ws"]) + "]"
    vws = "[" + "; ".join("VNormObs (10 # 1)%Q" if v == "nobs" else f"VNormRew {q(c['gamma'])} (10 # 1)%Q" for v in c["vws"]) + "]"
    keys = "[" + "; ".join(str(Bp + b) for b in range(c["B"])) + "]"
    acts = "[" + ";\n ".join("[" + "; ".join(ql(a) for a in row) + "]" for row in c["acts"]) + "]"
    return f"({sc}, {ws}, {vws}, {keys}, {acts})"


# ---------------------------------------------------------------- comparison
def opt(v):
    if v is None: return None
    assert v[0] == "Some", v
    return v[1]


def cmp_exact(name, impl, z):
    """impl: Fraction of a float; z = floor(model * 2^40)"""
    got = (impl * TWO40)
    if got.denominator == 1 and got.numerator == z: return None
    return f"{name}: implementation {float(impl)!r} vs model {z / TWO40!r} (exact class)"


def cmp_tol(name, impl, z, tol):
    m = Fraction(z, TWO40)
    if abs(impl - m) <= tol * (1 + abs(m)): return None
    return f"{name}: implementation {float(impl)!r} vs model {float(m)!r} (tolerance {tol})"


def compare(c, trace, model, keymap):
    """first difference between the implementation's trace and the model's, or None.  Returns (signature, text)"""
    # Coq prints left-nested pairs flat: (envs, nobs, nrew, obs, infos, steps); a step is (envs, nobs, nrew, obs, rew, te, tr, infos)
    g0, no0, nr0, ob0, i0, steps = model
    nobs_on, nrew_on = "nobs" in c["vws"], "nrew" in c["vws"]
    mrecs = [(g0, no0, nr0, ob0, None, None, None, i0)] + [tuple(s) for s in steps]
    for n, (rec, mr) in enumerate(zip(trace, mrecs)):
        genvs, gnobs, gnrew, ob, rw, te, tr, inf = mr
        where = "reset" if n == 0 else f"step {n}"
        if n > 0:
            for b in range(c["B"]):
                if rec["te"][b] != te[b] or rec["tr"][b] != tr[b]:
                    return "flags", f"{where} env {b}: terminated/truncated {rec['te'][b]}/{rec['tr'][b]} vs model {te[b]}/{tr[b]}"
        for b in range(c["B"]):
            ct, cacc, csid, kidx, lg = genvs[b]
            core = (ct, cacc, csid)
            e = rec["envs"][b]
            if tuple(core) != e["core"]:
                return "state", f"{where} env {b}: environment state (t, acc, script) {e['core']} vs model {tuple(core)}"
            if keymap.get(kidx) != e["key"]:
                return "rng", f"{where} env {b}: rng key {e['key']} is not the key at split-tree position {kidx} the model carries"
            lg = opt(lg)
            if (lg is None) != (e["log"] is None): return "log-state", f"{where}: log state presence differs"
            if lg is not None:
                for nm, x, z in zip(("episode_returns", "episode_lengths", "returned_episode_returns", "returned_episode_lengths", "timestep"), e["log"], lg):
                    d = cmp_exact(f"{where} env {b} log.{nm}", x, z)
                    if d: return "log-state", d
            for j, (x, z) in enumerate(zip(rec["obs"][b], ob[b])):
                d = cmp_tol(f"{where} env {b} obs[{j}]", x, z, Fraction(2, 1000)) if nobs_on else cmp_exact(f"{where} env {b} obs[{j}]", x, z)
                if d: return ("norm-obs" if nobs_on else "obs"), d
            if len(rec["obs"][b]) != len(ob[b]): return "obs", f"{where}: observation size differs"
            it, il = inf[b]
            if it != rec["info"][b][0]: return "info", f"{where} env {b}: info['t'] {rec['info'][b][0]} vs model {it}"
            il = opt(il); iil = rec["info"][b][1]
            if (il is None) != (iil is None): return "log-info", f"{where} env {b}: log entries in info present={iil is not None} vs model {il is not None}"
            if il is not None:
                for nm, x, z in zip(("returned_episode_returns", "returned_episode_lengths", "timestep"), iil[0], il[0]):
                    d = cmp_exact(f"{where} env {b} info.{nm}", x, z)
                    if d: return "log-info", d
                if iil[1] != il[1]: return "log-info", f"{where} env {b}: info.returned_episode {iil[1]} vs model {il[1]}"
            if n > 0:
                d = cmp_tol(f"{where} env {b} reward", rec["rew"][b], rw[b], Fraction(2, 1000)) if nrew_on else cmp_exact(f"{where} env {b} reward", rec["rew"][b], rw[b])
                if d: return ("norm-reward" if nrew_on else "reward"), d
        gnobs = opt(gnobs)
        if (gnobs is None) != (rec["nobs"] is None): return "norm-obs-state", f"{where}: norm_obs presence differs"
        if gnobs is not None:
            for j, (mi, mm) in enumerate(zip(rec["nobs"], gnobs)):
                for nm, x, z in zip(("mean", "var", "count"), mi, mm):
                    d = cmp_tol(f"{where} norm_obs.{nm}[{j}]", x, z, Fraction(1, 10 ** 4))
                    if d: return "norm-obs-state", d
        gnrew = opt(gnrew)
        if (gnrew is None) != (rec["nrew"] is None): return "norm-reward-state", f"{where}: norm_reward presence differs"
        if gnrew is not None:
            for nm, x, z in zip(("mean", "var", "count"), rec["nrew"][0], gnrew[0]):
                d = cmp_tol(f"{where} norm_reward.{nm}", x, z, Fraction(1, 10 ** 4))
                if d: return "norm-reward-state", d
            for b, (x, z) in enumerate(zip(rec["nrew"][1], gnrew[1])):
                d = cmp_tol(f"{where} norm_reward.return_val[{b}]", x, z, Fraction(1, 10 ** 4))
                if d: return "norm-reward-state", d
    return None


def law_checks(c, trace):
    """the property's clauses evaluated directly on the implementation's trace (independent of the model)"""
    ws = c["ws"]
    out = []
    clipping = any(w in ws for w in ("sq", "ns", "clip"))
    for b in range(c["B"]):
        ret = Fraction(0); ln = 0
        init = trace[0]
        if "fields" in init["envs"][b]:
            e = init["envs"][b]; want = gs_fields_expected(e["core"])
            bad = [f for f in GS_FIELDS if e["fields"][f] != want[f]]
            if bad: out.append(("graph-state-fields-mixed[" + ",".join(bad) + "]", f"reset env {b}: the returned graph state has state (t, acc, script) = "
                                f"{e['core']} but field(s) {bad} are not the ones the wrapped environment's reset returns with it"))
        for n in range(1, len(trace)):
            rec = trace[n]; prev = trace[n - 1]
            done = rec["te"][b] or rec["tr"][b]
            if clipping and "nobs" not in c["vws"] and not (done and ("af" in ws or "an" in ws)):
                for d in range(2):
                    if not (c["lo"][d] <= rec["obs"][b][2 + d] <= c["hi"][d]):
                        out.append(("action-out-of-bounds", f"step {n} env {b}: the wrapped environment received action[{d}] = "
                                    f"{float(rec['obs'][b][2 + d])} outside [{float(c['lo'][d])}, {float(c['hi'][d])}]"))
            if "af" in ws and done and "nobs" not in c["vws"]:
                if rec["envs"][b]["core"] != init["envs"][b]["core"] or rec["obs"][b] != init["obs"][b]:
                    out.append(("autoreset-not-initial", f"step {n} env {b}: episode ended but the returned state/observation is not the stored initial one"))
            if "fields" in rec["envs"][b]:
                # the graph state is ONE value: whatever state a wrapper returns (the stored initial one at an episode end, a freshly drawn
                # one, or the wrapped environment's own) it returns all of its fields, not state from one and params/seq/buffer/... from another
                e = rec["envs"][b]; want = gs_fields_expected(e["core"])
                bad = [f for f in GS_FIELDS if e["fields"][f] != want[f]]
                if bad:
                    dec = gs_fields_decode({f: e["fields"][f] for f in bad})
                    pdec = prev["envs"][b]["core"]
                    if "af" in ws and done:
                        i0 = init["envs"][b]
                        out.append(("autoreset-not-initial[" + ",".join(bad) + "]",
                                    f"step {n} env {b}: the episode ended and the returned graph state has the stored initial state "
                                    f"(t, acc, script) = {e['core']}, but its field(s) {bad} are not the stored initial ones: "
                                    + "; ".join(f"{f} = {[float(v) for v in e['fields'][f]]} (the value belonging to environment state {dec[f]}, "
                                                f"which the finished episode reached from {pdec}) instead of the stored {[float(v) for v in i0['fields'][f]]}" for f in bad[:3])))
                    else:
                        out.append(("graph-state-fields-mixed[" + ",".join(bad) + "]",
                                    f"step {n} env {b}: the returned graph state has state (t, acc, script) = {e['core']} but field(s) {bad} hold "
                                    f"the values belonging to other environment states: " + "; ".join(f"{f} -> {dec[f]}" for f in bad[:3])))
            if "log" in ws and "nrew" not in c["vws"]:
                ret += rec["rew"][b]; ln += 1
                il = rec["info"][b][1]
                if done:
                    if il[0][0] != ret or il[0][1] != ln:
                        out.append(("log-wrong-at-episode-end", f"step {n} env {b}: reported return/length {float(il[0][0])}/{float(il[0][1])} but the "
                                    f"rewards since the previous end sum to {float(ret)} over {ln} steps"))
                    ret = Fraction(0); ln = 0
    return out


# ---------------------------------------------------------------- kernel-level checks
def squash_kernel_checks(chk, n):
    """SquashState.scale / unsquash on arbitrary points: Coq-Interval certified enclosures of the R model; in-bounds and
    inverse laws on the implementation, including extreme inputs"""
    import jax.numpy as jnp, numpy as onp
    from rex import rl
    r = chk.rnd
    goals = []; rows = []
    for i in range(n):
        lo = Fraction(r.randint(-40, 40), 8); hi = lo + Fraction(r.randint(1, 64), 8)
        x = Fraction(r.randint(-48, 48), 8) if i % 4 else Fraction(r.choice([-1, 1]) * r.choice([9, 25, 1000, 10 ** 6]))
        st = rl.SquashState(low=jnp.array([float(lo)], jnp.float32), high=jnp.array([float(hi)], jnp.float32), squash=True)
        y = FQ((onp.asarray(st.unsquash(jnp.array([float(x)], jnp.float32)))[0]))
        ulp = Fraction(float(onp.spacing(onp.float32(max(abs(float(lo)), abs(float(hi)))))))
        chk.case(("unsquash", lo, hi, x), ["squash-kernel"] + (["extreme-action"] if abs(x) >= 9 else []), None); chk.traces_impl += 1
        if not (lo - 2 * ulp <= y <= hi + 2 * ulp):
            chk.violation("squash-out-of-bounds", f"SquashState.unsquash({float(x)}) = {float(y)} outside [{float(lo)}, {float(hi)}]",
                          dict(lo=str(lo), hi=str(hi), x=str(x), y=float(y)))
        tol = Fraction(1, 10 ** 5) * (hi - lo) + 2 * ulp
        a, b = y - tol, y + tol
        goals.append(f"Goal ({a.numerator} / {a.denominator} <= unsquash_exp ({lo.numerator} / {lo.denominator}) ({hi.numerator} / {hi.denominator}) "
                     f"({x.numerator} / {x.denominator}) <= {b.numerator} / {b.denominator})%R. Proof. unfold unsquash_exp. interval with (i_prec 80). Qed.")
        rows.append((lo, hi, x, y))
        if abs(x) <= 4:    # inverse inside the box (float32 arctanh loses accuracy towards the faces)
            back = FQ((onp.asarray(st.scale(st.unsquash(jnp.array([float(x)], jnp.float32))))[0]))
            if abs(back - x) > Fraction(1, 100) * (1 + abs(x)):
                chk.violation("scale-unsquash-not-inverse", f"scale(unsquash({float(x)})) = {float(back)}", dict(lo=str(lo), hi=str(hi), x=str(x)))
            yy = lo + (hi - lo) * Fraction(r.randint(1, 15), 16)
            z = FQ((onp.asarray(st.scale(jnp.array([float(yy)], jnp.float32)))[0]))
            back2 = FQ((onp.asarray(st.unsquash(jnp.array([float(z)], jnp.float32)))[0]))
            if abs(back2 - yy) > Fraction(1, 10 ** 4) * (1 + abs(yy)):
                chk.violation("unsquash-scale-not-inverse", f"unsquash(scale({float(yy)})) = {float(back2)}", dict(lo=str(lo), hi=str(hi), y=str(yy)))
            ta, tb = z - Fraction(1, 10 ** 4) * (1 + abs(z)), z + Fraction(1, 10 ** 4) * (1 + abs(z))
            goals.append(f"Goal ({ta.numerator} / {ta.denominator} <= scale_ln ({lo.numerator} / {lo.denominator}) ({hi.numerator} / {hi.denominator}) "
                         f"({yy.numerator} / {yy.denominator}) <= {tb.numerator} / {tb.denominator})%R. Proof. unfold scale_ln. interval with (i_prec 80). Qed.")
        # squash=False: unsquash clips, scale is the identity
        st2 = rl.SquashState(low=st.low, high=st.high, squash=False)
        yc = FQ((onp.asarray(st2.unsquash(jnp.array([float(x)], jnp.float32)))[0]))
        if yc != min(max(x, lo), hi) or FQ((onp.asarray(st2.scale(jnp.array([float(x)], jnp.float32)))[0])) != Fraction(float(onp.float32(float(x)))):
            chk.violation("noscale-clip-wrong", f"SquashState(squash=False): unsquash({float(x)}) = {float(yc)}", dict(lo=str(lo), hi=str(hi), x=str(x)))
    # float32, arbitrary (non-dyadic) bounds, saturating raw actions: the result must still be inside the closed box
    m = 8 * n
    los = onp.array([r.uniform(-3, 3) for _ in range(m)], onp.float32)
    his = onp.array([float(l) + r.uniform(0.01, 4) for l in los], onp.float32)     # rounded once: high - low is not exact
    xs = onp.array([r.choice([-1, 1]) * r.choice([9.5, 25.0, 1000.0, 1e6]) for _ in range(m)], onp.float32)
    st = rl.SquashState(low=jnp.asarray(los), high=jnp.asarray(his), squash=True)
    ys = onp.asarray(st.unsquash(jnp.asarray(xs)))
    for lo_, hi_, x_, y_ in zip(los, his, xs, ys):
        chk.case(("unsquash-f32", float(lo_), float(hi_), float(x_)), ["squash-kernel", "extreme-action", "non-dyadic-bounds"], None); chk.traces_impl += 1
        if not (lo_ <= y_ <= hi_):
            inside = bool(rl.Box(jnp.array([lo_]), jnp.array([hi_])).contains(jnp.array([y_])))
            chk.violation("squash-float32-saturated-action-outside-bounds",
                          f"SquashState(low={float(lo_)!r}, high={float(hi_)!r}, squash=True).unsquash({float(x_)!r}) = {float(y_)!r} is outside "
                          f"[low, high] (Box.contains -> {inside}): tanh saturates to +-1 in float32 and (high - low) + low rounds past the bound",
                          dict(low=float(lo_), high=float(hi_), x=float(x_), y=float(y_)))
    d = os.path.join(lib.WORK, "cases"); os.makedirs(d, exist_ok=True)
    open(os.path.join(d, "C19_squash.v"), "w").write(
        "From Coq Require Import Reals.\nFrom Interval Require Import Tactic.\nFrom Rex Require Import RlLaws.\n" + "\n".join(goals) + "\n")
    rc, o, e, _ = lib.sh(f"timeout 900 coqc -Q {lib.COQ} Rex C19_squash.v 2>&1", cwd=d)
    if rc != 0:
        chk.violation("squash-enclosure", "SquashState.unsquash/scale outside the Coq-Interval certified enclosure of the model's formula",
                      dict(log=(o + e)[-1500:], rows=[tuple(str(v) for v in row) for row in rows[:8]]))


# ---------------------------------------------------------------- action dtype x bounds dtype (mixed precision, 64-bit)
MP_EPS = {"float16": 2.0 ** -10, "bfloat16": 2.0 ** -7, "float32": 2.0 ** -23, "float64": 2.0 ** -52}      # spacing of the dtype at 1
MP_PATHS = ("wrapper", "wrapper-jit", "vec-jit", "clip", "clip-vec-jit")


def mp_gen_spec(r, adt, bdt, squash, path):
    """one point of the configuration space 'dtype of the action handed to the wrapper' x 'dtype of the bounds the environment declares':
    arbitrary decimal bounds (not representable in any binary dtype; 1 in 5 dyadic), raw actions that saturate tanh, come close to it,
    sit on / just outside / inside the bounds"""
    d = r.randint(1, 3)
    narrow_b = bdt in ("float16", "bfloat16")
    if r.random() < 0.2:
        low = [r.randint(-24, 16) / 8 for _ in range(d)]; high = [l + r.randint(2, 32) / 8 for l in low]
    else:
        low = [round(r.uniform(-3, 3), 3) for _ in range(d)]
        # reduced-precision bounds: keep the box well away from collapsing to a point when rounded (spacing of bfloat16 at 4 is 1/32)
        high = [round(l + r.uniform(0.25 if narrow_b else 0.01, 4), 3) for l in low]
    def one(i):
        k = r.random()
        if k < 0.3: return r.choice([-1, 1]) * r.choice([9.0, 9.5, 20.0, 25.0, 1000.0, 1e4, 1e6, float("inf")])      # saturates tanh / far out of range
        if k < 0.45: return r.choice([-1, 1]) * r.uniform(3, 9)                                                      # tanh within a few ulp of +-1
        if k < 0.6: return r.choice([low[i], high[i]])                                                               # on a face
        if k < 0.75: return r.choice([high[i] + r.choice([1e-6, 1e-3, 0.1, 1.0]), low[i] - r.choice([1e-6, 1e-3, 0.1, 1.0])])   # just outside
        if k < 0.9: return r.uniform(low[i], high[i])
        return r.uniform(-3, 3)
    xs = [[one(i) for i in range(d)] for _ in range(10)]
    xs.append([r.choice([-1, 1]) * 20.0 for _ in range(d)]); xs.append([20.0] * d); xs.append([-20.0] * d)
    return dict(low=low, high=high, bdt=bdt, adt=adt, squash=squash, path=path, xs=xs, np_bounds=(bdt == "float64" and r.random() < 0.5),
                inv=([round(r.uniform(0.2, 0.8), 4) for _ in range(5)] if (path == "kernel" and squash) else []))


def mp_judge(chk, spec, res, x64):
    """the property's clauses on what the wrapped environment received (all numbers are float64 images of the real arrays: exact)"""
    adt, bdt, sq, path = spec["adt"], spec["bdt"], spec["squash"], spec["path"]
    conf = f"action={adt},bounds={bdt}" + (",x64" if x64 else "")
    clipw = path.startswith("clip")
    what_w = {"kernel": f"SquashState(squash={sq}).unsquash", "wrapper": f"SquashActionWrapper(squash={sq}).step", "wrapper-jit": f"jit(SquashActionWrapper(squash={sq}).step)",
              "vec-jit": f"jit(VecEnvWrapper(SquashActionWrapper(squash={sq})).step)", "clip": "ClipActionWrapper.step",
              "clip-vec-jit": "jit(VecEnvWrapper(ClipActionWrapper).step)"}[path]
    case = dict(family="mixed-dtype", x64=x64, spec=spec)
    feats = ["mixed-dtype", "action:" + adt, "bounds:" + bdt, "path:" + path] + (["x64"] if x64 else []) + \
            (["action-narrower-than-bounds"] if MP_EPS[adt] > MP_EPS[bdt] else []) + (["np-bounds"] if spec.get("np_bounds") else [])
    chk.case(("mixed-dtype", json.dumps(spec, sort_keys=True), x64), feats, dict(family="mixed-dtype", action_dtype=adt, bounds_dtype=bdt, squash=sq, path=path,
                                                                                   low=spec["low"], high=spec["high"], x64=x64))
    if "error" in res:
        chk.violation(f"mixed-precision-raises:{'clip' if clipw else 'squash=' + str(sq)}:{conf}",
                      f"rex raised in {what_w} with {adt} actions and {bdt} bounds: {res['error']}", case)
        return
    lo, hi = res["low"], res["high"]
    for x, y in zip(res["xs_cast"], res["recv"]):
        chk.traces_impl += 1
        bad = [i for i in range(len(lo)) if not (lo[i] <= y[i] <= hi[i])]          # NaN fails both comparisons
        if bad:
            i = bad[0]
            chk.violation(f"{'clipped' if clipw else 'squashed'}-action-outside-bounds-mixed-precision:{'clip' if clipw else 'squash=' + str(sq)}:{conf}",
                          f"{what_w} with a {adt} action and {bdt} bounds: raw action {x!r} -> the wrapped environment received {y!r} "
                          f"({res['recv_dtype']}), component {i} = {y[i]!r} is outside [low, high] = [{lo[i]!r}, {hi[i]!r}] "
                          f"(by {max(y[i] - hi[i], lo[i] - y[i])!r}); the property says squashed/clipped actions always land inside the bounds",
                          dict(case, raw_action=x, received=y, received_dtype=res["recv_dtype"], low=lo, high=hi))
            return
    # inverse law inside the box: y (bounds dtype) -> scale -> cast to the action dtype (the policy's output) -> unsquash ~ y.
    # (y = low + f (high - low), f in [0.2, 0.8], as rounded in the bounds dtype; the comparison is against that rounded y.)
    # Error budget: u = 2 (y - low) / (high - low) - 1 in [-0.6, 0.6] carries <= 3 roundings of the bounds dtype, arctanh' <= 1.6 there, the
    # cast of z (|z| <= 0.7) and tanh in the action dtype a few roundings of that dtype (tanh' <= 1), and the affine map back
    # 0.5 (t + 1) (high - low) + low halves the error in t and adds roundings relative to max(|low|, |high|).  With e = eps(action) + eps(bounds)
    # (spacing at 1) that is < 4 e (high - low) + 2 e max(|low|, |high|); allowed: twice that.
    # (floor 2^-48: XLA's float64 arctanh / tanh are only accurate to a few ulp, which dominates when both dtypes are float64)
    e = max(MP_EPS[adt] + MP_EPS[bdt], 2.0 ** -48)
    for yy, zc, back in res.get("inv", []):
        chk.traces_impl += 1
        for i in range(len(lo)):
            tol = 8 * e * (hi[i] - lo[i]) + 4 * e * max(abs(lo[i]), abs(hi[i]))
            if not (abs(back[i] - yy[i]) <= tol):
                chk.violation(f"unsquash-scale-not-inverse-mixed-precision:{conf}",
                              f"SquashState(low={lo[i]!r}, high={hi[i]!r}) with {bdt} bounds: unsquash(scale({yy[i]!r}).astype({adt})) = {back[i]!r} "
                              f"(scaled value {zc[i]!r}), off by {abs(back[i] - yy[i])!r} > {tol!r}", dict(case, y=yy, z=zc, back=back))
                return


def mixed_precision_checks(chk, reps):
    """the action wrappers under every combination of action dtype and bounds dtype: float16 / bfloat16 / float32 in this process, and the
    combinations involving float64 in a child interpreter with JAX_ENABLE_X64=1"""
    import subprocess
    from . import c19_dtypes
    r = chk.rnd
    small = ["float16", "bfloat16", "float32"]
    def specs_for(pairs):
        out = []
        for _ in range(reps):
            for adt, bdt in pairs:
                for sq in (True, False):
                    out.append(mp_gen_spec(r, adt, bdt, sq, "kernel"))
                    out.append(mp_gen_spec(r, adt, bdt, sq, r.choice(MP_PATHS)))
        return out
    specs = specs_for([(a, b) for a in small for b in small])
    for s, res in zip(specs, c19_dtypes.run_specs(specs)):
        mp_judge(chk, s, res, False)
    allp = [(a, b) for a in small + ["float64"] for b in small + ["float64"] if "float64" in (a, b)]
    specs64 = specs_for(allp)
    res64 = mp_child(specs64)
    if isinstance(res64, str):
        chk.broke("mixed-precision-x64-child-did-not-complete", res64); return
    for s, res in zip(specs64, res64):
        mp_judge(chk, s, res, True)


def mp_child(specs):
    """run specs in a child interpreter with 64-bit JAX; returns the list of results or an error text"""
    import subprocess
    script = os.path.join(os.path.dirname(os.path.abspath(__file__)), "c19_dtypes.py")
    try:      # (the timeout only guards against a hung child; it is not a criterion of any check)
        p = subprocess.run([lib.PY, script], input=json.dumps(specs), capture_output=True, text=True, timeout=900,
                           env=dict(lib.CHILD_ENV, JAX_ENABLE_X64="1"))
    except subprocess.TimeoutExpired:
        return "child interpreter (JAX_ENABLE_X64=1) did not finish"
    if p.returncode != 0: return f"child exit {p.returncode}: {p.stderr[-600:]}"
    try:
        out = json.loads(p.stdout[p.stdout.index('{"x64"'):])
    except Exception as ex:  # noqa
        return f"child output unreadable ({type(ex).__name__}): {p.stdout[-300:]} {p.stderr[-300:]}"
    if not out["x64"] or len(out["results"]) != len(specs): return "child did not run with 64-bit JAX / wrong number of results"
    return out["results"]


NV_HEADER = """From Coq Require Import List ZArith QArith Bool.
From Rex Require Import Ops RlKernels RlEnv RlScript.
Import ListNotations.
Definition run (c : Q * Q * Q * bool * bool * Q) : Z * Z :=
  match c with (mean, var, clipv, dc, sm, x) =>
    let y := nv_normalize Qrops qsqrt mean var clipv dc sm x in
    (encq y, encq (nv_denormalize Qrops qsqrt mean var sm (nv_normalize Qrops qsqrt mean var clipv false sm x))) end.
"""


def normalize_kernel_checks(chk, n):
    import jax.numpy as jnp, numpy as onp
    from rex import rl
    r = chk.rnd
    cases = []
    for i in range(n):
        mean = Fraction(r.randint(-64, 64), 8); var = Fraction(r.randint(0, 256), 16) if i % 5 else Fraction(0)
        clipv = Fraction(r.choice([1, 2, 10])); x = Fraction(r.randint(-400, 400), 8)
        cases.append((mean, var, clipv, r.random() < 0.6, r.random() < 0.5, x))
    terms = [f"({q(m)}, {q(v)}, {q(cv)}, {lib.boollit(dc)}, {lib.boollit(sm)}, {q(x)})" for (m, v, cv, dc, sm, x) in cases]
    model = lib.coq_eval_sharded("C19_nv", NV_HEADER, "run", terms, per=200)
    for (m, v, cv, dc, sm, x), (zy, zback) in zip(cases, model):
        ns = rl.NormalizeVec(mean=jnp.float32(float(m)), var=jnp.float32(float(v)), count=1.0, return_val=None, clip=float(cv))
        y = fr(ns.normalize(jnp.float32(float(x)), clip=dc, subtract_mean=sm))
        back = fr(ns.denormalize(ns.normalize(jnp.float32(float(x)), clip=False, subtract_mean=sm), add_mean=sm))
        chk.case(("nv", m, v, cv, dc, sm, x), ["normalize-kernel"] + (["clipped"] if dc and abs(Fraction(zy, TWO40)) >= cv else []), None)
        chk.traces_impl += 1
        case = dict(mean=str(m), var=str(v), clip=str(cv), do_clip=dc, subtract_mean=sm, x=str(x))
        d = cmp_tol("normalize", y, zy, Fraction(1, 10 ** 4))
        if d: chk.violation("normalize-kernel", "NormalizeVec.normalize differs from the model: " + d, case); continue
        d = cmp_tol("denormalize(normalize)", back, zback, Fraction(1, 10 ** 3))
        if d: chk.violation("denormalize-kernel", "NormalizeVec.denormalize(normalize(x)) differs from the model: " + d, case)


# ---------------------------------------------------------------- Environment.step / reset
SYM_HEADER = """From Coq Require Import List ZArith Bool.
From Rex Require Import Ops RlKernels RlEnv RlScript.
Import ListNotations.
Open Scope Z_scope.
Fixpoint flat (t : term) : list Z :=
  match t with T f args => f :: Z.of_nat (length args) :: (fix go (l : list term) := match l with [] => [] | x :: l => flat x ++ go l end) args end.
Definition run (k : Z) : list (list Z) :=
  if k =? 0 then match sym_step (T 100 []) (T 101 []) with (g, o, r, te, tr, i) => [flat g; flat o; flat r; flat te; flat tr; flat i] end
  else match sym_reset (k =? 1) (T 102 []) with (g, o, i) => [flat g; flat o; flat i] end.
"""


def env_symbolic_check(chk):
    """Environment.step / reset executed on symbolic terms: the call structure the real methods produce is compared with
    the model's term by term"""
    import types
    from rex import rl

    class Tm:
        def __init__(self, f, *args): self.f, self.args = f, list(args)
        def flat(self):
            out = [self.f, len(self.args)]
            for a in self.args: out += a.flat()
            return out
        @property
        def step_state(self):
            me = self
            class D:
                def get(self, name, default=None): return Tm(3, me) if name == "sup" else Tm(99, me)
            return D()
    calls = []

    class G:
        supervisor = types.SimpleNamespace(name="sup")
        max_steps = 7
        def init(self, rng, params=None, starting_step=0, starting_eps=0, randomize_eps=False, order=None):
            calls.append(("init", params, starting_eps, randomize_eps, order))
            return Tm(12, rng, Tm(int(starting_step)))
        def reset(self, gs): calls.append(("reset",)); return Tm(13, gs), Tm(14, gs)
        def step(self, gs, ss, out): calls.append(("step",)); return Tm(1, gs, ss, out), Tm(2, gs, ss, out)
    oa = lambda a: Tm(0) if a is None else a

    class E(rl.Environment):
        def get_output(self, gs, a): return Tm(4, gs, a)
        def update_graph_state_pre_step(self, gs, a): return Tm(5, gs, a)
        def update_graph_state_post_step(self, gs, action=None): return Tm(6, gs, oa(action))
        def get_reward(self, gs, a): return Tm(7, gs, a)
        def get_truncated(self, gs): return Tm(8, gs)
        def get_terminated(self, gs): return Tm(9, gs)
        def get_info(self, gs, action=None): return Tm(10, gs, oa(action))
        def get_observation(self, gs): return Tm(11, gs)
    model = lib.coq_eval("C19_sym", SYM_HEADER, "List.map run [0; 1; 2]")
    params, order = {"p": 1}, ("a", "b")
    for k, oi in ((0, None), (1, True), (2, False)):
        env = E(G(), params=params, only_init=bool(oi), starting_eps=3, randomize_eps=True, order=order)
        del calls[:]
        try:
            if k == 0:
                g, o, r, te, tr, i = env.step(Tm(100), Tm(101)); got = [x.flat() for x in (g, o, r, te, tr, i)]
                ok_calls = calls == [("step",)]
            else:
                g, o, i = env.reset(Tm(102)); got = [x.flat() for x in (g, o, i)]
                want = [("init", params, 3, True, order)] + ([] if oi else [("reset",)])
                ok_calls = calls == want
        except Exception as ex:  # noqa
            got = f"{type(ex).__name__}: {ex}"; ok_calls = True
        nm = "Environment.step" if k == 0 else f"Environment.reset(only_init={oi})"
        chk.case(("sym", k), ["env-call-structure"], None); chk.traces_impl += 1
        if got != model[k]:
            chk.violation("env-step-structure" if k == 0 else "env-reset-structure",
                          f"{nm}: the returned values are not the model's terms (graph.step once on the pre-step state with the supervisor's "
                          f"step state and get_output(graph_state, action); reward/flags from the stepped state; info/obs after post-step)",
                          dict(which=nm, implementation=str(got)[:600], model=str(model[k])[:600]))
        elif not ok_calls:
            chk.violation("env-graph-calls", f"{nm}: unexpected sequence of graph calls {calls}", dict(which=nm, calls=str(calls)))


_tg = {}
def tiny_graph():
    """a compiled 2-node rex Graph whose nodes ADAPT THEIR PARAMS in step() (integer-valued float32: exact in every evaluation order) and an
    Environment on it; returns (graph, Arr, E)"""
    if "g" in _tg: return _tg["g"]
    import jax, jax.numpy as jnp
    from distrax import Deterministic
    from flax import struct
    from rex.artificial import generate_graphs
    from rex.graph import Graph
    from rex import rl, base
    from rex.node import BaseNode

    @struct.dataclass
    class Arr(base.Base):
        a: jax.Array

    class W(BaseNode):
        def init_params(self, rng=None, graph_state=None): return Arr(jnp.array([1.0]))
        def init_state(self, rng=None, graph_state=None): return Arr(jnp.array([1.0]))
        def init_output(self, rng=None, graph_state=None): return Arr(jnp.array([0.0, 0.0]))
        def step(self, ss):
            x = 0.0
            for name, inp in ss.inputs.items():
                x = x + jnp.sum(inp.data.a * jnp.arange(1, inp.data.a.size + 1).reshape(inp.data.a.shape))
            new = (3 * ss.state.a + x + ss.params.a) % 64
            return ss.replace(state=Arr(new), params=Arr((5 * ss.params.a + 3) % 16)), Arr(jnp.concatenate([new, jnp.array([x])]))
    agent = W(name="agent", rate=4, delay_dist=Deterministic(1 / 64), advance=False)
    world = W(name="world", rate=8, delay_dist=Deterministic(1 / 64), advance=False)
    world.connect(agent, window=2, blocking=False, delay_dist=Deterministic(1 / 64))
    agent.connect(world, window=1, blocking=False, skip=True, delay_dist=Deterministic(1 / 64))
    nodes = {"agent": agent, "world": world}
    import contextlib, io
    with contextlib.redirect_stderr(io.StringIO()), contextlib.redirect_stdout(io.StringIO()):
        g = Graph(nodes=nodes, supervisor=agent, graphs_raw=generate_graphs(nodes, 3.0, num_episodes=1))

    class E(rl.Environment):
        def observation_space(self, gs): return rl.Box(jnp.zeros(4), 64 * jnp.ones(4))
        def action_space(self, gs): return rl.Box(-4 * jnp.ones(2), 4 * jnp.ones(2))
        def get_output(self, gs, a): return Arr(a)
        def get_observation(self, gs): return gs.step_state["agent"].inputs["world"].data.a.reshape(-1)
        def get_reward(self, gs, a): return gs.state["world"].a[0] + a[0]
        def get_terminated(self, gs): return gs.seq["agent"] >= 5
        def get_truncated(self, gs): return gs.state["world"].a[0] > 40
        def get_info(self, gs, action=None): return {"s": gs.seq["world"]}
    _tg["g"] = (g, Arr, E)
    return _tg["g"]


def env_graph_check(chk, steps):
    """a tiny compiled rex Graph: Environment.step(gs, a) must equal graph.step(gs, supervisor step state, get_output(gs, a))
    and the supervisor's slot of the output buffer must hold the action"""
    import jax, jax.numpy as jnp, numpy as onp
    g, Arr, E = tiny_graph()
    r = chk.rnd
    eq = lambda x, y: bool(jax.tree_util.tree_all(jax.tree_util.tree_map(lambda u, v: bool(jnp.all(jnp.asarray(u) == jnp.asarray(v))), x, y)))
    for oi in (False, True):
        env = E(g, only_init=oi)
        gs, o, i = env.reset(jax.random.PRNGKey(r.randint(0, 1000)))
        for k in range(steps):
            a = jnp.array([r.randint(-32, 32) / 8, r.randint(-32, 32) / 8], jnp.float32)
            case = dict(only_init=oi, step=k, action=[float(x) for x in a])
            try: out = env.step(gs, a)
            except Exception as ex:  # noqa
                chk.violation("env-step-raises", f"Environment.step raised on a compiled 2-node graph: {type(ex).__name__}: {str(ex)[:200]}", case); break
            m, _ = g.step(gs, gs.step_state["agent"], Arr(a))
            want = (m, env.get_observation(m), env.get_reward(m, a), env.get_terminated(m), env.get_truncated(m), env.get_info(m, a))
            chk.case(("graph", oi, k, tuple(float(x) for x in a)), ["env-real-graph"], None); chk.traces_impl += 1
            case = dict(only_init=oi, step=k, action=[float(x) for x in a])
            same = all(eq(x, y) for x, y in zip(out, want))
            if not same:
                chk.violation("env-step-not-graph-step", "Environment.step differs from graph.step(gs, supervisor step state, get_output(gs, action))", case); break
            slot = (int(gs.seq["agent"])) % out[0].buffer["agent"].a.shape[0]
            if not bool(jnp.all(out[0].buffer["agent"].a[slot] == a)):
                chk.violation("env-output-not-action", "the supervisor's output buffer does not hold the action after Environment.step", case); break
            gs = out[0]


def env_graph_autoreset_check(chk, nconf, steps):
    """AutoResetWrapper (stored / fresh initial state; single or vmapped + jitted; with or without LogWrapper) around an Environment on a compiled
    rex Graph whose graph state really evolves in every field during an episode: nodes that adapt their params in step(), an
    update_graph_state_pre_step hook that edits params, per-node seq/ts, input windows, output ring buffers.  The property's clause is checked
    on the returned values themselves: the step that ends an episode returns the stored initial graph state (every field except the rng
    stream and the wrappers' aux) with the stored observation and info while reward and flags are the wrapped environment's; every other step
    returns exactly what the wrapped environment returns.  (All node initialisers of this graph are deterministic, so a freshly drawn
    initial state equals the stored one in every field but rng.)"""
    import contextlib, io
    import jax, jax.numpy as jnp, numpy as onp
    from rex import rl
    g, Arr, E = tiny_graph()
    r = chk.rnd

    def np_leaves(x):
        l, t = jax.tree_util.tree_flatten(x)
        return [onp.asarray(v) for v in l], t
    def same(x, y):
        lx, tx = np_leaves(x); ly, ty = np_leaves(y)
        return tx == ty and all(u.shape == v.shape and onp.array_equal(u, v) for u, v in zip(lx, ly))
    FIELDS = ("step", "eps", "seq", "ts", "params", "state", "inputs", "timings_eps", "buffer")
    def diff_fields(x, y, b=None):
        sel = (lambda v: v) if b is None else (lambda v: jax.tree_util.tree_map(lambda u: onp.asarray(u)[b], v))
        return [f for f in FIELDS if not same(sel(getattr(x, f)), sel(getattr(y, f)))]
    def show(gs, f, b):
        return [onp.asarray(v if b is None else onp.asarray(v)[b]).reshape(-1).tolist() for v in jax.tree_util.tree_leaves(getattr(gs, f))][:4]

    confs = [(fixed, vec, log) for fixed in (True, False) for vec in (False, True) for log in (False, True)]
    r.shuffle(confs)
    confs = sorted(confs[:nconf], key=lambda x: not x[0])
    if not any(c[0] for c in confs): confs[0] = (True,) + confs[0][1:]
    for fixed, vec, log in confs:
        klen = r.randint(2, 4); hook = r.random() < 0.7

        class EH(E):
            def get_terminated(self, gs): return gs.seq["agent"] >= klen
            def update_graph_state_pre_step(self, gs, a):          # an environment-level edit of params before the graph is stepped
                if not hook: return gs
                return gs.replace(params=gs.params.copy({"agent": Arr((gs.params["agent"].a + 2) % 16)}))
        env = EH(g)
        wrapped = rl.AutoResetWrapper(env, fixed_init=fixed)
        if log: wrapped = rl.LogWrapper(wrapped)
        plain = env
        B = r.randint(2, 3) if vec else None
        if vec: wrapped = rl.VecEnvWrapper(wrapped); plain = rl.VecEnvWrapper(env)
        wstep, pstep = (jax.jit(wrapped.step), jax.jit(plain.step)) if vec else (wrapped.step, plain.step)
        key = jax.random.PRNGKey(r.randint(0, 10 ** 6))
        desc = dict(graph="agent(4 Hz) <-> world(8 Hz), both adapt params in step()", fixed_init=fixed, vmapped_batch=B, jit=vec, log_wrapper=log,
                    pre_step_hook_edits_params=hook, episode_len=klen)
        stack = ("af" if fixed else "an") + ("+log" if log else "") + ("+vec" if vec else "")
        try:
            with contextlib.redirect_stdout(io.StringIO()):
                gs, obs0, info0 = wrapped.reset(jax.random.split(key, B) if vec else key)
                stored = gs
                acts = []
                for n in range(1, steps + 1):
                    a = jnp.array([[r.randint(-32, 32) / 8, r.randint(-32, 32) / 8] for _ in range(B or 1)], jnp.float32)
                    if not vec: a = a[0]
                    acts.append(onp.asarray(a).tolist())
                    ow = wstep(gs, a); op = pstep(gs, a)
                    case = dict(desc, step=n, actions=acts)
                    chk.case(("graph-autoreset", stack, hook, klen, n, str(acts[-1])), ["env-real-graph", "autoreset-on-graph", "params-evolve"]
                             + (["batch>1", "jit"] if vec else []), case if n == 1 else None)
                    chk.traces_impl += 1
                    if not (same(ow[2], op[2]) and same(ow[3], op[3]) and same(ow[4], op[4])):
                        chk.violation("graph-autoreset-reward-flags:" + stack, f"step {n}: reward/terminated/truncated of the auto-reset stack "
                                      f"{[onp.asarray(x).tolist() for x in ow[2:5]]} are not the wrapped environment's "
                                      f"{[onp.asarray(x).tolist() for x in op[2:5]]}", case); break
                    done = onp.logical_or(onp.asarray(op[3]), onp.asarray(op[4])).reshape(-1)
                    bad = None
                    for b in range(B or 1):
                        bb = b if vec else None
                        pick = (lambda v: jax.tree_util.tree_map(lambda u: onp.asarray(u)[b], v)) if vec else (lambda v: v)
                        if done[b]:
                            chk.feat("graph-autoreset-episode-end")
                            d = diff_fields(ow[0], stored, bb)
                            if d:
                                f = d[0]
                                bad = ("graph-autoreset-not-initial[" + ",".join(d) + "]:" + stack,
                                       f"step {n}" + (f" env {b}" if vec else "") + f": the episode ended (terminated/truncated = "
                                       f"{bool(onp.asarray(op[3]).reshape(-1)[b])}/{bool(onp.asarray(op[4]).reshape(-1)[b])}) but field(s) {d} of the returned "
                                       f"graph state are not those of the {'stored' if fixed else 'freshly drawn (deterministic initialisers: = first)'} "
                                       f"initial state: {f} = {show(ow[0], f, bb)} vs initial {show(stored, f, bb)} (wrapped environment's own step: "
                                       f"{show(op[0], f, bb)})"); break
                            info_w = {k: ow[5][k] for k in op[5]}
                            if not (same(pick(ow[1]), pick(obs0)) and same(pick(info_w), pick({k: info0[k] for k in op[5]}))):
                                bad = ("graph-autoreset-obs-not-initial:" + stack, f"step {n}: the episode ended but the returned observation/info "
                                       f"{onp.asarray(pick(ow[1])).tolist()} is not the initial one {onp.asarray(pick(obs0)).tolist()}"); break
                        else:
                            d = diff_fields(ow[0], op[0], bb)
                            if fixed and not same(pick(ow[0].rng), pick(op[0].rng)): d.append("rng")     # (fresh: one key is split on every step)
                            info_w = {k: ow[5][k] for k in op[5]}
                            if d or not same(pick(ow[1]), pick(op[1])) or not same(pick(info_w), pick(op[5])):
                                bad = ("graph-autoreset-not-passthrough:" + stack, f"step {n}" + (f" env {b}" if vec else "") + ": no episode end, but the "
                                       f"returned graph state (fields {d}) / observation / info differ from the wrapped environment's own step"); break
                    if bad:
                        chk.violation(bad[0], bad[1], case); break
                    gs = ow[0]
        except Exception as ex:  # noqa
            chk.violation("graph-autoreset-raises:" + stack, f"rex raised on AutoResetWrapper over a compiled graph: {type(ex).__name__}: {str(ex)[:300]}", desc)


# ---------------------------------------------------------------- main
def run_cases(chk, cases):
    runs = []
    for c in cases:
        try:
            trace, table, keymap, Bp = impl_run(c)
        except Exception as ex:  # noqa
            chk.violation("wrapper-raises:" + "+".join(c["ws"] + c["vws"]), f"rex raised on a well-formed wrapper stack: {type(ex).__name__}: {str(ex)[:300]}",
                          dict(repr=repr(c)))
            continue
        runs.append((c, trace, table, keymap, Bp))
    terms = [coq_case(c, table, Bp) for (c, trace, table, keymap, Bp) in runs]
    model = lib.coq_eval_sharded("C19", HEADER, "run", terms, per=(8 if chk.tier == "quick" else 12), timeout=1200) if terms else []
    for (c, trace, table, keymap, Bp), mo in zip(runs, model):
        dones = [[rec["te"][b] or rec["tr"][b] for b in range(c["B"])] for rec in trace[1:]]
        feats = case_feats(c, dones)
        chk.case(repr(c), feats, dict(wrappers=c["ws"], vec_wrappers=c["vws"], batch=c["B"], steps=len(c["acts"]), lo=[str(x) for x in c["lo"]],
                                      hi=[str(x) for x in c["hi"]], first_actions=[[str(x) for x in a] for a in c["acts"][0]]))
        chk.traces_impl += 1
        case = dict(repr=repr(c), wrappers=c["ws"], vec_wrappers=c["vws"], batch=c["B"])
        for sig, what in law_checks(c, trace)[:1]:
            chk.violation(sig + ":" + "+".join(c["ws"] + c["vws"]), what, case)
        d = compare(c, trace, mo, keymap)
        if d:
            kind, text = d
            chk.violation(f"{kind}-differs:" + "+".join(c["ws"] + c["vws"]), "wrapper stack differs from the model at " + text, case)


def run(chk, replay=None):
    chk.stage_proofs(kernels=["Rl"])
    r = chk.rnd
    if replay:
        rp = json.load(open(replay))
        cs = rp.get("case", {})
        if "repr" in cs:
            run_cases(chk, [eval(cs["repr"], {"Fraction": Fraction})])
            return
        if cs.get("family") == "mixed-dtype":                            # one point of the action dtype x bounds dtype matrix
            from . import c19_dtypes
            res = mp_child([cs["spec"]]) if cs.get("x64") else c19_dtypes.run_specs([cs["spec"]])
            if isinstance(res, str): chk.broke("mixed-precision-x64-child-did-not-complete", res)
            else: mp_judge(chk, cs["spec"], res[0], bool(cs.get("x64")))
            return
        if "low" in cs and "high" in cs and "x" in cs and "y" in cs:     # one float32 squash point
            import jax.numpy as jnp, numpy as onp
            from rex import rl
            st = rl.SquashState(low=jnp.array([cs["low"]], jnp.float32), high=jnp.array([cs["high"]], jnp.float32), squash=True)
            y = float(onp.asarray(st.unsquash(jnp.array([cs["x"]], jnp.float32)))[0])
            chk.case(("replay", cs["low"], cs["high"], cs["x"]), ["squash-kernel"], cs); chk.traces_impl += 1
            if not (onp.float32(cs["low"]) <= onp.float32(y) <= onp.float32(cs["high"])):
                chk.violation(rp.get("signature", "squash-float32-saturated-action-outside-bounds"),
                              f"SquashState(low={cs['low']!r}, high={cs['high']!r}, squash=True).unsquash({cs['x']!r}) = {y!r} is outside [low, high]", cs)
            return
    n = 36 if chk.tier == "quick" else 170
    cases = [gen_case(r, chk.tier, i) for i in range(n)]
    run_cases(chk, cases)
    def guarded(name, fn, *args):
        try: fn(chk, *args)
        except Exception as ex:  # noqa  (a sub-check that cannot complete, e.g. because rex raises inside it, must not hide the others)
            import traceback
            chk.broke(f"{name}-did-not-complete:{type(ex).__name__}", traceback.format_exc()[-800:])
    guarded("squash-kernel-checks", squash_kernel_checks, 24 if chk.tier == "quick" else 120)
    guarded("mixed-precision-checks", mixed_precision_checks, 1 if chk.tier == "quick" else 4)
    guarded("normalize-kernel-checks", normalize_kernel_checks, 60 if chk.tier == "quick" else 400)
    guarded("env-symbolic-check", env_symbolic_check)
    guarded("env-graph-check", env_graph_check, 3 if chk.tier == "quick" else 8)
    guarded("env-graph-autoreset-check", env_graph_autoreset_check, *((3, 7) if chk.tier == "quick" else (8, 12)))
    chk.extra["rule"] = ("scripted lattice environment (reward / terminated / truncated scripts per episode step, script row and initial "
                         "accumulator drawn from the reset key, actions on the 1/64 lattice, termination also requested through action[1]) under a "
                         "random wrapper stack (AutoReset stored/fresh, Log outside AutoReset, Squash on/off, Clip, in random order; then "
                         "VecEnvWrapper with batch 1-8 or unbatched; then NormalizeVecObservation/NormalizeVecReward in either order), 8-30 steps; "
                         "every returned state, rng key, observation, reward, flag, info entry, log and normaliser state is compared with the "
                         "model. A case is non-trivial when it has at least one wrapper; distinct by full case description. Plus kernel cases "
                         "(SquashState, NormalizeVec), Environment.step/reset on symbolic terms and on a compiled 2-node rex Graph. In 3 of 4 "
                         "scripted cases the environment fills every field of GraphState (step, eps, seq, ts, params, inputs, timings_eps, buffer) "
                         "with an injective image of its state, all of them moving on every step; every returned graph state must carry the "
                         "fields belonging to its state (at an episode end under fixed_init: the stored initial ones). Plus AutoResetWrapper "
                         "(stored/fresh, single or vmapped+jitted, with/without LogWrapper) over an Environment on the compiled graph whose nodes "
                         "adapt their params in step() and whose pre-step hook edits params: episode-end steps must return the initial graph "
                         "state field by field with the initial observation/info, other steps exactly the wrapped environment's result. Plus the "
                         "action dtype x bounds dtype matrix (float16 / bfloat16 / float32 in-process, every pair involving float64 in a child "
                         "interpreter with JAX_ENABLE_X64=1; jnp or numpy bounds): SquashState.unsquash, SquashActionWrapper.step (eager, jitted, "
                         "vmapped+jitted) and ClipActionWrapper.step over an environment that reports the action it received, with arbitrary "
                         "decimal bounds and raw actions that saturate tanh, nearly saturate it, sit on or just outside a face or inside the "
                         "box: every received action must be inside [low, high] (compared exactly in float64), and unsquash(scale(y) cast to "
                         "the action dtype) ~ y inside the box")
    chk.trusted += ["scripted environment SEnv (harness/c19.py) = Gallina s_reset/s_step (coq/RlScript.v): the wrapped environment of the model",
                    "PRNG: jax.random.split modelled as positions in the binary split tree; reset draws tabulated from the real keys along the "
                    "implementation's own path", "sat_tanh (float32 tanh is exactly +-1 for |x| >= 20, 0 at 0) and qsqrt (12 decimals) in the "
                    "executable Q instance; Coq Interval for the certified enclosures of tanh/arctanh at other points"]
    chk.trusted += ["SEnv.fields / gs_fields_expected (harness/c19.py): the non-state GraphState fields of the scripted environment are a fixed "
                    "injective function of its state, so the model's atomic environment state stands for the whole graph state"]
    chk.notes += ["floating point: un-normalised values (states, observations, rewards, log totals) are dyadic and compared exactly; normalised "
                  "observations/rewards within 2e-3(1+|v|), normaliser states within 1e-4(1+|v|) (float32 accumulation); squash outputs may "
                  "sit on the closed bound in float32 (tanh saturates) while the theorem gives the open interval over R",
                  "mixed precision: float16 / bfloat16 / float32 / float64 all embed exactly into float64, so 'inside [low, high]' is an exact "
                  "comparison of the received action with the bounds the environment declares; the inverse law there is checked within "
                  "8 e (high - low) + 4 e max(|low|, |high|), e = eps(action dtype) + eps(bounds dtype) (twice the rounding-error budget)",
                  "stackings with AutoResetWrapper outside LogWrapper are not generated: rex itself rejects them (lax.cond branch structures "
                  "differ); ClipActionWrapper outside SquashActionWrapper(squash=True) is exercised with zero actions only"]
