"""Child process for the compiled-runtime properties (C01, C06-C10, C13): builds computation graphs (generated or recorded by the
threaded runtime), compiles them with rex.graph.Graph, exports model instances and runs the implementation.
usage: compiled_worker.py <jobs.json> <out.jsonl>"""
import json, os, sys, time, traceback

REPO = os.environ.get("VERIF_REPO", "/repo")
sys.path.insert(0, REPO)
sys.path.insert(0, os.path.dirname(os.path.abspath(__file__)))
os.environ.setdefault("JAX_PLATFORMS", "cpu")
os.environ["REX_VERIF"] = "1"

import async_worker as aw
from async_worker import jax, jnp, onp, const, ra, T, build, phases, tick, HOSTLOG, HOSTLOCK
import rex.base as base
from rex.artificial import generate_graphs, augment_graphs
from rex.graph import Graph
from flax.core import FrozenDict

MODES = {"MCS": const.Supergraph.MCS, "GEN": const.Supergraph.GENERATIONAL, "TOPO": const.Supergraph.TOPOLOGICAL}


def to_int(x): return [int(v) for v in onp.asarray(x).reshape(-1)]


def tk(x):
    v = onp.asarray(x, dtype=onp.float64)
    v = onp.where(onp.isinf(v), -1.0 / 64, v) * 64
    if not onp.all(v == onp.round(v)): raise ValueError(f"off-lattice time {v}")
    return [int(t) for t in onp.round(v).reshape(-1)]


def extract_graph(cg, e):
    verts = {n: list(zip(to_int(v.seq[e]), tk(v.ts_start[e]), tk(v.ts_end[e]))) for n, v in cg.vertices.items()}
    edges = {f"{a}>{b}": list(zip(to_int(ed.seq_out[e]), to_int(ed.seq_in[e]), tk(ed.ts_recv[e]))) for (a, b), ed in cg.edges.items()}
    return verts, edges


def export_instance(cfg, G, cg, e, names, cn, sizes, p0, n):
    idx = {nm: i for i, nm in enumerate(names)}
    verts, edges = extract_graph(cg, e)
    slots = G.timings.slots; gens = G.timings.to_generation(); nparts = next(iter(slots.values())).run.shape[-1]
    L = [f"{len(names)} {len(cn)} {idx[cfg['sup']]} {len(gens)} {nparts} {len(slots)}"]
    for nm in names: L.append(str(cfg["nodes"][nm]["nid"]))
    for c in cn: cc = cfg["conns"][c]; L.append(f"{idx[cc['out']]} {idx[cc['in']]} {cc['window']}")
    for nm in names: L.append(" ".join([str(len(verts[nm]))] + [f"{a} {b} {c_}" for a, b, c_ in verts[nm]]))
    for c in cn: L.append(" ".join([str(len(edges[c]))] + [f"{a} {b} {c_}" for a, b, c_ in edges[c]]))
    for sn, s in slots.items():
        L.append(f"{idx[s.kind]} {s.generation}")
        ins = [c for c in cn if cfg["conns"][c]["in"] == s.kind]
        for p in range(nparts):
            row = [int(bool(s.run[e, p])), int(s.seq[e, p]), tk(s.ts_start[e, p])[0], tk(s.ts_end[e, p])[0]]
            for c in ins:
                w = s.windows[cfg["conns"][c]["out"]]
                for a, b, c_ in zip(to_int(w.seq[e, p]), tk(w.ts_sent[e, p]), tk(w.ts_recv[e, p])): row += [a, b, c_]
            L.append(" ".join(map(str, row)))
    L.append(" ".join(str(sizes[nm]) for nm in names))
    L.append(f"{p0} {n}")
    # the partitioner's monomorphism of this episode (vertex -> (partition, slot)), in dict order: kind seq partition slot_index (ToTimings.v)
    sidx = {sn: i for i, sn in enumerate(slots)}
    mono = getattr(G, "_Gs_monomorphism", None); Gs = getattr(G, "_Gs", None)
    ent = []
    if mono is not None and Gs is not None and e < len(mono):
        for n2, (pi, s2) in mono[e].items():
            d = Gs[e].nodes[n2]
            ent.append(f"{idx[d['kind']]} {int(d['seq'])} {int(pi)} {sidx[s2]}")
    L.append(" ".join([str(len(ent))] + ent))
    return "\n".join(L)


def canon_compiled_record(cfg, rec, want_inputs=True):
    """EpisodeRecord of the compiled runtime -> {node: cols} ; rows with seq = -1 are kept (never executed)"""
    rows = {}
    for n, nr in rec.nodes.items():
        st = nr.steps
        cols = dict(seq=to_int(st.seq), start=tk(st.ts_start), end=tk(st.ts_end))
        if st.state is not None: cols["state"] = to_int(onp.asarray(st.state.a)[:, 0])
        if st.output is not None: cols["out"] = to_int(onp.asarray(st.output.a)[:, 0])
        if st.rng is not None:
            rw = aw.rngwords(st.rng); cols["rng"] = [[int(x) for x in r[:2]] for r in rw]
        if want_inputs and st.inputs is not None:
            wins = []
            for k in range(len(cols["seq"])):
                w = {}
                for m, i in st.inputs.items():
                    w[m] = [[int(i.seq[k][j]), tk(i.ts_sent[k][j])[0], tk(i.ts_recv[k][j])[0], int(onp.asarray(i.data.a)[k][j][0])]
                            for j in range(i.seq.shape[1])]
                wins.append(w)
            cols["wins"] = wins
            # the float side channel of every window entry (NaN / inf survive json as NaN / Infinity)
            cols["winf"] = [{m: [float(onp.asarray(i.data.f)[k][j][0]) for j in range(i.seq.shape[1])] for m, i in st.inputs.items()} for k in range(len(cols["seq"]))]
        rows[n] = cols
    return rows


def canon_gs(gs, names):
    """the part of a compiled GraphState the properties speak about"""
    d = dict(step=int(gs.step), eps=int(gs.eps), nodes={})
    for n in names:
        ent = dict(seq=int(gs.seq[n]), ts=tk(gs.ts[n])[0], state=int(gs.state[n].a[0]), buffer=to_int(gs.buffer[n].a) if n in gs.buffer else None,
                   rng=[int(x) for x in aw.rngwords(gs.rng[n])[0][:2]], inputs={})
        for m, i in gs.inputs[n].items():
            ent["inputs"][m] = [[int(i.seq[j]), tk(i.ts_sent[j])[0], tk(i.ts_recv[j])[0], int(i.data.a[j][0])] for j in range(i.seq.shape[0])]
            if hasattr(i.delay_dist, "idx"): ent.setdefault("delay_model", {})[m] = int(i.delay_dist.idx)      # the delay model the node carries in its inputs
        d["nodes"][n] = ent
    return d


def make_graphs(job, N):
    cfg = job["cfg"]
    if job.get("source") == "explicit":
        # a hand-written computation graph (ticks), one episode per entry of job["graph"]
        eps = job["graph"] if isinstance(job["graph"], list) else [job["graph"]]
        gs_ = []
        for g in eps:
            verts = {n: base.Vertex(seq=onp.array([v[0] for v in vs], onp.int32), ts_start=onp.array([v[1] * T for v in vs], onp.float32),
                                    ts_end=onp.array([v[2] * T for v in vs], onp.float32)) for n, vs in g["verts"].items()}
            edges = {tuple(k.split(">")): base.Edge(seq_out=onp.array([e[0] for e in es], onp.int32), seq_in=onp.array([e[1] for e in es], onp.int32),
                                                     ts_recv=onp.array([e[2] * T for e in es], onp.float32)) for k, es in g["edges"].items()}
            gs_.append(base.Graph(vertices=verts, edges=edges))
        return base.Graph.stack(gs_), None
    if job.get("source", "generate") == "generate":
        cg = generate_graphs(N, job["tmax"] * T, rng=jax.random.PRNGKey(job.get("seed", 0)), num_episodes=job.get("episodes", 2))
        if job.get("reshape"): cg = reshape_graph(cg, cfg, job["reshape"], job.get("seed", 0))
        return cg, None
    # recorded by the threaded runtime
    g = ra.AsyncGraph(N, N[cfg["sup"]], clock=const.Clock.SIMULATED, real_time_factor=const.RealTimeFactor.FAST_AS_POSSIBLE)
    g.set_record_settings(params=True, rng=True, inputs=True, state=True, output=True)
    gs0 = g.init(jax.random.PRNGKey(job.get("seed", 0))); g.warmup(gs0, jit_step=False)
    eps = []; canon = []; inits = []; rng_inits = []
    steps = job["steps"]
    for ei in range(job.get("episodes", 2)):
        del HOSTLOG[:]
        gs = gs0.replace(eps=jnp.array(ei, dtype=jnp.int32))
        if job.get("vary_eps_rng"):      # every episode starts from its own rng: an episode replayed with another episode's slice is then told apart
            gs = gs.replace(rng=FrozenDict({n: jax.random.fold_in(gs0.rng[n], ei) for n in N}))
        rng_inits.append(gs.rng)
        inits.append({n: [int(x) for x in aw.rngwords(gs.rng[n])[0][:2]] for n in N})
        gs, ss = g.reset(gs)
        for i in range(steps[ei] if isinstance(steps, list) else steps): gs, ss = g.step(gs)
        g.stop()
        r = g.get_record()
        eps.append(r); canon.append(aw.canon_record(cfg, r, dict(rng=True, inputs=True, state=True, output=True)))
    exp = base.ExperimentRecord(episodes=eps)
    return exp.to_graph(), dict(records=canon, gs0=gs0, inits=inits, rng_inits=rng_inits)


def reshape_graph(cg, cfg, spec, seed):
    """hand-edited computation graphs (any acyclic graph is a legitimate input of rex.graph.Graph): messages that are never
    consumed (seq_in = -1) and a sink node reduced to one long-running step that starts early and ends late"""
    import random as _r
    rnd = _r.Random(seed)
    verts = {k: jax.tree_util.tree_map(lambda x: onp.array(x), v) for k, v in cg.vertices.items()}
    edges = {k: jax.tree_util.tree_map(lambda x: onp.array(x), v) for k, v in cg.edges.items()}
    long_sink = spec.get("long_sink")
    if long_sink and long_sink in verts:
        v = verts[long_sink]
        for e in range(v.seq.shape[0]):
            valid = v.seq[e] >= 0
            if valid.sum() < 2: continue
            last_end = v.ts_end[e][valid].max()
            v.ts_end[e, 0] = last_end            # step 0 runs until the node's last recorded end
            v.seq[e, 1:] = -1; v.ts_start[e, 1:] = -1; v.ts_end[e, 1:] = -1
        for (a, b), ed in edges.items():
            if b == long_sink: ed.seq_in[ed.seq_in > 0] = -1         # only messages consumed by step 0 remain
            if a == long_sink:
                ed.seq_in[ed.seq_out > 0] = -1; ed.ts_recv[ed.seq_out > 0] = -1; ed.seq_out[ed.seq_out > 0] = -1
    if spec.get("trim_after_sup"):
        # the user cut the recording at the last supervisor step: vertices that end after it starts are removed (with their messages), and the arrays
        # are shortened accordingly - so a node's LAST array row is a vertex that a full compiled rollout executes (with prune=False)
        supn = cfg["sup"]; sv = verts[supn]
        E_ = sv.seq.shape[0]
        # rollout(max_steps = partitions - 1) executes the partitions 0 .. P-2 (P = the smallest number of supervisor vertices over the episodes)
        Pmin = int((sv.seq >= 0).sum(axis=-1).min())
        for e in range(E_):
            if Pmin < 2: continue
            t_last = sv.ts_start[e][Pmin - 2]
            for n, v in verts.items():
                if n == supn: continue
                rm = (v.seq[e] >= 0) & (v.ts_end[e] > t_last)
                first = int(v.seq[e][rm].min()) if rm.any() else None
                v.seq[e][rm] = -1; v.ts_start[e][rm] = -1; v.ts_end[e][rm] = -1
                if first is None: continue
                for (a, b), ed in edges.items():
                    if a == n:
                        m = ed.seq_out[e] >= first
                        ed.seq_out[e][m] = -1; ed.seq_in[e][m] = -1; ed.ts_recv[e][m] = -1
                    if b == n:
                        ed.seq_in[e][ed.seq_in[e] >= first] = -1
        for n, v in list(verts.items()):
            keep = max(1, int((v.seq >= 0).sum(axis=-1).max()))
            verts[n] = base.Vertex(seq=v.seq[:, :keep], ts_start=v.ts_start[:, :keep], ts_end=v.ts_end[:, :keep])
        for k, ed in list(edges.items()):
            keep = max(1, int((ed.seq_out >= 0).sum(axis=-1).max()))
            edges[k] = base.Edge(seq_out=ed.seq_out[:, :keep], seq_in=ed.seq_in[:, :keep], ts_recv=ed.ts_recv[:, :keep])
    pdrop = spec.get("drop_tail", 0)
    if pdrop:
        # the last messages of a connection are never consumed (unconsumed messages form a suffix, as in every graph rex itself produces)
        for (a, b), ed in edges.items():
            for e in range(ed.seq_in.shape[0]):
                if rnd.random() < pdrop:
                    nv = int((ed.seq_in[e] >= 0).sum())
                    if nv > 1: ed.seq_in[e, rnd.randint(1, nv - 1):] = -1
    return base.Graph(vertices={k: base.Vertex(seq=jnp.array(v.seq), ts_start=jnp.array(v.ts_start), ts_end=jnp.array(v.ts_end)) for k, v in verts.items()},
                      edges={k: base.Edge(seq_out=jnp.array(e.seq_out), seq_in=jnp.array(e.seq_in), ts_recv=jnp.array(e.ts_recv)) for k, e in edges.items()})


def run_job(job):
    aw.LOG_ENABLED[0] = not job.get("nolog", False)
    cfg = job["cfg"]; names = sorted(cfg["nodes"]); cn = list(cfg["conns"])
    N = build(cfg)
    nph, cph = phases(cfg, N)
    res = dict(id=job["id"], node_phase=nph, conn_phase=cph)
    cg, asyncinfo = make_graphs(job, N)
    if asyncinfo: res["async_records"] = asyncinfo["records"]
    E = next(iter(cg.vertices.values())).seq.shape[0]
    res["raw"] = [dict(zip(("verts", "edges"), extract_graph(cg, e))) for e in range(E)]
    kw = {}
    if job.get("buffer_sizes"): kw["buffer_sizes"] = job["buffer_sizes"]
    if job.get("extra_padding"): kw["extra_padding"] = job["extra_padding"]
    t0 = time.time()
    try:
        G = Graph(N, N[cfg["sup"]], cg, supergraph=MODES[job.get("mode", "MCS")], prune=job.get("prune", True), progress_bar=False, **kw)
    except Exception as ex:  # noqa
        res["graph_error"] = f"{type(ex).__name__}:{str(ex)[:200]}"; return res
    res["t_graph"] = round(time.time() - t0, 2)
    impl_sizes = {nm: [int(x) for x in v] for nm, v in G.timings.get_buffer_sizes().items()}
    if job.get("buffer_mode"):
        # user-supplied buffer sizes derived from the computed ones: "plus" (admissible) or "too_small" (must be rejected)
        bm = job["buffer_mode"]; user = {}
        for nm, v in impl_sizes.items():
            if not v: continue
            if bm["kind"] == "plus": user[nm] = max(v) + bm.get("k", 1)
            elif bm["kind"] == "too_small" and max(v) > 1 and nm == bm.get("node", nm): user[nm] = max(v) - 1
        res["user_sizes"] = user
        if not user and bm["kind"] == "too_small": res["graph_error"] = "no-node-with-size>1"; res["skip"] = True; return res
        try:
            G = Graph(N, N[cfg["sup"]], cg, supergraph=MODES[job.get("mode", "MCS")], prune=job.get("prune", True), progress_bar=False,
                      buffer_sizes=user, extra_padding=job.get("extra_padding", 0))
        except AssertionError as ex:
            res["graph_error"] = f"AssertionError:{str(ex)[:200]}"; res["rejected_user_sizes"] = True; return res
    res["impl_sizes"] = impl_sizes
    res["used_sizes"] = {nm: [int(x) for x in (v if isinstance(v, (list, tuple)) else [v])] for nm, v in G._buffer_sizes.items()}
    res["max_steps"] = int(G.max_steps); res["nslots"] = len(G.timings.slots)
    pad = int(job.get("extra_padding", 0))
    # actual ring sizes used by the runner = buffer leading dimension
    gs_probe = G.init(jax.random.PRNGKey(job.get("seed", 0)))
    ring = {nm: (int(gs_probe.buffer[nm].a.shape[0]) if nm in gs_probe.buffer else 1) for nm in names}   # a node kind without a slot has no buffer
    res["ring"] = ring
    p0 = int(job.get("starting_step", 0))
    nrun = int(job.get("nrun", G.max_steps - p0))
    res["insts"] = [export_instance(cfg, G, cg, e, names, cn, ring, p0, max(nrun, 0)) for e in range(E)]
    # the schedule as data (for the direct C07 clause checker)
    slots = G.timings.slots; nparts = next(iter(slots.values())).run.shape[-1]
    res["slots"] = []
    for e in range(E):
        sl = []
        for sn, s_ in slots.items():
            cells = []
            for p in range(nparts):
                wins = {m: [list(x) for x in zip(to_int(w.seq[e, p]), tk(w.ts_sent[e, p]), tk(w.ts_recv[e, p]))] for m, w in s_.windows.items()}
                cells.append([int(bool(s_.run[e, p])), int(s_.seq[e, p]), tk(s_.ts_start[e, p])[0], tk(s_.ts_end[e, p])[0], wins])
            sl.append(dict(name=sn, kind=s_.kind, gen=int(s_.generation), cells=cells))
        res["slots"].append(sl)
    res["episodes"] = []
    recflags = job.get("record", dict(rng=True, inputs=True, state=True, output=True))
    roll = jax.jit(G.rollout, static_argnames=("max_steps",)) if job.get("jit", True) else G.rollout
    for e in range(E):
        del HOSTLOG[:]
        gs = G.init(jax.random.PRNGKey(job.get("seed", 0)), starting_eps=e, starting_step=p0)
        if asyncinfo and job.get("replay_rng", True):
            gs = gs.replace(rng=FrozenDict({n: asyncinfo["rng_inits"][e][n] for n in names}))
            if cfg.get("adaptive_params") or cfg.get("rng_params"):      # the replay starts from the recorded episode's initial params as well
                gs = gs.replace(params=FrozenDict({n: asyncinfo["gs0"].params[n] for n in names}))
        ep = dict()
        try:
            if job.get("record_eps_switch") and E > 1:
                # the user prepares the record while another episode is selected and selects the episode to run afterwards (GraphState.replace_eps):
                # the record has room for every episode of the graph, whichever one is selected when init_record is called
                other = min(range(E), key=lambda o: (o == e, sum(len([v for v in res["raw"][o]["verts"][nm] if v[0] >= 0]) for nm in names)))
                gsr = G.init_record(gs.replace_eps(G.timings, other), **{k: recflags.get(k, False) for k in ("params", "rng", "inputs", "state", "output")})
                gsr = gsr.replace_eps(G.timings, e); ep["record_prepared_on_eps"] = other
            else:
                gsr = G.init_record(gs, **{k: recflags.get(k, False) for k in ("params", "rng", "inputs", "state", "output")})
        except KeyError as ex:
            ep["record_error"] = f"KeyError:{ex}"; gsr = gs
        out = roll(gsr, max_steps=nrun)
        jax.block_until_ready(out.state)
        ep["calls"] = aw.host_calls(N)
        if "record" in out.aux: ep["rows"] = canon_compiled_record(cfg, out.aux["record"])
        ep["final"] = canon_gs(out, names)
        res["episodes"].append(ep)
    if job.get("gym_full"):
        # the gym-style loop over the whole advertised horizon: reset() followed by graph.max_steps calls of step() - every scheduled step once, none twice
        jreset, jstep = jax.jit(G.reset), jax.jit(G.step)
        res["calls_gym"] = []
        for e in range(min(E, 2)):
            del HOSTLOG[:]
            gs = G.init(jax.random.PRNGKey(job.get("seed", 0)), starting_eps=e)
            gs, ss = jreset(gs)
            for i in range(int(G.max_steps)): gs, ss = jstep(gs)
            jax.block_until_ready(gs.step)
            res["calls_gym"].append(aw.host_calls(N))
    if job.get("skip_probe") and len(names) > 1:
        # Graph(skip=[kind]): only the slots of the skipped kind are left out - with node names chosen so that the skipped node's name is an
        # underscore-prefix of every other node's name (cam / cam_left): skipping one node must remove that node's invocations and nothing else
        sk = sorted(n for n in names if n != cfg["sup"])[0]
        ren = {n: ("k" if n == sk else "k_" + n) for n in names}
        cfg2 = dict(cfg, nodes={ren[n]: nd for n, nd in cfg["nodes"].items()}, sup=ren[cfg["sup"]],
                    conns={f"{ren[cc['out']]}>{ren[cc['in']]}": dict(cc, out=ren[cc["out"]], **{"in": ren[cc["in"]]}) for cc in cfg["conns"].values()})
        try:
            N2 = build(cfg2)
            cg2 = base.Graph(vertices={ren[k]: v for k, v in cg.vertices.items()}, edges={(ren[a], ren[b]): ed for (a, b), ed in cg.edges.items()})
            G2 = Graph(N2, N2[cfg2["sup"]], cg2, supergraph=MODES[job.get("mode", "MCS")], prune=job.get("prune", True), progress_bar=False, skip=["k"])
            jreset, jstep = jax.jit(G2.reset), jax.jit(G2.step)
            cs = []
            for e in range(min(E, 2)):
                del HOSTLOG[:]
                gs = G2.init(jax.random.PRNGKey(job.get("seed", 0)), starting_eps=e)
                gs, ss = jreset(gs)
                for i in range(int(G2.max_steps)): gs, ss = jstep(gs)
                jax.block_until_ready(gs.step)
                cs.append(aw.host_calls(N2))
            res["calls_skip"] = dict(skipped=sk, rename=ren, calls=cs, max_steps=int(G2.max_steps))
        except Exception as ex:  # noqa
            res["calls_skip"] = dict(error=f"{type(ex).__name__}:{str(ex)[:200]}")
    if job.get("eps_out_of_range"):
        # an episode index beyond the recorded range is clipped to the last episode (C09): the same steps execute, once each, with their own seq
        del HOSTLOG[:]
        gs = G.init(jax.random.PRNGKey(job.get("seed", 0)), starting_eps=E + 2, starting_step=p0)
        out = roll(gs, max_steps=nrun); jax.block_until_ready(out.state)
        res["calls_eps_oob"] = aw.host_calls(N)
    if job.get("paths"): res["paths"] = api_paths(job, G, names, N, cfg)
    return res


def api_paths(job, G, names, N, cfg):
    """C09: the same starting state driven through every API; canonical final states"""
    out = {}
    sup = cfg["sup"]
    for (eps, step, n) in job["paths"]:
        key = f"{eps}:{step}:{n}"
        gs0 = G.init(jax.random.PRNGKey(job.get("seed", 0)), starting_eps=eps, starting_step=step)
        d = {}
        d["init"] = canon_gs(gs0, names)
        gs = gs0
        for i in range(n): gs = G.run(gs)
        d["run_eager"] = canon_gs(gs, names)
        jr = jax.jit(G.run); gs = gs0
        for i in range(n): gs = jr(gs)
        d["run_jit"] = canon_gs(gs, names)
        # reset + step^(n-1) + run_supervisor == run^n ; we compare after reset+step^n with run^n followed by run_until_supervisor
        gs, ss = G.reset(gs0)
        seen = [int(ss.eps)]
        for i in range(n): gs, ss = G.step(gs); seen.append(int(ss.eps))
        d["reset_step"] = canon_gs(gs, names)
        # the episode the step states carry (what reset()/step() hand to the user = what the supervisor's step sees; the per-node views of the graph state)
        d["eps_seen"] = dict(returned=seen, views={nm: int(gs.step_state[nm].eps) for nm in names if nm in gs.state}, views_init={nm: int(gs0.step_state[nm].eps) for nm in names if nm in gs0.state})
        gs = gs0
        for i in range(n): gs = G.run(gs)
        gs = G.run_until_supervisor(gs)
        d["run_then_until"] = canon_gs(gs, names)
        jreset, jstep = jax.jit(G.reset), jax.jit(G.step)
        gs, ss = jreset(gs0)
        for i in range(n): gs, ss = jstep(gs)
        d["reset_step_jit"] = canon_gs(gs, names)
        # override path: the user computes the supervisor's step himself and passes it
        gs, ss = G.reset(gs0)
        for i in range(n):
            if int(gs.step) == 0: gs, ss = G.step(gs)   # step 0: the supervisor is skipped anyway
            else:
                nss, o = N[sup].step(ss)
                gs, ss = G.step(gs, nss, o)
        d["override"] = canon_gs(gs, names)
        # the same, but the user's step state carries a stale sequence number (e.g. a stateless agent re-using fields of the
        # reset step state): the schedule, not the user's seq field, names the buffer slot the output is written to
        gs, ss = G.reset(gs0)
        for i in range(n):
            if int(gs.step) == 0: gs, ss = G.step(gs)
            else:
                nss, o = N[sup].step(ss)
                gs, ss = G.step(gs, nss.replace(seq=jnp.zeros_like(nss.seq)), o)
        d["override_stale_seq"] = canon_gs(gs, names)
        if n == 0:
            # a zero-step rollout is zero run() calls (e.g. rollout(gs, max_steps=T - t) once t == T), not "the default horizon"
            d["rollout_carry"] = canon_gs(jax.jit(G.rollout, static_argnames=("max_steps", "carry_only"))(gs0, max_steps=0, carry_only=True), names)
        if n > 0:
            d["rollout_carry"] = canon_gs(jax.jit(G.rollout, static_argnames=("max_steps", "carry_only"))(gs0, max_steps=n, carry_only=True), names)
            full = jax.jit(G.rollout, static_argnames=("max_steps", "carry_only"))(gs0, max_steps=n, carry_only=False)
            last = jax.tree_util.tree_map(lambda x: x[-1], full)
            d["rollout_full_last"] = canon_gs(last, names)
        out[key] = d
    # params override: a partial plain-dict override re-used for two init() calls with different rng; the second call must equal an init() with a
    # fresh copy of the same override (init is a pure function of its arguments), the override is what the steps see, the others are drawn from THIS rng
    if cfg.get("rng_params"):
        other = sorted(n for n in names if n != sup)[0] if len(names) > 1 else sup
        def mk(): return {other: aw.Out(jnp.array([5], dtype=jnp.int32), jnp.array([0.0], dtype=jnp.float32))}
        def par(gs): return {n: int(gs.params[n].a[0]) for n in names}
        r1, r2 = jax.random.PRNGKey(job.get("seed", 0) + 1), jax.random.PRNGKey(job.get("seed", 0) + 2)
        P = mk()
        gsa = G.init(r1, params=P); gsb = G.init(r2, params=P); gsf = G.init(r2, params=mk())
        d = dict(first=par(gsa), reused=par(gsb), fresh=par(gsf), other=other, keys_after=sorted(P))
        ga, gf = gsb, gsf
        for i in range(2): ga = G.run(ga); gf = G.run(gf)
        d["run_reused"] = canon_gs(ga, names); d["run_fresh"] = canon_gs(gf, names)
        out["params"] = d
    # vmap over a batch of (eps, step) pairs
    if job.get("vmap"):
        n = job["vmap"]["n"]; pairs = job["vmap"]["pairs"]
        def f(eps, step):
            gs = G.init(jax.random.PRNGKey(job.get("seed", 0)), starting_eps=eps, starting_step=step)
            return G.rollout(gs, max_steps=n)
        batched = jax.jit(jax.vmap(f))(jnp.array([p[0] for p in pairs]), jnp.array([p[1] for p in pairs]))
        vm = []
        for i in range(len(pairs)):
            vm.append(canon_gs(jax.tree_util.tree_map(lambda x: x[i], batched), names))
        single = []
        for (eps, step) in pairs:
            gs = G.init(jax.random.PRNGKey(job.get("seed", 0)), starting_eps=eps, starting_step=step)
            single.append(canon_gs(jax.jit(G.rollout, static_argnames=("max_steps",))(gs, max_steps=n), names))
        out["vmap"] = dict(batched=vm, single=single, pairs=pairs, n=n)
    return out


def run_c10(job):
    """trainable zero-order-hold delay d vs the same system with a static delay d recorded in the graph"""
    import distrax
    aw.LOG_ENABLED[0] = False
    cfg = job["cfg"]; names = sorted(cfg["nodes"]); tc = job["trainable"]      # connection key
    cc = cfg["conns"][tc]; mn, mx = job["min"], job["max"]
    res = dict(id=job["id"], runs={})

    class P(aw.Probe):
        override = {}
        def init_delays(self, rng=None, graph_state=None):
            d = super().init_delays(rng, graph_state)
            for k in list(d):
                if (self.name, k) in P.override: d[k] = P.override[(self.name, k)]
            return d

    def mk(delay_dist_for_tc):
        N = {}
        for n, nd in cfg["nodes"].items():
            N[n] = P(name=n, rate=64 // nd["period"], delay=nd["exp"] * T, delay_dist=aw.TableDist.create(nd["delays"]), nid=nd["nid"])
        for c, c_ in cfg["conns"].items():
            dd = delay_dist_for_tc if c == tc else aw.TableDist.create(c_["delays"])
            kw_ = dict(name=job["shadow"]) if (c == tc and job.get("shadow")) else {}     # the trainable connection may be registered under a shadow input name
            N[c_["in"]].connect(N[c_["out"]], blocking=False, delay=c_["exp"] * T, delay_dist=dd, window=c_["window"], skip=c_["skip"], jitter=const.Jitter.LATEST, **kw_)
        return N
    # the distribution may be constructed at any delay inside its range: the computation graph is generated for the MINIMAL delay all the same
    tdist = base.TrainableDist.create(delay=job.get("create_at", mn) * T, min=mn * T, max=mx * T, interp="zoh")
    NT = mk(tdist)
    cg = generate_graphs(NT, job["tmax"] * T, rng=jax.random.PRNGKey(job.get("seed", 0)), num_episodes=1)
    res["raw"] = dict(zip(("verts", "edges"), extract_graph(cg, 0)))
    mode = MODES[job.get("mode", "MCS")]
    GT = Graph(NT, NT[cfg["sup"]], cg, supergraph=mode, prune=True, progress_bar=False)
    rollT = jax.jit(GT.rollout)
    def record_of(G, roll, rng):
        gs = G.init(rng); gs = G.init_record(gs, rng=False, inputs=True, state=True, output=True)
        out = roll(gs); return canon_compiled_record(cfg, out.aux["record"])
    for d in job["delays"]:
        r = dict()
        # (a) trainable, delay given through init_delays (values outside [min, max] must saturate)
        in_name = job.get("shadow") or cc["out"]
        P.override = {(cc["in"], in_name): d * T}
        try:
            r["trainable"] = record_of(GT, rollT, jax.random.PRNGKey(1))
        except Exception as ex:  # noqa
            r["trainable_error"] = f"{type(ex).__name__}:{str(ex)[:200]}"
        P.override = {}
        # (a0) trainable, nothing configured by the user: the default init_delays() reports the delay the distribution CARRIES (the one it was created
        # with) - the connection's declared expected delay (delay=..., used for the phase) is a different quantity
        if d == job.get("create_at", mn):
            try: r["trainable_default"] = record_of(GT, rollT, jax.random.PRNGKey(1))
            except Exception as ex:  # noqa
                r["trainable_error"] = f"{type(ex).__name__}:{str(ex)[:200]}"
        # (a') trainable, delay given through the distribution itself (only inside [min, max]: create() asserts the range)
        if mn <= d <= mx and job.get("via_dist", True):
            gs = GT.init(jax.random.PRNGKey(1))
            inp = gs.inputs[cc["in"]][in_name]
            nd_ = base.TrainableDist.create(delay=d * T, min=mn * T, max=mx * T, interp="zoh")
            nd_ = nd_.replace(alpha=jnp.asarray(nd_.alpha, dtype=jnp.float32))   # init_record needs array leaves
            gs = gs.replace(inputs=gs.inputs.copy({cc["in"]: gs.inputs[cc["in"]].copy({in_name: inp.replace(delay_dist=nd_)})}))
            gs = GT.init_record(gs, rng=False, inputs=True, state=True, output=True)
            r["trainable_dist"] = canon_compiled_record(cfg, rollT(gs).aux["record"])
        # (b) static: the edge of that connection regenerated at Deterministic(clip(d))
        dc = min(max(d, mn), mx)
        NS = mk(base.StaticDist.create(distrax.Deterministic(loc=dc * T)))
        edges = {k: v for k, v in cg.edges.items() if k != (cc["out"], cc["in"])}
        cgs = augment_graphs(base.Graph(vertices=cg.vertices, edges=edges), NS, rng=jax.random.PRNGKey(job.get("seed", 0)))
        try:
            GS = Graph(NS, NS[cfg["sup"]], cgs, supergraph=mode, prune=True, progress_bar=False)
            r["static"] = record_of(GS, jax.jit(GS.rollout), jax.random.PRNGKey(1))
            r["static_edge"] = extract_graph(cgs, 0)[1][tc]
        except Exception as ex:  # noqa
            r["static_error"] = f"{type(ex).__name__}:{str(ex)[:200]}"
        res["runs"][str(d)] = r
    return res


def main():
    jobs = json.load(open(sys.argv[1])); out = open(sys.argv[2], "a")
    for job in jobs:
        out.write(json.dumps(dict(id=job["id"], started=True)) + "\n"); out.flush()
        try:
            res = run_c10(job) if job.get("kind") == "c10" else run_job(job)
        except RecursionError:
            res = dict(id=job["id"], error="RecursionError")
        except Exception as e:  # noqa
            res = dict(id=job["id"], error=f"{type(e).__name__}:{str(e)[:300]}", tb=traceback.format_exc()[-2000:])
        out.write(json.dumps(res) + "\n"); out.flush()
    out.close(); os._exit(0)


if __name__ == "__main__":
    main()
