"""constants shared between the probe nodes (async_worker.py, child process) and the parent-side checks"""


def side_f(nid, seq):
    """the float a probe emits at sequence number seq (NaN at seq % 7 == 3, inf at seq % 11 == 5)"""
    if seq % 7 == 3: return float("nan")
    if seq % 11 == 5: return float("inf")
    return 0.25 * seq + nid


DEFAULT_F = -1.5
