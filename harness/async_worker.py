"""Child process that runs rex's threaded runtime (AsyncGraph) on lattice graphs with probe nodes and table delays and
prints canonical integer traces.  usage: async_worker.py <jobs.json> <out.jsonl>
Each job: dict(id, cfg, drive, steps, episodes, rtf, perturb, record, clock).  One JSON line per finished job (flushed),
so that the parent can tell which job hung."""
import json, os, sys, threading, time, random

REPO = os.environ.get("VERIF_REPO", "/repo")
sys.path.insert(0, REPO)
os.environ.setdefault("JAX_PLATFORMS", "cpu")
os.environ["REX_VERIF"] = "1"

import jax, jax.numpy as jnp, numpy as onp
from flax import struct
from flax.core import FrozenDict
from rex.base import Base, DelayDistribution
from rex.node import BaseNode
import rex.constants as const
import rex.asynchronous as ra

T = 1 / 64
MOD = 32749


@struct.dataclass
class TableDist(DelayDistribution):
    """k-th sample = table[k mod len] whatever the batch size (harness-side user subclass of the public base class)"""
    table: jax.Array
    idx: jax.Array
    rng: jax.Array
    seeded: bool = struct.field(pytree_node=False, default=False)

    @classmethod
    def create(cls, ticks, seeded=False):
        return cls(table=jnp.array([t * T for t in ticks], dtype=jnp.float32), idx=jnp.array(0, dtype=jnp.int32),
                   rng=jnp.zeros((2,), dtype=jnp.uint32), seeded=bool(seeded))

    def reset(self, rng):
        # seeded tables start at an offset that is a function of the key the runtime hands to reset(): like rex's own stochastic distributions,
        # the delay stream then depends on the initial graph state's rng (and on nothing else) - used for implementation-vs-implementation comparisons only
        r = jnp.asarray(rng).reshape(-1)[-2:].astype(jnp.uint32) if self.seeded else jnp.zeros((2,), dtype=jnp.uint32)
        return self.replace(idx=jnp.array(0, dtype=jnp.int32), rng=r)

    def sample(self, shape=None):
        n = 1 if shape is None else (shape if isinstance(shape, int) else shape[0])
        off = (jnp.asarray(self.rng).reshape(-1)[-1] % self.table.shape[0]).astype(jnp.int32)
        ids = (self.idx + off + jnp.arange(n)) % self.table.shape[0]
        s = self.table[ids]
        if shape is None: s = s[0]
        return self.replace(idx=self.idx + n), s

    def quantile(self, q): return jnp.max(self.table)
    def mean(self): return jnp.mean(self.table)
    def pdf(self, x): return 0.0


@struct.dataclass
class Out(Base):
    a: jax.Array          # integer probe word (the model's payload)
    f: jax.Array          # float side channel that is NaN / inf at some sequence numbers: payload identity must not depend on finiteness


def side_f(nid, seq):
    """the float a probe emits at sequence number seq (python floats; NaN at seq % 7 == 3, inf at seq % 11 == 5)"""
    if seq % 7 == 3: return float("nan")
    if seq % 11 == 5: return float("inf")
    return 0.25 * seq + nid


DEFAULT_F = -1.5


HOSTLOG = []          # (node, seq, ts_ticks, state_before, acc, rng0, rng1)
LOG_ENABLED = [True]  # switched off for vmapped runs (io_callback is not supported under vmap-of-cond)
HOSTLOCK = threading.Lock()


TOKEN = [0]           # every probe object gets its own token: a late log entry of an EARLIER graph's thread is told apart from this graph's entries


def _host(name, seq, ts, st, acc, r0, r1, token=0):
    with HOSTLOCK:
        HOSTLOG.append((name, int(seq), int(ts), int(st), int(acc), int(r0), int(r1), token))


def host_calls(N=None):
    """the host log of the probes in N (all entries when N is None), without the token"""
    toks = None if N is None else {getattr(n, "token", 0) for n in N.values()}
    with HOSTLOCK: return [c[:7] for c in HOSTLOG if toks is None or len(c) < 8 or c[7] in toks]


class Probe(BaseNode):
    def __init__(self, *a, nid=0, **k):
        super().__init__(*a, **k); self.nid = nid
        TOKEN[0] += 1; self.token = TOKEN[0]

    def init_params(self, rng=None, graph_state=None):
        # only when the check asks for it (C09 params paths): params drawn from the rng handed to init_params, and used by the step
        if not (getattr(self, "rng_params", False) or getattr(self, "adaptive_params", False)): return super().init_params(rng, graph_state)
        w = jnp.asarray(jax.random.key_data(rng) if jnp.issubdtype(rng.dtype, jax.dtypes.prng_key) else rng).reshape(-1)[-1] % 97
        return Out(jnp.asarray(w, dtype=jnp.int32).reshape(1), jnp.array([0.0], dtype=jnp.float32))

    def startup(self, graph_state, timeout=None):
        # optional user hook run by AsyncGraph.start() before the episode's clock starts (e.g. homing a robot): may take a while
        if getattr(self, "slow_startup", 0): time.sleep(self.slow_startup)
        self._startup_end = time.time()
        return True

    def init_state(self, rng=None, graph_state=None): return Out(jnp.array([1 + self.nid], dtype=jnp.int32), jnp.array([0.0], dtype=jnp.float32))
    def init_output(self, rng=None, graph_state=None): return Out(jnp.array([3 + self.nid], dtype=jnp.int32), jnp.array([DEFAULT_F], dtype=jnp.float32))

    def step(self, ss):
        tsq = jnp.round(ss.ts * 64).astype(jnp.int32)
        acc = 7 * ss.state.a[0] + 3 * ss.seq + 5 * tsq
        if getattr(self, "rng_params", False) or getattr(self, "adaptive_params", False): acc = acc + 11 * ss.params.a[0]
        for name in sorted(ss.inputs.keys()):
            i = ss.inputs[name]
            w = i.seq.shape[0]
            j = jnp.arange(w, dtype=jnp.int32)
            acc = acc + jnp.sum((j + 2) * i.data.a[:, 0] + 13 * jnp.maximum(i.seq, -1).astype(jnp.int32)
                                + 17 * jnp.round(i.ts_recv * 64).astype(jnp.int32) + 19 * jnp.round(i.ts_sent * 64).astype(jnp.int32))
        acc = (acc % MOD).astype(jnp.int32)
        rng = ss.rng
        new_rng = jax.random.split(rng)[0] if rng is not None else None
        rw = jnp.asarray(jax.random.key_data(rng) if jnp.issubdtype(rng.dtype, jax.dtypes.prng_key) else rng).reshape(-1)
        if not LOG_ENABLED[0]:
            pass
        elif isinstance(acc, jax.core.Tracer):
            from jax.experimental import io_callback
            name = self.name; tok = self.token
            io_callback(lambda *a: _host(name, *a, token=tok), None, ss.seq, tsq, ss.state.a[0], acc, rw[0], rw[1], ordered=True)
        else:
            _host(self.name, ss.seq, tsq, ss.state.a[0], acc, rw[0], rw[1], token=self.token)
        sq = jnp.asarray(ss.seq, dtype=jnp.int32)
        fv = jnp.where(sq % 7 == 3, jnp.nan, jnp.where(sq % 11 == 5, jnp.inf, 0.25 * sq.astype(jnp.float32) + self.nid)).astype(jnp.float32).reshape(1)
        new_ss = ss.replace(state=Out(acc.reshape(1), ss.state.f), rng=new_rng)
        if getattr(self, "adaptive_params", False):
            # a node that adapts its own params online (e.g. a gain estimate): the params it RETURNS are the params of its next step, in both runtimes
            new_ss = new_ss.replace(params=Out(((ss.params.a + 1 + sq) % 97).astype(jnp.int32), ss.params.f))
        if getattr(self, "adaptive", False):
            # a node that updates the delay models it carries in its own inputs (e.g. online delay estimation): the step state it RETURNS is what the
            # next step must start from, whichever API path executed the step
            ni = {k: (i.replace(delay_dist=i.delay_dist.replace(idx=i.delay_dist.idx + 1 + sq)) if hasattr(i.delay_dist, "idx") else i)
                  for k, i in ss.inputs.items()}
            new_ss = new_ss.replace(inputs=FrozenDict(ni) if isinstance(ss.inputs, FrozenDict) else ni)
        return new_ss, Out(acc.reshape(1), fv)


def build(cfg):
    N = {}
    for n, nd in cfg["nodes"].items():
        N[n] = Probe(name=n, rate=64 // nd["period"], delay=nd["exp"] * T, delay_dist=TableDist.create(nd["delays"], seeded=cfg.get("seeded_delays", False)),
                     advance=nd["advance"],
                     scheduling=const.Scheduling.FREQUENCY if nd["sched"] == "FREQ" else const.Scheduling.PHASE, nid=nd["nid"])
        N[n].adaptive = bool(nd.get("adaptive", False))
        N[n].rng_params = bool(cfg.get("rng_params", False))
        N[n].adaptive_params = bool(cfg.get("adaptive_params", False))
        N[n].slow_startup = float(cfg.get("slow_startup", 0)) if n == sorted(cfg["nodes"])[0] else 0
    for c, cc in cfg["conns"].items():
        N[cc["in"]].connect(N[cc["out"]], blocking=cc["blocking"], delay=cc["exp"] * T, delay_dist=TableDist.create(cc["delays"], seeded=cfg.get("seeded_delays", False)),
                            window=cc["window"], skip=cc["skip"],
                            jitter=const.Jitter.BUFFER if cc["jitter"] == "BUFFER" else const.Jitter.LATEST)
    return N


def phases(cfg, N):
    ph = {n: N[n].phase * 64 for n in N}
    cph = {c: N[cc["in"]].inputs[cc["out"]].phase * 64 for c, cc in cfg["conns"].items()}
    for v in list(ph.values()) + list(cph.values()):
        if v != round(v): raise ValueError("phase off lattice")
    return {k: int(round(v)) for k, v in ph.items()}, {k: int(round(v)) for k, v in cph.items()}


def tick(x):
    v = onp.asarray(x, dtype=onp.float64) * 64
    if not onp.all(v == onp.round(v)): raise ValueError(f"off-lattice time {v}")
    return [int(t) for t in onp.round(v).reshape(-1)]


def rngwords(r):
    a = onp.asarray(jax.random.key_data(r) if jnp.issubdtype(r.dtype, jax.dtypes.prng_key) else r)
    return a.reshape(a.shape[0], -1) if a.ndim > 1 else a.reshape(1, -1)


def canon_record(cfg, r, rec):
    """EpisodeRecord -> integers"""
    rows, msgs = {}, {}
    for n, nr in r.nodes.items():
        st = nr.steps
        T_ = len(st.seq)
        cols = dict(seq=[int(s) for s in st.seq], start=tick(st.ts_start), end=tick(st.ts_end), delay=tick(st.delay))
        # the recorded scheduling terms of AsyncStepRecord
        for fld in ("ts_scheduled", "ts_max", "ts_end_prev", "phase", "phase_scheduled", "phase_inputs", "phase_last"):
            if hasattr(st, fld) and getattr(st, fld) is not None: cols[fld] = tick(getattr(st, fld))
        # a part is reported when it IS in the record (whether it was asked for is judged by the check, per node)
        if st.state is not None: cols["state"] = [int(a) for a in onp.asarray(st.state.a)[:, 0]]
        if st.output is not None:
            oa = onp.asarray(st.output.a)
            cols["out"] = [int(a) for a in oa[:, 0]]
        if st.rng is not None:
            rw = rngwords(st.rng); cols["rng"] = [[int(x) for x in row[:2]] for row in rw]
        if st.inputs is not None:
            wins = []
            for k in range(T_):
                w = {}
                for m, i in st.inputs.items():
                    w[m] = [[int(i.seq[k][j]), tick(i.ts_sent[k][j])[0], tick(i.ts_recv[k][j])[0], int(onp.asarray(i.data.a)[k][j][0])]
                            for j in range(i.seq.shape[1])]
                wins.append(w)
            cols["wins"] = wins
        rows[n] = cols
        for m, ir in nr.inputs.items():
            ms = ir.messages
            msgs[f"{m}>{n}"] = [list(x) for x in zip([int(s) for s in ms.seq_out], [int(s) for s in ms.seq_in], tick(ms.ts_sent),
                                                      tick(ms.ts_recv), tick(ms.delay))]
    return dict(rows=rows, msgs=msgs)


def canon_ss(ss):
    d = dict(seq=int(ss.seq), ts=tick(ss.ts)[0], state=int(ss.state.a[0]), wins={})
    for m, i in ss.inputs.items():
        d["wins"][m] = [[int(i.seq[j]), tick(i.ts_sent[j])[0], tick(i.ts_recv[j])[0], int(i.data.a[j][0])] for j in range(i.seq.shape[0])]
    return d


class Perturb:
    def __init__(self, spec):
        self.spec = spec; self.lock = threading.Lock(); self.n = 0
        self.rnd = random.Random(spec.get("seed", 0))

    def __call__(self, name, **info):
        s = self.spec
        if s["kind"] == "random":
            if name in ("submit", "task_start"):
                with self.lock: d = self.rnd.random()
                if d < s.get("p", 0.5): time.sleep(d * s.get("max_ms", 3) / 1000.0)
        elif s["kind"] == "points":
            # park the calling thread for a while at the named protocol points (sup:before_append, sup:after_append, sup:before_check,
            # stop:after_flip, stop:after_cancel): widens the windows between the shared-variable accesses of the lifecycle handshake
            if name in s["points"]: time.sleep(s.get("ms", 30) / 1000.0)
        elif s["kind"] == "starve":
            if name == "task_start" and info.get("owner") == s["owner"]: time.sleep(s.get("ms", 20) / 1000.0)


class Gate:
    """forces the lost-wake-up order of Lifecycle.stop_after_run_refuted on the real threads: the supervisor thread is
    parked at `sup:before_append` of its step number `target` until the user's stop() has passed `stop:after_cancel`"""
    def __init__(self, target):
        self.target = target; self.count = 0; self.armed = False
        self.at_gate = threading.Event(); self.cancelled = threading.Event(); self.log = []

    def __call__(self, name, **info):
        if name == "sup:before_append":
            self.count += 1
            if self.count == self.target:
                self.log.append("sup parked"); self.at_gate.set(); self.cancelled.wait(10); self.log.append("sup released")
        elif name == "stop:after_cancel" and self.armed:
            self.log.append("stop passed after_cancel"); self.cancelled.set()


def run_history(job):
    """job['history'] = list of episodes, each a list of user calls from reset/run/step/stop; optional job['gate']"""
    cfg = dict(job["cfg"], **job.get("cfg_over", {})); rec = job.get("record", dict(params=False, rng=False, inputs=True, state=True, output=True))
    N = build(cfg); nph, cph = phases(cfg, N)
    clock = const.Clock.SIMULATED if job.get("clock", "sim") == "sim" else const.Clock.WALL_CLOCK
    rtf = job.get("rtf", 0)
    g = ra.AsyncGraph(N, N[cfg["sup"]], clock=clock, real_time_factor=const.RealTimeFactor.FAST_AS_POSSIBLE if rtf == 0 else float(rtf))
    g.set_record_settings(**{k: rec[k] for k in ("params", "rng", "inputs", "state", "output") if k in rec})
    gs0 = g.init(jax.random.PRNGKey(job.get("seed", 0))); g.warmup(gs0, jit_step=False)
    episodes = []; last_gs = None
    for ei, hist in enumerate(job["history"]):
        del HOSTLOG[:]
        gate = None
        if job.get("gate") and job["gate"].get("ep", 0) == ei:
            n_sup = sum(1 for op in hist if op in ("run", "step")) + (1 if "reset" in hist else 0)
            gate = Gate(n_sup + 1 if hist and hist[0] == "run" else n_sup + 1)
            ra._verif_hook = gate
        elif job.get("perturb"): ra._verif_hook = Perturb(job["perturb"])
        # carry: the user keeps feeding the graph state of the previous episode (gs = graph.run(gs) loops continued after stop(), reset(last gs))
        start = last_gs if (job.get("carry") and ei > 0 and last_gs is not None) else gs0
        gs = start; ss = None; obs = []; info = dict(calls_done=[], gate=None)
        for op in hist:
            wall = job.get("clock", "sim") != "sim"        # wall-clock step states carry off-lattice times: only seq is kept
            if op == "reset": gs, ss = g.reset(start); obs.append(dict(seq=int(ss.seq)) if wall else canon_ss(ss))   # every (re)start is from the initial (or, carry, the previous episode's last) graph state
            elif op == "step": gs, ss = g.step(gs); obs.append(dict(seq=int(ss.seq)) if wall else canon_ss(ss))
            elif op == "run": gs = g.run(gs)
            elif op == "stop":
                if gate is not None:
                    reached = gate.at_gate.wait(3); gate.armed = True; info["gate"] = dict(reached=reached)
                t0 = time.time(); g.stop(); info["stop_s"] = round(time.time() - t0, 3)
                if gate is not None: info["gate"]["log"] = list(gate.log)
            info["calls_done"].append(op)
        ra._verif_hook = None
        first_ts = None
        try:
            raw_rec = g.get_record()
            # wall-clock episodes: when (in seconds since the episode's time origin) every node's first step started
            # the episode's time origin (NodeRecord.ts_start, wall time) relative to the moment the last startup() hook of THIS episode returned: the clock of an
            # episode starts after the start-up phase (an ordering of two host clock readings - no timing threshold involved)
            ends = [getattr(n_, "_startup_end", None) for n_ in N.values()]
            if all(e_ is not None for e_ in ends):
                first_ts = {n: float(nr.ts_start) - max(ends) for n, nr in raw_rec.nodes.items()}
            c = canon_record(cfg, raw_rec, rec)
        except TypeError as e:
            c = dict(error="record_unavailable:" + str(e)[:80])
        except ValueError as e:      # wall-clock times are off the lattice: no canonical record
            c = dict(error="record_unavailable:" + str(e)[:80])
        last_gs = gs
        calls = host_calls(N)
        episodes.append(dict(record=c, obs=obs, info=info, eps=[int(n.eps) for n in g._async_nodes.values()], calls=calls, first_ts=first_ts))
    return dict(id=job["id"], node_phase=nph, conn_phase=cph, episodes=episodes)


def run_wallclock_stamp(job):
    """wall-clock episode in which one node re-stamps its step time (e.g. a sensor driver reporting when the sample was taken): the runtime
    supports this through phase_overwrite; the record of every step must stay self-consistent (ts_start + delay = ts_end)"""
    shift = job.get("shift", 0.0005)

    class Stamper(Probe):
        def step(self, ss):
            new_ss, out = super().step(ss)
            return new_ss.replace(ts=(ss.ts + shift).astype(ss.ts.dtype)), out
    cfg = job["cfg"]; N = {}
    for n, nd in cfg["nodes"].items():
        cls = Stamper if n == job["stamper"] else Probe
        N[n] = cls(name=n, rate=64 // nd["period"], delay=nd["exp"] * T, delay_dist=TableDist.create(nd["delays"]), nid=nd["nid"])
    for c, cc in cfg["conns"].items():
        N[cc["in"]].connect(N[cc["out"]], blocking=False, delay=cc["exp"] * T, delay_dist=TableDist.create(cc["delays"]), window=cc["window"], skip=cc["skip"])
    g = ra.AsyncGraph(N, N[cfg["sup"]], clock=const.Clock.WALL_CLOCK, real_time_factor=1.0)
    g.set_record_settings(params=False, rng=False, inputs=False, state=True, output=True)
    gs = g.init(jax.random.PRNGKey(0)); g.warmup(gs, jit_step=False)
    gs, ss = g.reset(gs)
    for i in range(job["steps"]): gs, ss = g.step(gs)
    time.sleep(0.2); g.stop()
    r = g.get_record(); rows = {}
    for n, nr in r.nodes.items():
        st = nr.steps
        rows[n] = dict(seq=[int(x) for x in st.seq], ts_start=[float(x) for x in st.ts_start], ts_end=[float(x) for x in st.ts_end],
                       delay=[float(x) for x in st.delay], phase_overwrite=[float(x) for x in st.phase_overwrite])
    return dict(id=job["id"], rows=rows, shift=shift)


def run_job(job):
    if job.get("kind") == "wallclock_stamp": return run_wallclock_stamp(job)
    if "history" in job: return run_history(job)
    cfg = dict(job["cfg"], **job.get("cfg_over", {})); rec = job.get("record", dict(params=False, rng=False, inputs=True, state=True, output=True))
    N = build(cfg)
    nph, cph = phases(cfg, N)
    clock = const.Clock.SIMULATED if job.get("clock", "sim") == "sim" else const.Clock.WALL_CLOCK
    rtf = job.get("rtf", 0)
    g = ra.AsyncGraph(N, N[cfg["sup"]], clock=clock,
                      real_time_factor=const.RealTimeFactor.FAST_AS_POSSIBLE if rtf == 0 else float(rtf))
    kw = {k: rec[k] for k in ("params", "rng", "inputs", "state", "output") if k in rec}
    if rec.get("max_records") is not None: kw["max_records"] = rec["max_records"]
    g.set_record_settings(**kw)
    gs0 = g.init(jax.random.PRNGKey(job.get("seed", 0)))
    del HOSTLOG[:]
    g.warmup(gs0, jit_step=bool(job.get("jit", False)), verbose=bool(job.get("warmup_verbose", False)))
    calls_warmup = host_calls(N)        # warm-up (without profiling) compiles and samples; it does not execute any step function
    episodes = []
    ra._verif_hook = Perturb(job["perturb"]) if job.get("perturb") else None
    sup = cfg["sup"]
    try:
        for ep in range(job.get("episodes", 1)):
            del HOSTLOG[:]
            gs_start = gs0.replace(eps=jnp.array(ep, dtype=jnp.int32)) if job.get("set_eps") else gs0
            if job.get("carry") and ep > 0: gs_start = gs        # the user restarts from the graph state the previous episode ended with
            gs = gs_start
            obs = []; user_calls = 0
            drive = job.get("drive", "reset_step"); steps = job["steps"][ep] if isinstance(job["steps"], list) else job["steps"]
            if drive == "run":
                for i in range(steps): gs = g.run(gs)
            elif drive == "reset_step":
                gs, ss = g.reset(gs); obs.append(canon_ss(ss))
                for i in range(steps):
                    gs, ss = g.step(gs); obs.append(canon_ss(ss))
                    if job.get("record_mid") is not None and i == job["record_mid"]:
                        try: g.get_record()          # the user looks at the record while the episode is still running, then goes on
                        except TypeError: pass
            elif drive == "override":
                gs, ss = g.reset(gs); obs.append(canon_ss(ss))
                for i in range(steps):
                    nlog = len(HOSTLOG)
                    new_ss, out = N[sup].step(ss)       # the user computes the supervisor's step himself
                    user_calls += 1
                    gs, ss = g.step(gs, new_ss, out); obs.append(canon_ss(ss))
            t0 = time.time(); g.stop(); tstop = time.time() - t0
            ep_phases = phases(cfg, N)
            if job.get("between") and ep == 0:
                # the user re-configures expected delays between two episodes of the same graph object (no new warmup)
                for tgt, val in job["between"].items():
                    if ">" in tgt:
                        o, i = tgt.split(">"); N[i].inputs[o].set_delay(delay=val * T)
                    else: N[tgt].set_delay(delay=val * T)
            calls = host_calls(N)
            try:
                r = g.get_record(); c = canon_record(cfg, r, rec)
            except TypeError as e:
                c = dict(error="record_unavailable:" + str(e)[:80])
            episodes.append(dict(record=c, obs=obs, calls=calls, user_calls=user_calls, stop_s=round(tstop, 3), node_phase=ep_phases[0], conn_phase=ep_phases[1],
                                 eps_counter=int(g._async_nodes[sup].eps) if hasattr(g._async_nodes[sup], "eps") else None))
    finally:
        ra._verif_hook = None
    return dict(id=job["id"], node_phase=nph, conn_phase=cph, episodes=episodes, calls_warmup=[c[:2] for c in calls_warmup][:40])


def main():
    jobs = json.load(open(sys.argv[1])); out = open(sys.argv[2], "a")
    for job in jobs:
        out.write(json.dumps(dict(id=job["id"], started=True)) + "\n"); out.flush()
        try:
            res = run_job(job)
        except RecursionError:
            res = dict(id=job["id"], error="RecursionError")
        except (ValueError, NotImplementedError, AssertionError) as e:
            res = dict(id=job["id"], error=f"{type(e).__name__}:{str(e)[:200]}")
        except Exception as e:  # noqa
            import traceback
            res = dict(id=job["id"], error=f"{type(e).__name__}:{str(e)[:200]}", tb=traceback.format_exc()[-1500:])
        out.write(json.dumps(res) + "\n"); out.flush()
    out.close()
    os._exit(0)   # executor threads of a wedged graph must not keep the process alive


if __name__ == "__main__":
    main()
