"""Common machinery of the /verif checks: Coq build, kernel translation, Props compilation with
Print Assumptions capture, model evaluation inside Coq (cases.v + vm_compute) or through the extracted
OCaml runner, verdicts, known findings and evidence files."""
import fcntl, hashlib, json, os, random, re, subprocess, sys, time

VERIF = os.path.dirname(os.path.dirname(os.path.abspath(__file__)))
REPO = os.environ.get("VERIF_REPO", "/repo")
COQ = os.path.join(VERIF, "coq")
WORK = os.path.join(VERIF, "_work")
PY = "/venv/bin/python"

CHILD_ENV = dict(os.environ, PYTHONPATH=REPO, JAX_PLATFORMS="cpu", PYTHONHASHSEED="0", REX_VERIF="1",
                 XLA_FLAGS="--xla_force_host_platform_device_count=1", PYTHONWARNINGS="ignore")

FORBIDDEN = re.compile(r"\b(Admitted|admit|Axiom|Axioms|Parameter|Parameters|Conjecture|Conjectures|Admit Obligations|"
                       r"Unset Guard Checking|Unset Positivity Checking|Unset Universe Checking|bypass_check|"
                       r"type-in-type|impredicative-set|native_compute)\b")


def sh(cmd, timeout=1200, cwd=None, env=None, inp=None):
    t = time.time()
    try:
        p = subprocess.run(cmd, shell=isinstance(cmd, str), cwd=cwd, env=env, input=inp, capture_output=True, text=True,
                           timeout=timeout)
        return p.returncode, p.stdout, p.stderr, time.time() - t
    except subprocess.TimeoutExpired as e:
        return 124, (e.stdout or b"").decode() if isinstance(e.stdout, bytes) else (e.stdout or ""), "TIMEOUT", time.time() - t


class Lock:
    def __init__(self, name="build"):
        os.makedirs(WORK, exist_ok=True)
        self.path = os.path.join(WORK, name + ".lock")

    def __enter__(self):
        self.f = open(self.path, "w")
        fcntl.flock(self.f, fcntl.LOCK_EX)
        return self

    def __exit__(self, *a):
        fcntl.flock(self.f, fcntl.LOCK_UN)
        self.f.close()


# ------------------------------------------------------------------ Coq
def strip_comments(src):
    out = []; depth = 0; i = 0
    while i < len(src):
        if src.startswith("(*", i): depth += 1; i += 2; continue
        if src.startswith("*)", i) and depth > 0: depth -= 1; i += 2; continue
        if depth == 0: out.append(src[i])
        i += 1
    return "".join(out)


def hygiene():
    """step 0 of every check: no Admitted/admit/Axiom/Parameter/... anywhere in the development"""
    bad = []
    for root, _, files in os.walk(COQ):
        for f in files:
            if f.endswith(".v"):
                p = os.path.join(root, f)
                src = strip_comments(open(p).read())
                src = re.sub(r'"[^"]*"', '""', src)
                for m in FORBIDDEN.finditer(src):
                    bad.append(f"{os.path.relpath(p, VERIF)}: {m.group(0)}")
                # a Variable / Hypothesis / Context outside a Section declares an axiom
                stack = []
                for m in re.finditer(r"(?m)^\s*(Section|Module Type|Module|End|Variables?|Hypothes[ie]s|Context)\b\s*([\w']*)", src):
                    kw, nm = m.group(1), m.group(2)
                    if kw == "Section": stack.append(("S", nm))
                    elif kw.startswith("Module"):
                        line = src[m.start():src.find(".", m.start())]
                        if ":=" not in line: stack.append(("M", nm))
                    elif kw == "End":
                        if stack: stack.pop()
                    elif not any(k == "S" for k, _ in stack):
                        bad.append(f"{os.path.relpath(p, VERIF)}: {kw} outside a Section")
    return bad


def coq_make(jobs=16, timeout=3000):
    """full .vo build of the static development (never -vos); incremental when nothing changed"""
    with Lock():
        want = "-Q . Rex\n" + "\n".join(sorted(f for f in os.listdir(COQ) if f.endswith(".v") and not f.startswith("Extract"))) + "\n"
        cp = os.path.join(COQ, "_CoqProject")
        if not os.path.exists(cp) or open(cp).read() != want: open(cp, "w").write(want)
        if not os.path.exists(os.path.join(COQ, "Makefile")) or \
                os.path.getmtime(os.path.join(COQ, "Makefile")) < os.path.getmtime(os.path.join(COQ, "_CoqProject")):
            rc, o, e, _ = sh("coq_makefile -f _CoqProject -o Makefile", cwd=COQ)
            if rc: return False, o + e
        rc, o, e, dt = sh(f"timeout {timeout} make -j{jobs} 2>&1", cwd=COQ, timeout=timeout + 30)
        return rc == 0, o + e


def coqc(relpath, timeout=600, cwd=COQ, extra=""):
    """compile one file of the development (used for Generated/, Ties and Props, which are rebuilt on every run)"""
    rc, o, e, dt = sh(f"timeout {timeout} coqc -Q . Rex {extra} {relpath} 2>&1", cwd=cwd, timeout=timeout + 30)
    return rc == 0, o + e, dt


def translate(kernels):
    """regenerate coq/Generated/<K>.v from /repo's current source for every kernel group K in `kernels`, compile it and
    its tie file coq/Ties/<K>Tie.v. Returns list of dicts {kernel, ok, stage, log}"""
    res = []
    with Lock():
        for k in kernels:
            gen = os.path.join(COQ, "Generated", f"{k}.v")
            os.makedirs(os.path.dirname(gen), exist_ok=True)
            rc, o, e, _ = sh([sys.executable, os.path.join(VERIF, "tools", "kernel_translate.py"), k, REPO, gen], timeout=120)
            if rc != 0:
                res.append(dict(kernel=k, ok=False, stage="translate", log=(o + e)[-1500:])); continue
            ok, log, _ = coqc(f"Generated/{k}.v")
            if not ok:
                res.append(dict(kernel=k, ok=False, stage="compile-generated", log=log[-1500:])); continue
            ok, log, _ = coqc(f"Ties/{k}Tie.v")
            lemmas = re.findall(r"^\s*(?:Lemma|Theorem)\s+(\w+)", open(os.path.join(COQ, "Ties", f"{k}Tie.v")).read(), re.M)
            res.append(dict(kernel=k, ok=ok, stage="tie", log="" if ok else log[-1500:], lemmas=lemmas))
    return res


def props(pid):
    """compile coq/Props/<pid>.v, return (ok, theorems, assumptions{thm: [axioms]}, log)"""
    path = os.path.join(COQ, "Props", f"{pid}.v")
    src = open(path).read()
    thms = re.findall(r"^\s*(?:Theorem|Example)\s+(\w+)", strip_comments(src), re.M)
    with Lock():
        ok, log, dt = coqc(f"Props/{pid}.v", timeout=900)
    assum = {}
    # Print Assumptions output blocks follow in order of the Print Assumptions commands
    cmds = re.findall(r"Print Assumptions\s+(\w+)\s*\.", strip_comments(src))
    blocks = re.split(r"(?m)^(?=Closed under the global context|Axioms:)", log)
    blocks = [b for b in blocks if b.startswith("Closed under") or b.startswith("Axioms:")]
    for c, b in zip(cmds, blocks):
        if b.startswith("Closed under"): assum[c] = []
        else: assum[c] = sorted(set(n for n in re.findall(r"(?m)^([A-Za-z_][\w.']*)(?=\s*:|\s*$)", b) if n != "Axioms"))
    return ok, thms, assum, log


def coqchk(pid):
    """re-check Props/<pid>.vo and everything it depends on with the independent checker; returns
    (ok, axioms, log). The context summary must report no type-in-type, no unsafe fixpoints, no assumed positivity."""
    try:
        r = subprocess.run(["coqchk", "-silent", "-o", "-Q", ".", "Rex", f"Rex.Props.{pid}"], cwd=COQ,
                           capture_output=True, text=True, timeout=1800)
        log = r.stdout + r.stderr
    except subprocess.TimeoutExpired:
        return False, [], "coqchk timed out"
    ok = r.returncode == 0
    m = re.search(r"\* Axioms:(.*?)\n\s*\n?\* Constants", log, re.S)
    axioms = [] if not m or "<none>" in m.group(1) else [x.strip() for x in m.group(1).strip().splitlines() if x.strip()]
    for key in ("relying on type-in-type", "relying on unsafe (co)fixpoints", "positivity is assumed"):
        mm = re.search(re.escape(key) + r":\s*(.*)", log)
        if not mm or "<none>" not in mm.group(1): ok = False
    return ok, axioms, log


ALLOWED_AXIOMS = {
    "ClassicalDedekindReals.sig_forall_dec", "ClassicalDedekindReals.sig_not_dec",
    "FunctionalExtensionality.functional_extensionality_dep", "Classical_Prop.classic",
}


# ------------------------------------------------------------------ model evaluation inside Coq
UNARY_CTORS = {"Some", "Leaf", "Node", "inl", "inr"}


def parse_coq_value(txt):
    """parse the printed value of `Eval vm_compute in (e : list (list Z))`-like terms (nested lists of integers,
    booleans, options, pairs) into python objects"""
    m = re.search(r"=\s*(.*)\n\s*:\s", txt, re.S)
    if not m: raise ValueError("no value in coq output: " + txt[-800:])
    s = m.group(1)
    s = s.replace("%Z", "").replace("%nat", "").replace("%positive", "").replace("%N", "")
    s = re.sub(r"\s+", " ", s)
    toks = re.findall(r"\[|\]|\(|\)|;|,|-?\d+|#|[A-Za-z_][\w']*", s)
    pos = 0

    def atom():
        nonlocal pos
        t = toks[pos]
        if t == "[":
            pos += 1; items = []
            if toks[pos] == "]": pos += 1; return items
            while True:
                items.append(expr())
                if toks[pos] == ";": pos += 1; continue
                if toks[pos] == "]": pos += 1; return items
                raise ValueError("list syntax at %d: %s" % (pos, toks[pos - 3:pos + 3]))
        if t == "(":
            pos += 1; items = [expr()]
            while toks[pos] == ",": pos += 1; items.append(expr())
            assert toks[pos] == ")", toks[pos - 3:pos + 3]
            pos += 1
            return items[0] if len(items) == 1 else tuple(items)
        if re.fullmatch(r"-?\d+", t): pos += 1; return int(t)
        if t == "-":
            pos += 1; return -atom()
        if t in ("true", "false"): pos += 1; return t == "true"
        if t == "None": pos += 1; return None
        if t in UNARY_CTORS: pos += 1; return (t, atom())
        pos += 1
        return t

    def expr():
        nonlocal pos
        a = atom()
        if pos < len(toks) and toks[pos] == "#":
            pos += 1; b = atom(); return ("Q", a, b)
        return a
    v = expr()
    return v


def coq_eval(name, header, term, timeout=900, shard=None):
    """write _work/cases/<name>.v = header + `Eval vm_compute in term.`, compile, parse the printed value"""
    d = os.path.join(WORK, "cases"); os.makedirs(d, exist_ok=True)
    fn = name + ("" if shard is None else f"_{shard}")
    open(os.path.join(d, fn + ".v"), "w").write(header + "\nEval vm_compute in (" + term + ").\n")
    rc, o, e, dt = sh(f"ulimit -s unlimited 2>/dev/null; timeout {timeout} coqc -Q {COQ} Rex -Q . Cases {fn}.v 2>&1", cwd=d,
                      timeout=timeout + 30)
    if rc != 0: raise RuntimeError(f"coqc failed on generated cases {fn}.v:\n{(o + e)[-2000:]}")
    return parse_coq_value(o)


def coq_eval_sharded(name, header, fn_name, case_terms, per=300, timeout=900):
    """evaluate `map fn_name [cases]` in shards, in parallel"""
    import concurrent.futures as cf
    shards = [case_terms[i:i + per] for i in range(0, len(case_terms), per)]
    out = [None] * len(shards)
    with cf.ThreadPoolExecutor(max_workers=8) as ex:
        futs = {ex.submit(coq_eval, name, header, f"List.map {fn_name} [" + ";\n".join(s) + "]", timeout, i): i
                for i, s in enumerate(shards)}
        for f in cf.as_completed(futs): out[futs[f]] = f.result()
    return [r for s in out for r in s]


def zlit(n): return f"({int(n)})%Z"
def qlit(fr):
    from fractions import Fraction
    fr = Fraction(fr)
    return f"({fr.numerator} # {fr.denominator})%Q"
def listlit(xs): return "[" + "; ".join(xs) + "]"
def boollit(b): return "true" if b else "false"
def optlit(x, f): return "None" if x is None else f"(Some {f(x)})"


def qval(v):
    """python Fraction of a parsed Q value"""
    from fractions import Fraction
    if isinstance(v, tuple) and v and v[0] == "Q": return Fraction(v[1], v[2])
    if isinstance(v, int): return Fraction(v)
    raise ValueError(v)


# ------------------------------------------------------------------ OCaml runner
def ocaml_build():
    """extract (ExtrOcamlBasic only) and build ocaml/rexmodel (threaded-runtime model) and ocaml/rexmodel3 (compiled-runtime model)"""
    with Lock():
        od = os.path.join(VERIF, "ocaml")
        vos = [os.path.join(COQ, f) for f in os.listdir(COQ) if f.endswith(".vo")]
        for (ext, ml, drv, binn) in (("Extract.v", "model", "driver.ml", "rexmodel"), ("Extract3.v", "cmodel", "driver3.ml", "rexmodel3")):
            if not os.path.exists(os.path.join(COQ, ext)): continue
            binp = os.path.join(od, binn)
            srcs = [os.path.join(COQ, ext), os.path.join(od, drv)] + vos
            if os.path.exists(binp) and all(os.path.getmtime(binp) >= os.path.getmtime(s) for s in srcs if os.path.exists(s)): continue
            ok, log, _ = coqc(ext, cwd=COQ)
            if not ok: return False, log
            for f in (ml + ".ml", ml + ".mli"):
                os.replace(os.path.join(COQ, f), os.path.join(od, f))
            rc, o, e, _ = sh(f"ocamlfind ocamlopt -O2 -w -a {ml}.mli {ml}.ml {drv} -o {binn} 2>&1 || "
                             f"ocamlfind ocamlopt -w -a {ml}.mli {ml}.ml {drv} -o {binn} 2>&1", cwd=od, timeout=600)
            if rc != 0: return False, o + e
        return True, ""


def run_model(args, inp, timeout=600, binary="rexmodel"):
    rc, o, e, dt = sh([os.path.join(VERIF, "ocaml", binary)] + list(args), inp=inp, timeout=timeout)
    if rc != 0: raise RuntimeError("rexmodel failed: " + (o + e)[-2000:])
    return o


# ------------------------------------------------------------------ findings, verdict, evidence
def load_findings():
    p = os.path.join(VERIF, "known_findings.json")
    if not os.path.exists(p): return []
    return json.load(open(p))["findings"]


class Check:
    """one run of one property check; collects obligations, cases, violations; writes evidence; prints verdict"""

    def __init__(self, pid, tier, seed):
        self.pid, self.tier, self.seed = pid, tier, seed
        self.t0 = time.time()
        self.rnd = random.Random(seed * 1000003 + int(pid[1:]))
        self.obligations = []      # (name, ok, detail)
        self.violations = []       # dict(signature, what, case, kind)
        self.broken = []           # names of theorems / ties / correspondences that no longer check
        self.evals = 0
        self.nontrivial = set()
        self.samples = []
        self.features = {}
        self.traces_impl = 0
        self.assumptions = {}
        self.notes = []
        self.trusted = []
        self.extra = {}

    # --- bookkeeping
    def case(self, key, nontrivial_feats=(), sample=None):
        self.evals += 1
        for f in nontrivial_feats: self.features[f] = self.features.get(f, 0) + 1
        if nontrivial_feats:
            self.nontrivial.add(hashlib.sha1(repr(key).encode()).hexdigest())
        if sample is not None and len(self.samples) < 4: self.samples.append(sample)

    def feat(self, f, n=1): self.features[f] = self.features.get(f, 0) + n

    def violation(self, signature, what, case, impl_confirmed=True):
        self.violations.append(dict(signature=signature, what=what, case=case, impl_confirmed=impl_confirmed))

    def broke(self, name, detail=""):
        self.broken.append((name, detail))

    # --- standard first stage
    def stage_proofs(self, kernels=()):
        bad = hygiene()
        self.obligations.append(("hygiene:no-admitted-no-axiom", not bad, "; ".join(bad[:5])))
        if bad: self.broke("hygiene", "; ".join(bad[:5]))
        ok, log = coq_make()
        self.obligations.append(("coq-development-builds", ok, "" if ok else log[-1500:]))
        if not ok:
            self.broke("coq-build", log[-1500:]); return
        for r in translate(kernels):
            names = r.get("lemmas") or [r["kernel"]]
            for nm in names:
                self.obligations.append((f"tie:{r['kernel']}.{nm}", r["ok"], r["log"]))
            if not r["ok"]: self.broke(f"tie:{r['kernel']} ({r['stage']})", r["log"])
        ok, thms, assum, log = props(self.pid)
        for t in thms: self.obligations.append((f"Props/{self.pid}.v:{t}", ok, ""))
        if not ok: self.broke(f"Props/{self.pid}.v", log[-1500:])
        self.assumptions = assum
        for t, ax in assum.items():
            for a in ax:
                if a not in ALLOWED_AXIOMS:
                    self.broke(f"axiom:{a} used by {t}", "not in the declared trusted base")
        if ok and self.tier == "thorough" and os.environ.get("VERIF_NO_COQCHK") != "1":
            cok, axioms, clog = coqchk(self.pid)
            self.obligations.append((f"coqchk:Rex.Props.{self.pid}", cok, "" if cok else clog[-1500:]))
            self.extra["coqchk_axioms"] = axioms
            if not cok: self.broke(f"coqchk:Rex.Props.{self.pid}", clog[-1500:])
            for a in axioms:
                if not any(a.endswith(x) for x in ALLOWED_AXIOMS):
                    self.broke(f"axiom:{a} (coqchk)", "not in the declared trusted base")

    # --- finish
    def finish(self):
        findings = load_findings()
        known = [f for f in findings if f.get("property") == self.pid and f.get("status", "open") == "open"]
        out = []
        unknown = []
        seen_known = {}
        for v in self.violations:
            k = next((f for f in known if f["signature"] == v["signature"]), None)
            if k is not None: seen_known.setdefault(k["signature"], (k, v))
            else: unknown.append(v)
        for sig, (k, v) in seen_known.items():
            out.append(f"KNOWN-FINDING: property={self.pid} {k['what']}")
        rc = 0
        rdir = os.path.join(VERIF, "replays", self.pid); os.makedirs(rdir, exist_ok=True)
        if unknown:
            # one VIOLATION line per distinct signature
            done = set()
            for v in unknown:
                if v["signature"] in done or len(done) >= 5: continue
                done.add(v["signature"])
                h = hashlib.sha1(json.dumps(v, sort_keys=True, default=str).encode()).hexdigest()[:12]
                path = os.path.join(rdir, f"{h}.json")
                json.dump(dict(property=self.pid, seed=self.seed, tier=self.tier, **v,
                               broken=[b[0] for b in self.broken]), open(path, "w"), indent=1, default=str)
                out.append(f"VIOLATION property={self.pid} replay={path}")
            rc = 1
        elif self.broken:
            h = hashlib.sha1(json.dumps(self.broken, default=str).encode()).hexdigest()[:12]
            path = os.path.join(rdir, f"unchecked-{h}.json")
            json.dump(dict(property=self.pid, seed=self.seed, tier=self.tier, no_longer_checks=[b[0] for b in self.broken],
                           details=[b[1] for b in self.broken],
                           note="a theorem, tie lemma or correspondence no longer checks; the search over the model and the "
                                "implementation found no concrete failing input"), open(path, "w"), indent=1, default=str)
            out.append(f"VIOLATION property={self.pid} replay={path} no-failing-input-found")
            rc = 1
        self.write_evidence(len(unknown) + (1 if (self.broken and not unknown) else 0), [k for k in seen_known])
        for l in out: print(l)
        if rc == 0:
            print(f"OK property={self.pid} tier={self.tier} seed={self.seed} obligations={len(self.obligations)} "
                  f"cases={self.evals} nontrivial={len(self.nontrivial)} wall={time.time() - self.t0:.1f}s")
        return rc

    def write_evidence(self, nviol, known_seen):
        ax = sorted({a for v in self.assumptions.values() for a in v})
        tb = ["Coq 8.16.1 kernel (coqc, full .vo build; vm_compute used in Examples/_refuted witnesses and in the "
              "model-evaluation step of the correspondence; no native_compute)",
              "axioms reported by Print Assumptions in this run: " + (", ".join(ax) if ax else
                                                                     "none (all theorems closed under the global context)"),
              "correspondence harness (/verif/harness), case generator, canonicalisation; CPython 3.12 / JAX / numpy as installed",
              "kernel translator tools/kernel_translate.py (fail-closed Python-ast -> Coq)"] + self.trusted
        ev = dict(property_id=self.pid, tier=self.tier, seed=self.seed, level="proof",
                  coverage=dict(obligations=len(self.obligations), discharged=sum(1 for o in self.obligations if o[1]),
                                checker_cmd=f"./check {self.pid} --tier {self.tier}", trusted_base=tb,
                                obligation_list=[dict(name=o[0], ok=o[1]) for o in self.obligations],
                                print_assumptions=self.assumptions,
                                evaluations=self.evals, distinct_nontrivial=len(self.nontrivial),
                                rule=self.extra.pop("rule", ""), samples=self.samples or ["(no cases in this run)"],
                                traces_validated_against_impl=self.traces_impl, features=self.features,
                                known_findings_seen=known_seen, no_longer_checks=[b[0] for b in self.broken], **self.extra),
                  assumptions=self.notes, wall_s=round(time.time() - self.t0, 2), violations=nviol)
        # evidence/ describes runs against /repo itself; runs against a scratch copy (VERIF_REPO) are kept apart
        # evidence/ describes full runs against /repo itself; runs against a scratch copy and single-case replays go to the scratch directory
        edir = os.path.join(VERIF, "evidence") if (os.path.realpath(REPO) == "/repo" and not getattr(self, "replay", None)) else os.path.join(WORK, "evidence_scratch")
        os.makedirs(edir, exist_ok=True)
        json.dump(ev, open(os.path.join(edir, f"{self.pid}.json"), "w"), indent=1, default=str)
