"""Parent-side helpers for the threaded-runtime properties (C01-C06, C13): lattice graph generator, watchdogged child
processes running AsyncGraph (async_worker.py), the extracted M1 model, and comparison of canonical traces."""
import json, os, random, subprocess, sys, time, tempfile, shutil
from . import lib

WORKER = os.path.join(lib.VERIF, "harness", "async_worker.py")


# ------------------------------------------------------------------ generator
def gen_cfg(rnd, max_nodes=4, allow_advance=True, steps=None):
    k = rnd.choice([2, 3, 3, 4][:max(1, max_nodes - 1)] or [2])
    k = min(k, max_nodes)
    periods = [rnd.choice([2, 4, 8, 16]) for _ in range(k)]
    nodes = {}
    for i in range(k):
        P = periods[i]
        delays = [rnd.choice([0, 1, 1, 2, P // 2, P, P + 1, 2 * P]) for _ in range(rnd.choice([1, 2, 3, 5]))]
        nodes[f"n{i}"] = dict(nid=i, period=P, exp=rnd.choice([0, 1, 2]), delays=delays, advance=False,
                              sched=rnd.choice(["FREQ", "PHASE"]))
    conns = {}

    def mk(o, i, skip):
        if rnd.random() < 0.3:
            # heavy jitter: one slow message overtaken (and held back by FIFO) by several fast ones
            Pm = periods[o]
            delays = [rnd.choice([2, 3]) * Pm + rnd.choice([0, 1])] + [rnd.choice([0, 0, 1]) for _ in range(rnd.choice([2, 3, 4]))]
        else:
            delays = [rnd.choice([0, 0, 1, 2, 3, 5]) for _ in range(rnd.choice([1, 2, 4]))]
        conns[f"n{o}>n{i}"] = dict(out=f"n{o}", **{"in": f"n{i}"}, blocking=rnd.random() < 0.35, skip=skip,
                                   jitter=rnd.choice(["LATEST", "LATEST", "BUFFER"]), window=rnd.choice([1, 2, 3]),
                                   exp=rnd.choice([0, 1, 2]), delays=delays)
    for i in range(1, k):
        for o in range(0, i):
            if rnd.random() < 0.6 or o == i - 1: mk(o, i, False)
    for o in range(1, k):
        for i in range(0, o):
            if rnd.random() < 0.4: mk(o, i, True)
    if allow_advance:
        for n, nd in nodes.items():
            ins = [c for c in conns.values() if c["in"] == n]
            if ins and any(c["blocking"] for c in ins) and rnd.random() < 0.4: nd["advance"] = True
    sup = f"n{rnd.randrange(k)}"
    return dict(nodes=nodes, conns=conns, sup=sup, steps=steps or rnd.choice([6, 9, 12]))


def features(cfg):
    f = set()
    C = cfg["conns"].values(); N = cfg["nodes"].values()
    if any(c["blocking"] for c in C): f.add("blocking")
    if any(c["skip"] for c in C): f.add("skip")
    if any(c["jitter"] == "BUFFER" for c in C): f.add("buffer-jitter")
    if any(c["jitter"] == "BUFFER" and c["skip"] for c in C): f.add("buffer+skip")
    if any(c["window"] > 1 for c in C): f.add("window>1")
    if any(n["advance"] for n in N): f.add("advance")
    if any(n["sched"] == "PHASE" for n in N): f.add("phase-sched")
    if any(max(n["delays"]) > n["period"] for n in N): f.add("overrun")
    if any(0 in n["delays"] for n in N) or any(0 in c["delays"] for c in C): f.add("zero-delay")
    if any(len(set(c["delays"])) > 1 for c in C): f.add("comm-jitter")
    if any(max(c["delays"]) - min(c["delays"]) >= 2 * cfg["nodes"][c["out"]]["period"] for c in C): f.add("overtaking-jitter")
    return sorted(f)


# ------------------------------------------------------------------ implementation runs (child processes, watchdog)
def run_jobs(jobs, nproc=6, per_job_timeout=40, start_timeout=90, worker=None):
    """run jobs in `nproc` child processes; a job that does not finish within per_job_timeout is reported as HANG and the
    child is killed and restarted on the remaining jobs. Returns {id: result}"""
    import concurrent.futures as cf
    chunks = [jobs[i::nproc] for i in range(nproc)]
    results = {}

    def run_chunk(chunk):
        out = {}
        todo = list(chunk)
        while todo:
            d = tempfile.mkdtemp(prefix="aw_", dir=lib.WORK)
            jf, of = os.path.join(d, "jobs.json"), os.path.join(d, "out.jsonl")
            json.dump(todo, open(jf, "w")); open(of, "w").close()
            p = subprocess.Popen([sys.executable, worker or WORKER, jf, of], env=dict(lib.CHILD_ENV, VERIF_REPO=lib.REPO),
                                 stdout=subprocess.DEVNULL, stderr=subprocess.PIPE)
            last_n = 0; last_t = time.time(); started_any = False
            hung = None
            while True:
                time.sleep(0.2)
                lines = open(of).read().splitlines()
                if len(lines) != last_n: last_n = len(lines); last_t = time.time(); started_any = True
                if p.poll() is not None: break
                lim = per_job_timeout if started_any else start_timeout
                if time.time() - last_t > lim:
                    p.kill(); p.wait(); hung = True; break
            lines = [json.loads(l) for l in open(of).read().splitlines() if l.strip()]
            done_ids = set()
            for l in lines:
                if not l.get("started"): out[l["id"]] = l; done_ids.add(l["id"])
            started = [l["id"] for l in lines if l.get("started")]
            if hung or p.returncode not in (0, None):
                cur = next((i for i in started if i not in done_ids), None)
                if cur is not None:
                    err = "" if hung else (p.stderr.read().decode()[-800:] if p.stderr else "")
                    out[cur] = dict(id=cur, error="HANG" if hung else f"CRASH rc={p.returncode} {err}"); done_ids.add(cur)
                elif not hung and not started:
                    err = p.stderr.read().decode()[-800:] if p.stderr else ""
                    for j in todo: out[j["id"]] = dict(id=j["id"], error=f"CRASH rc={p.returncode} {err}")
                    done_ids |= {j["id"] for j in todo}
            shutil.rmtree(d, ignore_errors=True)
            todo = [j for j in todo if j["id"] not in done_ids]
        return out
    with cf.ThreadPoolExecutor(max_workers=nproc) as ex:
        for o in ex.map(run_chunk, [c for c in chunks if c]): results.update(o)
    return results


# ------------------------------------------------------------------ model runs (extracted OCaml)
def model_case_text(cfg, node_phase, conn_phase, limits, seed):
    names = sorted(cfg["nodes"]); idx = {n: i for i, n in enumerate(names)}
    L = [f"{len(names)} {len(cfg['conns'])}"]
    for n in names:
        nd = cfg["nodes"][n]
        L.append(" ".join(map(str, [nd["period"], node_phase[n], int(nd["advance"]), int(nd["sched"] == "FREQ"), nd["nid"],
                                    len(nd["delays"])] + nd["delays"])))
    cn = list(cfg["conns"])
    for c in cn:
        cc = cfg["conns"][c]
        L.append(" ".join(map(str, [idx[cc["out"]], idx[cc["in"]], int(cc["blocking"]), int(cc["skip"]), int(cc["jitter"] == "BUFFER"),
                                    cc["window"], conn_phase[c], len(cc["delays"])] + cc["delays"])))
    L.append(" ".join(str(limits[n]) for n in names)); L.append(str(seed))
    return "\n".join(L), names, cn


def run_model(cases):
    """cases: list of (cfg, node_phase, conn_phase, limits, seed) -> list of dict(rows={node: [(seq,start,end,state,out,wins)]},
    msgs={conn: [(out,in,sent,recv)]}); wins = {sender: [[seq,sent,recv,pay]..]}"""
    texts = []; meta = []
    for (cfg, nph, cph, limits, seed) in cases:
        t, names, cn = model_case_text(cfg, nph, cph, limits, seed); texts.append(t); meta.append((cfg, names, cn))
    out = lib.run_model(["async"], f"{len(cases)}\n" + "\n".join(texts) + "\n")
    res = []; cur = None
    for line in out.splitlines():
        p = line.split()
        if p[0] == "CASE":
            cfg, names, cn = meta[int(p[1])]
            cur = dict(rows={n: [] for n in names}, msgs={c: [] for c in cn}); res.append(cur); curmeta = (cfg, names, cn)
        elif p[0] == "ROW":
            cfg, names, cn = curmeta
            n = names[int(p[1])]; vals = list(map(int, p[2:7])); rest = p[7:]
            ins = [c for c in cn if cfg["conns"][c]["in"] == n]
            wins = {}; i = 0; wi = 0
            while i < len(rest):
                assert rest[i] == "W"; ln = int(rest[i + 1]); ent = list(map(int, rest[i + 2:i + 2 + 4 * ln]))
                wins[cfg["conns"][ins[wi]]["out"]] = [ent[4 * j:4 * j + 4] for j in range(ln)]
                i += 2 + 4 * ln; wi += 1
            cur["rows"][n].append(tuple(vals) + (wins,))
        else:
            cfg, names, cn = curmeta
            cur["msgs"][cn[int(p[1])]].append(tuple(map(int, p[2:])))
    return res


# ------------------------------------------------------------------ comparison
def impl_rows(ep, n):
    """impl record rows of node n as list of (seq,start,end,state,out,wins)"""
    c = ep["record"]["rows"][n]; T = len(c["seq"])
    return [(c["seq"][k], c["start"][k], c["end"][k], c.get("state", [None] * T)[k], c.get("out", [None] * T)[k] if k < len(c.get("out", [])) else None,
             (c["wins"][k] if "wins" in c else None)) for k in range(T)]


def compare_episode(cfg, ep, mod):
    """first difference between an implementation episode and a model run, or None"""
    for n in sorted(cfg["nodes"]):
        ir = impl_rows(ep, n); mr = mod["rows"][n]
        if len(mr) < len(ir): return f"node {n}: model produced {len(mr)} rows, implementation {len(ir)}"
        for k, (a, b) in enumerate(zip(ir, mr)):
            for fi, fname in enumerate(["seq", "ts_start", "ts_end", "state", "output", "windows"]):
                if a[fi] is None: continue
                if a[fi] != b[fi]:
                    return f"node {n} row {k} field {fname}: implementation {a[fi]} model {b[fi]}"
    for c in cfg["conns"]:
        im = [tuple(m[:4]) for m in ep["record"]["msgs"].get(c, [])]
        last = ep["record"]["rows"][cfg["conns"][c]["in"]]["seq"][-1]
        mm = [m for m in mod["msgs"][c] if m[1] <= last]
        if im != mm:
            k = next((i for i, (x, y) in enumerate(zip(im, mm)) if x != y), min(len(im), len(mm)))
            return f"conn {c} message {k}: implementation {im[k] if k < len(im) else None} model {mm[k] if k < len(mm) else None} (seq_out, seq_in, ts_sent, ts_recv)"
    return None


def limits_of(cfg, ep):
    return {n: len(ep["record"]["rows"][n]["seq"]) for n in cfg["nodes"]}


# ------------------------------------------------------------------ a standard suite of runs
FULLREC = dict(params=False, rng=True, inputs=True, state=True, output=True)


def async_suite(chk, n_graphs, variants, max_nodes=4, nproc=8, gen=None, model_seeds=(1,), per_job_timeout=60, retries=2, lenient=False):
    """Generate n_graphs lattice graphs; run each under every variant (dict name -> job overrides) on the implementation;
    run the model (one run per model seed = random actor order) with the row limits of the first variant.
    Returns list of dict(gid, cfg, runs={variant: episode-or-error}, phases, models=[...])"""
    rnd = chk.rnd
    graphs = []
    for g in range(n_graphs):
        cfg = (gen or gen_cfg)(random.Random(rnd.getrandbits(32)), max_nodes=max_nodes)
        graphs.append(dict(gid=g, cfg=cfg, runs={}, skipped=None))
    pending = list(graphs)
    for attempt in range(retries + 1):
        jobs = []
        for G in pending:
            for vn, ov in variants.items():
                j = dict(id=f"{G['gid']}:{vn}", cfg=G["cfg"], drive="reset_step", steps=G["cfg"]["steps"], record=dict(FULLREC))
                j.update(ov)
                if j.get("between") == "auto":
                    # change the expected delay of one node and of one non-skipped connection (phases downstream move)
                    import copy
                    rr = random.Random(G["gid"] * 7919 + 13); cfg2 = copy.deepcopy(G["cfg"]); bt = {}
                    if G["cfg"].get("_between"):
                        # the configuration family prescribes which expected delays the user changes between the episodes
                        for k_, v_ in G["cfg"]["_between"].items():
                            (cfg2["conns"] if ">" in k_ else cfg2["nodes"])[k_]["exp"] = v_; bt[k_] = v_
                        j["between"] = bt; G["between"] = bt; G["cfg_after"] = cfg2
                        jobs.append(j); continue
                    n = rr.choice(sorted(cfg2["nodes"])); cfg2["nodes"][n]["exp"] = cfg2["nodes"][n]["exp"] + rr.choice([1, 2, 3]); bt[n] = cfg2["nodes"][n]["exp"]
                    cs = sorted(k for k, c in cfg2["conns"].items() if not c["skip"])
                    # prefer a buffered-jitter connection: its expected arrivals (seq * period + phase) must follow the new delay as well
                    bs = [k for k in cs if cfg2["conns"][k]["jitter"] == "BUFFER" and not cfg2["conns"][k]["blocking"]]
                    if bs and rr.random() < 0.7: cs = bs
                    if cs:
                        k = rr.choice(cs); cfg2["conns"][k]["exp"] = cfg2["conns"][k]["exp"] + rr.choice([1, 2]); bt[k] = cfg2["conns"][k]["exp"]
                    j["between"] = bt; G["between"] = bt; G["cfg_after"] = cfg2
                jobs.append(j)
        res = run_jobs(jobs, nproc=nproc, per_job_timeout=per_job_timeout)
        again = []
        for G in pending:
            G["runs"] = {}
            bad = None
            for vn in variants:
                r = res.get(f"{G['gid']}:{vn}", dict(error="MISSING"))
                if "error" in r: G["runs"][vn] = r; bad = bad or r["error"]; continue
                G["node_phase"], G["conn_phase"] = r["node_phase"], r["conn_phase"]
                G["runs"][vn] = r
                if any("error" in ep["record"] for ep in r["episodes"]) and (vn == next(iter(variants)) or not lenient):
                    bad = bad or "record_unavailable"
            if bad == "record_unavailable" and attempt < retries:
                G["cfg"]["steps"] *= 2; again.append(G)   # a connection without a consumed message: lengthen the episode
            else:
                G["skipped"] = bad if bad and bad.startswith(("record_unavailable", "RecursionError", "ValueError", "NotImplementedError", "AssertionError")) else None
                G["failed"] = bad if bad and not G["skipped"] else None
        pending = again
        if not pending: break
    # model runs
    cases = []; idx = []
    v0 = next(iter(variants))
    for G in graphs:
        if G["skipped"] or G.get("failed"): continue
        r0 = G["runs"][v0]
        lim = {n: 0 for n in G["cfg"]["nodes"]}
        for vn in variants:
            for ep in G["runs"][vn]["episodes"]:
                if "error" in ep["record"]: continue
                for n, v in limits_of(G["cfg"], ep).items(): lim[n] = max(lim[n], v)
        for ms in model_seeds:
            cases.append((G["cfg"], G["node_phase"], G["conn_phase"], lim, ms)); idx.append(G)
        G["models"] = []
    if cases:
        for G, m in zip(idx, run_model(cases)): G["models"].append(m)
    return graphs


def canon_neg(ep):
    """negative window sequence numbers all mean 'default output': collapse to -1 (the model keeps -1 throughout)"""
    for n, c in ep["record"].get("rows", {}).items():
        for w in c.get("wins", []):
            for m in w: w[m] = [[max(e[0], -1)] + e[1:] for e in w[m]]
    for o in ep.get("obs", []):
        for m in o["wins"]: o["wins"][m] = [[max(e[0], -1)] + e[1:] for e in o["wins"][m]]
    return ep


# ------------------------------------------------------------------ supported class: does the dataflow itself reach the requested steps?
def cfg_phases(cfg):
    """phases without rex (longest expected-delay path over non-skipped connections), for configurations whose run did not finish"""
    def ph(n, depth=0):
        if depth > 60: raise RecursionError
        best = 0
        for c, cc in cfg["conns"].items():
            if cc["in"] == n and not cc["skip"]:
                best = max(best, ph(cc["out"], depth + 1) + cfg["nodes"][cc["out"]]["exp"] + cc["exp"])
        return best
    nph = {n: ph(n) for n in cfg["nodes"]}
    cph = {c: nph[cc["out"]] + cfg["nodes"][cc["out"]]["exp"] + cc["exp"] for c, cc in cfg["conns"].items()}
    return nph, cph


def model_reaches(cfg, steps):
    """run the extracted actor model (confluent: being stuck does not depend on the schedule) with rex's 10 look-ahead ticks per node and
    generous bounds on the free-running nodes: does the supervisor reach `steps`+1 observations?  False = the graph needs more look-ahead
    than rex provides (outside the supported class, see DESIGN C05), so a watchdog timeout on it is not a violation."""
    nph, cph = cfg_phases(cfg)
    sup = cfg["sup"]; Ps = cfg["nodes"][sup]["period"]
    horizon = (steps + 3) * Ps + 4 * max(max(n["delays"]) for n in cfg["nodes"].values()) * (steps + 3)
    lim = {n: (steps + 1 if n == sup else int(horizon // nd["period"]) + 30) for n, nd in cfg["nodes"].items()}
    m = run_model([(cfg, nph, cph, lim, 1)])[0]
    return len(m["rows"][sup]) >= steps + 1


def unsupported_hang(chk, cfg, r):
    """a run that did not finish on a graph whose dataflow needs more look-ahead than rex provides is outside the supported class (DESIGN C05)"""
    if not str(r.get("error", "")).startswith("HANG"): return False
    try: reach = model_reaches(cfg, cfg["steps"])
    except RecursionError: reach = False
    if not reach: chk.feat("outside-supported-class(model-needs-more-look-ahead)")
    return not reach
