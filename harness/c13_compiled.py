"""compiled-runtime half of C13: the same instance under different record settings gives the same execution (host log,
final graph state); every recorded row equals the host log row; rows never executed stay -1."""
import random, itertools, json
from . import compiledlib as cl, c07, asynclib as al

FLAGS = ("params", "rng", "inputs", "state", "output")


def run(chk):
    quick = chk.tier == "quick"
    # every record setting must see the SAME computation graph: recorded graphs differ from run to run in how far the free-running nodes got,
    # so only generated (deterministic) graphs are used here
    base = [j for j in c07.make_jobs(chk, 6 if quick else 24) if j["source"] == "generate" and not j["id"].startswith("s")][:2 if quick else 8]
    # a graph with sink nodes and prune=True: the sinks have no slot in the compiled graph; init_record must still work (regression of the
    # fixed finding init_record-raises: KeyError for a pruned node) and records nothing for them
    srnd = random.Random(chk.rnd.getrandbits(32))
    base.append(dict(id="p0", cfg=c07.sink_cfg(srnd), source="generate", tmax=48, episodes=1, mode="MCS", prune=True, seed=srnd.getrandbits(16)))
    combos = [dict(zip(FLAGS, b)) for b in itertools.product([False, True], repeat=5)]
    pick = [dict(zip(FLAGS, [True] * 5)), dict(zip(FLAGS, [False] * 5))] + (chk.rnd.sample(combos, 2) if quick else combos)
    jobs = []
    for bi, j in enumerate(base):
        # half of the graphs are started in the middle of the episode (init(starting_step > 0)) and rolled out to its end: rows before the
        # starting step stay -1, every executed step has its row; all three supergraph modes
        start = ((1 if j["id"].startswith("r") else chk.rnd.choice([1, 2, 3])) if bi % 2 == 1 else None)      # high-ratio graphs have 3-4 partitions only
        mode = c07.MODES[(bi + chk.seed + 1) % 3] if bi % 2 == 1 else j["mode"]
        for i, rec in enumerate(pick):
            jj = dict(j); jj["id"] = f"c13c:{j['id']}:{i}"; jj["record"] = rec; jj["base"] = j["id"]; jj["mode"] = mode
            if start:
                jj["starting_step"] = start; jj["prune"] = False; jj["reshape"] = dict(trim_after_sup=True)
                jj["cfg"] = json.loads(json.dumps(j["cfg"]))
                for nd in jj["cfg"]["nodes"].values(): nd["delays"] = [max(1, d) for d in nd["delays"]]
            if i % 2 == 1: jj["record_eps_switch"] = True      # the record is prepared while the shortest other episode is selected (multi-episode graphs)
            jobs.append(jj)
    res = cl.run_jobs(jobs, nproc=6 if quick else 12)
    by = {}
    for j in jobs: by.setdefault(j["base"], []).append(j)
    for b, js in by.items():
        ref = None
        cfg = js[0]["cfg"]; names = sorted(cfg["nodes"])
        case = dict(cfg=cfg, source=js[0]["source"], mode=js[0]["mode"], prune=js[0]["prune"], seed=js[0].get("seed"), tmax=js[0].get("tmax"), steps=js[0].get("steps"), runtime="compiled", starting_step=js[0].get("starting_step"), reshape=js[0].get("reshape"))
        ok = [j for j in js if "error" not in res.get(j["id"], dict(error=1)) and "graph_error" not in res[j["id"]]]
        if not ok: chk.feat("compiled:rejected-or-error"); continue
        chk.case((repr(cfg), js[0]["mode"], js[0]["prune"], "compiled-record"), ["compiled", f"settings={len(ok)}"] + al.features(cfg), None)
        for j in ok:
            r = res[j["id"]]
            for e, ep in enumerate(r["episodes"]):
                chk.traces_impl += 1
                if "record_prepared_on_eps" in ep: chk.feat("record-prepared-on-another-episode")
                if "record_error" in ep:
                    chk.violation("init_record-raises", f"Graph.init_record({j['record']}) raised {ep['record_error']}", case); continue
                ex = (sorted(tuple(c) for c in ep["calls"]), ep["final"])
                if ref is None or e not in ref: ref = ref or {}; ref[e] = (j["record"], ex)
                elif ref[e][1] != ex:
                    chk.violation("recording-changes-execution", f"compiled episode {e}: execution under record setting {j['record']} differs from {ref[e][0]}", case)
                host = {(c[0], c[1]): c for c in ep["calls"]}
                for n in names:
                    c = ep.get("rows", {}).get(n)
                    if c is None: continue
                    # every executed step has its row (host log -> record)
                    lost = [sq for (m, sq) in host if m == n and (sq >= len(c["seq"]) or c["seq"][sq] != sq)]
                    if lost:
                        chk.violation("executed-step-not-recorded", f"compiled {n}[{lost[0]}] was executed (host log) but its record row holds seq "
                                      f"{c['seq'][lost[0]] if lost[0] < len(c['seq']) else 'beyond the record'} (starting_step={j.get('starting_step')}, {j['mode']})", case)
                    for k in range(len(c["seq"])):
                        sq = c["seq"][k]
                        if sq < 0:
                            if any(c[f][k] != -64 for f in ("start", "end")):   # -1.0 s in ticks
                                chk.violation("unexecuted-row-not-minus-one", f"{n} row {k}: seq -1 but times {c['start'][k]},{c['end'][k]}", case)
                            continue
                        if sq != k: chk.violation("record-row-misplaced", f"{n}: row {k} holds seq {sq}", case); break
                        h = host.get((n, sq))
                        if h is None: chk.violation("row-without-execution", f"{n}[{sq}] recorded but never executed", case); break
                        got = dict(ts=c["start"][k]); want = dict(ts=h[2])
                        if "state" in c: got["state"] = c["state"][k]; want["state"] = h[3]
                        if "out" in c: got["out"] = c["out"][k]; want["out"] = h[4]
                        if "rng" in c: got["rng"] = c["rng"][k]; want["rng"] = [h[5], h[6]]
                        if got != want:
                            chk.violation("record-row-unfaithful", f"compiled {n}[{sq}] under {j['record']}: recorded {got}, the step used/produced {want}", case); break
                    for fld, key in (("state", "state"), ("output", "out"), ("rng", "rng"), ("inputs", "wins")):
                        if not j["record"].get(fld) and key in c:
                            chk.violation("record-setting-ignored", f"compiled {n}: {fld} recorded although switched off", case)
