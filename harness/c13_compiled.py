def run(chk):
    """compiled-runtime half of C13 (filled in with the M3 harness)"""
    chk.notes.append("compiled-runtime half pending in this build")
