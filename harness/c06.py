"""C06 — every scheduled step executes the step function exactly once (threaded runtime part; compiled part in c06 via
compiledlib when available)."""
from . import lib, asynclib as al, async_checks as ac


def run(chk, replay=None):
    chk.stage_proofs(kernels=["Runner"])
    n = 6 if chk.tier == "quick" else 30
    variants = {"reset_step": dict(drive="reset_step"), "run": dict(drive="run"), "override": dict(drive="override"),
                "jit": dict(drive="reset_step", jit=True),
                "carry": dict(drive="reset_step", episodes=2, carry=True),   # 2nd episode restarted from the 1st one's final graph state
                "verbose_warmup": dict(drive="reset_step", warmup_verbose=True),       # optional arguments of warmup() do not execute step functions
                "verbose_warmup_jit": dict(drive="reset_step", warmup_verbose=True, jit=True)}
    graphs = al.async_suite(chk, n, variants)
    for G in graphs:
        if G["skipped"]: chk.feat("skipped:" + G["skipped"].split(":")[0]); continue
        cfg = G["cfg"]
        for vn, r in G["runs"].items():
            key = (repr(cfg), vn)
            if "error" in r and al.unsupported_hang(chk, cfg, r): continue
            if "error" in r:
                chk.case(key, ["impl-error"], None)
                chk.violation(f"async-run-fails:{r['error'].split(':')[0]}", f"threaded run failed ({vn}): {r['error'][:300]}", dict(cfg=cfg, variant=vn))
                continue
            if r.get("calls_warmup"):
                cw_ = r["calls_warmup"]
                chk.violation("step-function-executed-outside-episode", f"graph.warmup({'verbose=True' if variants[vn].get('warmup_verbose') else ''}) executed step functions "
                              f"{len(cw_)} times before the episode (first: {cw_[0][0]}[{cw_[0][1]}]): the ticks recorded afterwards are executed once more", dict(cfg=cfg, variant=vn))
            ep = al.canon_neg(r["episodes"][0])
            chk.case(key, al.features(cfg) + [vn], dict(cfg=cfg, variant=vn) if vn == "override" else None)
            for ei, epx in enumerate(r["episodes"]):
                if "error" in epx["record"]: continue
                chk.traces_impl += 1
                for sig, det in ac.check_c06(cfg, epx, cfg["sup"], variants[vn]["drive"]):
                    chk.violation(sig, f"episode {ei}: {det}", dict(cfg=cfg, variant=vn, calls=[c[:2] for c in epx["calls"]][:60]))
            # model tie: the rows (hence the ticks whose execution is counted) are the model's
            if vn != "jit":
                d = al.compare_episode(cfg, ep, G["models"][0])
                if d: chk.broke("correspondence:M1-vs-AsyncGraph", d)
    from . import c06_compiled
    c06_compiled.run(chk)
    chk.extra["rule"] = ("random lattice graphs (2-4 probe nodes, blocking/skip/jitter/advance/scheduling choices, overruns, ties), each "
                         "driven by run(), reset()/step(), step() with user override, and with jitted steps; host-side invocation log "
                         "of the probe step compared with the recorded ticks; non-trivial = at least one boundary feature")
