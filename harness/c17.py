"""C17 — parameter transforms: correspondence between rex.base transforms and the Gallina model Tree.v (over Q),
plus Coq-certified enclosures for Exponential."""
import json, os
from typing import Any
from fractions import Fraction
from . import lib

HEADER = """From Coq Require Import List ZArith QArith Qminmax Bool.
From Rex Require Import Ops Kernels Tree.
Import ListNotations.
Definition DN (o s : tree Q) : transform Q := TDenorm (denormalize Qops) (normalize Qops) o s.
Definition mkdn (mn mx : tree Q) : transform Q := DN (tmap2 (denorm_offset Qops) mn mx) (tmap2 (denorm_scale Qops) mn mx).
Fixpoint enc (t : tree Q) : tree (Z * Z) := match t with
  | Leaf v => Leaf (option_map (fun q => let r := Qred q in (Qnum r, Zpos (Qden r))) v)
  | Node kids => Node ((fix go (l : list (Z * tree Q)) := match l with [] => [] | (k, c) :: l => (k, enc c) :: go l end) kids) end.
Definition run (c : transform Q * tree Q) : tree (Z * Z) * tree (Z * Z) :=
  let a := app (fst c) (snd c) in (enc a, enc (inv (fst c) a)).
"""


# ---------------------------------------------------------------- generation
def gen_tree(r, depth, none_p=0.2, vals=None):
    vals = vals or (lambda: Fraction(r.randint(-40, 40), 8))
    if depth == 0 or r.random() < 0.3:
        return None if r.random() < none_p else vals()
    ks = sorted(r.sample(range(8), r.randint(1, 3)))
    return {k: gen_tree(r, depth - 1, none_p, vals) for k in ks}


def map_tree(f, t, *rest):
    if isinstance(t, dict): return {k: map_tree(f, t[k], *[x[k] for x in rest]) for k in t}
    if t is None: return None
    return f(t, *rest)


def paths(t, pre=()):
    if isinstance(t, dict):
        out = [pre] if pre else []
        for k in t: out += paths(t[k], pre + (k,))
        return out
    return [pre]


def get(t, p):
    for k in p: t = t[k]
    return t


def prefix_of(r, base):
    """a random prefix tree of base: subtrees replaced by None (missing) or by a scalar (broadcast) or kept"""
    if isinstance(base, dict):
        x = r.random()
        if x < 0.25: return None
        if x < 0.32: return Fraction(r.randint(-40, 40), 8)
        return {k: prefix_of(r, base[k]) for k in base}
    if base is None: return None
    return None if r.random() < 0.4 else Fraction(r.randint(-40, 40), 8)


def model_extend(base, p):
    if p is None: return base
    if not isinstance(p, dict): return map_tree(lambda _: p, base)
    return {k: model_extend(base[k], p[k]) for k in base}


def gen_case(r, with_extend):
    """returns (transform description, input tree); descriptions are nested tuples"""
    t = gen_tree(r, 3)
    while not isinstance(t, dict): t = gen_tree(r, 3)
    cur = t; ts = []
    exact = True

    def denorm(cur):
        nonlocal exact
        if r.random() < 0.25:
            # integer-valued bounds given as Python ints / int32 arrays (odd and even ranges): -1 -> min, +1 -> max must still hold
            mnt = map_tree(lambda _: Fraction(r.randint(-6, 6)), cur)
            mxt = map_tree(lambda _, m: m + r.choice([1, 2, 3, 5, 8]), cur, mnt)
            return ("denorm", mnt, mxt, r.choice(["pyint", "int32"]))
        pow2 = r.random() < 0.7
        def mn(_): return Fraction(r.randint(-24, 24), 4)
        mnt = map_tree(mn, cur)
        def mx(_, m):
            if pow2: return m + Fraction(2) ** r.randint(-2, 3)
            return m + Fraction(r.randint(1, 40), 8)
        mxt = map_tree(mx, cur, mnt)
        if not pow2: exact = False
        return ("denorm", mnt, mxt)

    n = r.randint(1, 4)
    for i in range(n):
        kind = r.choice(["identity", "denorm", "denorm", "shared", "chain", "extend" if with_extend else "denorm"])
        if kind == "identity": ts.append(("identity",))
        elif kind == "denorm":
            if not has_leaf(cur): continue    # Denormalize.init needs at least one leaf (tree_reduce of an empty tree raises)
            ts.append(denorm(cur))
        elif kind == "shared":
            ps = [p for p in paths(cur) if p]
            ws = [p for p in ps if get(cur, p) is None]   # domain of the round trip: `where` holds what inverse_fn returns
            if len(ps) < 2 or not ws: continue
            w = r.choice(ws); fr = r.choice(ps)
            if w[:len(fr)] == fr or fr[:len(w)] == w: continue
            if get(cur, fr) is None: continue   # replace_fn must return an actual value (None there is JAX-version dependent)
            # the round trip needs the `where` subtree to be None (what inverse_fn returns): make it so half of the time
            ts.append(("shared", w, fr))
            new = get(cur, fr)
            cur = set_path(cur, w, new)
            continue
        elif kind == "chain":
            if not has_leaf(cur): continue
            # inner chains of 2-3 members that do not commute (two different affine maps), sometimes nested one level deeper: the inverse must undo the
            # members of an INNER chain last-to-first as well
            inner = [denorm(cur) if r.random() < 0.8 else ("identity",) for _ in range(r.choice([2, 2, 3]))]
            if r.random() < 0.3: inner = [("chain", inner), denorm(cur)]
            ts.append(("chain", inner))
        elif kind == "extend":
            # base = cur grown: every None leaf may become a subtree, so that cur is a prefix of base
            def grow(x):
                if isinstance(x, dict): return {k: grow(x[k]) for k in x}
                if x is None:
                    g = gen_tree(r, 2, none_p=0.1)
                    return g
                return Fraction(r.randint(-40, 40), 8) if r.random() < 0.8 else gen_tree(r, 1, none_p=0.0)
            base = grow(cur)
            ts.append(("extend", base))
            cur = model_extend(base, cur)
    return ("chain", ts), t, exact


def has_leaf(t):
    if isinstance(t, dict): return any(has_leaf(v) for v in t.values())
    return t is not None


def set_path(t, p, new):
    if not p: return new
    t = dict(t); t[p[0]] = set_path(t[p[0]], p[1:], new); return t


# ---------------------------------------------------------------- Coq terms
def q(x): return f"({x.numerator} # {x.denominator})"
def coq_tree(t):
    if isinstance(t, dict): return "Node [" + "; ".join(f"({k}%Z, {coq_tree(t[k])})" for k in sorted(t)) + "]"
    if t is None: return "Leaf None"
    return f"Leaf (Some {q(t)})"
def coq_T(d):
    k = d[0]
    if k == "identity": return "TIdentity"
    if k == "denorm": return f"(mkdn ({coq_tree(d[1])}) ({coq_tree(d[2])}))"
    if k == "shared": return "(TShared [" + "; ".join(f"{x}%Z" for x in d[1]) + "] [" + "; ".join(f"{x}%Z" for x in d[2]) + "])"
    if k == "extend": return f"(TExtend ({coq_tree(d[1])}))"
    if k == "chain": return "(TChain [" + "; ".join(coq_T(x) for x in d[1]) + "])"
    raise ValueError(k)
def py_tree(v):
    """parsed Coq value -> nested dict of Fractions"""
    tag, x = v
    if tag == "Leaf": return None if x is None else Fraction(x[1][0], x[1][1])
    return {k: py_tree(c) for (k, c) in x}


# ---------------------------------------------------------------- implementation side
def impl_run(cases):
    import jax, jax.numpy as jnp, numpy as onp
    from rex import base as rb
    K = lambda k: f"k{k:02d}"
    def to_jax(t):
        if isinstance(t, dict): return {K(k): to_jax(t[k]) for k in t}
        if t is None: return None
        return jnp.array(float(t), dtype=jnp.float32)
    def from_jax(t):
        if isinstance(t, dict): return {int(k[1:]): from_jax(t[k]) for k in t}
        if t is None: return None
        a = onp.asarray(t)
        assert a.shape == (), a.shape
        return Fraction(float(a))
    def build(d):
        k = d[0]
        if k == "identity": return rb.Identity.init()
        if k == "denorm":
            if len(d) > 3:
                conv = (lambda v: int(v)) if d[3] == "pyint" else (lambda v: jnp.array(int(v), dtype=jnp.int32))
                def to_int_tree(t):
                    if isinstance(t, dict): return {K(kk): to_int_tree(t[kk]) for kk in t}
                    return None if t is None else conv(t)
                return rb.Denormalize.init(to_int_tree(d[1]), to_int_tree(d[2]))
            return rb.Denormalize.init(to_jax(d[1]), to_jax(d[2]))
        if k == "shared":
            w, fr = d[1], d[2]
            def at(p, path):
                for kk in path: p = p[K(kk)]
                return p
            # half of the Shared transforms rely on the DEFAULT inverse_fn (the shared node is set to None when inverting - whether it is a leaf or a sub-tree)
            if (len(w) + len(fr) + sum(w) + sum(fr)) % 2 == 0: return rb.Shared.init(where=lambda p: at(p, w), replace_fn=lambda p: at(p, fr))
            return rb.Shared.init(where=lambda p: at(p, w), replace_fn=lambda p: at(p, fr), inverse_fn=lambda p: None)
        if k == "extend":
            return rb.Extend(base_params=to_jax(d[1]), mask=None)
        if k == "chain": return rb.Chain.init(*[build(x) for x in d[1]])
    out = []
    for (T, t, has_ext) in cases:
        try:
            tr = build(T)
            a = tr.apply(to_jax(t))
            res = dict(app=from_jax(a))
            if not has_ext: res["inv"] = from_jax(tr.inv(a))
        except Exception as e:  # noqa
            res = dict(error=f"{type(e).__name__}: {str(e)[:200]}")
        out.append(res)
    return out


def has_extend(d): return d[0] == "extend" or (d[0] == "chain" and any(has_extend(x) for x in d[1]))
def kinds(d): return {d[0] + ("-intbounds" if d[0] == "denorm" and len(d) > 3 else "")} | (set().union(*[kinds(x) for x in d[1]]) if d[0] == "chain" and d[1] else set())


def close(impl, model, exact):
    """compare trees; exact when the model value is representable in float32"""
    if isinstance(model, dict):
        if not isinstance(impl, dict) or sorted(impl) != sorted(model): return f"structure {impl} vs {model}"
        for k in model:
            r = close(impl[k], model[k], exact)
            if r: return f"[{k}]{r}"
        return None
    if model is None or impl is None: return None if model is impl else f"leaf {impl} vs {model}"
    if isinstance(impl, dict): return f"structure {impl} vs {model}"
    import numpy as onp
    rep = Fraction(float(onp.float32(float(model)))) == model
    if exact and rep:
        return None if impl == model else f"leaf {float(impl)!r} vs exact {model}"
    tol = Fraction(1, 10 ** 5) * (abs(model) + 1) * 8
    return None if abs(impl - model) <= tol else f"leaf {float(impl)!r} vs {float(model)!r} (tol)"


def exp_cases(chk, n):
    """Exponential: the implementation's float32 exp / log against enclosures certified by Coq Interval"""
    import jax.numpy as jnp, numpy as onp
    from rex import base as rb
    r = chk.rnd
    # log-space parameters over the whole range where exp(x) is a normal float32 (about -87 .. 88), not only near 0
    xs = [Fraction(r.randint(-64, 64), 8) for _ in range(n // 2)] + [Fraction(r.randint(-680, 680), 8) for _ in range(n - n // 2)]
    T = rb.Exponential.init()
    tr = {"a": jnp.array([float(x) for x in xs], dtype=jnp.float32), "b": None}
    a = T.apply(tr); back = T.inv(a)
    assert a["b"] is None and back["b"] is None
    ys = [Fraction(float(v)) for v in onp.asarray(a["a"])]
    zs = [Fraction(float(v)) for v in onp.asarray(back["a"])]
    goals = []
    for x, y, z in zip(xs, ys, zs):
        lo, hi = y * (1 - Fraction(1, 10 ** 5)), y * (1 + Fraction(1, 10 ** 5))
        goals.append(f"Goal ({lo.numerator} / {lo.denominator} <= exp ({x.numerator} / {x.denominator}) <= {hi.numerator} / {hi.denominator})%R. "
                     f"Proof. interval with (i_prec 60). Qed.")
        tol = Fraction(1, 10 ** 4)
        goals.append(f"Goal ({(z - tol).numerator} / {(z - tol).denominator} <= ln ({y.numerator} / {y.denominator}) <= "
                     f"{(z + tol).numerator} / {(z + tol).denominator})%R. Proof. interval with (i_prec 60). Qed.")
    d = os.path.join(lib.WORK, "cases"); os.makedirs(d, exist_ok=True)
    open(os.path.join(d, "C17_exp.v"), "w").write("From Coq Require Import Reals.\nFrom Interval Require Import Tactic.\n" + "\n".join(goals) + "\n")
    rc, o, e, _ = lib.sh(f"timeout 600 coqc -Q {lib.COQ} Rex C17_exp.v 2>&1", cwd=d)
    for x, y, z in zip(xs, ys, zs):
        chk.case(("exp", x), ["exponential"], None)
        if abs(z - x) > Fraction(1, 10 ** 4) * (abs(x) + 1):
            chk.violation("exponential-roundtrip", f"Exponential inv(apply(x)) != x at x={float(x)}", dict(x=str(x), back=float(z)))
    if rc != 0:
        chk.violation("exponential-enclosure", "Exponential.apply/inv outside the Coq-Interval certified enclosure of exp/ln",
                      dict(log=(o + e)[-1500:], xs=[str(x) for x in xs]))
    chk.traces_impl += len(xs)


def extend_attribute_trees(chk):
    """Extend on trees whose nodes are dataclasses / namedtuples (attribute keys), with field names that are prefixes of one another (`mass` / `mass_offset`,
    `max_th` / `max_thdot` as in rex's own pendulum example): supplied leaves stay untouched, missing ones are filled from the base - leaf by leaf, whatever the
    names look like. (Extend.inv is not claimed: it fails under the installed JAX on the unchanged tree.)"""
    import itertools, collections
    import jax.numpy as jnp
    from flax import struct
    from rex import base as rb

    @struct.dataclass
    class Agent:
        max_th: Any
        max_thdot: Any
        gain: Any

    @struct.dataclass
    class World:
        mass: Any
        mass_offset: Any
        length: Any
    NT = collections.namedtuple("NT", ["tau", "tau_max"])
    base = dict(agent=Agent(jnp.float32(3.0), jnp.float32(9.0), jnp.float32(0.5)), world=World(jnp.float32(1.0), jnp.float32(7.0), jnp.float32(2.0)),
                nt=NT(jnp.float32(4.0), jnp.float32(8.0)))
    names = [("agent", "max_th"), ("agent", "max_thdot"), ("agent", "gain"), ("world", "mass"), ("world", "mass_offset"), ("world", "length"), ("nt", "tau"), ("nt", "tau_max")]
    masks = [m for m in itertools.product([False, True], repeat=len(names)) if any(m)]
    for mi, m in enumerate(chk.rnd.sample(masks, 24) + [tuple(i == j for i in range(len(names))) for j in range(len(names))]):
        sup = {nm: (jnp.float32(100.0 + 10 * i) if on else None) for i, (nm, on) in enumerate(zip(names, m))}
        opt = dict(agent=Agent(sup[("agent", "max_th")], sup[("agent", "max_thdot")], sup[("agent", "gain")]),
                   world=World(sup[("world", "mass")], sup[("world", "mass_offset")], sup[("world", "length")]), nt=NT(sup[("nt", "tau")], sup[("nt", "tau_max")]))
        case = dict(kind="extend-attribute-tree", supplied=[".".join(nm) for nm, on in zip(names, m) if on])
        chk.case(("extend-attr", m), ["extend", "attribute-keys", "prefix-named-fields"], None); chk.traces_impl += 1
        try:
            out = rb.Extend.init(base, opt).apply(opt)
        except Exception as e:  # noqa
            chk.violation("extend-raises-on-attribute-tree", f"Extend.init(base, opt).apply(opt) raised {type(e).__name__}: {str(e)[:200]} for supplied leaves {case['supplied']}", case); continue
        got = {("agent", f): getattr(out["agent"], f) for f in ("max_th", "max_thdot", "gain")}
        got.update({("world", f): getattr(out["world"], f) for f in ("mass", "mass_offset", "length")}); got.update({("nt", f): getattr(out["nt"], f) for f in ("tau", "tau_max")})
        for i, nm in enumerate(names):
            b = getattr(base[nm[0]], nm[1])
            want = float(sup[nm]) if sup[nm] is not None else float(b)
            if got[nm] is None or float(got[nm]) != want:
                chk.violation("extend-leaf-wrong", f"Extend.apply: leaf {'.'.join(nm)} is {got[nm]}, expected {want} ({'supplied' if sup[nm] is not None else 'base'} value); "
                              f"supplied leaves: {case['supplied']}", case); break


def run(chk, replay=None):
    chk.stage_proofs(kernels=["Transform"])
    n = 120 if chk.tier == "quick" else 1500
    r = chk.rnd
    cases = []
    if replay:
        rp = json.load(open(replay)); cases = [eval(rp["case"]["repr"])]
    else:
        for i in range(n):
            cases.append(gen_case(r, with_extend=(i % 3 == 0)))
    impl = impl_run([(T, t, has_extend(T)) for (T, t, ex) in cases])
    terms = [f"({coq_T(T)}, {coq_tree(t)})" for (T, t, ex) in cases]
    model = lib.coq_eval_sharded("C17", HEADER, "run", terms, per=150)
    for (T, t, ex), im, mo in zip(cases, impl, model):
        ks = kinds(T) - {"chain"}
        feats = sorted(ks) + (["none-leaf"] if None in [get(t, p) for p in paths(t) if not isinstance(get(t, p), dict)] else [])
        chk.case((repr(T), repr(t)), feats, dict(transform=repr(T)[:300], tree=repr(t)[:200]))
        chk.traces_impl += 1
        m_app, m_inv = py_tree(mo[0]), py_tree(mo[1])
        case = dict(repr=repr((T, t, ex)))
        if "error" in im:
            chk.violation("transform-raises", f"rex transform raised on a well-formed input: {im['error']}", case); continue
        d = close(im["app"], m_app, ex)
        if d:
            chk.violation("apply-differs:" + "+".join(sorted(ks)), f"apply differs from the model at {d}", case); continue
        if "inv" in im:
            d = close(im["inv"], m_inv, False if not ex else True)
            if d:
                chk.violation("inv-differs:" + "+".join(sorted(ks)), f"inv differs from the model at {d}", case); continue
            # the law itself, on the implementation: inv(apply(x)) = x wherever rt_ok holds (Shared needs where == None)
            if True:
                d = close(im["inv"], t, ex)
                if d: chk.violation("roundtrip-fails:" + "+".join(sorted(ks)), f"inv(apply(x)) != x at {d}", case)
    exp_cases(chk, 12 if chk.tier == "quick" else 60)
    if not replay: extend_attribute_trees(chk)
    chk.extra["rule"] = ("random nested dict trees (depth<=3, None leaves, dyadic leaves k/8) and random chains of 1-4 transforms "
                         "(Identity, Denormalize with per-leaf bounds, Shared by key paths, Extend, nested Chain); a case is "
                         "non-trivial when it contains at least one non-identity transform; distinct by (transform, tree)")
    chk.trusted += ["Coq Interval tactic (certified enclosures of exp/ln used to judge Exponential)"]
    chk.notes += ["floating point: apply/inv compared exactly when the exact rational result is representable in float32, "
                  "otherwise within 8e-5 relative"]
