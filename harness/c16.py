"""C16 — node phases and node infos stay consistent with the configured delays.

Correspondence between rex/node.py (BaseNode / Connection: connect, set_delay, phase, info, from_info, connect_from_info)
and the Gallina model coq/Phase.v + coq/NodeCfg.v, on generated topologies and operation sequences; plus short
simulated-clock AsyncGraph episodes after set_delay whose recorded delays must be the stream of the configured distribution.

The model is evaluated in all 8 source variants (NodeCfg.variant: one switch per historic defect).  An implementation
trace that equals the all-false variant is correct; one that equals another variant exhibits exactly the defects that are
switched on there (reported with the defect's signature); one that equals no variant is reported by its first differing field.
"""
import json, os, sys
try:
    from . import lib
except ImportError:          # run as a script: the episode child process
    lib = None

T = 1.0 / 64
SHADOW = 100                 # shadow input name of sender s at receiver r: SHADOW + 10 * r + s
VARIANTS = [(a, b, c) for a in (0, 1) for b in (0, 1) for c in (0, 1)]     # (sd_node, sd_conn, cfi_key)
SIG_F3 = "set_delay-ignores-delay_dist"
SIG_F11 = "info-roundtrip-loses-shadow-input-name"

HEADER = """From Coq Require Import List ZArith Bool.
From Rex Require Import Phase NodeCfg.
Import ListNotations.
Open Scope Z_scope.
Definition D := (Z * Z)%type.    (* (registry id, quantile(0.99) in ticks) *)
Definition d0 : D := (0, 0).
Definition q99 (d : D) := snd d.
Definition enc_ii (i : inputinfo D) :=
  (ii_rate D i, ii_window D i, ii_blocking D i, ii_skip D i, ii_jitter D i, ii_phase D i, fst (ii_dist D i), ii_delay D i,
   ii_name D i, ii_output D i).
Definition enc_ni (i : nodeinfo D) :=
  (ni_rate D i, ni_advance D i, ni_sched D i, ni_phase D i, fst (ni_dist D i), ni_delay D i,
   map (fun kv => (fst kv, enc_ii (snd kv))) (ni_inputs D i), ni_name D i).
Definition enc_conn (c : conn D) :=
  (c_key D c, c_out D c, c_blocking D c, c_delay D c, fst (c_dist D c), c_window D c, c_skip D c, c_jitter D c).
Definition obs (g : graph D) :=
  map (fun n => (n_name D n, gphase g (n_name D n), option_map enc_ni (node_info g n),
                 (fst (n_dist D n), n_delay D n, map enc_conn (n_inputs D n)))) g.
Definition mkv (a b c : bool) := {| v_sd_node := a; v_sd_conn := b; v_cfi_key := c |}.
Definition run1 (v : variant) (c : list (node D) * list (op D)) :=
  let g := apply_ops q99 d0 v (fst c) (snd c) in
  (obs g, option_map (fun is => obs (rebuild q99 d0 v is)) (infos g)).
Definition run (c : list (node D) * list (op D)) :=
  map (fun v => run1 v c) [mkv false false false; mkv false false true; mkv false true false; mkv false true true;
                           mkv true false false; mkv true false true; mkv true true false; mkv true true true].
"""

_DEFS = None


def defs():
    """harness-side user classes (legitimate subclasses of the public base classes), created lazily because of jax"""
    global _DEFS
    if _DEFS is not None: return _DEFS
    import jax, jax.numpy as jnp
    from flax import struct
    from rex.base import Base, DelayDistribution
    from rex.node import BaseNode

    @struct.dataclass
    class TableDist(DelayDistribution):
        table: jax.Array
        idx: jax.Array
        rng: jax.Array

        @classmethod
        def create(cls, ticks):
            return cls(table=jnp.array([t * T for t in ticks], dtype=jnp.float32), idx=jnp.array(0, dtype=jnp.int32),
                       rng=jnp.zeros((2,), dtype=jnp.uint32))

        def reset(self, rng): return self.replace(idx=jnp.array(0, dtype=jnp.int32))

        def sample(self, shape=None):
            n = 1 if shape is None else (shape if isinstance(shape, int) else shape[0])
            ids = (self.idx + jnp.arange(n)) % self.table.shape[0]
            s = self.table[ids]
            if shape is None: s = s[0]
            return self.replace(idx=self.idx + n), s

        def quantile(self, q): return jnp.max(self.table)
        def mean(self): return jnp.mean(self.table)
        def pdf(self, x): return 0.0

    @struct.dataclass
    class Out(Base):
        a: jax.Array

    class Probe(BaseNode):
        def __init__(self, *a, nid=0, **k):
            super().__init__(*a, **k); self.nid = nid

        def init_state(self, rng=None, graph_state=None): return Out(jnp.array([1 + self.nid], dtype=jnp.int32))
        def init_output(self, rng=None, graph_state=None): return Out(jnp.array([3 + self.nid], dtype=jnp.int32))

        def step(self, ss):
            acc = 7 * ss.state.a[0] + 3 * ss.seq
            for name in sorted(ss.inputs.keys()):
                acc = acc + jnp.sum(ss.inputs[name].data.a[:, 0])
            acc = (acc % 32749).astype(jnp.int32)
            return ss.replace(state=Out(acc.reshape(1))), Out(acc.reshape(1))

    _DEFS = (TableDist, Probe)
    return _DEFS


# ---------------------------------------------------------------- distributions registry
# id 0 = the default StaticDist(Normal(0, 0)); ("table", ticks) = TableDist; ("det", k) = distrax.Deterministic(loc=k/64),
# which rex wraps into a StaticDist.  q99 in ticks.  All tables start with a different value: one sample identifies them.
def registry():
    reg = {0: ("default", None, 0)}
    tabs = [[1], [2, 1], [3, 3, 1], [4, 2], [5], [6, 4, 5]]
    for k, t in enumerate(tabs): reg[1 + k] = ("table", t, max(t))
    for k, loc in enumerate([0, 2, 7]): reg[10 + k] = ("det", loc, loc)
    # trainable delay distributions (connections only): (current delay, min, max) in ticks with a dyadic alpha; their quantile is the current delay.
    # The EXPECTED delay of a connection is what was declared (delay=...), whatever the distribution's current value
    for k, (cur, mn, mx) in enumerate([(3, 1, 5), (0, 0, 4), (6, 2, 6), (2, 0, 8)]): reg[20 + k] = ("train", (cur, mn, mx), cur)
    return reg


REG = registry()


def dist_objs():
    import distrax
    TableDist, _ = defs()
    out = {}
    for k, (kind, x, q) in REG.items():
        if kind == "table": out[k] = TableDist.create(x)
        elif kind == "det": out[k] = distrax.Deterministic(loc=x * T)
        elif kind == "train":
            from rex import base
            out[k] = base.TrainableDist.create(delay=x[0] * T, min=x[1] * T, max=x[2] * T)
    return out


def dist_id(dd):
    """registry id of a rex delay distribution object (by content); -1 = not a registry distribution"""
    import distrax, numpy as onp
    from rex import base
    TableDist, _ = defs()
    if isinstance(dd, TableDist):
        t = [round(float(x) * 64) for x in onp.asarray(dd.table)]
        for k, (kind, x, q) in REG.items():
            if kind == "table" and x == t: return k
        return -1
    if isinstance(dd, base.TrainableDist):
        mn, mx, al = float(dd.min) * 64, float(dd.max) * 64, float(onp.asarray(dd.alpha))
        for k, (kind, x, q) in REG.items():
            if kind == "train" and (x[1], x[2]) == (mn, mx) and x[0] == mn + al * (mx - mn): return k
        return -1
    if isinstance(dd, base.StaticDist):
        d = dd.dist
        if isinstance(d, distrax.Deterministic):
            loc = float(d.loc) * 64
            for k, (kind, x, q) in REG.items():
                if kind == "det" and x == loc: return k
            return -1
        if isinstance(d, distrax.Normal) and float(d.loc) == 0.0 and float(d.scale) == 0.0: return 0
    return -1


def ticks(x):
    """seconds -> integer ticks; a value off the 1/64 s lattice is kept as a float (it can then equal no model value)"""
    v = float(x) * 64
    return int(round(v)) if v == round(v) else v


class ImplTimeout(BaseException):
    pass


def with_timeout(sec, f):
    """run f() in the main thread with a wall-clock limit (an implementation that does not return must not hang the check)"""
    import signal
    def h(sig, frm): raise ImplTimeout()
    old = signal.signal(signal.SIGALRM, h); signal.setitimer(signal.ITIMER_REAL, sec)
    try:
        return f()
    finally:
        signal.setitimer(signal.ITIMER_REAL, 0); signal.signal(signal.SIGALRM, old)


# ---------------------------------------------------------------- case generation
def gen_case(r, kmax, episode=False):
    """(nodes, ops): nodes = [(id, rate, delay|None, dist|None, advance, sched, color, order)], ops = tuples
    ("connect", recv, sender, blocking, delay|None, dist|None, window, skip, jitter, name|None) |
    ("set_node", x, dist|None, delay|None) | ("set_conn", recv, key, dist|None, delay|None)"""
    k = r.randint(2, 3) if episode else r.randint(2, kmax)
    dids = [i for i in REG if i != 0 and REG[i][0] != "train" and (not episode or REG[i][0] == "table")]
    cdids = dids + ([] if episode else [i for i in REG if REG[i][0] == "train"])       # trainable distributions are for connections only

    def rdist(p_none=0.3): return None if r.random() < p_none else r.choice(dids)
    def rcdist(p_none=0.3): return None if r.random() < p_none else r.choice(cdids)
    def rdelay(p_none=0.3): return None if r.random() < p_none else r.choice([0, 0, 1, 1, 2, 3, 5, 8])
    nodes = []
    for i in range(k):
        if episode: nodes.append((i, r.choice([4, 8, 16]), r.choice([0, 1, 2]), r.choice(dids), False, r.choice([1, 2]), None, None))
        else: nodes.append((i, r.choice([1, 2, 4, 8, 16, 32, 64]), rdelay(), rdist(), r.random() < 0.3, r.choice([1, 2]),
                            r.choice([None, "red", "blue"]), r.choice([None, 0, 3])))
    ops = []; names = {}; keys = {}       # names[(recv, sender)] = input name or None;  keys[recv] = {key: sender}
    nops = r.randint(k - 1, 5) if episode else r.randint(2, 12)

    def connect(recv, sender, skip):
        if (recv, sender) not in names:
            names[(recv, sender)] = (SHADOW + 10 * recv + sender) if r.random() < 0.4 else None
        nm = names[(recv, sender)]
        keys.setdefault(recv, {})[nm if nm is not None else sender] = sender
        if episode:
            ops.append(("connect", recv, sender, r.random() < 0.4, r.choice([0, 1, 2]), r.choice(dids), r.choice([1, 2]), False, 1, nm))
        else:
            ops.append(("connect", recv, sender, r.random() < 0.4, rdelay(), rcdist(), r.choice([1, 1, 2, 3]), skip, r.choice([1, 2]), nm))
    if episode:
        for i in range(1, k):
            connect(i, r.randrange(i), False)
            if i == 2 and r.random() < 0.5 and (2, 0) not in names: connect(2, 0, False)
    while len(ops) < nops or (episode and not any(o[0] != "connect" for o in ops)):
        x = r.random()
        if x < 0.5 and not episode:
            recv, sender = r.randrange(k), r.randrange(k)
            if recv == sender and r.random() < 0.7: continue
            if sender < recv: skip = r.random() < 0.15
            else: skip = r.random() < 0.75
            connect(recv, sender, skip)
        elif x < 0.75:
            ops.append(("set_node", r.randrange(k), rdist(0.35), rdelay(0.35)))
        else:
            rs = [q for q in keys if keys[q]]
            if not rs: continue
            recv = r.choice(rs)
            ops.append(("set_conn", recv, r.choice(sorted(keys[recv])), rcdist(0.35), rdelay(0.35)))
    return nodes, ops


def feats(case):
    nodes, ops = case; f = set()
    seen = set()
    for o in ops:
        if o[0] == "connect":
            if o[9] is not None: f.add("shadow-name")
            if o[7]: f.add("skip-connection")
            if o[4] is None: f.add("delay-defaults-to-quantile")
            if (o[1], o[2]) in seen: f.add("reconnect-overwrites")
            if o[1] == o[2]: f.add("self-connection")
            if o[5] is not None and REG[o[5]][0] == "det": f.add("distrax-wrapped")
            seen.add((o[1], o[2]))
        else:
            site = "node" if o[0] == "set_node" else "conn"
            di, de = (o[2], o[3]) if site == "node" else (o[3], o[4])
            f.add(f"set_delay-{site}:" + ("dist" if di is not None else "nodist") + "+" + ("delay" if de is not None else "nodelay"))
    return sorted(f)


# ---------------------------------------------------------------- Coq terms
def zl(x): return f"({int(x)})"
def dl(i): return f"({i}, {REG[i][2]})"
def ol(x, f): return "None" if x is None else f"(Some {f(x)})"
def bl(b): return "true" if b else "false"


def coq_case(case):
    nodes, ops = case
    ns = "; ".join(f"mk_node q99 d0 {zl(i)} {zl(rate)} {ol(de, zl)} {ol(di, dl)} {bl(adv)} {zl(sch)}"
                   for (i, rate, de, di, adv, sch, col, order) in nodes)
    os_ = []
    for o in ops:
        if o[0] == "connect":
            _, recv, sender, blocking, de, di, window, skip, jitter, nm = o
            os_.append(f"OConnect D {zl(recv)} {zl(sender)} {bl(blocking)} {ol(de, zl)} {ol(di, dl)} {zl(window)} {bl(skip)} {zl(jitter)} {ol(nm, zl)}")
        elif o[0] == "set_node": os_.append(f"OSetNode D {zl(o[1])} {ol(o[2], dl)} {ol(o[3], zl)}")
        else: os_.append(f"OSetConn D {zl(o[1])} {zl(o[2])} {ol(o[3], dl)} {ol(o[4], zl)}")
    return f"([{ns}], [{'; '.join(os_)}])"


def canon_model_obs(o):
    """parsed `obs g` -> {node: dict(phase, info, cfg)} with dicts sorted by key"""
    out = {}
    for (name, ph, info, cfg) in o:
        ph = "LOOP" if ph is None else ph[1]
        if info is None: inf = "LOOP"
        else:
            (rate, adv, sch, p, di, de, ins, nm) = info[1]
            inf = dict(rate=rate, advance=adv, scheduling=sch, phase=p, delay_dist=di, delay=de, name=nm,
                       inputs={str(k): dict(zip(("rate", "window", "blocking", "skip", "jitter", "phase", "delay_dist", "delay", "name", "output"), ii))
                               for (k, ii) in ins})
        (di, de, conns) = cfg
        out[str(name)] = dict(phase=ph, info=inf, delay_dist=di, delay=de,
                              inputs={str(c[0]): dict(zip(("key", "output", "blocking", "delay", "delay_dist", "window", "skip", "jitter"), c))
                                      for c in conns})
    return out


def canon_model(res):
    return [dict(before=canon_model_obs(b), after=(None if a is None else canon_model_obs(a[1]))) for (b, a) in res]


# ---------------------------------------------------------------- implementation side
def nid(name): return int(name[1:]) if name[0] == "n" else int(name[1:])
def nname(i): return f"n{i}" if i < SHADOW else f"s{i}"


def impl_build(case, peek=False):
    """peek: the user reads every node's phase and info after each construction step (a correct implementation has no memory of being looked at)"""
    _, Probe = defs()
    from rex import constants as const
    nodes, ops = case
    DO = dist_objs()
    S = {1: const.Scheduling.PHASE, 2: const.Scheduling.FREQUENCY}
    J = {1: const.Jitter.LATEST, 2: const.Jitter.BUFFER}
    assert S[1].value == 1 and S[2].value == 2 and J[1].value == 1 and J[2].value == 2
    N = {}
    for (i, rate, de, di, adv, sch, col, order) in nodes:
        N[nname(i)] = Probe(name=nname(i), rate=rate, delay=None if de is None else de * T, delay_dist=None if di is None else DO[di],
                            advance=adv, scheduling=S[sch], color=col, order=order, nid=i)
    for o in ops:
        if o[0] == "connect":
            _, recv, sender, blocking, de, di, window, skip, jitter, nm = o
            N[nname(recv)].connect(N[nname(sender)], blocking=blocking, delay=None if de is None else de * T,
                                   delay_dist=None if di is None else DO[di], window=window, skip=skip, jitter=J[jitter],
                                   name=None if nm is None else nname(nm))
        elif o[0] == "set_node":
            N[nname(o[1])].set_delay(delay_dist=None if o[2] is None else DO[o[2]], delay=None if o[3] is None else o[3] * T)
        else:
            N[nname(o[1])].inputs[nname(o[2])].set_delay(delay_dist=None if o[3] is None else DO[o[3]],
                                                         delay=None if o[4] is None else o[4] * T)
        if peek:
            for n in N.values():
                guarded(lambda: n.phase); guarded(lambda: n.info)
    return N


def guarded(f):
    try:
        return f()
    except RecursionError as e:
        return "LOOP" if "Algebraic loop detected" in str(e) else "RecursionError-without-algebraic-loop-message"


def canon_info(info):
    if isinstance(info, str): return info, None
    d = dict(rate=int(info.rate), advance=bool(info.advance), scheduling=info.scheduling.value, phase=ticks(info.phase),
             delay_dist=dist_id(info.delay_dist), delay=ticks(info.delay), name=nid(info.name), inputs={})
    for k, ii in info.inputs.items():
        d["inputs"][str(nid(k))] = dict(rate=int(ii.rate), window=int(ii.window), blocking=bool(ii.blocking), skip=bool(ii.skip),
                                        jitter=ii.jitter.value, phase=ticks(ii.phase), delay_dist=dist_id(ii.delay_dist),
                                        delay=ticks(ii.delay), name=nid(ii.name), output=nid(ii.output))
    extra = dict(cls=info.cls, color=info.color, order=info.order)
    return d, extra


def impl_obs(N):
    out = {}; extra = {}
    for name, n in N.items():
        ph = guarded(lambda: n.phase)
        info, ex = canon_info(guarded(lambda: n.info))
        out[str(nid(name))] = dict(
            phase=ph if isinstance(ph, str) else ticks(ph), info=info, delay_dist=dist_id(n.delay_dist), delay=ticks(n.delay),
            inputs={str(nid(k)): dict(key=nid(c.input_name), output=nid(c.output_node.name), blocking=bool(c.blocking), delay=ticks(c.delay),
                                      delay_dist=dist_id(c.delay_dist), window=int(c.window), skip=bool(c.skip), jitter=c.jitter.value)
                    for k, c in n.inputs.items()})
        extra[str(nid(name))] = dict(info=ex, outputs=sorted((k, c.input_node.name, c.input_name) for k, c in n.outputs.items()),
                                     keys_match=all(k == c.input_name and c.input_node is n for k, c in n.inputs.items()))
    return out, extra


def impl_run(case, peek=False):
    """observation before the round trip, and after it when every info exists"""
    _, Probe = defs()
    N = impl_build(case, peek)
    before, bex = impl_obs(N)
    if any(isinstance(v["info"], str) for v in before.values()):
        return dict(before=before, after=None), (bex, None)
    infos = {name: n.info for name, n in N.items()}
    new = {name: Probe.from_info(infos[name], nid=N[name].nid) for name in N}
    for name in new: new[name].connect_from_info(infos[name].inputs, new)
    after, aex = impl_obs(new)
    return dict(before=before, after=after), (bex, aex)


def first_diff(a, b, path=""):
    """first differing leaf of two canonical observations (dict order ignored): (path, impl value, model value)"""
    if isinstance(a, dict) and isinstance(b, dict):
        for k in sorted(set(a) | set(b), key=lambda k: (k != "before", k)):
            if k not in a: return (f"{path}/{k}", "<missing>", b[k])
            if k not in b: return (f"{path}/{k}", a[k], "<missing>")
            d = first_diff(a[k], b[k], f"{path}/{k}")
            if d: return d
        return None
    return None if a == b else (path, a, b)


def ndiffs(a, b):
    if isinstance(a, dict) and isinstance(b, dict):
        return sum(ndiffs(a.get(k, "<missing>"), b.get(k, "<missing>")) for k in set(a) | set(b))
    return 0 if a == b else 1


def field_class(path):
    """stable class of a differing field: phase (before/after) / location / field name, without node ids"""
    parts = [p for p in path.split("/") if p]
    stage = parts[0]
    names = [p for p in parts[1:] if not p.lstrip("-").isdigit()]
    return stage + ":" + ".".join(names)


def judge(chk, case, impl, model, tag="cfg"):
    """compare one implementation observation with the 8 model variants; returns the matching variant or None"""
    if impl == model[0]: return VARIANTS[0]
    cr = dict(repr=repr(case))
    match = [v for v, m in zip(VARIANTS, model) if impl == m]
    if match:
        v = min(match, key=sum)
        d = first_diff(impl, model[0])
        if v[0] or v[1]:
            sites = [s for s, on in (("BaseNode.set_delay", v[0]), ("Connection.set_delay", v[1])) if on]
            chk.violation(SIG_F3, f"{' and '.join(sites)} ignore(s) the delay_dist argument: after set_delay(delay_dist=X) the "
                          f"distribution is still the old one (first differing observable {d[0]}: rex {d[1]}, property {d[2]})",
                          dict(cr, variant=v, ops=len(case[1])))
        if v[2]:
            d2 = first_diff(impl, model[VARIANTS.index((v[0], v[1], 0))])
            chk.violation(SIG_F11, f"from_info + connect_from_info rebuilds the connection under the sender's name instead of its "
                          f"input name (first differing observable {d2[0]}: rex {d2[1]}, property {d2[2]})",
                          dict(cr, variant=v, ops=len(case[1])))
        return v
    best = min(range(8), key=lambda i: (ndiffs(impl, model[i]), sum(VARIANTS[i])))
    d = first_diff(impl, model[best])
    chk.violation(f"{tag}-differs:{field_class(d[0])}", f"rex differs from the model at {d[0]}: rex {d[1]!r}, model {d[2]!r} "
                  f"(closest source variant {VARIANTS[best]})", dict(cr, ops=len(case[1])))
    return None


def law_roundtrip(chk, case, impl, extra):
    """the round-trip clause on the implementation alone: infos (all fields), phases, connections (both directions) equal"""
    bex, aex = extra
    if impl["after"] is None: return
    cr = dict(repr=repr(case), ops=len(case[1]))
    b, a = impl["before"], impl["after"]
    for n in b:
        for fld in ("info", "phase", "inputs"):
            if b[n][fld] != a[n][fld]:
                d = first_diff(a[n][fld], b[n][fld], fld)
                shadow = d[0].endswith("/name") or d[0].endswith("/key") or "<missing>" in (d[1], d[2])
                if shadow and any(c["key"] != c["output"] for c in b[n]["inputs"].values()):
                    chk.violation(SIG_F11, f"info round trip changes {d[0]} of node {n}: rebuilt {d[1]!r}, original {d[2]!r}", cr)
                else:
                    chk.violation(f"roundtrip-differs:{field_class('x/' + d[0])[2:]}",
                                  f"info round trip changes {d[0]} of node {n}: rebuilt {d[1]!r}, original {d[2]!r}", cr)
                return
        if bex[n]["info"] != aex[n]["info"]:
            chk.violation("roundtrip-differs:info.cls-color-order", f"info round trip changes cls/color/order of node {n}: "
                          f"{aex[n]['info']} vs {bex[n]['info']}", cr); return
        if [o[:2] for o in bex[n]["outputs"]] != [o[:2] for o in aex[n]["outputs"]] or not aex[n]["keys_match"]:
            chk.violation("roundtrip-differs:outputs", f"info round trip changes the outgoing connections of node {n}: "
                          f"{aex[n]['outputs']} vs {bex[n]['outputs']} (inputs keyed by their input_name: {aex[n]['keys_match']})", cr); return


# ---------------------------------------------------------------- episodes (child process)
def episode_child():
    """stdin: json list of cases; stdout: json list of per-case results (recorded delays in ticks)"""
    import faulthandler, time, numpy as onp
    cases = json.load(sys.stdin)
    from rex import constants as const
    from rex.asynchronous import AsyncGraph
    out = []
    for case in cases:
        case = (case[0], [tuple(o) for o in case[1]])
        N = impl_build(case)
        before, _ = impl_obs(N)
        steps = 8
        faulthandler.dump_traceback_later(90, exit=True)
        g = AsyncGraph(N, N["n0"], clock=const.Clock.SIMULATED, real_time_factor=const.RealTimeFactor.FAST_AS_POSSIBLE)
        g.set_record_settings(params=False, rng=False, inputs=False, state=False, output=False)
        gs = g.init(); g.warmup(gs, jit_step=False)
        gs, ss = g.reset(gs)
        for _ in range(steps): gs, ss = g.step(gs)
        time.sleep(0.3)          # let the other nodes' threads catch up with the supervisor before stopping
        g.stop()
        try:
            r = g.get_record()
        except TypeError:        # rex cannot assemble the record of a connection without any message (not C16's concern)
            faulthandler.cancel_dump_traceback_later()
            out.append(dict(skipped="rex could not assemble the record: a connection without messages")); continue
        faulthandler.cancel_dump_traceback_later()
        res = dict(obs=before, nodes={}, conns={}, rec_info={})
        for n, nr in r.nodes.items():
            st = nr.steps
            ds = [ticks(e) - ticks(s) for s, e in zip(st.ts_start, st.ts_end)]
            res["nodes"][str(nid(n))] = [int(round(d)) if abs(d - round(d)) < 1e-6 else d for d in ds]
            info, _ = canon_info(nr.info)
            res["rec_info"][str(nid(n))] = info
            for m, ir in nr.inputs.items():
                ms = ir.messages
                res["conns"][f"{nid(n)}<{nid(m)}"] = dict(sent=[ticks(x) for x in onp.atleast_1d(ms.ts_sent)],
                                                         recv=[ticks(x) for x in onp.atleast_1d(ms.ts_recv)],
                                                         seq=[int(x) for x in onp.atleast_1d(ms.seq_out)])
        out.append(res)
    json.dump(out, sys.stdout)


def stream_matches(table, ds):
    return all(d == table[k % len(table)] for k, d in enumerate(ds))


def conn_stream_matches(table, sent, recv):
    """recv_k = max(sent_k + d_k, recv_{k-1}) (FIFO), d_k the k-th table entry"""
    prev = 0
    for k, (s, rc) in enumerate(zip(sent, recv)):
        if rc != max(s + table[k % len(table)], prev): return False
        prev = rc
    return True


def run_episodes(chk, cases, models):
    env = dict(lib.CHILD_ENV, PYTHONPATH=lib.REPO + os.pathsep + lib.VERIF)
    res = None
    for attempt in range(3):
        rc, o, e, dt = lib.sh([lib.PY, os.path.abspath(__file__), "--episodes"], inp=json.dumps(cases), env=env, timeout=600)
        if rc == 0:
            res = json.loads(o[o.index("[{"):] if "[{" in o else o); break
        last = (rc, (o + e)[-1500:])
        if not (rc == 124 or "Thread 0x" in e or "Timeout" in e): break      # retry only when the child hung
        chk.feat("episode-child-retry")
    if res is None:
        if "Timeout" in last[1] or last[0] == 124 or "dump_traceback" in last[1] or "Thread 0x" in last[1]:
            chk.notes.append("simulated episodes skipped in this run: the AsyncGraph child process hung three times "
                             "(lifecycle, property C05), nothing about C16 can be concluded from that"); return
        chk.broke("episode-child-failed", last[1]); return
    for case, model, r in zip(cases, models, res):
        case = (case[0], [tuple(o) for o in case[1]])
        if "skipped" in r: chk.feat("episode:skipped-empty-message-record"); continue
        chk.traces_impl += 1
        v = judge(chk, case, dict(before=r["obs"], after=None), [dict(before=m["before"], after=None) for m in model], tag="cfg")
        ok = model[0]["before"]
        cr = dict(repr=repr(case), ops=len(case[1]), episode=True)
        f = ["episode"] + feats(case)
        chk.case(("episode", repr(case)), f, None)
        if not any(x.get("kind") == "episode" for x in chk.samples if isinstance(x, dict)):
            chk.samples.insert(0, dict(kind="episode", case=repr(case)[:400], recorded_step_delays=r["nodes"],
                                       recorded_messages={k: dict(sent=m["sent"][:6], recv=m["recv"][:6]) for k, m in r["conns"].items()}))
        # recorded infos are the infos of the configuration
        for n, inf in r["rec_info"].items():
            ref = VARIANTS.index(v) if v else min(range(8), key=lambda i: (ndiffs(r["obs"], model[i]["before"]), sum(VARIANTS[i])))
            want = model[ref]["before"][n]["info"]
            if inf != want:
                d = first_diff(inf, want, "record.info")
                chk.violation(f"episode-differs:{field_class('x/' + d[0])[2:]}", f"recorded info of node {n} differs at {d[0]}: "
                              f"rex {d[1]!r}, model {d[2]!r}", cr); break
        # the k-th recorded computation delay of node n is the k-th sample of the configured distribution
        for n, ds in r["nodes"].items():
            if not ds: chk.feat("episode:node-without-steps"); continue
            want = REG[ok[n]["delay_dist"]][1]
            if stream_matches(want, ds): chk.feat("episode:node-stream-checked"); continue
            pinned = [m["before"][n]["delay_dist"] for vv, m in zip(VARIANTS, model) if vv[0]]
            if any(stream_matches(REG[p][1], ds) for p in pinned if p != ok[n]["delay_dist"]):
                chk.violation(SIG_F3, f"BaseNode.set_delay ignores the delay_dist argument: the simulated episode after set_delay draws "
                              f"the computation delays of node {n} from the old distribution (recorded {ds}, new table {want})", cr)
            else:
                chk.violation("episode-differs:step-delays", f"recorded computation delays of node {n} are {ds}, the configured "
                              f"distribution's stream is {want} (cyclic)", cr)
        for key, m in r["conns"].items():
            n, s = key.split("<")
            cm = [c for c in ok[n]["inputs"].values() if str(c["output"]) == s][0]
            if not m["sent"]: chk.feat("episode:connection-without-messages"); continue
            want = REG[cm["delay_dist"]][1]
            if conn_stream_matches(want, m["sent"], m["recv"]): chk.feat("episode:connection-stream-checked"); continue
            pinned = [[c for c in mm["before"][n]["inputs"].values() if str(c["output"]) == s][0]["delay_dist"]
                      for vv, mm in zip(VARIANTS, model) if vv[1]]
            if any(conn_stream_matches(REG[p][1], m["sent"], m["recv"]) for p in pinned if p != cm["delay_dist"]):
                chk.violation(SIG_F3, f"Connection.set_delay ignores the delay_dist argument: the simulated episode after set_delay draws "
                              f"the communication delays of {s}->{n} from the old distribution (sent {m['sent']}, received {m['recv']}, "
                              f"new table {want})", cr)
            else:
                chk.violation("episode-differs:message-delays", f"recorded communication delays of {s}->{n} (sent {m['sent']}, received "
                              f"{m['recv']}) are not the configured distribution's stream {want}", cr)


def source_variant(chk):
    """the model variant the current source implements, as computed by Ties/NodeKernelsTie.v (None if the tie is broken)"""
    ties = [o for o in chk.obligations if o[0].startswith("tie:NodeKernels")]
    if not ties or not all(o[1] for o in ties): return None
    try:
        v = lib.coq_eval("C16_variant", "From Rex Require Import NodeCfg.\nFrom Rex.Ties Require Import NodeKernelsTie.\n",
                         "(v_sd_node src_variant, v_sd_conn src_variant, v_cfi_key src_variant)")
        return tuple(int(bool(x)) for x in v)
    except Exception as e:  # noqa
        chk.broke("tie:NodeKernels.src_variant", str(e)[-500:]); return None


# ---------------------------------------------------------------- entry
def run(chk, replay=None):
    chk.stage_proofs(kernels=["NodeKernels"])
    src_v = source_variant(chk)
    r = chk.rnd
    quick = chk.tier == "quick"
    n_cfg, n_eps, kmax = (300, 3, 5) if quick else (4000, 20, 7)
    if replay:
        rp = json.load(open(replay)); c = eval(rp["case"]["repr"])
        cfg_cases, eps_cases = ([], [c]) if rp["case"].get("episode") else ([c], [])
    else:
        cfg_cases = [gen_case(r, kmax) for _ in range(n_cfg)]
        eps_cases = [gen_case(r, kmax, episode=True) for _ in range(n_eps)]
    terms = [coq_case(c) for c in cfg_cases + eps_cases]
    model = [canon_model(m) for m in lib.coq_eval_sharded("C16", HEADER, "run", terms, per=100)] if terms else []
    timeouts = 0
    for idx, (case, mo) in enumerate(zip(cfg_cases, model)):
        if timeouts >= 3: break
        peek = bool(idx % 2) or bool(replay)       # every other configuration is inspected (phase, info) after each construction step
        try:
            impl, extra = with_timeout(20, lambda: impl_run(case, peek))
        except ImplTimeout:
            timeouts += 1
            chk.violation("cfg-differs:does-not-return", "building the configuration / reading phase and info / the info round trip "
                          "did not return within 20 s", dict(repr=repr(case), ops=len(case[1]))); continue
        except Exception as e:  # noqa: any exception other than the algebraic-loop report is a difference from the model
            chk.violation(f"cfg-differs:raises:{type(e).__name__}", f"rex raised {type(e).__name__}: {str(e)[:200]} on a configuration "
                          "the model accepts", dict(repr=repr(case), ops=len(case[1]))); continue
        chk.traces_impl += 1
        f = feats(case)
        if any(v["phase"] == "LOOP" for v in mo[0]["before"].values()): f.append("algebraic-loop")
        if mo[0]["after"] is not None: f.append("info-roundtrip")
        if any(len({c["delay"] + 0 for c in v["inputs"].values()}) < len(v["inputs"]) for v in mo[0]["before"].values()): f.append("equal-delays-at-a-node")
        if peek: f.append("inspected-while-building")
        chk.case(repr(case), f, dict(kind="config", nodes=repr(case[0])[:300], ops=repr(case[1])[:500]))
        v = judge(chk, case, impl, mo, tag="cfg(inspected)" if peek else "cfg")
        if v is not None and src_v is not None and impl != mo[VARIANTS.index(src_v)]:
            chk.broke("tie-vs-correspondence", f"the regenerated kernels say the source is variant {src_v}, the implementation "
                      f"behaves like variant {v} on {repr(case)[:300]}")
        law_roundtrip(chk, case, impl, extra)
    if eps_cases: run_episodes(chk, eps_cases, model[len(cfg_cases):])
    # minimal failing inputs first: keep, per signature, the violation with the fewest operations
    best = {}
    for v in chk.violations:
        k = (v["signature"], v["what"].split(" ignore")[0] if v["signature"] == SIG_F3 else "")
        if k not in best or v["case"].get("ops", 99) < best[k]["case"].get("ops", 99): best[k] = v
    chk.violations = list(best.values())
    chk.extra["source_variant"] = dict(zip(("BaseNode.set_delay ignores delay_dist", "Connection.set_delay ignores delay_dist",
                                            "connect_from_info passes the dict key as name"), map(bool, src_v))) if src_v else "tie broken"
    chk.extra["rule"] = (
        "config cases: 2-%d nodes (rates on the 1/64 s lattice, expected delay and distribution each given or defaulted), then 2-12 "
        "operations drawn from connect (forward mostly un-skipped, backward mostly skipped, with/without a shadow name=, "
        "reconnects), BaseNode.set_delay and Connection.set_delay with each argument present/absent; observed: phase / info "
        "of every node or the algebraic-loop error, all connection attributes, and the same after from_info + "
        "connect_from_info; non-trivial = exercises a shadow name, a skipped connection, a set_delay, a reconnect, a "
        "defaulted delay, a distrax-wrapped distribution or a loop; distinct by (nodes, ops). episode cases: 2-3 node "
        "acyclic graphs, at least one set_delay, one 8-step simulated-clock AsyncGraph episode in a child process, recorded "
        "computation / communication delays compared with the configured table stream" % kmax)
    chk.trusted += ["harness-side TableDist (cyclic table of delays) and Probe node classes; registry of distributions identified by content"]
    chk.notes += ["times are multiples of 1/64 s, so floats are exact and compared exactly as integer ticks",
                  "the model does not carry cls/color/order and the senders' `outputs` dicts; for these the round-trip clause is "
                  "checked on the implementation alone (before == after)",
                  "configurations with two connections from one sender to one receiver (different input names) are not generated: "
                  "rex keys NodeInfo.inputs and BaseNode.outputs by node name, so they are not representable",
                  "Python's recursion limit (~1000 frames, 3-4 frames per node) also reports an acyclic chain of more than ~250 nodes "
                  "as an algebraic loop; the model's fuel is always larger than the number of nodes"]


if __name__ == "__main__":
    if "--episodes" in sys.argv: episode_child()
