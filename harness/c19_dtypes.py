"""C19 helper: the 'action dtype x bounds dtype' region of the configuration space of the action wrappers.

The property says: squashed / clipped actions ALWAYS land inside the action bounds of the wrapped environment, for all action values and
bounds.  Nothing in it restricts the floating dtype of the action a policy hands over (float16 / bfloat16 mixed-precision policies,
float32, float64 under jax_enable_x64) or the dtype of the bounds a user environment declares (jnp float32, reduced precision, numpy
float64).  This module runs the REAL rex code on such combinations and reports, as plain float64 numbers (every one of these dtypes
converts to float64 exactly), what the wrapped environment received and the bounds it declares.  It makes no judgement; harness/c19.py does.

Standalone on purpose (imports only jax / numpy / rex): it is used in-process by harness/c19.py and as a child process
(`python c19_dtypes.py < specs.json > results.json`, JAX_ENABLE_X64=1) for the 64-bit part of the matrix, which needs another
interpreter configuration.

A spec is a dict of plain JSON values:
  low, high : lists of floats (rounded to `bdt` here);  bdt : dtype name of the bounds;  np_bounds : bounds are numpy arrays (not jnp)
  adt       : dtype name of the action handed to the wrapper;  squash : bool
  path      : 'kernel'       SquashState.unsquash on the whole batch of actions
              'wrapper'      SquashActionWrapper(env).step, eager, one action at a time
              'wrapper-jit'  the same under jax.jit
              'vec-jit'      jit(VecEnvWrapper(SquashActionWrapper(env)).step) on the batch
              'clip'         ClipActionWrapper(env).step, eager      'clip-vec-jit'  the same vectorised and jitted
  xs        : list of raw action vectors (floats, +-inf allowed), cast to `adt` here
  inv       : list of fractions f in (0, 1): points low + f (high - low) for the inverse law unsquash(scale(y)) ~ y (kernel path only)
The result per spec: dict(low, high (float64 lists of what the environment's action_space declares), bdt_seen, recv (list of float64
vectors), recv_dtype, xs_cast (the raw actions after the cast to adt), inv=[(y, z_cast, back)] or error=str).
"""
import json
import sys


def _dt(name):
    import jax.numpy as jnp
    return jnp.dtype(jnp.bfloat16) if name == "bfloat16" else jnp.dtype(name)


def _f64(x):
    import numpy as onp
    return onp.asarray(x).astype(onp.float64)


def run_spec(s):
    import numpy as onp
    import jax
    import jax.numpy as jnp
    from rex import base, rl

    bdt, adt = _dt(s["bdt"]), _dt(s["adt"])
    low_np = onp.asarray(onp.array(s["low"], onp.float64).astype(bdt))
    high_np = onp.asarray(onp.array(s["high"], onp.float64).astype(bdt))
    low, high = (low_np, high_np) if s.get("np_bounds") else (jnp.asarray(low_np), jnp.asarray(high_np))
    xs = jnp.asarray(onp.array(s["xs"], onp.float64)).astype(adt) if s["xs"] else jnp.zeros((0, len(s["low"])), adt)
    d = len(s["low"])

    class RecEnv:
        """a user environment as far as the wrappers know; reports the action it received"""
        params = None
        max_steps = 10

        def action_space(self, gs): return rl.Box(low, high)
        def observation_space(self, gs): return rl.Box(jnp.zeros(1), jnp.ones(1))
        def reset(self, rng=None): return base.GraphState(), jnp.zeros((1,), jnp.float32), {}

        def step(self, gs, action):
            return gs, jnp.zeros((1,), jnp.float32), jnp.float32(0), jnp.array(False), jnp.array(False), {"received": action}

    out = dict(low=[float(v) for v in _f64(low)], high=[float(v) for v in _f64(high)], bdt_seen=str(jnp.asarray(low).dtype),
               xs_cast=[[float(v) for v in row] for row in _f64(xs)])
    path = s["path"]
    if path == "kernel":
        st = rl.SquashState(low=low, high=high, squash=bool(s["squash"]))
        y = st.unsquash(xs)
        out["recv"] = [[float(v) for v in row] for row in _f64(y)]
        out["recv_dtype"] = str(y.dtype)
        inv = []
        for f in s.get("inv", []):
            # a point inside the box, in the dtype of the bounds
            yy = (jnp.asarray(low) + (jnp.asarray(high) - jnp.asarray(low)) * f)
            z = st.scale(yy)
            zc = z.astype(adt)                      # the policy's output dtype
            back = st.unsquash(zc)
            inv.append(([float(v) for v in _f64(yy)], [float(v) for v in _f64(zc)], [float(v) for v in _f64(back)]))
        out["inv"] = inv
        return out
    env = RecEnv()
    if path.startswith("clip"):
        wenv = rl.ClipActionWrapper(env)
    else:
        wenv = rl.SquashActionWrapper(env, squash=bool(s["squash"]))
    if path.endswith("vec-jit"):
        venv = rl.VecEnvWrapper(wenv)
        n = int(xs.shape[0])
        gs, _, _ = venv.reset(jax.random.split(jax.random.PRNGKey(0), n))
        info = jax.jit(venv.step)(gs, xs)[5]
        rec = info["received"]
        out["recv"] = [[float(v) for v in row] for row in _f64(rec)]
        out["recv_dtype"] = str(rec.dtype)
        return out
    gs, _, _ = wenv.reset(jax.random.PRNGKey(0))
    step = jax.jit(wenv.step) if path.endswith("-jit") else wenv.step
    recv = []
    dt_seen = None
    for i in range(int(xs.shape[0])):
        rec = step(gs, xs[i])[5]["received"]
        dt_seen = str(rec.dtype)
        recv.append([float(v) for v in _f64(rec)])
    assert all(len(r) == d for r in recv)
    out["recv"] = recv
    out["recv_dtype"] = dt_seen
    return out


def run_specs(specs):
    res = []
    for s in specs:
        try:
            res.append(run_spec(s))
        except Exception as ex:  # noqa  (reported by the harness as 'rex raised on ...')
            res.append(dict(error=f"{type(ex).__name__}: {str(ex)[:300]}"))
    return res


if __name__ == "__main__":
    import jax
    specs = json.load(sys.stdin)
    res = run_specs(specs)
    json.dump(dict(x64=bool(jax.config.jax_enable_x64), results=res), sys.stdout)
