"""Direct evaluation of the C03 / C04 / C06 clauses on a canonical episode trace (integers, ticks).  These are the
property oracles applied to *implementation* traces (and to model traces as a self-test); they are written from the
property text, independently of the actor model."""


def rows_of(rec, n):
    c = rec["rows"][n]
    return c


def check_c03(cfg, nph, cph, rec, pinned_buffer_skip=False):
    """returns list of (signature, detail) violations of C03 on one recorded episode"""
    V = []
    R = rec["rows"]; M = rec["msgs"]
    for n, c in R.items():
        T = len(c["seq"])
        if c["seq"] != list(range(T)): V.append(("steps-seq-gap", f"{n}: seq {c['seq'][:12]}"))
        for k in range(T):
            if c["end"][k] < c["start"][k]: V.append(("step-ends-before-start", f"{n}[{k}]"))
            if k + 1 < T and c["start"][k + 1] < c["end"][k]:
                V.append(("steps-overlap", f"{n}: step {k + 1} starts {c['start'][k + 1]} before step {k} ends {c['end'][k]}"))
    for key, cc in cfg["conns"].items():
        ms = M.get(key, [])
        snd, rcv = cc["out"], cc["in"]
        pol = ("blocking" if cc["blocking"] else cc["jitter"]) + ("+skip" if cc["skip"] else "")
        S = R[rcv]["start"]
        Pm, Pn = cfg["nodes"][snd]["period"], cfg["nodes"][rcv]["period"]
        for j, m in enumerate(ms):
            so, si, sent, recv = m[0], m[1], m[2], m[3]
            if so != j: V.append(("delivery-gap-or-dup:" + pol, f"{key}: message {j} has seq_out {so}")); break
            if recv < sent: V.append(("recv-before-sent:" + pol, f"{key}[{j}] sent {sent} recv {recv}"))
            if j > 0 and ms[j - 1][1] > si: V.append(("consumed-out-of-order:" + pol, f"{key}[{j}]"))
            if j > 0 and ms[j - 1][3] > recv: V.append(("recv-not-fifo:" + pol, f"{key}[{j}]"))
            if so < len(R[snd]["end"]) and R[snd]["end"][so] != sent:
                V.append(("sent-time-not-step-end:" + pol, f"{key}[{j}] sent {sent} sender end {R[snd]['end'][so]}"))
            if si >= len(S): V.append(("consumed-by-unrecorded-step:" + pol, f"{key}[{j}] seq_in {si}")); continue
            st = S[si]
            # never by a step that started before it arrived
            # (blocking connections: the phase-determined step waits for the message, so start == arrival is the normal case,
            #  also with skip; the strict rule for skipped connections concerns the non-blocking selection)
            if st < recv or (cc["skip"] and not cc["blocking"] and st == recv):
                V.append(("consumed-before-arrival:" + pol, f"{key}[{j}] recv {recv} consumed by step {si} starting {st}"))
            if cc["blocking"]:
                # phase-determined step: sender tick so is scheduled at so*Pm+phi_m; it belongs to receiver step N with
                # sched_n(N-1) < t <= sched_n(N)   (skip: <= , <), N = 0 takes everything earlier
                t = so * Pm + nph[snd]
                N = 0
                while True:
                    hi = N * Pn + nph[rcv]
                    if (t <= hi and not cc["skip"]) or (t < hi and cc["skip"]): break
                    N += 1
                if N != si: V.append(("blocking-wrong-step:" + pol, f"{key}[{j}] scheduled {t}: expected step {N}, consumed by {si}"))
            else:
                need = recv
                strict = cc["skip"]
                if cc["jitter"] == "BUFFER":
                    exp = so * Pm + cph[key]
                    # first step starting at/after both its arrival and its expected arrival (strictly after arrival if skip)
                    def fits(s):
                        return s >= exp and (s > recv if strict else s >= recv)
                else:
                    def fits(s):
                        return s > recv if strict else s >= recv
                first = next((k for k in range(len(S)) if fits(S[k])), None)
                # FIFO: a message cannot be consumed before its predecessor
                if j > 0 and first is not None: first = max(first, ms[j - 1][1])
                if first != si:
                    V.append(("not-first-fitting-step:" + pol, f"{key}[{j}] recv {recv}: first fitting step {first}, consumed by {si} "
                                                              f"(starts {S[max(0, si - 1):si + 1]})"))
    # windows
    for n, c in R.items():
        if "wins" not in c: continue
        for key, cc in cfg["conns"].items():
            if cc["in"] != n: continue
            snd = cc["out"]; w = cc["window"]; ms = M.get(key, [])
            outs = R[snd].get("out")
            for k in range(len(c["seq"])):
                cons = [m for m in ms if m[1] <= k]
                want = [[-1, 0, 0, 3 + cfg["nodes"][snd]["nid"]]] * w + \
                       [[m[0], m[2], m[3], (outs[m[0]] if outs and m[0] < len(outs) else None)] for m in cons]
                want = want[-w:]
                got = [[max(e[0], -1)] + e[1:] for e in c["wins"][k][snd]]
                for a, b in zip(got, want):
                    if b[3] is None: b = b[:3] + [a[3]]
                    if a != b:
                        V.append(("window-not-last-consumed", f"{n}[{k}] input {snd}: got {got} want {want}")); break
                else: continue
                break
    return V


def check_c04(cfg, nph, cph, rec):
    """reference recurrence for start / end / arrival times, evaluated on the recorded episode"""
    V = []
    R = rec["rows"]; M = rec["msgs"]
    for n, nd in cfg["nodes"].items():
        c = R[n]; P = nd["period"]; phi = nph[n]
        ins = {k: cc for k, cc in cfg["conns"].items() if cc["in"] == n}
        only_b = nd["advance"] and all(cc["blocking"] for cc in ins.values())
        drift = 0; end_prev = 0; prev_start = None; prev_held = False
        for k in range(len(c["seq"])):
            s = k * P + phi
            tsmax = 0
            for key, cc in ins.items():
                if cc["blocking"]:
                    for m in M.get(key, []):
                        if m[1] == k: tsmax = max(tsmax, m[3])
            terms = [tsmax, end_prev] + ([] if only_b else [s + drift])
            want = max(terms)
            if only_b: want = s + max(tsmax - s, end_prev - s)
            if c["start"][k] != want:
                V.append(("start-law:" + ("advance" if only_b else nd["sched"]),
                          f"{n}[{k}] start {c['start'][k]} want max(ts_max {tsmax}, end_prev {end_prev}"
                          + ("" if only_b else f", sched {s}+drift {drift}") + f") = {want}")); break
            if not only_b and c["start"][k] < s: V.append(("starts-before-schedule", f"{n}[{k}]"))
            d = nd["delays"][k % len(nd["delays"])]
            if c["end"][k] != c["start"][k] + d or c["delay"][k] != d:
                V.append(("end-law", f"{n}[{k}] end {c['end'][k]} start {c['start'][k]} delay sample {d} recorded {c['delay'][k]}")); break
            if nd["sched"] == "FREQ":
                # consecutive starts stay >= P apart under overruns; a step held back by a late blocking input is not on
                # the schedule line, so the claim is about steps (this one and the previous) that were not held back
                held = tsmax > max(end_prev, s + drift)
                if prev_start is not None and not held and not prev_held and not only_b and c["start"][k] - prev_start < P:
                    V.append(("frequency-spacing", f"{n}[{k}] starts {c['start'][k] - prev_start} after previous, period {P}"))
                prev_held = held
                drift = drift + max(0, (end_prev - s) - drift)
            else:
                drift = 0
                if end_prev <= s and tsmax <= s and c["start"][k] != s and not only_b:
                    V.append(("phase-regrid", f"{n}[{k}] start {c['start'][k]} should be back on grid {s}"))
            prev_start = c["start"][k]; end_prev = c["end"][k]
    for key, cc in cfg["conns"].items():
        prev = 0
        for j, m in enumerate(M.get(key, [])):
            d = cc["delays"][j % len(cc["delays"])]
            want = max(m[2] + d, prev)
            if m[3] != want:
                V.append(("arrival-law", f"{key}[{j}] recv {m[3]} want max(sent {m[2]} + delay {d}, prev {prev}) = {want}")); break
            prev = m[3]
    return V


def check_c06(cfg, ep, sup, drive):
    """every recorded tick executed the step function exactly once with that tick's seq; override/skipped ticks zero times"""
    V = []
    calls = {}
    for c in ep["calls"]: calls.setdefault(c[0], []).append(c[1])
    for n in cfg["nodes"]:
        rec = ep["record"]["rows"][n]["seq"]
        got = calls.get(n, [])
        if n == sup:
            if drive == "override":
                # the user's own calls are logged too (user_calls of them); the graph must add none
                if len(got) != ep["user_calls"]:
                    V.append(("supervisor-override-executes-step", f"{n}: {len(got)} executions for {ep['user_calls']} user calls"))
                continue
            # run()/step(): the supervisor's step runs once per answered tick; the last recorded tick may be the one
            # skipped at stop (no execution)
            want = rec
            if got != want and got != want[:-1]:
                V.append(("supervisor-step-count", f"{n}: executed seqs {got[:20]} recorded {want[:20]}"))
            continue
        if got != rec:
            from collections import Counter
            cnt = Counter(got)
            twice = [s for s in rec if cnt.get(s, 0) == 2]
            if twice and all(cnt.get(s, 0) == 2 for s in rec):
                V.append(("async-step-runs-twice", f"{n}: every recorded tick executed twice ({len(got)} calls for {len(rec)} ticks)"))
            else:
                # ticks executed after the record was cut (stop) may appear at the tail
                if got[:len(rec)] != rec or len(got) > len(rec) + 1:
                    V.append(("step-execution-count", f"{n}: executed seqs {got[:20]} recorded {rec[:20]}"))
    return V


def check_sched_terms(cfg, nph, cph, rec):
    """the scheduling terms recorded with each step (AsyncStepRecord) are the values the start law used for that step:
    ts_scheduled = k*P + phase, ts_max = latest blocking arrival, ts_end_prev = end of the previous step, phase_scheduled = the
    FREQUENCY drift in force for this step, phase_last / phase_inputs / phase = the three shifts relative to the scheduled time"""
    V = []
    R = rec["rows"]; M = rec["msgs"]
    for n, nd in cfg["nodes"].items():
        c = R[n]
        if "phase_scheduled" not in c: continue
        P = nd["period"]; phi = nph[n]
        ins = {k: cc for k, cc in cfg["conns"].items() if cc["in"] == n}
        drift = 0; end_prev = 0
        for k in range(len(c["seq"])):
            s = k * P + phi
            tsmax = 0
            for key, cc in ins.items():
                if cc["blocking"]:
                    for m in M.get(key, []):
                        if m[1] == k: tsmax = max(tsmax, m[3])
            want = dict(ts_scheduled=s, ts_max=tsmax, ts_end_prev=end_prev, phase_scheduled=drift, phase_last=end_prev - s,
                        phase_inputs=tsmax - s, phase=c["start"][k] - s)
            for fld, w in want.items():
                if fld in c and c[fld][k] != w:
                    V.append((f"recorded-scheduling-term-unfaithful:{fld}", f"{n}[{k}] recorded {fld} = {c[fld][k]}, the value in force for this step was {w}"))
                    return V
            drift = drift + max(0, (end_prev - s) - drift) if nd["sched"] == "FREQ" else 0
            end_prev = c["end"][k]
    return V
