"""compiled-runtime half of C06: host-side invocation log (ordered io_callback inside the jitted rollout) vs the executed
rows of the record vs the extracted model's rows; masked slots and the step-0 supervisor branch execute nothing."""
import random
from collections import Counter
from . import compiledlib as cl, c07, asynclib as al


def run(chk):
    quick = chk.tier == "quick"
    jobs = c07.make_jobs(chk, 10 if quick else 30)
    jobs = [j for j in jobs if j["id"][0] in "rga"][:6 if quick else 30]     # high-ratio, generated and recorded instances
    for j in jobs: j["id"] = "c06c:" + j["id"]; j["eps_out_of_range"] = True; j["gym_full"] = True; j["skip_probe"] = True
    res = cl.run_jobs(jobs, nproc=4 if quick else 10)
    insts = []; meta = []
    for j in jobs:
        r = res.get(j["id"], dict(error="MISSING")); cfg = j["cfg"]
        case = dict(cfg=cfg, source=j["source"], mode=j["mode"], prune=j["prune"], seed=j.get("seed"), tmax=j.get("tmax"), steps=j.get("steps"), runtime="compiled")
        if "error" in r or "graph_error" in r: chk.feat("compiled:rejected-or-error"); continue
        chk.case((repr(cfg), j["mode"], j["prune"], "compiled"), ["compiled", j["mode"]] + al.features(cfg), None)
        names = sorted(cfg["nodes"]); cn = list(cfg["conns"])
        if "calls_eps_oob" in r and r["episodes"] and not j.get("replay_rng", True) is False:
            last = Counter((c[0], c[1]) for c in r["episodes"][-1]["calls"]); oob = Counter((c[0], c[1]) for c in r["calls_eps_oob"])
            if last != oob:
                k0 = next(k for k in set(last) | set(oob) if last.get(k, 0) != oob.get(k, 0))
                chk.violation("compiled-out-of-range-episode-executes-other-steps", f"init(starting_eps beyond the last episode): {k0[0]}[{k0[1]}] executed {oob.get(k0, 0)} times, "
                              f"in the last episode (to which the index is clipped) {last.get(k0, 0)} times", case)
        for e, cg_ in enumerate(r.get("calls_gym", [])):
            cnt = Counter((c[0], c[1]) for c in cg_)
            dup = [k for k, v in cnt.items() if v > 1]
            vs_ = {n: {v[0] for v in r["raw"][e]["verts"][n] if v[0] >= 0} for n in names} if r.get("raw") else None
            if dup:
                chk.violation("compiled-step-executed-more-than-once", f"episode {e}, reset() + graph.max_steps (= {r.get('max_steps')}) x step(): {dup[0][0]}[{dup[0][1]}] executed "
                              f"{cnt[dup[0]]} times", case)
            elif vs_ is not None:
                ghost = [k for k in cnt if k[1] not in vs_.get(k[0], set())]
                if ghost: chk.violation("compiled-unscheduled-step-executed", f"episode {e}, reset() + max_steps x step(): {ghost[0][0]}[{ghost[0][1]}] is not a vertex of the episode's graph", case)
        sk = r.get("calls_skip")
        if sk and "error" in sk: chk.feat("skip-probe:error:" + sk["error"].split(":")[0])
        elif sk and r.get("calls_gym") and sk.get("max_steps") == r.get("max_steps"):
            # Graph(skip=[k]) with prefix-related node names: exactly the skipped node's invocations disappear, every other scheduled tick still runs once
            inv = {v: k for k, v in sk["rename"].items()}
            for e, cs in enumerate(sk["calls"]):
                if e >= len(r["calls_gym"]): break
                chk.traces_impl += 1; chk.feat("skip-probe:compared")
                got = Counter((inv.get(c[0], c[0]), c[1]) for c in cs)
                want = Counter((c[0], c[1]) for c in r["calls_gym"][e] if c[0] != sk["skipped"])
                if got != want:
                    k0 = sorted(k for k in set(got) | set(want) if got.get(k, 0) != want.get(k, 0))[0]
                    sig = "compiled-skipped-node-executed" if k0[0] == sk["skipped"] else ("compiled-step-not-executed" if got.get(k0, 0) == 0 else "compiled-step-executed-more-than-once")
                    chk.violation(sig, f"episode {e}, Graph(skip=['{sk['rename'][sk['skipped']]}']) with node names {sorted(sk['rename'].values())}: {sk['rename'].get(k0[0], k0[0])}[{k0[1]}] "
                                  f"executed {got.get(k0, 0)} times, without skip {want.get(k0, 0)} times (reset() + max_steps x step())", dict(case, skip=sk["skipped"], rename=sk["rename"]))
        for e, ep in enumerate(r["episodes"]):
            if "rows" not in ep: chk.feat("init_record-unavailable"); continue
            chk.traces_impl += 1
            calls = Counter((c[0], c[1]) for c in ep["calls"])
            executed = Counter((n, row[0]) for n in names for row in cl.impl_rows(ep, n))
            # from the property text, independent of what the record says: no step function application twice, none outside the episode's own graph
            verts = {n: {v[0] for v in r["raw"][e]["verts"][n] if v[0] >= 0} for n in names} if r.get("raw") else None
            dup = [k for k, v in calls.items() if v > 1]
            if dup:
                chk.violation("compiled-step-executed-more-than-once", f"episode {e}: {dup[0][0]}[{dup[0][1]}] executed {calls[dup[0]]} times "
                              f"(rollout over the full compiled horizon of {r.get('max_steps')} partitions)", case)
            elif verts is not None:
                ghost = [k for k in calls if k[1] not in verts.get(k[0], set())]
                if ghost: chk.violation("compiled-unscheduled-step-executed", f"episode {e}: {ghost[0][0]}[{ghost[0][1]}] executed but is not a vertex of the episode's graph", case)
            if calls != executed:
                extra = [k for k in calls if calls[k] != executed.get(k, 0)] + [k for k in executed if k not in calls]
                k0 = extra[0]
                sig = "compiled-step-executed-more-than-once" if calls.get(k0, 0) > 1 else ("compiled-step-not-executed" if calls.get(k0, 0) == 0 else "compiled-unscheduled-step-executed")
                chk.violation(sig, f"episode {e}: {k0[0]}[{k0[1]}] executed {calls.get(k0, 0)} times, recorded/scheduled {executed.get(k0, 0)} times", case)
            insts.append((r["insts"][e], names, cn, cfg)); meta.append((j, r, e, case, calls))
    if insts:
        for (j, r, e, case, calls), m in zip(meta, cl.run_model(insts)):
            mod = Counter((n, row[0]) for n in m["rows"] for row in m["rows"][n])
            if mod != calls and not any(v["signature"].startswith("compiled-") for v in chk.violations):
                chk.broke("correspondence:M3-vs-Graph(invocations)", f"job {j['id']} episode {e}")
