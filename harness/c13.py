"""C13 — recording is faithful and never changes the execution (threaded half here, compiled half in c13_compiled)."""
import itertools
from . import lib, asynclib as al

FLAGS = ("params", "rng", "inputs", "state", "output")


def run(chk, replay=None):
    chk.stage_proofs(kernels=["Runner"])
    quick = chk.tier == "quick"
    r = chk.rnd
    combos = [dict(zip(FLAGS, bits)) for bits in itertools.product([False, True], repeat=5)]
    settings = {"all": dict(zip(FLAGS, [True] * 5)), "none": dict(zip(FLAGS, [False] * 5))}
    pick = combos if not quick else r.sample(combos, 3)
    for i, c in enumerate(pick): settings[f"c{i}:" + "".join(str(int(c[f])) for f in FLAGS)] = c
    variants = {}
    for name, s in settings.items(): variants[name] = dict(drive="reset_step", record=dict(s))
    # per-node settings (the documented dict form): what is recorded for one node is what was asked for THAT node
    variants["pernode"] = dict(drive="reset_step", record=dict(params=False, inputs=True, rng={"n0": True, "n1": False, "n2": True, "n3": False},
                                                                 state={"n0": False, "n1": True, "n2": True, "n3": False},
                                                                 output={"n0": True, "n1": True, "n2": False, "n3": True}))
    # get_record() is called once while the episode runs and again after stop(): whatever the second call returns must be self-consistent (the windows of
    # its rows are backed by its own message log)
    variants["record_twice"] = dict(drive="reset_step", record=dict(settings["all"]), record_mid=2)
    variants["max1"] = dict(drive="reset_step", record=dict(settings["all"], max_records=1))
    variants["max3"] = dict(drive="run", record=dict(settings["all"], max_records=3))
    n = 4 if quick else 10

    def gen(rnd, max_nodes=4):
        cfg = al.gen_cfg(rnd, max_nodes=max_nodes, steps=8)
        for nd in cfg["nodes"].values(): nd["period"] = max(nd["period"], 4)
        return cfg
    graphs = al.async_suite(chk, n, variants, max_nodes=3 if quick else 4, gen=gen, nproc=12, retries=1, per_job_timeout=90, lenient=True)
    for G in graphs:
        cfg = G["cfg"]
        if G["skipped"]: chk.feat("skipped:" + G["skipped"].split(":")[0]); continue
        eps = {}
        for vn, rr in G["runs"].items():
            if "error" in rr and al.unsupported_hang(chk, cfg, rr): continue
            if "error" in rr:
                chk.case((repr(cfg), vn), ["impl-error"], None)
                chk.violation(f"async-run-fails:{rr['error'].split(':')[0].split(' ')[0]}", f"threaded run failed under record setting {vn}: {rr['error'][:300]}", dict(cfg=cfg, variant=vn))
                continue
            eps[vn] = rr["episodes"][0]; chk.traces_impl += 1
            if "error" in eps[vn]["record"]:
                # get_record() raises when a connection has no consumed message inside the (truncated) record: the record is
                # unavailable, the execution (host log) is still compared
                chk.feat("record_unavailable:" + vn.split(":")[0]); eps[vn]["record"] = dict(rows={}, msgs={}, unavailable=True)
            al.canon_neg(eps[vn])
        chk.case(repr(cfg), al.features(cfg) + [f"settings={len(eps)}"], dict(cfg=cfg, settings=sorted(eps)) if len(chk.samples) < 2 else None)
        if "all" not in eps: continue
        # (1) the execution (host-side probe log: seq, ts, state before, output, rng words) is the same under every setting
        def by_node(ep):
            d = {}
            for c in ep["calls"]: d.setdefault(c[0], []).append(tuple(c[1:]))
            return d
        ref = by_node(eps["all"])
        for vn, ep in eps.items():
            cur = by_node(ep)
            for nname in cfg["nodes"]:
                a, b = ref.get(nname, []), cur.get(nname, [])
                m = min(len(a), len(b))
                if a[:m] != b[:m]:
                    k = next(i for i in range(m) if a[i] != b[i])
                    chk.violation("recording-changes-execution", f"node {nname} execution {k} differs between record settings 'all' and '{vn}': {a[k]} vs {b[k]}",
                                  dict(cfg=cfg, settings={vn: variants[vn]["record"]}))
            # supervisor observations are part of the execution too
            if variants[vn]["drive"] == "reset_step":
                o1, o2 = eps["all"]["obs"], ep["obs"]; m = min(len(o1), len(o2))
                if o1[:m] != o2[:m]:
                    chk.violation("recording-changes-execution", f"supervisor observations differ between 'all' and '{vn}'", dict(cfg=cfg))
        # (2) every recorded row is what that step used and produced (host log), row by row
        for vn, ep in eps.items():
            rec = variants[vn]["record"]; cur = by_node(ep)
            for nname in cfg["nodes"]:
                if ep["record"].get("unavailable"): continue
                c = ep["record"]["rows"][nname]; host = cur.get(nname, [])
                T = len(c["seq"])
                mr = rec.get("max_records")
                if mr is not None and T > mr:
                    chk.violation("max-records-exceeded", f"{nname}: {T} rows recorded with max_records={mr}", dict(cfg=cfg))
                for k in range(T):
                    if nname == cfg["sup"] and k >= len(host): continue     # the tick skipped at stop: no execution, no output
                    if k >= len(host):
                        chk.violation("row-without-execution", f"{nname}[{k}] recorded but never executed", dict(cfg=cfg)); break
                    h = host[k]    # (seq, ts, state_before, acc, rng0, rng1)
                    got = dict(seq=c["seq"][k], ts=c["start"][k])
                    want = dict(seq=h[0], ts=h[1])
                    if "state" in c: got["state"] = c["state"][k]; want["state"] = h[2]
                    if "out" in c and k < len(c["out"]): got["out"] = c["out"][k]; want["out"] = h[3]
                    if "rng" in c: got["rng"] = c["rng"][k]; want["rng"] = [h[4], h[5]]
                    if got != want:
                        chk.violation("record-row-unfaithful", f"{nname}[{k}] under setting {vn}: recorded {got}, the step used/produced {want}", dict(cfg=cfg, setting=rec)); break
                # the windows of the recorded rows are backed by the record's own message log (consumed messages of that connection, consumed no later than the step)
                if "wins" in c and not rec.get("max_records"):
                    for key_, cc_ in cfg["conns"].items():
                        if cc_["in"] != nname: continue
                        log = {m[0]: m[1] for m in ep["record"]["msgs"].get(key_, [])}        # seq_out -> seq_in
                        bad = None
                        for k in range(T):
                            for ent in (c["wins"][k].get(cc_["out"]) or []):
                                if ent[0] >= 0 and (ent[0] not in log or log[ent[0]] > c["seq"][k]): bad = (k, ent[0]); break
                            if bad: break
                        if bad:
                            chk.violation("record-window-not-in-message-log", f"{nname}[{bad[0]}] used message {cc_['out']}[{bad[1]}] (recorded input window) but the record's message log of "
                                          f"{key_} does not list it as consumed by then ({vn})", dict(cfg=cfg, setting=rec)); break
                # state chain
                if "state" in c and "out" in c:
                    for k in range(min(T, len(c["out"])) - 1):
                        if c["state"][k + 1] != c["out"][k]:
                            chk.violation("state-chain-broken", f"{nname}: state before step {k + 1} is {c['state'][k + 1]}, step {k} returned {c['out'][k]}", dict(cfg=cfg)); break
                # switched-off parts are absent, requested parts are present - per node
                for fld, key in (("state", "state"), ("output", "out"), ("rng", "rng"), ("inputs", "wins")):
                    asked = rec.get(fld, False); asked = asked.get(nname, False) if isinstance(asked, dict) else asked
                    if not asked and key in c:
                        chk.violation("record-setting-ignored", f"{nname}: part '{fld}' recorded although switched off for this node ({vn})", dict(cfg=cfg, setting=rec))
                    if fld == "inputs" and not any(cc["in"] == nname for cc in cfg["conns"].values()): continue     # a node without inputs has nothing to record there
                    if asked and key not in c and T > 0:
                        chk.violation("requested-part-not-recorded", f"{nname}: part '{fld}' was requested for this node ({vn}) but is missing from its record", dict(cfg=cfg, setting=rec))
        # (3) the recorded scheduling terms are the ones the step's start was computed from
        from . import async_checks as ac
        if not eps["all"]["record"].get("unavailable"):
            for sig, det in ac.check_sched_terms(cfg, G["node_phase"], G["conn_phase"], eps["all"]["record"]):
                chk.violation(sig, det, dict(cfg=cfg))
        # model tie
        for m in G.get("models", []):
            d = al.compare_episode(cfg, eps["all"], m)
            if d: chk.broke("correspondence:M1-vs-AsyncGraph", f"{d} | cfg={cfg}")
    wall_clock_records(chk, 2 if quick else 6)
    from . import c13_compiled
    c13_compiled.run(chk)
    chk.extra["rule"] = ("each random lattice graph is run under sampled (quick) / all 32 (thorough) combinations of the five record flags and "
                         "max_records in {1, 3, unlimited}; the host-side probe log (what each step really received and returned, incl. rng words) "
                         "must be identical across settings and every recorded row must equal the host log row; distinct by graph")


def wall_clock_records(chk, n):
    """wall-clock episodes (no model: not deterministic) in which a node re-stamps its step time: every recorded step must be self-consistent:
    delay = ts_end - ts_start (the recorded, possibly re-stamped start) and phase_overwrite = the shift of the start"""
    import random
    r = chk.rnd; jobs = []
    for i in range(n):
        rnd = random.Random(r.getrandbits(32))
        cfg = dict(nodes={"n0": dict(nid=0, period=8, exp=1, delays=[1], advance=False, sched="FREQ"),
                          "n1": dict(nid=1, period=rnd.choice([4, 8]), exp=1, delays=[1], advance=False, sched="FREQ")},
                   conns={"n1>n0": dict(out="n1", **{"in": "n0"}, blocking=False, skip=False, jitter="LATEST", window=2, exp=1, delays=[1]),
                          "n0>n1": dict(out="n0", **{"in": "n1"}, blocking=False, skip=True, jitter="LATEST", window=1, exp=1, delays=[1])}, sup="n0", steps=6)
        jobs.append(dict(id=f"wc{i}", kind="wallclock_stamp", cfg=cfg, stamper=rnd.choice(["n0", "n1"]), steps=6, shift=rnd.choice([0.0005, 0.001, 0.002])))
    res = al.run_jobs(jobs, nproc=min(4, n), per_job_timeout=60)
    for j in jobs:
        rr = res.get(j["id"], dict(error="MISSING"))
        chk.case(("wallclock-stamp", repr(j["cfg"]), j["stamper"], j["shift"]), ["wall-clock", "re-stamped-step-time"], None)
        if "error" in rr:
            e = rr["error"]
            if e.startswith("ValueError") and "step_state.ts" in e: chk.feat("wall-clock-stamp-rejected-by-runtime"); continue
            if "tree_map()" in e or e.startswith("TypeError"): chk.feat("record_unavailable"); continue
            chk.violation("wall-clock-run-fails:" + e.split(":")[0], e[:300], dict(job=j)); continue
        chk.traces_impl += 1
        for nname, c in rr["rows"].items():
            last = len(c["seq"]) - (1 if nname == j["cfg"]["sup"] else 0)      # the supervisor's last tick is the one skipped at stop(): no step ran
            for k in range(last):
                if abs((c["ts_end"][k] - c["ts_start"][k]) - c["delay"][k]) > 2e-5:
                    chk.violation("record-row-unfaithful:delay(wall-clock)", f"{nname}[{k}]: recorded delay {c['delay'][k]:.6f} but ts_end - ts_start = "
                                  f"{c['ts_end'][k] - c['ts_start'][k]:.6f} (phase_overwrite {c['phase_overwrite'][k]:.6f})", dict(job=j, row=k)); break
                want = j["shift"] if nname == j["stamper"] else 0.0
                if abs(c["phase_overwrite"][k] - want) > 2e-5:
                    chk.violation("record-row-unfaithful:phase_overwrite(wall-clock)", f"{nname}[{k}]: phase_overwrite {c['phase_overwrite'][k]:.6f}, the step shifted its "
                                  f"start by {want}", dict(job=j, row=k)); break
