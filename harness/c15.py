"""C15 — delay distributions: non-negative replayable samples, true quantiles, proper estimator output.

Correspondence between rex (base.StaticDist / TrainableDist, utils.mixture_distribution_quantiles, node default delay,
gmm_estimator.GMMEstimator.get_dist) and the Gallina model coq/Dist.v:
 * the grid routine is run on small grids and compared *exactly* with `grid_quantiles` evaluated inside Coq on integer
   ranks of the float32 CDF values (the routine only compares values), pinned and repaired index rule;
 * clipping, TrainableDist arithmetic and the prune/renormalise step of get_dist are evaluated in Coq over Q;
 * the clauses of the property are checked on the implementation's own results (non-negativity, key chain, replay,
   CDF bracket against an independent float64 CDF, monotonicity in q, default delay, estimator output)."""
import contextlib, io, json, math, time
from fractions import Fraction
from statistics import NormalDist
from . import lib

HEADER = """From Coq Require Import List ZArith QArith Qminmax Bool.
From Rex Require Import Ops Dist.
Import ListNotations.
Definition encq (q : Q) : Z * Z := let r := Qred q in (Qnum r, Zpos (Qden r)).
Definition run_grid (c : list Z * list Z * list Z) : option (list Z) * option (list Z) :=
  let '(probs, gs, cs) := c in
  (grid_quantiles Z.ltb (-1)%Z (grid_index Z.ltb) probs gs cs, grid_quantiles Z.ltb (-1)%Z (grid_index_fix Z.ltb) probs gs cs).
Definition run_clip (xs : list Q) : list (Z * Z) := map (fun x => encq (clip0 Qops x)) xs.
Definition run_train (c : Q * Q * Q * Q) : list (Z * Z) :=
  let '(mn, mx, alpha, delay) := c in
  [encq (trainable_value Qops mn mx alpha); encq (get_alpha Qops delay mn mx);
   encq (trainable_value Qops mn mx (get_alpha_raw Qops delay mn mx))].
Definition run_gmm (c : Q * list (Q * Z)) : list (list Z) :=
  map (fun wc => [fst (encq (fst wc)); snd (encq (fst wc)); snd wc]) (get_dist_comps Qops Qltb (fst c) (snd c)).
"""

STD = NormalDist()
SIG_F12 = "mixture-quantile:level>=largest-grid-cdf"
SIG_ARRAY = "mixture-quantile:array-levels-raise"


def fr(x): return Fraction(float(x))
def q2(p): return Fraction(p[0], p[1])


def mix_cdf64(ws, ms, ss, x):
    return sum(w * 0.5 * (1.0 + math.erf((x - m) / (s * math.sqrt(2.0)))) for w, m, s in zip(ws, ms, ss))


# ------------------------------------------------------------------------------------------------ generators
def gen_mix(r, delays=True):
    k = r.choice([2, 2, 3])
    raw = [r.randint(1, 8) for _ in range(k)]
    ws = [x / sum(raw) for x in raw]
    if r.random() < 0.35:   # well separated narrow components: the float32 CDF reaches exactly 1.0 on the grid
        ms = sorted(r.choice([0.5, 1.0, 1.5, 2.0, 3.0, 4.0]) for _ in range(k)); ss = [r.choice([0.005, 0.01, 0.02]) for _ in range(k)]
    else:
        ms = [r.randint(4, 60) / 20 for _ in range(k)]; ss = [r.randint(1, 10) / 40 for _ in range(k)]
    return ws, ms, ss


def mk_mix(ws, ms, ss):
    import jax.numpy as jnp, distrax
    return distrax.MixtureSameFamily(mixture_distribution=distrax.Categorical(probs=jnp.array(ws, dtype=jnp.float32)),
                                     components_distribution=distrax.Normal(loc=jnp.array(ms, dtype=jnp.float32),
                                                                            scale=jnp.array(ss, dtype=jnp.float32)))


def gen_dist(r):
    """(kind, params) of a StaticDist"""
    k = r.choice(["det", "normal", "normal", "mix", "mix"])
    if k == "det": return k, (r.randint(0, 64) / 64,)
    if k == "normal": return k, (r.randint(-16, 64) / 64, r.choice([0.0, 1 / 64, 1 / 16, 0.25, 0.5]))
    ws, ms, ss = gen_mix(r)
    if r.random() < 0.5: ms = [m - 1.0 for m in ms]     # mass below zero: the clip is exercised
    return k, (ws, ms, ss)


def build(kind, p):
    import distrax
    from rex import base
    if kind == "det": d = distrax.Deterministic(loc=p[0])
    elif kind == "normal": d = distrax.Normal(loc=p[0], scale=p[1])
    else: d = mk_mix(*p)
    return base.StaticDist.create(d)


# ------------------------------------------------------------------------------------------------ A. grid routine
def grid_cases(chk, n):
    import jax.numpy as jnp, numpy as onp
    from rex import utils
    r = chk.rnd
    cases = []
    for _ in range(n):
        ws, ms, ss = gen_mix(r)
        d = mk_mix(ws, ms, ss)
        N = r.randint(3, 40)
        lo = min(ms) - r.choice([0.5, 2, 4]) * max(ss); hi = max(ms) + r.choice([0.5, 2, 4, 12]) * max(ss)
        base_grid = onp.linspace(lo, hi, num=N)
        cdist = d.components_distribution
        cdf = onp.asarray(onp.sum(cdist.cdf(base_grid[..., None]) * d.mixture_distribution.probs[None], axis=-1))
        cs = [float(c) for c in cdf]
        cand = []
        for _ in range(r.randint(1, 4)):
            x = r.random()
            if x < 0.30: cand.append(r.choice(cs))                               # exactly a grid CDF value
            elif x < 0.45: cand.append(max(cs))                                   # the corner
            elif x < 0.55: cand.append(min(cs))
            elif x < 0.63: cand.append(float(onp.float32(r.choice([min(cs) / 2, min(1.0, max(cs) + 1e-3)]))))   # outside
            else:
                i = r.randrange(N - 1); cand.append(float(onp.float32((cs[i] + cs[i + 1]) / 2)))
        probs = jnp.array(cand, dtype=jnp.float32)
        pf = [float(x) for x in onp.asarray(probs)]
        try:
            with contextlib.redirect_stdout(io.StringIO()): out = utils.mixture_distribution_quantiles(d, probs, N, lo, hi)
            out = onp.asarray(out)
            res = [float(x) for x in out.reshape(-1)] if out.shape == (len(pf),) else ("shape", out.shape)
        except RuntimeError as e:
            res = None
        except Exception as e:  # noqa
            res = ("error", f"{type(e).__name__}: {str(e)[:120]}")
        cases.append(dict(ws=ws, ms=ms, ss=ss, N=N, lo=lo, hi=hi, cs=cs, probs=pf, grid=[float(g) for g in base_grid], res=res))
    terms = []
    for c in cases:
        vals = sorted(set(c["cs"]) | set(c["probs"])); rank = {v: i for i, v in enumerate(vals)}
        terms.append("(%s, %s, %s)" % (lib.listlit([lib.zlit(rank[p]) for p in c["probs"]]),
                                      lib.listlit([lib.zlit(i) for i in range(c["N"])]),
                                      lib.listlit([lib.zlit(rank[v]) for v in c["cs"]])))
    model = lib.coq_eval_sharded("C15_grid", HEADER, "run_grid", terms, per=150)
    for c, (mp, mf) in zip(cases, model):
        feats = []
        mx = max(c["cs"])
        if any(p in c["cs"] for p in c["probs"]): feats.append("level-equals-grid-cdf")
        if any(p >= mx for p in c["probs"]): feats.append("level>=max-grid-cdf")
        if mp is None: feats.append("guard-rejects")
        if len(set(c["cs"])) < len(c["cs"]): feats.append("cdf-plateau")
        chk.case(("grid", repr(c["cs"]), repr(c["probs"])), feats or ["interior"], dict(kind="grid", N=c["N"], probs=c["probs"]))
        chk.traces_impl += 1
        info = dict(kind="grid", weights=c["ws"], locs=c["ms"], scales=c["ss"], N=c["N"], grid_min=c["lo"], grid_max=c["hi"],
                    probs=c["probs"], cdf_grid=c["cs"], impl=c["res"])
        if isinstance(c["res"], tuple):
            chk.violation("grid-quantile:unexpected-" + c["res"][0], f"mixture_distribution_quantiles: {c['res']}", info); continue
        unwrap = lambda m: None if m is None else [c["grid"][i] for i in m[1]]
        wp, wf = unwrap(mp), unwrap(mf)
        info["model_pinned"], info["model_repaired"] = wp, wf
        if c["res"] != wp and c["res"] != wf:
            chk.violation("grid-quantile:differs-from-model", "mixture_distribution_quantiles differs from grid_quantiles (Dist.v) "
                          "under both index rules", info); continue
        if c["res"] is None: continue
        if c["res"] == wf and wp != wf: chk.feat("corner-handled-as-repaired")
        # the property on the implementation's own output: non-decreasing in the level
        pr = sorted(zip(c["probs"], c["res"]))
        for (p, x), (p2, x2) in zip(pr, pr[1:]):
            if x2 < x:
                sig = SIG_F12 if p2 >= mx else "grid-quantile:non-monotone"
                chk.violation(sig, f"quantile not monotone: level {p} -> {x}, level {p2} -> {x2}", info); break
        else:
            # a single level at the corner: compare with the level just below it
            for p, x in pr:
                if p >= mx and x < c["grid"][-1] and any(v < p for v in c["cs"]):
                    below = max(v for v in c["cs"] if v < p)
                    xb = c["grid"][next(i for i, v in enumerate(c["cs"]) if v > below)] if any(v > below for v in c["cs"]) else None
                    if xb is not None and x < xb:
                        chk.violation(SIG_F12, f"quantile({p}) = {x} (smallest grid point) although quantile({below}) = {xb}", info); break


# ------------------------------------------------------------------------------------------------ B/C. StaticDist.quantile
def quantile_cases(chk, n):
    import jax.numpy as jnp, numpy as onp
    r = chk.rnd
    levels = [0.001, 0.01, 0.05, 0.25, 0.5, 0.75, 0.9, 0.99, 0.999, 0.9999]
    last_mix = None
    for _ in range(n):
        kind, p = gen_dist(r)
        if kind == "mix" and r.random() < 0.5: p = (p[0], [abs(m) + 0.2 for m in p[1]], p[2])
        sibling = False
        if kind == "mix" and last_mix is not None and r.random() < 0.4:
            # a sibling of the previous mixture: the same components, different weights, queried in the same process
            raw = [r.randint(1, 12) for _ in last_mix[1]]
            p = ([x / sum(raw) for x in raw], last_mix[1], last_mix[2]); sibling = True
        if kind == "mix": last_mix = p
        sd = build(kind, p)
        qs = sorted(set(r.sample(levels, 5) + [0.99, 0.5, 0.9] + ([1.0] if r.random() < 0.5 else [])))
        if sibling: qs = sorted(set(qs + [0.5, 0.9]))
        info = dict(kind=kind, params=p, levels=qs)
        feats = [kind] + (["same-components-different-weights"] if sibling else [])
        vals = []
        for q in qs:
            try:
                with contextlib.redirect_stdout(io.StringIO()): v = sd.quantile(q)
                v = float(onp.asarray(v).reshape(()))
            except RuntimeError:
                v = None
            except Exception as e:  # noqa
                chk.violation(f"quantile:{kind}:raises", f"quantile({q}) raised {type(e).__name__}: {str(e)[:150]}", info); v = "err"
            vals.append(v)
        info["values"] = vals
        chk.traces_impl += 1
        if "err" in vals: chk.case(("q", kind, repr(p), repr(qs)), feats, None); continue
        if kind == "det":
            for q, v in zip(qs, vals):
                if v != float(onp.float32(p[0])) and v != p[0]:
                    chk.violation("quantile:det:not-loc", f"Deterministic quantile({q}) = {v} != loc {p[0]}", info); break
        elif kind == "normal":
            loc, sc = p
            for q, v in zip(qs, vals):
                if q >= 1.0:
                    if sc > 0 and v != math.inf: chk.violation("quantile:normal:q1", f"Normal quantile(1.0) = {v}", info)
                    continue
                exact = loc + sc * STD.inv_cdf(q)
                if v is None or abs(v - exact) > 2e-5 * (abs(exact) + sc + 1e-3) + 1e-6:
                    chk.violation("quantile:normal:differs", f"Normal quantile({q}) = {v}, expected {exact} (loc + scale*Phinv(q))", info); break
                if sc > 0:
                    back = NormalDist(loc, sc).cdf(v)
                    if abs(back - q) > 1e-4: chk.violation("quantile:normal:cdf", f"cdf(quantile({q})) = {back}", info); break
            if sc == 0: feats.append("scale=0")
        else:
            ws, ms, ss = p
            z1, z9 = STD.inv_cdf(0.001), STD.inv_cdf(0.999)
            gmin = 0.9 * min(m + z1 * s for m, s in zip(ms, ss)); gmax = 1.1 * max(m + z9 * s for m, s in zip(ms, ss))
            step = (gmax - gmin) / 999
            cmin, cmax = mix_cdf64(ws, ms, ss, gmin), mix_cdf64(ws, ms, ss, gmax)
            oriented = gmin < gmax
            if not oriented: feats.append("grid-reversed(negative-support)")
            for q, v in zip(qs, vals):
                if not oriented: break
                if v is None:
                    feats.append("guard-rejects")
                    if cmin + 1e-5 < q < cmax - 1e-5:
                        chk.violation("mixture-quantile:raises-inside-range", f"quantile({q}) raised although CDF(grid) spans [{cmin},{cmax}]", info)
                    continue
                Fx, Fp = mix_cdf64(ws, ms, ss, v), mix_cdf64(ws, ms, ss, v - step)
                corner = q >= float(onp.float32(cmax)) - 2e-7
                if corner: feats.append("level>=max-grid-cdf")
                if not corner and not (Fx >= q - 2e-5 and Fp <= q + 2e-5):
                    chk.violation("mixture-quantile:outside-grid-bracket",
                                  f"quantile({q}) = {v}: CDF(x) = {Fx}, CDF(x - step) = {Fp}, expected CDF(x-step) <= q < CDF(x)", info); break
            if oriented:
                pr = [(q, v) for q, v in zip(qs, vals) if v is not None]
                for (q, v), (q2, v2) in zip(pr, pr[1:]):
                    if v2 < v - 1e-9:
                        corner = q2 >= float(onp.float32(cmax)) - 2e-7
                        chk.violation(SIG_F12 if corner else "mixture-quantile:non-monotone",
                                      f"quantile({q}) = {v} > quantile({q2}) = {v2}", info); break
        if kind != "mix":
            pr = [(q, v) for q, v in zip(qs, vals) if v is not None]
            for (q, v), (q2, v2) in zip(pr, pr[1:]):
                if v2 < v: chk.violation(f"quantile:{kind}:non-monotone", f"quantile({q}) = {v} > quantile({q2}) = {v2}", info); break
        # array-valued levels (the code reads q.shape): same values, same shape
        if r.random() < 0.4 and all(v is not None for v in vals[:2]) and qs[1] < 1.0:
            feats.append("array-levels")
            try:
                av = onp.asarray(sd.quantile(jnp.array(qs[:2], dtype=jnp.float32)))
                if av.shape != (2,) or any(abs(float(a) - b) > 1e-6 * (1 + abs(b)) for a, b in zip(av, vals[:2])):
                    chk.violation(f"quantile:{kind}:array-levels-differ", f"quantile(array) = {av} vs scalars {vals[:2]}", info)
            except Exception as e:  # noqa
                chk.violation(SIG_ARRAY if kind == "mix" else f"quantile:{kind}:array-levels-raise",
                              f"quantile(jnp.array({qs[:2]})) raised {type(e).__name__}: {str(e)[:120]} (scalar levels work)", info)
        chk.case(("q", kind, repr(p), repr(qs)), feats, dict(kind=kind, params=repr(p)[:150], levels=qs))


# ------------------------------------------------------------------------------------------------ D. sampling
def sample_cases(chk, n):
    import jax, jax.numpy as jnp, numpy as onp
    r = chk.rnd
    clip_terms, clip_expect = [], []
    for _ in range(n):
        kind, p = gen_dist(r)
        sd0 = build(kind, p)
        seed = r.randrange(2 ** 31); key = jax.random.PRNGKey(seed)
        shapes = [r.choice([None, 1, 3, 7, (2, 3), (4,), 50]) for _ in range(r.randint(1, 3))]
        info = dict(kind=kind, params=p, seed=seed, shapes=[repr(s) for s in shapes])
        feats = [kind]
        sd = sd0.reset(key)
        if not (onp.array_equal(onp.asarray(sd.rng), onp.asarray(key)) and sd.dist is sd0.dist):
            chk.violation("reset:state", "reset(rng) does not return the same distribution with that rng", info)
        if not onp.array_equal(onp.asarray(sd0.rng), onp.asarray(jax.random.PRNGKey(0))):
            chk.violation("reset:mutates", "reset mutated the original distribution object", info)

        def stream(d, shapes):
            out = []
            for s in shapes:
                d2, x = d.sample(s); out.append((onp.asarray(d.rng).copy(), onp.asarray(d2.rng).copy(), onp.asarray(x).copy(), d2)); d = d2
            return out
        st = stream(sd, shapes)
        for (k0, k1, x, d2), s in zip(st, shapes):
            want_shape = () if s is None else ((s,) if isinstance(s, int) else tuple(s))
            if x.shape != want_shape: chk.violation("sample:shape", f"sample({s!r}).shape = {x.shape}", info)
            if x.size and float(x.min()) < 0: chk.violation("sample:negative", f"sampled delay {float(x.min())} < 0", info)
            if not onp.all(onp.isfinite(x)): chk.violation("sample:non-finite", "sampled delay is not finite", info)
            nk, ks = jax.random.split(jnp.asarray(k0), 2)
            if not onp.array_equal(k1, onp.asarray(nk)):
                chk.violation("sample:key-chain", "the returned distribution's rng is not split(rng)[0]", info)
            if d2.dist is not sd.dist: chk.violation("sample:dist-changed", "sample returned a different distribution object", info)
            raw = onp.asarray(sd.dist.sample(sample_shape=want_shape, seed=ks)).reshape(-1)
            if raw.size and float(raw.min()) < 0: feats.append("clipped")
            if len(clip_terms) < 400:
                sub = list(range(min(raw.size, 12)))
                clip_terms.append(lib.listlit([lib.qlit(fr(raw[i])) for i in sub]))
                clip_expect.append(([fr(x.reshape(-1)[i]) for i in sub], info))
            elif not onp.array_equal(x.reshape(-1), onp.maximum(raw, 0)):
                chk.violation("sample:values", "samples are not clip(dist.sample(seed=split(rng)[1]), 0)", info)
        # purity: the same object sampled again gives the same result; replay after reset to the same key
        st2 = stream(sd, shapes)
        if any(not onp.array_equal(a[2], b[2]) or not onp.array_equal(a[1], b[1]) for a, b in zip(st, st2)):
            chk.violation("sample:impure", "sampling the same distribution value twice gave different results", info)
        later = st[-1][3].reset(key)                     # a distribution that has already been sampled, reset to the same rng
        st3 = stream(later, shapes)
        if any(not onp.array_equal(a[2], b[2]) for a, b in zip(st, st3)):
            chk.violation("reset:no-replay", "reset to the same rng does not replay the same delays", info)
        # the rng state after m draws does not depend on the shapes
        if len(shapes) > 1:
            st4 = stream(sd, [None] * len(shapes))
            if not onp.array_equal(st4[-1][1], st[-1][1]):
                chk.violation("sample:key-depends-on-shape", "rng state after m draws depends on the shapes drawn", info)
        chk.traces_impl += 1
        chk.case(("s", kind, repr(p), seed, repr(shapes)), feats, dict(kind=kind, seed=seed, shapes=[repr(s) for s in shapes]))
    model = lib.coq_eval_sharded("C15_clip", HEADER, "run_clip", clip_terms, per=100)
    for mo, (xs, info) in zip(model, clip_expect):
        if [q2(m) for m in mo] != xs:
            chk.violation("sample:values", "samples differ from map clip0 (draw (snd (split rng))) (Dist.static_sample)",
                          dict(info, model=[str(q2(m)) for m in mo], impl=[str(x) for x in xs]))


# ------------------------------------------------------------------------------------------------ E. TrainableDist
def trainable_cases(chk, n):
    import jax, numpy as onp
    from rex import base
    r = chk.rnd
    terms, cases = [], []
    for _ in range(n):
        mn = Fraction(r.randint(0, 32), 64); mx = mn + Fraction(r.randint(1, 64), 64)
        alpha = Fraction(r.randint(0, 16), 16)
        delay = mn + (mx - mn) * Fraction(r.randint(-4, 20), 16)      # also outside [min, max]: get_alpha clips
        terms.append(f"({lib.qlit(mn)}, {lib.qlit(mx)}, {lib.qlit(alpha)}, {lib.qlit(delay)})")
        cases.append((mn, mx, alpha, delay))
    model = lib.coq_eval_sharded("C15_train", HEADER, "run_train", terms, per=200)
    for (mn, mx, alpha, delay), mo in zip(cases, model):
        val, ga, rt = q2(mo[0]), q2(mo[1]), q2(mo[2])
        info = dict(kind="trainable", min=str(mn), max=str(mx), alpha=str(alpha), delay=str(delay))
        td = base.TrainableDist(alpha=float(alpha), min=float(mn), max=float(mx))
        shape = r.choice([None, 3, (2, 2)])
        td2, x = td.sample(shape); x = onp.asarray(x)
        feats = ["trainable"] + (["alpha-clipped"] if not (mn <= delay <= mx) else [])
        ok = td2 is td and x.shape == (() if shape is None else ((shape,) if isinstance(shape, int) else shape)) and \
            all(fr(v) == val for v in x.reshape(-1)) and fr(td.quantile(0.3)) == val and fr(td.quantile(0.99)) == val and fr(td.mean()) == val
        if not ok:
            chk.violation("trainable:value", f"sample/quantile/mean differ from min + alpha*(max-min) = {float(val)}",
                          dict(info, sample=[float(v) for v in x.reshape(-1)], quantile=float(td.quantile(0.99)), mean=float(td.mean())))
        if float(x.min()) < 0 or td.reset(jax.random.PRNGKey(1)) is not td:
            chk.violation("trainable:nonneg-or-reset", "negative sample or reset changed the distribution", info)
        if fr(td.get_alpha(float(delay))) != ga:
            chk.violation("trainable:get_alpha", f"get_alpha({float(delay)}) = {float(td.get_alpha(float(delay)))} != {float(ga)}", info)
        if mn <= delay <= mx:
            c = base.TrainableDist.create(float(delay), float(mn), float(mx))
            got = fr(c.quantile(0.99))
            if abs(got - rt) > Fraction(1, 10 ** 6) or rt != delay:
                chk.violation("trainable:create", f"create(delay).quantile = {float(got)} != delay {float(delay)}", info)
        chk.traces_impl += 1
        chk.case(("t", mn, mx, alpha, delay), feats, info)


# ------------------------------------------------------------------------------------------------ F. default delay
def delay_cases(chk, n):
    import numpy as onp
    from rex.node import BaseNode
    r = chk.rnd
    for i in range(n):
        kind, p = gen_dist(r)
        if kind == "normal" and r.random() < 0.3: p = (0.0, 0.0)
        if kind == "mix": p = (p[0], [abs(m) + 0.3 for m in p[1]], p[2])
        if kind == "normal" and r.random() < 0.3: p = (-abs(p[0]) - 0.5, p[1] / 8)          # negative 99th percentile: must be rejected
        sd = build(kind, p)
        info = dict(kind=kind, params=p)
        try:
            with contextlib.redirect_stdout(io.StringIO()): q99 = float(onp.asarray(sd.quantile(0.99)).reshape(()))
        except RuntimeError: continue
        feats = ["default-delay", kind] + (["negative-q99"] if q99 < 0 else [])
        for site in ("node", "connection"):
            try:
                if site == "node":
                    d = BaseNode(name=f"n{i}", rate=10, delay_dist=sd).delay
                else:
                    a, b = BaseNode(name=f"a{i}", rate=10), BaseNode(name=f"b{i}", rate=10)
                    a.connect(b, delay_dist=sd); d = a.inputs[f"b{i}"].delay
            except AssertionError:
                d = None
            if q99 < 0:
                if d is not None: chk.violation(f"default-delay:{site}:negative-accepted", f"default delay {d} < 0 accepted", info)
            elif d is None or d != q99 or d < 0:
                chk.violation(f"default-delay:{site}:not-q99", f"default delay = {d}, quantile(0.99) = {q99}", info)
        # an explicit delay wins; a negative explicit delay is rejected
        if BaseNode(name=f"e{i}", rate=10, delay_dist=sd, delay=0.125).delay != 0.125 and q99 >= 0:
            chk.violation("default-delay:explicit-ignored", "explicit delay not stored", info)
        chk.traces_impl += 1
        chk.case(("d", kind, repr(p)), feats, info)
    try:
        BaseNode(name="neg", rate=10, delay=-0.5)
        chk.violation("default-delay:negative-explicit-accepted", "BaseNode(delay=-0.5) accepted", {})
    except AssertionError:
        pass
    d0 = BaseNode(name="dflt", rate=10).delay
    if d0 != 0.0: chk.violation("default-delay:no-dist", f"BaseNode without delay_dist has delay {d0}", {})


# ------------------------------------------------------------------------------------------------ G. estimator
def gmm_cases(chk, n):
    import numpy as onp, jax.numpy as jnp, distrax
    from rex.gmm_estimator import GMMEstimator
    r = chk.rnd
    terms, pend = [], []
    for i in range(n):
        rs = onp.random.RandomState(r.randrange(2 ** 31))
        const = (i % 4 == 3)
        if const:
            c = r.randint(1, 64) / 64; data = onp.ones(r.randint(3, 30)) * c
        else:
            k = r.choice([1, 2, 3]); parts = []
            for _ in range(k): parts.append(rs.normal(r.randint(4, 40) / 1000, r.randint(1, 8) / 2000, r.randint(15, 40)))
            data = onp.abs(onp.concatenate(parts))
        ncomp = r.choice([1, 2, 3]); steps = r.choice([3, 6, 10]); perc = r.choice([0.99, 0.9, 0.8, 0.5])
        info = dict(kind="gmm", n=len(data), constant=const, num_components=ncomp, num_steps=steps, percentile=perc,
                    data_head=[float(x) for x in data[:6]])
        est = GMMEstimator(data, verbose=False); est.fit(num_steps=steps, num_components=ncomp, seed=r.randrange(100))
        sd = est.get_dist(perc)
        chk.traces_impl += 1
        if const:
            chk.case(("g", repr(info)), ["gmm", "constant-data"], info)
            if not isinstance(sd.dist, distrax.Deterministic) or abs(float(sd.dist.loc) - c) > 1e-6 or abs(float(sd.quantile(0.99)) - c) > 1e-6:
                chk.violation("gmm:constant-not-deterministic", f"constant data {c} -> {type(sd.dist).__name__}", info)
            continue
        d = sd.dist
        if not isinstance(d, distrax.MixtureSameFamily):
            chk.violation("gmm:not-a-mixture", f"{type(d).__name__} for non-constant data", info); continue
        w = onp.asarray(d.mixture_distribution.probs, dtype=onp.float64); m = onp.asarray(d.components_distribution.loc, dtype=onp.float64)
        s = onp.asarray(d.components_distribution.scale, dtype=onp.float64)
        info.update(weights=w.tolist(), locs=m.tolist(), scales=s.tolist())
        if not (len(w) >= 1 and abs(w.sum() - 1) < 1e-5 and (w > 0).all() and (s > 0).all() and onp.isfinite(m).all() and onp.isfinite(s).all()
                and len(w) <= 2 * ncomp):
            chk.violation("gmm:improper", "weights do not sum to one / non-positive scale / empty or oversized mixture", info); continue
        # model: raw = (exp log_w, component index) from the fitted parameters; compare kept set and weights
        lw, _, mu_n, ls_n = est.adam_get_params(est.final_state_norm)
        ew = onp.exp(onp.asarray(lw, dtype=onp.float32))
        mean, std = float(onp.mean(data)), float(onp.std(data))
        terms.append(f"({lib.qlit(fr(onp.float32(perc)))}, {lib.listlit(['(%s, %s)' % (lib.qlit(fr(x)), lib.zlit(j)) for j, x in enumerate(ew)])})")
        # closeness of any partial sum to the threshold makes the float32 prune decision legitimately ambiguous
        wn = sorted(float(x) / float(ew.sum()) for x in ew); cum = 0.0; amb = False
        for x in wn:
            cum += x; amb |= abs(cum - (1 - perc)) < 1e-5
        pend.append((info, w, m, s, onp.asarray(mu_n, dtype=onp.float64) * std + mean, onp.exp(onp.asarray(ls_n, dtype=onp.float64)) * std, amb))
        chk.case(("g", repr(info)), ["gmm", f"components={len(w)}"] + (["pruned"] if len(w) < 2 * ncomp else []), info)
        # units of the data: an affine change of the data changes the result accordingly
        if i % 3 == 0:
            a, b = r.choice([2.0, 4.0, 0.5]), r.choice([0.0, 0.25, 1.0])
            est2 = GMMEstimator(data * a + b, verbose=False); est2.fit(num_steps=steps, num_components=ncomp, seed=est.seed)
            d2 = est2.get_dist(perc).dist
            m2 = onp.asarray(d2.components_distribution.loc, dtype=onp.float64); s2 = onp.asarray(d2.components_distribution.scale, dtype=onp.float64)
            chk.feat("gmm-affine-units")
            if len(m2) == len(m) and not amb:
                if not (onp.allclose(m2, a * m + b, rtol=5e-3, atol=5e-3 * a * std) and onp.allclose(s2, a * s, rtol=2e-2)):
                    chk.violation("gmm:units", f"data -> {a}*data + {b}: locs {m2.tolist()} vs {(a * m + b).tolist()}, scales {s2.tolist()} vs {(a * s).tolist()}", info)
    if terms:
        model = lib.coq_eval_sharded("C15_gmm", HEADER, "run_gmm", terms, per=100)
        for mo, (info, w, m, s, mu_all, s_all, amb) in zip(model, pend):
            mw = [float(Fraction(x[0], x[1])) for x in mo]; idx = [x[2] for x in mo]
            if amb: chk.feat("gmm-prune-threshold-ambiguous"); continue
            ok = len(mw) == len(w) and onp.allclose(mw, w, atol=2e-5) and onp.allclose(mu_all[idx], m, rtol=1e-4, atol=1e-6) and \
                onp.allclose(s_all[idx], s, rtol=1e-3)
            if not ok:
                chk.violation("gmm:differs-from-model", "get_dist differs from get_dist_comps / rescale (Dist.v)",
                              dict(info, model_weights=mw, model_locs=mu_all[idx].tolist(), model_scales=s_all[idx].tolist()))


def run(chk, replay=None):
    chk.stage_proofs(kernels=["DelayDist"])
    if replay:
        import random
        rp = json.load(open(replay)); chk.seed = rp.get("seed", chk.seed); chk.tier = rp.get("tier", chk.tier)
        chk.rnd = random.Random(chk.seed * 1000003 + 15)     # same stream as the run that stored the case
        chk.notes.append("replay: re-running the seeded generation of the run that produced " + str(rp.get("signature", "?")))
    big = chk.tier != "quick"
    times = {}
    for nm, f, n in (("grid", grid_cases, 1000 if big else 160), ("quantile", quantile_cases, 400 if big else 60),
                     ("sample", sample_cases, 250 if big else 40), ("trainable", trainable_cases, 400 if big else 80),
                     ("default-delay", delay_cases, 120 if big else 24), ("estimator", gmm_cases, 80 if big else 10)):
        t = time.time(); f(chk, n); times[nm] = round(time.time() - t, 1)
    chk.extra["stage_wall_s"] = times
    chk.extra["rule"] = ("seeded generation (VERIF_SEED): 2-3 component normal mixtures (incl. narrow well-separated ones whose float32 CDF "
                         "reaches 1.0 on the grid, and ones with mass below zero), Normal (incl. scale 0, negative loc), Deterministic, "
                         "TrainableDist on dyadic parameters; grid routine on 3-40 point grids with levels placed on grid CDF values, at the "
                         "largest/smallest CDF value, between and outside; keys from 31-bit seeds, shapes None/int/tuple; estimator on "
                         "1-3 cluster and constant data with 3-10 steps. A case is non-trivial when it exercises a listed feature "
                         "(every generated case names its family; boundary features are counted in `features`)")
    chk.trusted += ["jax.random.split / distrax sampling and CDFs (external; Section variables split, draw, Phi, Phinv in the model)",
                    "Python statistics.NormalDist / math.erf in float64 as the independent reference CDF / quantile"]
    chk.notes += ["grid routine compared exactly (integer ranks of the float32 values); clip and TrainableDist compared exactly over Q; "
                  "Normal quantile within 2e-5 relative of loc + scale*Phinv(q); mixture bracket CDF(x-step) <= q < CDF(x) with 2e-5 "
                  "absolute slack on CDF values; estimator weights within 2e-5, locs 1e-4, scales 1e-3 relative of the Q model fed with "
                  "the fitted parameters",
                  "purity / replay clauses hold by construction in the functional model; they are decided by the relational runs on "
                  "the implementation (same value sampled twice, reset-and-replay, key chain vs jax.random.split)"]
